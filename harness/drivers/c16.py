"""C16 - parsing is a pure function of file and arguments; every listed plug-in resolves (DESIGN 4.16).

Proof obligations: coq/theories/Props/C16.v (model: Model/C16_Purity.v, table: Gen/C16_Plugins.v regenerated here).
Correspondence:
  * every corpus job (parser, example file, arguments) is parsed in its own FRESH interpreter (twice, with two
    hash seeds) -> the table that instantiates the model's uninterpreted parse function;
  * histories (interleavings of construct / parse / mutate-result / drop over pairs and triples of jobs) are run
    many-per-interpreter by harness/drivers/c16_worker.py; the observed digests and file digests are compared
    with the model's prediction inside Coq (check_history_detail);
  * generated RINEX 3 headers through wip_rinex3_obs_header against the concrete model of the parser_cache
    cell (check_hdr)."""
from __future__ import annotations

import ast
import hashlib
import itertools
import json
import os
import subprocess
import sys
import time
from concurrent.futures import ThreadPoolExecutor

from harness import core, emit

META = {
    "property_id": "C16",
    "level": "proof",
    "design_ref": "DESIGN.md 4.16",
    "technique": "Coq proof (induction over operation lists) on a world model with an uninterpreted parse function + "
                 "vm_compute correspondence with fresh-interpreter digests; exhaustive regenerated plug-in table",
    "level_text": (
        "Theorems in Coq 8.16 over an executable world model (parser instances, one shared mutable cell, a file system, "
        "operations Construct / Parse / Mutate-result / Drop; what a parser computes is an uninterpreted function): for "
        "every operation list the specification's Parse of a name bound to (parser, file, args) observes parse_fn of "
        "exactly these, independent of other instances, earlier parses and caller mutations; no operation list changes a "
        "file; a concrete model of the parser_cache cell (parse_sys_obs_types) with the quirk refuted by a witness and "
        "proved harmless for headers that name their system; every row of the plug-in table regenerated from the source "
        "tree on every run resolves (forallb, exhaustive).  Tied to the code on every run: the parse function is "
        "instantiated by digests from one fresh interpreter per (parser, file, args); bounded-exhaustive histories over "
        "the corpus are run on midgard and compared with the model's prediction inside Coq (vm_compute)."),
    "level_note": (
        "Trusted: Coq kernel + vm_compute; the hand-written model (validated, not derived); the canonical digest in "
        "harness/drivers/c16_worker.py (sha256, 128 bits); 'fresh interpreter' = a new CPython process. What a parser "
        "computes from the bytes is outside this property (C11-C15). Parsers whose optional dependency or network is "
        "missing are skipped and listed in the evidence."),
}

THEOREMS = [
    "parse_pure", "parse_pure_trace", "parse_history_independent", "file_untouched", "observations_report_unchanged_file",
    "binding_is_local", "cache_harmless_if_self_contained", "obs_types_header_self_contained",
    "c16_parser_cache_refuted", "c16_reparse_refuted", "check_history_zero_means_predicted",
    "plugins_resolve", "plugins_callable", "plugins_listing_complete",
    "resolution_pure", "c16_negative_cache_refuted",
    "write_then_parse_pure", "write_extension_conservative",
]

REQ = "From Verif Require Import Model.C16_Purity."
REQ_RES = "From Verif Require Import Model.C16_Resolve."
REQ_W = "From Verif Require Import Model.C16_Write."
HERE = os.path.dirname(os.path.abspath(__file__))
WORKER = os.path.join(HERE, "c16_worker.py")
EXDIR = os.path.join(core.REPO, "tests", "parsers", "example_files")

# parsers without a test of their own: which example files they are run on (a failing parse is recorded as skipped)
EXTRA_FILES = {
    "rinex212_nav": ["rinex212_GN.rnx"], "rinex2_nav": ["rinex2_gps_nav"], "sp3": ["sp3c"],
    "sinex_site": ["sinex_site_igs", "gnss_sinex_igs"], "sinex_tms": ["sinex_tms_zimm"],
    "gipsyx_gdcov": ["gipsyx_gdcov_stations"], "sinex_tro": ["gnss_sinex_igs"],
    "wip_rinex": ["rinex3_obs"], "wip_rinex_obs": ["rinex3_obs"], "wip_rinex3_obs": ["rinex3_obs"],
    "wip_rinex3_obs_header": ["rinex3_obs", "rinex2_obs", "rinex3_clk"], "wip_rinex2_obs_header": ["rinex2_obs", "rinex3_obs"],
    "wip_rinex3_nav_header": ["rinex3_nav"], "wip_rinex2_nav_header": ["rinex2_nav.19n"],
    "wip_rinex3_clk_header": ["rinex3_clk"],
    "wip_rinex2_nav": ["rinex2_nav.19n"], "wip_rinex2_obs": ["rinex2_obs"], "wip_rinex3_nav": ["rinex3_nav"],
    "wip_rinex3_clk": ["rinex3_clk"], "wip_rinex_nav": ["rinex3_nav"], "wip_rinex_clk": ["rinex3_clk"],
    "rinex_nav": ["rinex2_nav.19n"],
}
# argument variants (the tests use defaults only)
ARG_VARIANTS = [
    ("rinex3_obs", "rinex3_obs", {"sampling_rate": 60}), ("rinex3_obs", "rinex3_obs", {"convert_unit": True}),
    ("sinex_site", "sinex_site", {"header": False}), ("sinex_discontinuities", "sinex_discontinuities", {"header": False}),
    ("terrapos_position", "terrapos_position", {"station": "abcd"}), ("csv_", "csv_", {"encoding": "latin-1"}),
    ("rinex3_obs", "rinex3_obs", {"sampling_rate": 30, "convert_unit": True}),
    ("wip_rinex3_obs", "rinex3_obs", {"sampling_rate": 60}),
]
# thorough only (big file)
ARG_VARIANTS_THOROUGH = [("rinex2_obs", "rinex2_obs", {"convert_unit": True}), ("rinex2_obs", "rinex2_obs", {"sampling_rate": 300})]
HEAVY_BYTES = 300_000


# ----------------------------------------------------------------------------------------------- subprocesses
def worker(mode, job, hashseed="0", timeout=600):
    env = dict(os.environ)
    env.update(PYTHONPATH=core.REPO + os.pathsep + core.VERIF, PYTHONHASHSEED=str(hashseed), PYTHONWARNINGS="ignore",
               PYTHONDONTWRITEBYTECODE="1", MIDGARD_VERIF="1")
    try:
        p = subprocess.run([sys.executable, WORKER, mode, "-"], input=json.dumps(job), env=env, capture_output=True,
                           text=True, timeout=timeout, cwd=core.VERIF)
    except subprocess.TimeoutExpired:
        return {"worker_error": f"timeout after {timeout}s"}
    for line in p.stdout.split("\n"):
        if line.startswith("@@C16@@"):
            return json.loads(line[7:])
    return {"worker_error": (p.stderr or p.stdout)[-1500:]}


def pmap(fn, items, jobs=core.NCPU):
    with ThreadPoolExecutor(max_workers=jobs) as ex:
        return list(ex.map(fn, items))


_INTERN = {}


def zdig(text):
    """digest text -> small non-negative integer, one-to-one (interned in order of first use; only equality matters)"""
    return _INTERN.setdefault(str(text), len(_INTERN))


# ----------------------------------------------------------------------------------------------- plug-in table
_PLUG = {}


def plugin_table():
    if "t" not in _PLUG:
        _PLUG["t"] = worker("plugins", {"example_dir": EXDIR})
    return _PLUG["t"]


def plugin_gen_text(t):
    lines = ["From Coq Require Import ZArith List String Bool.", "Import ListNotations.", "Open Scope Z_scope.", ""]
    if "worker_error" in t:
        t = {k: {"rows": [], "error": "worker failed", "unlisted_files": []} for k in ("parser", "writer", "fieldtype")}
    for kind in ("parser", "writer", "fieldtype"):
        rows = t[kind]["rows"]
        body = ";\n  ".join(
            "(" + ", ".join([emit.s(r["name"]), emit.b(r["file_exists"]), emit.b(r["loaded"]), emit.z(r["kind"]), emit.z(r["call"])]) + ")"
            for r in rows)
        lines.append(f"Definition {kind}_rows : list (string * bool * bool * Z * Z) :=\n  [{body}].")
        lines.append(f"Definition {kind}_listing_ok : bool := {emit.b(t[kind]['error'] is None)}.")
        lines.append("")
    return "\n".join(lines) + "\n"


def regen(ctx):
    t = plugin_table()
    ctx.regen("C16_Plugins", plugin_gen_text(t))
    return t


# ----------------------------------------------------------------------------------------------- corpus
def test_file_map():
    """(parser, example file) pairs the repository's own tests use: get_parser(name[, example_path])"""
    path = os.path.join(core.REPO, "tests", "parsers", "test_parsers.py")
    pairs = []
    try:
        tree = ast.parse(open(path, encoding="utf8").read())
    except (OSError, SyntaxError):
        return pairs
    for node in ast.walk(tree):
        if isinstance(node, ast.Call) and isinstance(node.func, ast.Name) and node.func.id == "get_parser" and node.args:
            if not isinstance(node.args[0], ast.Constant):
                continue
            name = node.args[0].value
            src = None
            extra = list(node.args[1:]) + [k.value for k in node.keywords if k.arg == "example_path"]
            if extra:
                consts = [c.value for c in ast.walk(extra[0]) if isinstance(c, ast.Constant) and isinstance(c.value, str)]
                if consts:
                    src = os.path.basename(consts[-1])
            pairs.append((name, src or name))
    return pairs


def build_jobs(ctx, names):
    """list of job dicts {parser, file(abs), fname, args, argkey}; deterministic order"""
    have = set(os.listdir(EXDIR)) if os.path.isdir(EXDIR) else set()
    seen, jobs = set(), []

    def add(parser, fname, args=None):
        key = (parser, fname, json.dumps(args or {}, sort_keys=True))
        if parser not in names or fname not in have or key in seen:
            return
        seen.add(key)
        jobs.append({"parser": parser, "fname": fname, "file": os.path.join(EXDIR, fname), "args": args or {}, "argkey": key[2]})

    for n in names:
        add(n, n)
    for n, f in test_file_map():
        add(n, f)
    for n in sorted(EXTRA_FILES):
        for f in EXTRA_FILES[n]:
            add(n, f)
    for n, f, a in ARG_VARIANTS + ([] if ctx is None or ctx.quick() else ARG_VARIANTS_THOROUGH):
        add(n, f, a)
    return jobs


def families(table):
    """parser name -> family (prefix before the first digit / underscore group; dispatchers with their targets)"""
    fam = {}
    for r in table["parser"]["rows"]:
        n = r["name"]
        base = n[4:] if n.startswith("wip_") else n
        fam[n] = "rinex" if base.startswith("rinex") else base.split("_")[0]
    return fam


# ----------------------------------------------------------------------------------------------- variant files
RINEX_ESSENTIAL = {"RINEX VERSION / TYPE", "END OF HEADER", "SYS / # / OBS TYPES", "# / TYPES OF OBSERV", "TIME OF FIRST OBS",
                   "PGM / RUN BY / DATE"}
VARIANT_MAX_BYTES = 120_000


def make_variants(text, rng):
    """[(tag, text)] derived from one example file: optional header / comment records switched on and off.
    Format-aware ones first (they are kept when the number of variants is capped)."""
    lines = text.split("\n")
    out = []

    def emit_v(tag, ls):
        t = "\n".join(ls)
        if t != text and t.strip():
            out.append((tag, t))

    first = lines[0] if lines else ""
    hdr_end = next((i for i, l in enumerate(lines[:400]) if l[60:].strip() == "END OF HEADER"), None)
    if first.startswith("%="):                                            # SINEX family (SNX / TMS / TRO)
        for tag, frame in (("datum_ITRF2014", "ITRF2014"), ("datum_IGS14", "IGS14")):
            ls = list(lines)
            if "+FILE/COMMENT" in [l.strip() for l in ls]:
                k = [l.strip() for l in ls].index("+FILE/COMMENT")
                ls[k + 1:k + 1] = [f" LOCAL_GEODETIC_DATUM: {frame}"]
            else:
                ls[1:1] = ["+FILE/COMMENT", f" LOCAL_GEODETIC_DATUM: {frame}", " variant written by the C16 check", "-FILE/COMMENT"]
            emit_v(tag, ls)
        blocks = [l.strip()[1:] for l in lines if l.startswith("+")]
        for b in (["FILE/COMMENT"] if "FILE/COMMENT" in blocks else []) + rng.sample(blocks, min(3, len(blocks))):
            ls, skip = [], False
            for l in lines:
                if l.strip() == "+" + b:
                    skip = True
                if not skip:
                    ls.append(l)
                if l.strip() == "-" + b:
                    skip = False
            emit_v("without_" + b.replace("/", "_"), ls)
    elif hdr_end is not None and "RINEX VERSION / TYPE" in first:             # RINEX
        add = [("verif: optional record added by the C16 check".ljust(60) + "COMMENT")]
        markers = [l[60:].strip() for l in lines[:hdr_end]]
        if "MARKER NUMBER" not in markers:
            add.append("12345M001".ljust(60) + "MARKER NUMBER")
        if "LEAP SECONDS" not in markers:
            add.append("    18".ljust(60) + "LEAP SECONDS")
        emit_v("with_optional_records", lines[:hdr_end] + add + lines[hdr_end:])
        opt = sorted(set(markers) - RINEX_ESSENTIAL - {""})
        for m in rng.sample(opt, min(4, len(opt))):
            emit_v("without_" + m.replace(" ", "_").replace("/", "").replace("#", "N"),
                   [l for i, l in enumerate(lines) if not (i < hdr_end and l[60:].strip() == m)])
    elif hdr_end is not None and "ANTEX VERSION" in first:                  # ANTEX
        emit_v("with_comment", lines[:hdr_end] + ["verif: comment added by the C16 check".ljust(60) + "COMMENT"] + lines[hdr_end:])
        for m in ("COMMENT", "SINEX CODE", "VALID UNTIL"):
            if any(l[60:].strip() == m for l in lines):
                emit_v("without_" + m.replace(" ", "_"), [l for l in lines if l[60:].strip() != m])
    elif first.startswith("#c") or first.startswith("#d"):                  # SP3
        emit_v("comment_text", [("/* VERIF OPTIONAL COMMENT TEXT" if l.startswith("/*") else l) for l in lines])
        emit_v("empty_comments", [("/*" if l.startswith("/*") else l) for l in lines])
        k = max((i for i, l in enumerate(lines[:60]) if l.startswith("/*")), default=None)
        if k is not None:
            emit_v("one_comment_less", lines[:k] + lines[k + 1:])
            emit_v("one_comment_more", lines[:k + 1] + ["/* ONE MORE COMMENT LINE"] + lines[k + 1:])
    # generic text variants
    is_c = lambda l: l[:1] in "#*%!" and bool(l.strip())
    if any(is_c(l) for l in lines[1:]):
        emit_v("without_comment_lines", [l for i, l in enumerate(lines) if i == 0 or not is_c(l)])
        k = next(i for i, l in enumerate(lines) if i > 0 and is_c(l))
        emit_v("comment_line_twice", lines[:k + 1] + [lines[k]] + lines[k + 1:])
    keyed = [i for i, l in enumerate(lines[1:40], 1) if (":" in l[:40] or "=" in l[:40]) and l.strip()]
    if keyed:
        k = rng.choice(keyed)
        emit_v("without_header_line_%d" % (k + 1), lines[:k] + lines[k + 1:])
    body = [i for i, l in enumerate(lines) if l.strip()]
    if len(body) > 3:
        emit_v("without_last_line", lines[:body[-1]] + lines[body[-1] + 1:])
    return out


# ----------------------------------------------------------------------------------------------- generated RINEX 3, hash seeds
def mixed_rinex3(rng):
    """RINEX 3.03 observation file with GPS, BeiDou and Galileo satellites in which GPS and BeiDou both track the code L2X
    (GPS L2C 1227.60 MHz, BeiDou B1 1561.098 MHz) and all three track C1X/L1X: anything that is looked up per observation
    type instead of per (system, type) gives a result that depends on the order in which the systems are visited."""
    hdr = [
        "     3.03           OBSERVATION DATA    M                   RINEX VERSION / TYPE",
        "c16check            verif               20180921 100314 UTC PGM / RUN BY / DATE",
        "GENR                                                        MARKER NAME",
        "12345M001                                                   MARKER NUMBER",
        "verif               verif                                   OBSERVER / AGENCY",
        "                    TRIMBLE NETR9                           REC # / TYPE / VERS",
        "                    TRM55971.00     NONE                    ANT # / TYPE",
        "  2820173.5383   513486.3516  5678940.7064                  APPROX POSITION XYZ",
        "        0.0000        0.0000        0.0000                  ANTENNA: DELTA H/E/N",
        "C    4 C2X L2X C1X L1X                                      SYS / # / OBS TYPES",
        "E    2 C1X L1X                                              SYS / # / OBS TYPES",
        "G    4 C2X L2X C1X L1X                                      SYS / # / OBS TYPES",
        "    30.000                                                  INTERVAL",
        "  2018     2     1     0     0    0.0000000     GPS         TIME OF FIRST OBS",
        "                                                            END OF HEADER",
    ]
    sats = ["C05", "C06", "E11", "G07", "G08", "G21"]
    out = list(hdr)
    for ep in range(4):
        out.append(f"> 2018  2  1  0 {ep // 2:2d} {(ep % 2) * 30:2d}.0000000  0 {len(sats):2d}")
        for s_ in sats:
            n = 2 if s_[0] == "E" else 4
            cells = ""
            for k in range(n):
                v = rng.randrange(20_000_000_000, 40_000_000_000) if k % 2 == 0 else rng.randrange(90_000_000_000, 220_000_000_000)
                cells += f"{v / 1000:14.3f} {rng.randrange(4, 9)}"
            out.append(s_ + cells)
    return "\n".join(out) + "\n"


def diverse_hash_seeds(n_each=2, upto=48):
    """hash seeds under which a set of two one-letter strings iterates in either order (n_each of both kinds)"""
    def order(k):
        env = dict(os.environ, PYTHONHASHSEED=str(k))
        try:
            return subprocess.run([sys.executable, "-S", "-c", "print(''.join(set('GC')))"], env=env, capture_output=True, text=True,
                                  timeout=60).stdout.strip()
        except subprocess.TimeoutExpired:
            return ""
    ks = list(range(1, upto + 1))
    got = {}
    for k, o in zip(ks, pmap(order, ks)):
        if o and len(got.setdefault(o, [])) < n_each:
            got[o].append(k)
    return sorted(k for v in got.values() for k in v)


def nonascii_variant(text):
    """the same file with one non-ASCII character: in the first comment line, else in the first word of the last line"""
    lines = text.split("\n")
    for i, l in enumerate(lines[1:], 1):
        if l[:1] in "#*%!" and l.strip():
            lines[i] = l.rstrip() + " B\u00f8hm \u00d8"
            return "\n".join(lines)
    body = [i for i, l in enumerate(lines) if l.strip()]
    if body:
        i = body[-1]
        import re
        m = re.search(r"[A-Za-z]{2,}", lines[i])
        if m:
            lines[i] = lines[i][:m.start()] + "\u00d8" + lines[i][m.start() + 1:]
            return "\n".join(lines)
    return None


# ----------------------------------------------------------------------------------------------- histories
A_SEQ = ["cA", "pA", "mA"]
B_SEQ = ["cB", "pB"]


def interleavings():
    """all merges of A_SEQ and B_SEQ keeping each one's order (10)"""
    out = []
    n = len(A_SEQ) + len(B_SEQ)
    for pos in itertools.combinations(range(n), len(A_SEQ)):
        seq, ia, ib = [], 0, 0
        for k in range(n):
            if k in pos:
                seq.append(A_SEQ[ia]); ia += 1
            else:
                seq.append(B_SEQ[ib]); ib += 1
        out.append(seq)
    return out


INTERLEAVINGS = interleavings()


def pair_history(ja, jb, il, base):
    """ops for one interleaving over jobs ja, jb (indices), then A once more through parsers.parse_file, then drops.
    instance names base, base+1, base+2"""
    ops = []
    for s in INTERLEAVINGS[il]:
        if s == "cA":
            ops.append(("construct", base, ja))
        elif s == "cB":
            ops.append(("construct", base + 1, jb))
        elif s == "pA":
            ops.append(("parse", base, None))
        elif s == "pB":
            ops.append(("parse", base + 1, None))
        elif s == "mA":
            ops.append(("mutate", base, None))
    ops += [("parse_file", base + 2, ja), ("mutate", base + 2, None), ("drop", base, None), ("drop", base + 1, None),
            ("drop", base + 2, None)]
    return ops


def triple_history(ja, jb, jc, base):
    ops = []
    for k, j in enumerate((ja, jb, jc)):
        ops += [("parse_file", base + k, j), ("mutate", base + k, None)]
    ops += [("parse_file", base + 3, ja), ("drop", base, None), ("parse_file", base + 4, jb)]
    ops += [("drop", base + k, None) for k in (1, 2, 3, 4)]
    return ops


def cache_history(jc, jplain, jother, base):
    """jc = job with use_cache=True, jplain = the same without, jother = another cached job parsed in between (or None)"""
    ops = [("parse_file", base, jc), ("mutate", base, None)]
    if jother is not None:
        ops += [("parse_file", base + 4, jother), ("mutate", base + 4, None)]
    ops += [("parse_file", base + 1, jc), ("mutate", base + 1, None), ("parse_file", base + 2, jplain), ("mutate", base + 2, None),
            ("parse_file", base + 3, jc)]
    ops += [("drop", base + k, None) for k in range(5)]
    return ops


def encoding_history(jx, jy, base):
    """the same parser and file with two different `encoding` arguments: X, Y, X again"""
    ops = [("parse_file", base, jx), ("mutate", base, None), ("parse_file", base + 1, jy), ("mutate", base + 1, None),
           ("parse_file", base + 2, jx)]
    return ops + [("drop", base + k, None) for k in range(3)]


def reparse_history(ja, base):
    return [("construct", base, ja), ("parse", base, None), ("mutate", base, None), ("parse", base, None), ("drop", base, None)]


def ops_to_worker(ops, jobs):
    out = []
    for kind, i, j in ops:
        o = {"op": kind, "i": i}
        if j is not None:
            o.update(parser=jobs[j]["parser"], file=jobs[j]["file"], args=jobs[j]["args"])
        out.append(o)
    return out


def ops_to_coq(ops, jobs, pidx, fidx, aidx):
    out = []
    for kind, i, j in ops:
        if kind in ("construct", "parse_file"):
            jb = jobs[j]
            out.append(f"zC {emit.z(i)} {emit.z(pidx[jb['parser']])} {emit.z(fidx[jb['file']])} {emit.z(aidx[jb['argkey']])}")
            if kind == "parse_file":
                out.append(f"zP {emit.z(i)}")
        elif kind == "parse":
            out.append(f"zP {emit.z(i)}")
        elif kind == "mutate":
            out.append(f"zM {emit.z(i)}")
        elif kind == "drop":
            out.append(f"zD {emit.z(i)}")
    return emit.lst(out)


# ----------------------------------------------------------------------------------------------- generated headers
SYSTEMS = "GRECJ"
TYPES = ["C1C", "L1C", "D1C", "S1C", "C2W", "L2W", "C5X", "L5X", "C7X", "L7X", "C1P", "L1P", "S2W"]


def header_text(lines):
    """lines: list of (system char or None, [type indices]) -> RINEX 3 header with only the OBS TYPES records"""
    out = ["     3.03           OBSERVATION DATA    M                   RINEX VERSION / TYPE"]
    for sysc, ts in lines:
        body = (sysc or " ") + "  " + f"{len(ts):3d}"
        for t in ts:
            body += " " + TYPES[t]
        out.append(body.ljust(60) + "SYS / # / OBS TYPES")
    out.append(" " * 60 + "END OF HEADER")
    return "\n".join(out) + "\n"


def gen_header_file(rng, force_leading_blank=None):
    n = rng.choice([1, 1, 2, 2, 3, 4])
    lines = []
    for k in range(n):
        blank = rng.random() < 0.35
        if k == 0 and force_leading_blank is not None:
            blank = force_leading_blank
        elif k == 0:
            blank = rng.random() < 0.3
        ts = [rng.randrange(len(TYPES)) for _ in range(rng.choice([0, 1, 2, 3, 13]))]
        lines.append((None if blank else rng.choice(SYSTEMS), ts))
    return lines


def hfile_term(lines):
    return emit.lst(emit.pair(emit.opt(None if s is None else emit.z(ord(s))), emit.lst(emit.z(t) for t in ts)) for s, ts in lines)


def hres_term(o):
    if "ok" in o:
        try:
            return "(HOk " + emit.lst(emit.pair(emit.z(ord(k)), emit.lst(emit.z(TYPES.index(t)) for t in v)) for k, v in o["ok"]) + ")"
        except (ValueError, TypeError):
            return "HOther"
    return "HIndexError" if o.get("exc") == "IndexError" else "HOther"


# ----------------------------------------------------------------------------------------------- the run
def run(ctx):
    table = regen(ctx)
    ok = ctx.prove(THEOREMS)
    rng = ctx.rng
    quick = ctx.quick()

    if "worker_error" in table:
        ctx.violation({"what": "plug-in tables could not be extracted", "error": table["worker_error"]},
                      what="plug-in table extraction failed: " + table["worker_error"][-200:], found=True)
        return ctx.finish(level="proof", rule="plug-in table extraction failed")

    # ---------------------------------------------------------------- A. plug-in rows (same facts the theorem is about)
    for kind in ("parser", "writer", "fieldtype"):
        t = table[kind]
        ctx.count(f"plugins:{kind}", len(t["rows"]))
        if t["error"] is not None:
            ctx.violation({"kind": "plugin_listing", "package": t["package"], "error": t["error"],
                           "how": f"import {t['package']} as m; m.names()"},
                          what=f"{t['package']}.names() raises {t['error'][:160]}")
        for r in t["rows"]:
            ctx.case(("plugin", kind, r["name"]), nontrivial=True)
            if not (r["file_exists"] and r["loaded"] and r["kind"] in (1, 2)):
                ctx.violation({"kind": "plugin_row", "package": t["package"], "row": r,
                               "how": f"from midgard.dev import plugins; plugins.get({t['package']!r}, {r['name']!r}).function"},
                              what=f"listed {kind} plug-in {r['name']!r} does not resolve / is not of the advertised kind: {r['detail'][:160]}")
            elif r["call"] != 1:
                ctx.finding("c16_rinex_nav_signature" if r["name"] == "rinex_nav" else f"c16_uncallable_{r['name']}",
                            f"parsers.parse_file({r['name']!r}, path) raises TypeError: the registered function does not accept 'encoding'",
                            {"kind": "plugin_call", "row": r,
                             "how": f"from midgard import parsers; parsers.parse_file({r['name']!r}, '{EXDIR}/rinex2_nav.19n')"})
    unlisted = {k: table[k]["unlisted_files"] for k in table if table[k]["unlisted_files"]}

    # ---------------------------------------------------------------- B. corpus and fresh-interpreter digests
    names = [r["name"] for r in table["parser"]["rows"]]
    jobs = build_jobs(ctx, names)
    fam = families(table)

    fresh_parts = {}                 # (parser, file, argkey) -> parts of the seed-0 fresh interpreter (per-field digests of data)

    def fresh(args):
        j, seed = args
        r = worker("fresh", {"parser": j["parser"], "file": j["file"], "args": j["args"]}, hashseed=seed, timeout=300)
        if str(seed) == "0" and isinstance(r, dict) and "parts" in r:
            fresh_parts[(j["parser"], j["file"], json.dumps(j["args"], sort_keys=True))] = r["parts"]
        return r

    t0 = time.time()
    res0 = pmap(fresh, [(j, "0") for j in jobs])
    second = set(range(len(jobs))) if not quick else set(rng.sample(range(len(jobs)), min(4, len(jobs))))
    res1_part = pmap(fresh, [(jobs[k], "20260930") for k in sorted(second)])
    res1 = list(res0)
    for k, r in zip(sorted(second), res1_part):
        res1[k] = r
    ctx.log(f"fresh interpreters: {len(jobs) + len(second)} in {time.time() - t0:.0f}s")
    skipped, corpus = [], []
    for j, a, b_ in zip(jobs, res0, res1):
        label = f"{j['parser']}({j['fname']}{'' if not j['args'] else ', ' + j['argkey']})"
        if "worker_error" in a or "worker_error" in b_:
            skipped.append({"job": label, "reason": "worker: " + (a.get("worker_error") or b_.get("worker_error"))[-200:]})
            continue
        if a.get("digest") != b_.get("digest"):
            ctx.violation({"kind": "fresh_nondeterministic", "job": label, "digest_seed0": a.get("parts") or a.get("exc"),
                           "digest_seed1": b_.get("parts") or b_.get("exc"),
                           "how": f"PYTHONHASHSEED=0 / 20260930 {sys.executable} {WORKER} fresh '{json.dumps(dict(parser=j['parser'], file=j['file'], args=j['args']))}'"},
                          what=f"two fresh interpreters (different hash seeds) disagree on {label}")
            continue
        if a["file_before"] != a["file_after"] or b_["file_before"] != b_["file_after"]:
            ctx.violation({"kind": "file_modified", "job": label, "before": a["file_before"], "after": a["file_after"]},
                          what=f"parsing {label} changed the input file")
            continue
        if "exc" in a:
            own = j["fname"] == j["parser"] and not j["args"]
            missing_dep = any(s in a["exc"] for s in ("ImportError", "ModuleNotFoundError", "URLError", "ConnectionError", "gaierror"))
            skipped.append({"job": label, "reason": a["exc"][:200], "own_example_file": own, "missing_dependency": missing_dep})
            if not missing_dep:
                ctx.__dict__.setdefault("_c16_error_jobs", []).append(
                    {"reason": a["exc"][:200], "_digest": a["digest"], "_content": a["file_before"],
                     "_job": {"parser": j["parser"], "fname": j["fname"], "file": j["file"], "args": j["args"], "argkey": j["argkey"]}})
            continue
        j = dict(j, digest=a["digest"], content=a["file_before"], opaque=a.get("opaque", {}), empty=(a["parts"]["data"].startswith("D[0]")))
        corpus.append(j)
    ctx.log(f"corpus: {len(corpus)} jobs parse ({len(skipped)} skipped)")
    for s in skipped:
        ctx.count("skipped:" + s["reason"].split(":")[0])
    if len(corpus) < 2:
        ctx.violation({"kind": "empty_corpus", "skipped": skipped}, what="no parser parses its example file", found=False)
        return ctx.finish(level="proof", rule="empty corpus")

    # ---- variant files: optional header / comment records switched on and off (reference = fresh interpreter per variant)
    n0 = len(corpus)
    vdir = os.path.join(ctx.work, "variants")
    os.makedirs(vdir, exist_ok=True)
    vjobs = []
    per_job = 2 if quick else 6
    done_pf = set()
    for k, j in enumerate(corpus):
        if j["args"] or (j["parser"], j["fname"]) in done_pf or os.path.getsize(j["file"]) > VARIANT_MAX_BYTES:
            continue
        done_pf.add((j["parser"], j["fname"]))
        try:
            text = open(j["file"], encoding="utf8", errors="surrogateescape").read()
        except OSError:
            continue
        # the same derived files for every parser that reads this example (deterministic per file)
        vr = __import__("random").Random(f"{ctx.seed}:{j['fname']}")
        cand = make_variants(text, vr)
        if quick:
            # the format-aware "switched on" variants always; the rest: a seeded choice, generic formats for a third of the parsers
            head = [c for c in cand if c[0].startswith(("datum_", "with_"))][:2]
            rest = [c for c in cand if c not in head]
            vr.shuffle(rest)
            aware = bool(head) or any(c[0].startswith(("comment_text", "one_comment")) for c in cand)
            cand = (head[:1] + rest[:1]) if aware else (rest[:1] if vr.random() < 0.12 else [])
        for tag, vt in cand:
            vname = f"{j['fname']}__{tag}"
            vpath = os.path.join(vdir, vname)
            if not os.path.exists(vpath):
                with open(vpath, "w", encoding="utf8", errors="surrogateescape") as f:
                    f.write(vt)
            vjobs.append({"parser": j["parser"], "fname": vname, "file": vpath, "args": {}, "argkey": "{}", "variant_of": k, "tag": tag})
    vres = pmap(fresh, [(v, "0") for v in vjobs])
    kept = {}
    for v, a in zip(vjobs, vres):
        if "worker_error" in a or "exc" in a or a.get("file_before") != a.get("file_after"):
            ctx.count("variant:rejected(does not parse)")
            continue
        kept.setdefault(v["variant_of"], []).append(dict(v, digest=a["digest"], content=a["file_before"], opaque=a.get("opaque", {}),
                                                         empty=a["parts"]["data"].startswith("D[0]"), parts=a["parts"]))
    for k in sorted(kept):
        vs_ = kept[k]
        # format-aware "switched on" variants first, then a seeded choice of the others
        head = [v for v in vs_ if v["tag"].startswith(("datum_", "with_"))][:2]
        rest = [v for v in vs_ if v not in head]
        rng.shuffle(rest)
        for v in (head + rest)[:max(per_job, len(head))]:
            ctx.count("variant:" + v["tag"].split("_")[0])
            corpus.append(v)
    # a reference must be reproducible: second fresh interpreter (other hash seed, later wall-clock time) for every kept variant
    recheck = set(range(n0, len(corpus))) if not quick else set(rng.sample(range(n0, len(corpus)), min(4, len(corpus) - n0)))
    again_part = pmap(fresh, [(corpus[k], "20260930") for k in sorted(recheck)])
    again = [{"digest": v["digest"]} for v in corpus[n0:]]
    for k, r in zip(sorted(recheck), again_part):
        again[k - n0] = r
    stable = []
    for v, b_ in zip(corpus[n0:], again):
        if b_.get("digest") == v["digest"]:
            stable.append(v)
            continue
        label = f"{v['parser']}({v['fname']})"
        rep = {"kind": "fresh_nondeterministic", "job": label, "file": v["file"], "first": v.get("parts"), "second": b_.get("parts") or b_.get("exc"),
               "how": f"{sys.executable} {WORKER} fresh '{json.dumps(dict(parser=v['parser'], file=v['file'], args={}))}'  twice"}
        try:
            vtext = open(v["file"], encoding="utf8", errors="replace").read()
        except OSError:
            vtext = ""
        if v["parser"] == "antex" and vtext.count("START OF ANTENNA") > vtext.count("VALID UNTIL"):
            ctx.count("quirk:antex_valid_until_now")
            ctx.finding("c16_antex_valid_until_now",
                        "antex: a satellite antenna section without 'VALID UNTIL' gets valid_until = datetime.now(): two parses of the same file never agree",
                        rep)
        else:
            ctx.violation(rep, what=f"two fresh interpreters disagree on {label}")
    corpus[n0:] = stable
    ctx.log(f"variant files: {len(vjobs)} derived, {len(corpus) - n0} kept ({time.time() - t0:.0f}s since start of fresh phase)")

    # ---- parse_file(..., use_cache=True): part of the argument space (a no-op today); reference = fresh interpreter
    n1 = len(corpus)
    cand_c = [k for k in range(n0) if not corpus[k]["args"] and os.path.getsize(corpus[k]["file"]) <= HEAVY_BYTES and not corpus[k]["empty"]]
    if quick:
        cand_c = sorted(rng.sample(cand_c, min(10, len(cand_c))))
    cjobs = [dict(parser=corpus[k]["parser"], fname=corpus[k]["fname"], file=corpus[k]["file"], args={"use_cache": True},
                  argkey=json.dumps({"use_cache": True}), cached_of=k) for k in cand_c]
    for c, a in zip(cjobs, pmap(fresh, [(c, "0") for c in cjobs])):
        if "worker_error" in a or "exc" in a:
            skipped.append({"job": f"{c['parser']}({c['fname']}, use_cache=True)", "reason": (a.get("exc") or a.get("worker_error"))[:200]})
            continue
        corpus.append(dict(c, digest=a["digest"], content=a["file_before"], opaque=a.get("opaque", {}), empty=False))
    ctx.count("jobs:use_cache", len(corpus) - n1)

    def add_jobs(cands, flag):
        """fresh interpreter for each candidate job; the ones that parse join the corpus (index >= n0) carrying `flag`"""
        added = []
        for c, a in zip(cands, pmap(fresh, [(c, "0") for c in cands])):
            if "worker_error" in a or "exc" in a or a.get("file_before") != a.get("file_after"):
                ctx.count(f"{flag}:rejected(does not parse)")
                continue
            corpus.append(dict(c, digest=a["digest"], content=a["file_before"], opaque=a.get("opaque", {}), empty=False, **{flag: True}))
            added.append(len(corpus) - 1)
        return added

    def mkjob(parser, fname, path, args):
        return dict(parser=parser, fname=fname, file=path, args=args, argkey=json.dumps(args, sort_keys=True))

    # ---- a generated mixed GPS + BeiDou + Galileo RINEX 3 file (shared code on different frequencies), with the parser options
    gen_idx = []
    if "rinex3_obs" in names:
        gpath = os.path.join(vdir, "rinex3_obs__generated_mixed_GCE")
        with open(gpath, "w") as f:
            f.write(mixed_rinex3(__import__("random").Random(f"{ctx.seed}:mixed")))
        gen_idx = add_jobs([mkjob("rinex3_obs", "rinex3_obs__generated_mixed_GCE", gpath, a)
                            for a in ({}, {"convert_unit": True}, {"sampling_rate": 60, "convert_unit": True})], "generated")

    # ---- several hash seeds for the jobs with parser options: the reference must not depend on PYTHONHASHSEED
    div = diverse_hash_seeds(2)
    ctx.count("hash_seeds:diverse", len(div))
    seed_jobs = [(k, sd) for k in gen_idx for sd in div + [20260930]]
    opt_jobs = [k for k in range(n0) if corpus[k]["args"]]
    seed_jobs += [(k, sd) for k in opt_jobs for sd in (div[:2] if quick else div + [20260930])]
    for (k, sd), r in zip(seed_jobs, pmap(fresh, [(corpus[k], str(sd)) for k, sd in seed_jobs])):
        ctx.case(("SEED", corpus[k]["parser"], corpus[k]["fname"], corpus[k]["argkey"], sd), nontrivial=True)
        if r.get("digest") != corpus[k]["digest"]:
            j = corpus[k]
            label = f"{j['parser']}({j['fname']}, {j['argkey']})"
            ctx.violation({"kind": "fresh_nondeterministic", "job": label, "file": j["file"], "args": j["args"],
                           "hash_seed_0": j["digest"], f"hash_seed_{sd}": r.get("parts") or r.get("exc") or r,
                           "how": f"PYTHONHASHSEED=0 / PYTHONHASHSEED={sd}  {sys.executable} {WORKER} fresh "
                                  f"'{json.dumps(dict(parser=j['parser'], file=j['file'], args=j['args']))}'"},
                          what=f"two fresh interpreters that differ only in PYTHONHASHSEED (0 / {sd}) disagree on {label}")

    # ---- the `encoding` argument varied for one parser and file (all LineParser-family parsers; thorough: every parser)
    base_of = {r["name"]: r.get("base", "") for r in table["parser"]["rows"]}
    enc_groups = []
    firsts = {}
    for k in range(n0):
        j = corpus[k]
        if not j["args"] and j["parser"] not in firsts and os.path.getsize(j["file"]) <= VARIANT_MAX_BYTES and not j["empty"]:
            firsts[j["parser"]] = k
    others = sorted(p_ for p_ in firsts if base_of.get(p_) != "LineParser")
    chosen = sorted(p_ for p_ in firsts if base_of.get(p_) == "LineParser") + (others if not quick else rng.sample(others, min(2, len(others))))
    with_na = set(chosen) if not quick else set(rng.sample(chosen, min(3, len(chosen))))
    cands, owner_ = [], []
    for p_ in chosen:
        k = firsts[p_]
        j = corpus[k]
        files_ = [(j["fname"], j["file"], k)]
        if p_ in with_na:
            try:
                na = nonascii_variant(open(j["file"], encoding="utf8", errors="surrogateescape").read())
            except OSError:
                na = None
            if na is not None:
                npath = os.path.join(vdir, j["fname"] + "__nonascii")
                with open(npath, "w", encoding="utf8", errors="surrogateescape") as f:
                    f.write(na)
                files_.append((j["fname"] + "__nonascii", npath, None))
        for fname_, path_, kdef in files_:
            gid = len(enc_groups)
            enc_groups.append([kdef] if kdef is not None else [])
            for a in ([] if kdef is not None else [{}]) + [{"encoding": "latin-1"}, {"encoding": "utf-8"}]:
                cands.append(mkjob(p_, fname_, path_, a))
                owner_.append(gid)
    before = len(corpus)
    added = add_jobs(cands, "enc")
    # map the added corpus indices back to their groups (add_jobs keeps the order of the candidates that parse)
    ai = iter(added)
    parsed_flags = [any(corpus[x]["fname"] == c["fname"] and corpus[x]["argkey"] == c["argkey"] and corpus[x]["parser"] == c["parser"]
                        for x in added) for c in cands]
    for c, gid, ok_ in zip(cands, owner_, parsed_flags):
        if ok_:
            enc_groups[gid].append(next(ai))
    ctx.count("jobs:encoding", len(corpus) - before)
    ctx.log(f"generated / option / encoding jobs: {len(corpus) - n1} more references, {len(seed_jobs)} extra hash-seed runs")

    pidx = {n: k for k, n in enumerate(sorted({j["parser"] for j in corpus}))}
    fidx = {f: k for k, f in enumerate(sorted({j["file"] for j in corpus}))}
    aidx = {a: k for k, a in enumerate(sorted({j["argkey"] for j in corpus}))}
    content_of = {}
    for j in corpus:
        content_of[j["file"]] = j["content"]
    _INTERN.clear()
    table_term = emit.lst(f"zt {emit.z(pidx[j['parser']])} {emit.z(zdig(j['content']))} {emit.z(aidx[j['argkey']])} {emit.z(zdig(j['digest']))}"
                          for j in corpus)
    files_term = emit.lst(emit.pair(emit.z(fidx[f]), emit.z(zdig(c))) for f, c in sorted(content_of.items()))

    # The three correspondence parts first do all their interpreter work, then hand their Coq terms to ONE coq_cases call
    # (one wait for coqc slots instead of three), then report.
    reparse_diff = set()

    # ---------------------------------------------------------------- C. histories
    def phase_histories():
        n = n0                                  # the general pair / triple loops run over the example-file jobs
        heavy = {k for k, j in enumerate(corpus) if os.path.getsize(j["file"]) > HEAVY_BYTES}
        hist = []          # (label dict, ops)
        base = [0]

        def push(label, mk):
            ops = mk(base[0])
            base[0] += 8
            hist.append((label, ops))

        same_family = lambda a, b_: fam[corpus[a]["parser"]] == fam[corpus[b_]["parser"]]
        NI = len(INTERLEAVINGS)
        for a in range(n):
            push({"shape": "reparse", "A": a}, lambda b0, a=a: reparse_history(a, b0))
            for b_ in range(n):
                hv_ = a in heavy or b_ in heavy
                same_parser = corpus[a]["parser"] == corpus[b_]["parser"]
                if quick:
                    if same_parser:
                        k = 1 if hv_ else 2                                   # incl. A = A: parse, mutate the result, parse again
                    elif same_family(a, b_):
                        k = 1 if (not hv_ and rng.random() < 0.5) else 0
                    else:
                        k = 1 if rng.random() < (0.03 if hv_ else 0.12) else 0  # seeded sample of the cross-family pairs
                elif same_family(a, b_):
                    k = 3 if hv_ else NI
                else:
                    k = 1 if hv_ else 3
                for il in rng.sample(range(NI), k):
                    push({"shape": "pair", "A": a, "B": b_, "interleaving": INTERLEAVINGS[il]},
                         lambda b0, a=a, b_=b_, il=il: pair_history(a, b_, il, b0))
        # per parser: its example files and their variants - every ordered pair X -> Y -> X (with / without the optional records)
        groups = {}
        for k, j in enumerate(corpus):
            if "cached_of" not in j and "enc" not in j:
                groups.setdefault(j["parser"], []).append(k)
        for pname, members in sorted(groups.items()):
            if not any(k >= n0 for k in members):
                continue
            for a in members:
                for b_ in members:
                    if a == b_ or (a < n0 and b_ < n0) or (quick and (a in heavy or b_ in heavy)):
                        continue
                    for il in rng.sample(range(NI), 1 if quick else 4):
                        push({"shape": "variant_pair", "A": a, "B": b_, "interleaving": INTERLEAVINGS[il]},
                             lambda b0, a=a, b_=b_, il=il: pair_history(a, b_, il, b0))
        # use_cache=True: parse, mutate every nested value of the result in place, parse again; mixed with the uncached call
        cached = [k for k in range(len(corpus)) if "cached_of" in corpus[k]]
        for c in cached:
            push({"shape": "use_cache", "A": c}, lambda b0, c=c: cache_history(c, corpus[c]["cached_of"], None, b0))
        for _ in range(min(len(cached), 6) if quick else 4 * len(cached)):
            c, d = rng.choice(cached), rng.choice(cached)
            push({"shape": "use_cache", "A": c, "B": d}, lambda b0, c=c, d=d: cache_history(c, corpus[c]["cached_of"], d, b0))
        # the encoding argument varied between the parses of one parser and file: X, Y, X for every ordered pair
        for grp in enc_groups:
            for x in grp:
                for y in grp:
                    if x != y:
                        push({"shape": "encoding", "A": x, "B": y}, lambda b0, x=x, y=y: encoding_history(x, y, b0))
        light = [k for k in range(n) if k not in heavy]
        by_fam = {}
        for k in light:
            by_fam.setdefault(fam[corpus[k]["parser"]], []).append(k)
        for f_, members in sorted(by_fam.items()):
            trip = list(itertools.product(members, repeat=3))
            cap = 20 if quick else 3000
            if len(trip) > cap:
                trip = rng.sample(trip, cap)
            for a, b_, c in trip:
                push({"shape": "triple", "A": a, "B": b_, "C": c}, lambda b0, a=a, b_=b_, c=c: triple_history(a, b_, c, b0))
        for _ in range(40 if quick else 5000):
            a, b_, c = rng.choice(light), rng.choice(light), rng.choice(light)
            push({"shape": "triple", "A": a, "B": b_, "C": c}, lambda b0, a=a, b_=b_, c=c: triple_history(a, b_, c, b0))
        rng.shuffle(hist)
        nb = core.NCPU * (1 if quick else 8)
        batches = [hist[k::nb] for k in range(nb)]
        batches = [b_ for b_ in batches if b_]
        for label, _ in hist:
            ctx.count("history:" + label["shape"])
        ctx.log(f"histories: {len(hist)} in {len(batches)} interpreters")

        def run_batch(batch):
            ops = [o for _, h in batch for o in ops_to_worker(h, corpus)]
            return worker("history", {"ops": ops}, timeout=3000)

        t0 = time.time()
        results = pmap(run_batch, batches)
        ctx.log(f"histories run in {time.time() - t0:.0f}s")

        def label_text(label):
            d = dict(label)
            for k in ("A", "B", "C"):
                if k in d:
                    j = corpus[d[k]]
                    d[k] = f"{j['parser']}({j['fname']}{'' if not j['args'] else ', ' + j['argkey']})"
            return d

        nav_hits = []
        shard_terms, shard_meta = [], []
        for batch, res in zip(batches, results):
            if isinstance(res, dict):
                ctx.violation({"kind": "history_worker_failed", "error": res.get("worker_error"),
                               "histories": [label_text(l) for l, _ in batch][:5]},
                              what="a history interpreter crashed: " + str(res.get("worker_error"))[-200:], found=False)
                continue
            # observation k of the batch belongs to history owner[k]
            owner = []
            for hi, (_, h) in enumerate(batch):
                owner += [hi] * sum(1 for o in h if o[0] in ("parse", "parse_file"))
            if len(owner) != len(res):
                ctx.violation({"kind": "observation_count", "expected": len(owner), "got": len(res)}, what="observation count differs", found=False)
                continue
            cases = []
            k = 0
            for hi, (label, h) in enumerate(batch):
                nobs = sum(1 for o in h if o[0] in ("parse", "parse_file"))
                obs_t = emit.lst(f"zo {emit.z(o['i'])} {emit.z(zdig(o['digest']))} {emit.z(zdig(o['file_before']))} {emit.z(zdig(o['file_after']))}"
                                 for o in res[k:k + nobs])
                cases.append(f"zh {ops_to_coq(h, corpus, pidx, fidx, aidx)} {obs_t}")
                k += nobs
                ctx.case(("H", json.dumps(label_text(label), sort_keys=True)), nontrivial=True,
                         sample=label_text(label) if len(ctx.samples) < 4 else None)
            shard_terms.append("let t := " + table_term + " in\nlet files := " + files_term + " in\n"
                               "List.concat (List.map (fun c => check_history_detail (t, files, fst c, snd c))\n" + emit.lst(cases) + ")")
            shard_meta.append((batch, res, owner))
        t0 = time.time()
        per = 2 if quick else 1                      # batches per Coq file (fewer coqc start-ups)
        merged = ["List.app (" + ") (List.app (".join(shard_terms[k:k + per]) + ") []" + ")" * (len(shard_terms[k:k + per]) - 1)
                  for k in range(0, len(shard_terms), per)]
        mvs = yield merged
        vs = []
        for k, mv in zip(range(0, len(shard_terms), per), mvs):
            lens = [len(m[1]) for m in shard_meta[k:k + per]]
            if mv is None or len(mv) != sum(lens):
                vs += [None] * len(lens)
                continue
            pos = 0
            for ln in lens:
                vs.append(mv[pos:pos + ln])
                pos += ln
            reparse_diff.clear()
        unexplained = []
        for (batch, res, owner), v in zip(shard_meta, vs):
            if v is None or len(v) != len(res):
                ctx.violation({"broken": "history shard did not evaluate in Coq", "errors": [e[1][-800:] for e in ctx.last_coq_errors[:1]]},
                              what="correspondence (model evaluation) failed", found=False)
                continue
            for k, code in enumerate(v):
                if code == 0:
                    continue
                label, h = batch[owner[k]]
                if code == 3:
                    reparse_diff.add(res[k]["parser"])
                    continue
                jx_ = next((j for kind, i, j in h if i == res[k]["i"] and j is not None), None)
                if code == 1 and jx_ is not None and nav_crossover_class(corpus[jx_], res[k], fresh_parts):
                    nav_hits.append((label, h, res[k], jx_))
                    continue
                unexplained.append((code, label, h, res[k], batch, owner[k]))
        if nav_hits:
            label, h, ob, jx_ = nav_hits[0]
            ctx.count("quirk:nav_week_crossover_inplace", len(nav_hits))
            ctx.finding("c16_nav_week_crossover_inplace",
                        "rinex2_nav / rinex212_nav / rinex3_nav: the week-crossover step changes the cached gps_ws arrays of the Time object in place, so every further parse of the same file in one process shifts toe / transmission_time by another week",
                        {"kind": "history", "history": label_text(label), "ops": ops_to_worker(h, corpus),
                         "minimal_history": f"parsers.parse_file({corpus[jx_]['parser']!r}, {corpus[jx_]['file']!r}) twice in one interpreter: data['toe'].gps_ws.week differs",
                         "observed_fields": {k_: v_ for k_, v_ in (ob.get("parts", {}).get("data_keys") or {}).items() if k_ in ("toe", "transmission_time")},
                         "jobs": sorted({f"{corpus[x[3]]['parser']}({corpus[x[3]]['fname']})" for x in nav_hits})})

        # isolate: re-run the single history in its own interpreter; keep the smaller failing input when it reproduces
        fresh_of = {(j["parser"], j["file"], j["argkey"]): j for j in corpus}
        for code, label, h, ob, batch, hpos in unexplained[:4]:
            alone = worker("history", {"ops": ops_to_worker(h, corpus)}, timeout=600)
            lone_bad = []
            if isinstance(alone, list):
                for o in alone:
                    cand = [j for j in corpus if j["parser"] == o["parser"] and j["file"] == o["file"]]
                    if not any(c["digest"] == o["digest"] for c in cand) or o["file_before"] != o["file_after"]:
                        lone_bad.append({k: o.get(k) for k in ("i", "parser", "file", "digest", "exc", "parts", "file_before", "file_after")})
            rep = {"kind": "history", "history": label_text(label), "ops": ops_to_worker(h, corpus), "verdict_code": code,
                   "observed": {k: ob.get(k) for k in ("i", "parser", "file", "digest", "exc", "parts", "file_before", "file_after")},
                   "fresh_digests": {f"{j['parser']}|{j['fname']}|{j['argkey']}": j["digest"] for j in corpus
                                     if j["parser"] == ob["parser"] and j["file"] == ob["file"]},
                   "reproduces_alone_in_fresh_interpreter": bool(lone_bad), "alone_mismatches": lone_bad[:3],
                   "how": f"{sys.executable} run_check.py C16 replay <this file>   (runs `ops` in one fresh interpreter and compares each parse with a fresh-interpreter parse)"}
            if not lone_bad and code != 4:
                # the history is innocent: the state came from an earlier history of the same interpreter.  Find the smallest
                # culprit "parse X, mutate result, then parse J", every candidate in its own fresh interpreter.
                jx = next((j for kind, i, j in h if i == ob["i"] and j is not None), None)
                seen_jobs = []
                for _, hh in reversed(batch[:hpos]):
                    for kind, i, j in hh:
                        if j is not None and j not in seen_jobs:
                            seen_jobs.append(j)
                if jx is not None:
                    rank = lambda j: (corpus[j]["parser"] != corpus[jx]["parser"], fam[corpus[j]["parser"]] != fam[corpus[jx]["parser"]])
                    cands = sorted(seen_jobs, key=rank)[:48]
                    mk = lambda j: [("parse_file", 0, j), ("mutate", 0, None), ("parse_file", 1, jx)]
                    outs = pmap(lambda j: worker("history", {"ops": ops_to_worker(mk(j), corpus)}, timeout=600), cands)
                    for j, o in zip(cands, outs):
                        if isinstance(o, list) and len(o) == 2 and o[1].get("digest") != corpus[jx]["digest"]:
                            rep["ops"] = ops_to_worker(mk(j), corpus)
                            rep["minimal_history"] = label_text({"shape": "X then J", "A": j, "B": jx})
                            rep["observed"] = {k: o[1].get(k) for k in ("i", "parser", "file", "digest", "exc", "parts")}
                            rep["reproduces_alone_in_fresh_interpreter"] = True
                            label = {"shape": "parse_file A; mutate; parse_file B", "A": j, "B": jx}
                            break
            if code == 4:
                ctx.violation(rep, what=f"parsing changed the input file: {ob['parser']} on {os.path.basename(ob['file'])}")
            else:
                ctx.violation(rep, what=f"parse of {ob['parser']}({os.path.basename(ob['file'])}) in history {label_text(label)} differs from the parse in a fresh interpreter")
        if len(unexplained) > 4:
            ctx.notes.append(f"{len(unexplained)} unexplained observations in total")
        if reparse_diff:
            ctx.count("quirk:reparse", len(reparse_diff))
            ctx.finding("c16_reparse_accumulates",
                        "a second parse() on the same parser object does not start from fresh state (data accumulates / raises)",
                        {"kind": "reparse", "parsers": sorted(reparse_diff),
                         "how": "p = plugins.call('midgard.parsers', name, file_path=f); p.parse(); d1 = digest(p); p.parse(); digest(p) != d1"})

    # ---------------------------------------------------------------- D. generated headers vs the parser_cache model
    def phase_headers():
        hdr_ok = "wip_rinex3_obs_header" in names
        n_int, n_files = ((8, 12) if quick else (64, 40)) if hdr_ok else (0, 0)
        hdir = os.path.join(ctx.work, "hdr")
        os.makedirs(hdir, exist_ok=True)
        hcases = []
        for k in range(n_int):
            files = []
            for m in range(n_files):
                force = True if (m > 0 and rng.random() < 0.3) else None   # the interesting shape: a later file starts with a continuation line
                files.append(gen_header_file(rng, force))
            paths = []
            for m, lines in enumerate(files):
                p = os.path.join(hdir, f"h{k:03d}_{m:03d}.rnx")
                with open(p, "w") as f:
                    f.write(header_text(lines))
                paths.append(p)
            hcases.append((files, paths))
        hres = pmap(lambda c: worker("headers", {"parser": "wip_rinex3_obs_header", "files": c[1]}, timeout=600), hcases)
        hterms, hmeta = [], []
        for (files, paths), r in zip(hcases, hres):
            if isinstance(r, dict) or len(r) != len(files):
                ctx.violation({"kind": "header_worker_failed", "error": r.get("worker_error") if isinstance(r, dict) else "count"},
                              what="header interpreter crashed", found=False)
                continue
            hterms.append(emit.pair(emit.lst(hfile_term(f) for f in files), emit.lst(hres_term(o) for o in r)))
            hmeta.append((files, r))
            for m, f in enumerate(files):
                lead = bool(f) and f[0][0] is None
                ctx.count("headers:file_starts_with_continuation" if lead else "headers:plain")
                ctx.case(("HDR", json.dumps(files[:m + 1])), nontrivial=m > 0,
                         sample={"header_files_before": files[max(0, m - 2):m], "file": f, "observed": r[m]} if lead and m > 0 and len(ctx.samples) < 6 else None)
        ctx.log(f"header interpreters: {len(hcases)} x {n_files} files")
        hvs = yield ["List.concat (List.map check_hdr_detail " + emit.lst(hterms[k:k + 8]) + ")" for k in range(0, len(hterms), 8)]
        hv = emit.flatten_verdicts(hvs, sum(len(f) for f, _ in hmeta)) if hterms else []
        if hv is None:
            ctx.violation({"broken": "header shard did not evaluate in Coq", "errors": [e[1][-800:] for e in ctx.last_coq_errors[:1]]},
                          what="correspondence (model evaluation) failed", found=False)
            hv = []
        pos = 0
        for files, r in hmeta:
            codes = hv[pos:pos + len(files)]
            pos += len(files)
            for m, code in enumerate(codes):
                if code == 0:
                    continue
                # shortest prefix that matters: from the last earlier file that has a line naming a system
                start = max([j for j in range(m) if any(sysc is not None for sysc, _ in files[j])] or [0])
                rep = {"kind": "header_history", "parser": "wip_rinex3_obs_header",
                       "files": [header_text(f) for f in files[start:m + 1]], "lines": files[start:m + 1], "observed_obs_types_of_last_file": r[m],
                       "position_in_interpreter": m,
                       "how": "write the files; in ONE interpreter: [parsers.parse_file('wip_rinex3_obs_header', f).header.get('obs_types') for f in files]; "
                              "compare with the same call on the last file alone in a fresh interpreter (run_check.py C16 replay <this file>)"}
                if code == 2:
                    ctx.count("quirk:parser_cache_shared")
                    ctx.finding("c16_parser_cache_shared",
                                "RinexParser.parse_sys_obs_types reads the parser_cache list shared by all instances: a header starting with a continuation line takes the satellite system of a previously parsed file (IndexError in a fresh interpreter)",
                                rep)
                else:
                    ctx.violation(rep, what="header['obs_types'] differs from both the specification and the parser_cache model")

    # ---------------------------------------------------------------- E. plug-in resolution histories (generator, below)
    gens = [directed_outcomes(ctx, table, corpus), phase_histories(), phase_headers(), resolution_histories(ctx, table, corpus)]
    all_shards, spans = [], []
    for g in gens:
        sh_ = next(g)
        spans.append(len(sh_))
        all_shards += sh_
    t0 = time.time()
    if quick and all_shards:
        # one Coq file (one coqc start-up, one wait for a machine-wide coqc slot): the parts separated by a sentinel
        SENT = -777
        term = "[]"
        for sh_ in reversed(all_shards):
            term = f"List.app ({sh_}) (({SENT}) :: {term})"
        one_v = ctx.coq_cases([term], REQ + "\n" + REQ_RES + "\n" + REQ_W, timeout=1500)[0]
        all_vs = [None] * len(all_shards)
        if one_v is not None and one_v.count(SENT) == len(all_shards):
            all_vs, cur = [], []
            for x in one_v:
                if x == SENT:
                    all_vs.append(cur)
                    cur = []
                else:
                    cur.append(x)
    else:
        all_vs = ctx.coq_cases(all_shards, REQ + "\n" + REQ_RES + "\n" + REQ_W, timeout=1500) if all_shards else []
    ctx.log(f"{len(all_shards)} Coq case files evaluated in {time.time() - t0:.0f}s")
    pos = 0
    for g, n_ in zip(gens, spans):
        try:
            g.send(all_vs[pos:pos + n_])
        except StopIteration:
            pass
        pos += n_

    # ---------------------------------------------------------------- decide
    if not ok:
        def search():
            for kind in ("parser", "writer", "fieldtype"):
                for r in table[kind]["rows"]:
                    if not (r["file_exists"] and r["loaded"] and r["kind"] in (1, 2)):
                        return {"kind": "plugin_row", "row": r, "what": f"plug-in {r['name']} does not resolve: {r['detail'][:200]}"}
            return None
        if not ctx.violations:
            ctx.obligations_broken(search)

    ctx.trusted += [
        "Coq 8.16.1 kernel, coqc, vm_compute (no native_compute)",
        "hand-written model coq/theories/Model/C16_Purity.v (validated against midgard by this run's correspondence)",
        "harness/drivers/c16.py + c16_worker.py (history generation, canonical digest: sha256 of a canonical form, 128 bits, interned one-to-one as integers; "
        "reflection used for Gen/C16_Plugins.v)",
        "a new CPython process is a 'fresh interpreter'",
    ]
    ctx.assume += ["what a parser computes from the bytes is not specified here (C11-C15); only that it is the same function in every history",
                   "skipped jobs (missing optional dependency / parser not implemented / no example file) are listed in coverage.skipped"]
    return ctx.finish(
        level="proof",
        rule=("corpus = every listed parser x its example file (tests/parsers/example_files/<name>), the files the tests name, extra files for "
              "the untested parsers and six argument variants; each parsed in 2 fresh interpreters (2 hash seeds). Histories: per ordered pair "
              "(A,B) of corpus jobs incl. A=B the interleavings of {construct A, parse A, mutate result A} with {construct B, parse B} followed by "
              "parse_file(A) again - 2 (quick) / all 10 (thorough) within a parser family, 1 for a seeded third of the cross-family pairs (quick) / 3 for all (thorough); a re-parse "
              "history per job; triples A,B,C (sampled in quick; all within family + 30000 across in thorough). Generated RINEX 3 headers "
              "(1-4 files x 1-4 OBS TYPES lines, with/without leading continuation line) against the parser_cache model. "
              "distinct_nontrivial = distinct histories + plug-in rows"),
        extra={"skipped": skipped, "corpus": [f"{j['parser']}|{j['fname']}|{j['argkey']}" for j in corpus],
               "corpus_empty_data": [f"{j['parser']}|{j['fname']}" for j in corpus if j["empty"]],
               "unlisted_plugin_files": unlisted, "reparse_differs": sorted(reparse_diff),
               "opaque_types_in_digests": sorted({k for j in corpus for k in j["opaque"]})},
    )


# ----------------------------------------------------------------------------------------------- resolution histories
PKGS = [("parser", "midgard.parsers"), ("writer", "midgard.writers"), ("fieldtype", "midgard.data.fieldtypes")]


def resolution_histories(ctx, table, corpus):
    """Resolution must be a function of (package, name): reference = ONE look-up per fresh interpreter; histories of
    names / exists / get / load / parse_file over the three packages (each history in its own fresh interpreter) are
    compared inside Coq with the state machine of Model/C16_Resolve.v (check_resolution)."""
    rng, quick = ctx.rng, ctx.quick()
    files = {k: sorted(table[kind]["files"]) for k, (kind, _) in enumerate(PKGS)}
    listed = {k: [r["name"] for r in table[kind]["rows"]] for k, (kind, _) in enumerate(PKGS)}
    allnames = sorted({n for k in files for n in files[k]} | {n for k in listed for n in listed[k]})
    nid = {n: i for i, n in enumerate(allnames)}
    multi = sorted(n for n in allnames if sum(n in files[k] for k in files) > 1)
    ctx.count("resolve:names_in_several_packages", len(multi))

    # reference set: every file of every package in its own package, shared names in all packages, wrong-package probes
    U = [(k, n) for k in files for n in files[k]]
    U += [(k, n) for n in multi for k in files if (k, n) not in U]
    singles = [n for n in listed[0] if n not in multi]
    probes = singles if not quick else rng.sample(singles, min(4, len(singles)))
    for forced in ("vlbi_source_names", "sp3"):
        if forced in singles and forced not in probes:
            probes.append(forced)
    U += [(k, n) for n in probes for k in (1, 2)]
    U = sorted(set(U))

    def one(kn):
        k, n = kn
        return worker("resolve", {"ops": [{"op": "get", "pkg": PKGS[k][1], "name": n}]}, timeout=300)

    t0 = time.time()
    # quick: one fresh interpreter per look-up for the names that exist in several packages, the probes and the files that are
    # not listed; for the other listed names in their own package the reference is the row of the plug-in table (section A;
    # that interpreter only listed and loaded).  thorough: every look-up in its own interpreter.
    from_table = {}
    if quick:
        special = set(multi) | set(probes)
        for k, (kind, _) in enumerate(PKGS):
            for r in table[kind]["rows"]:
                if r["name"] not in special:
                    from_table[(k, r["name"])] = bool(r["loaded"])
    U_run = [kn for kn in U if kn not in from_table]
    ref_run = dict(zip(U_run, pmap(one, U_run)))
    ref = [ref_run[kn] if kn in ref_run else [{"found": from_table[kn]}] for kn in U]
    has = {}
    for (k, n), r in zip(U, ref):
        if isinstance(r, dict) or "found" not in r[0]:
            # loading itself breaks in a fresh interpreter: the plug-in table (A) reports listed names; others count as absent
            has[(k, n)] = False
            if n in listed[k]:
                ctx.violation({"kind": "resolution_reference", "package": PKGS[k][1], "name": n, "result": r},
                              what=f"plugins.get({PKGS[k][1]!r}, {n!r}) fails in a fresh interpreter: {str(r)[:160]}")
        else:
            has[(k, n)] = bool(r[0]["found"])
    ctx.log(f"resolution reference: {len(U_run)} single look-ups in fresh interpreters (+{len(from_table)} from the plug-in table) in {time.time() - t0:.0f}s")

    # parse jobs usable in the histories: parsers with shared names first, then a sample
    pj = [j for j in corpus if j["parser"] in multi or j["parser"] in probes]
    rest = [j for j in corpus if j not in pj and os.path.getsize(j["file"]) < HEAVY_BYTES]
    pj += rng.sample(rest, min(6 if quick else 30, len(rest)))
    jid = {id(j): i for i, j in enumerate(pj)}

    def op_names(k):
        return {"op": "names", "pkg": PKGS[k][1], "_k": k}

    def op_look(kind, k, n):
        return {"op": kind, "pkg": PKGS[k][1], "name": n, "_k": k, "_n": n}

    def op_parse(j):
        return {"op": "parse_file", "parser": j["parser"], "file": j["file"], "args": j["args"], "_j": jid[id(j)]}

    hists = []
    all_gets = [op_look("get", k, n) for k, n in U]
    for perm in itertools.permutations(range(3)):
        tail = list(all_gets)
        rng.shuffle(tail)
        hists.append(("list_then_get", [op_names(k) for k in perm] + tail + [op_names(k) for k in perm]))
    # wrong package first, then the owning package, for every shared / probed name
    for kind in ("exists", "get", "load"):
        ops = []
        for n in multi + probes:
            owners = [k for k in files if has.get((k, n))]
            wrong = [k for k in files if (k, n) in has and not has[(k, n)]]
            rng.shuffle(wrong)
            ops += [op_look(kind, k, n) for k in wrong] + [op_look("get", k, n) for k in owners]
        ops += [op_parse(j) for j in pj] + [op_names(k) for k in range(3)]
        hists.append(("wrong_package_first:" + kind, ops))
    # one listing first, then everything the other packages share with it
    for k0 in range(3):
        ops = [op_names(k0)]
        for n in multi + probes:
            ops += [op_look(rng.choice(["get", "exists", "load"]), k, n) for k in files if k != k0 and (k, n) in has]
        ops += [op_parse(j) for j in pj]
        ops += [op_names(k) for k in range(3) if k != k0]
        hists.append((f"names({PKGS[k0][0]})_first", ops))
    pool = ([lambda: op_names(rng.randrange(3))] * 2 + [lambda: op_look(rng.choice(["get", "exists", "load"]), *rng.choice(U))] * 10
            + [lambda: op_parse(rng.choice(pj))] * (2 if pj else 0))
    for _ in range(6 if quick else 80):
        hists.append(("random", [rng.choice(pool)() for _ in range(rng.randrange(20, 60))]))
    for label, _ in hists:
        ctx.count("resolve:" + label.split(":")[0])

    strip = lambda o: {k: v for k, v in o.items() if not k.startswith("_")}
    t0 = time.time()
    results = pmap(lambda h: worker("resolve", {"ops": [strip(o) for o in h[1]]}, timeout=1200), hists)
    ctx.log(f"resolution histories: {len(hists)} fresh interpreters, {sum(len(h[1]) for h in hists)} operations in {time.time() - t0:.0f}s")

    dints = {}
    dig_id = lambda d: dints.setdefault(d, len(dints))
    has_t = emit.lst(emit.pair(emit.z(k), emit.z(nid[n]), emit.z(1 if v else 0)) for (k, n), v in sorted(has.items()))
    files_t = emit.lst(emit.pair(emit.z(k), emit.lst(emit.z(nid[n]) for n in sorted(files[k], key=nid.get))) for k in files)
    jobs_t = emit.lst(emit.pair(emit.z(i), emit.pair(emit.pair("0", emit.z(nid[j["parser"]])), emit.z(dig_id(j["digest"])))) for i, j in enumerate(pj))

    def op_term(o):
        if o["op"] == "names":
            return f"RNames {emit.z(o['_k'])}"
        if o["op"] == "parse_file":
            return f"RParse {emit.z(o['_j'])}"
        return ("RExists" if o["op"] == "exists" else "RGet") + f" {emit.z(o['_k'])} {emit.z(nid[o['_n']])}"

    def obs_term(r):
        if "names" in r:
            ids = sorted(nid.setdefault(n, len(nid)) for n in r["names"])
            return "OList " + emit.lst(emit.z(i) for i in ids)
        if "found" in r:
            return "OBool " + emit.b(r["found"])
        if "digest" in r:
            return f"ODig {emit.z(dig_id(r['digest']))}"
        return "ODig (-5)"                 # any other exception: never what the specification predicts

    terms, meta = [], []
    for (label, ops), res in zip(hists, results):
        if isinstance(res, dict) or len(res) != len(ops):
            ctx.violation({"kind": "resolve_worker_failed", "history": label, "error": str(res)[:400]},
                          what="a resolution-history interpreter crashed", found=False)
            continue
        terms.append("check_resolution (has_t, files_t, jobs_t, " + emit.lst(op_term(o) for o in ops) + ", "
                     + emit.lst("(" + obs_term(r) + ")" for r in res) + ")")
        meta.append((label, ops, res))
        ctx.case(("RES", label, json.dumps([strip(o) for o in ops])[:20000]), nontrivial=True,
                 sample={"resolution_history": label, "first_ops": [strip(o) for o in ops[:4]]} if len(ctx.samples) < 6 else None)
    nsh = 2 if quick else 16
    groups_ = [list(range(len(terms)))[k::nsh] for k in range(nsh)]
    groups_ = [g for g in groups_ if g]
    shards = ["let has_t := " + has_t + " in\nlet files_t := " + files_t + " in\nlet jobs_t := " + jobs_t + " in\n"
              "List.concat " + emit.lst(terms[i] for i in g) for g in groups_]
    svs = yield shards
    vs = [None] * len(terms)
    for g, sv in zip(groups_, svs):
        if sv is None or len(sv) != sum(len(meta[i][1]) for i in g):
            continue
        pos = 0
        for i in g:
            vs[i] = sv[pos:pos + len(meta[i][1])]
            pos += len(meta[i][1])
    reported = 0
    for (label, ops, res), v in zip(meta, vs):
        if v is None or len(v) != len(ops):
            ctx.violation({"broken": "resolution shard did not evaluate in Coq", "errors": [e[1][-800:] for e in ctx.last_coq_errors[:1]]},
                          what="correspondence (model evaluation) failed", found=False)
            continue
        bad = [i for i, c in enumerate(v) if c != 0]
        if not bad or reported >= 3:
            continue
        reported += 1
        i = bad[0]
        target = strip(ops[i])
        # smallest failing input: one earlier operation + the failing one, each pair in its own fresh interpreter
        earlier = []
        for o in ops[:i]:
            if strip(o) not in earlier:
                earlier.append(strip(o))
        alone = worker("resolve", {"ops": [target]}, timeout=600)
        pairs = pmap(lambda e: worker("resolve", {"ops": [e, target]}, timeout=600), earlier[-48:])
        culprit = next((e for e, r in zip(earlier[-48:], pairs) if isinstance(r, list) and isinstance(alone, list) and r[-1] != alone[0]), None)
        rep = {"kind": "resolution_history", "history": label, "failing_op": target, "observed_in_history": res[i],
               "same_op_alone_in_fresh_interpreter": alone[0] if isinstance(alone, list) else alone,
               "minimal_history": [culprit, target] if culprit else None,
               "ops_before": [strip(o) for o in ops[:i]][-60:],
               "how": "PYTHONPATH=<repo>:/verif python harness/drivers/c16_worker.py resolve '{\"ops\": <minimal_history>}'  vs  '{\"ops\": [<failing_op>]}'"}
        ctx.violation(rep, what=(f"plug-in resolution depends on the history: {target} answers {res[i]} "
                                 + (f"after {culprit}" if culprit else f"in history {label}")
                                 + f", but {alone[0] if isinstance(alone, list) else alone} alone in a fresh interpreter"))


NAV_PARSERS = {"rinex2_nav", "rinex212_nav", "rinex3_nav", "rinex_nav"}


def nav_crossover_class(job, ob, fresh_parts):
    """Is this mismatch exactly the class c16_nav_week_crossover_inplace: a RINEX navigation parser, everything equal to the
    fresh interpreter except the fields toe / transmission_time of data?"""
    if job["parser"] not in NAV_PARSERS or "parts" not in ob:
        return False
    ref = fresh_parts.get((job["parser"], job["file"], job["argkey"]))
    if not ref or "data_keys" not in ref or "data_keys" not in ob["parts"]:
        return False
    a, b_ = ref["data_keys"], ob["parts"]["data_keys"]
    diff = {k for k in set(a) | set(b_) if a.get(k) != b_.get(k)}
    return bool(diff) and diff <= {"toe", "transmission_time"} and ref.get("meta") == ob["parts"].get("meta")


# ----------------------------------------------------------------------------------------------- directed: outcomes, rewrites
def directed_outcomes(ctx, table, corpus):
    """Directed corpus, the same for every VERIF_SEED.

    (1) Error outcomes are outcomes: the RinexParser-family parsers with the rarely used `strict=True` (their example files
        contain header lines they do not know -> ParserError) and every example job that raises, repeated and mixed with
        the default call in one interpreter; each outcome (digest, or exception type + message) must be the one of a fresh
        interpreter.  Model: check_history_detail (an exception is just another result value).
    (2) Rewrites: the file at one path is replaced by another file (other RINEX major version, ...) between parse_file
        calls - through every dispatching plug-in (kind 2 rows) and two ordinary parsers; reference = fresh interpreter on
        the content that is at the path at that moment.  Model: Model/C16_Write.v, check_whistory_detail."""
    quick = ctx.quick()
    rows = {r["name"]: r for r in table["parser"]["rows"]}
    ddir = os.path.join(ctx.work, "directed")
    os.makedirs(ddir, exist_ok=True)
    ex = lambda f: os.path.join(EXDIR, f)
    have = set(os.listdir(EXDIR)) if os.path.isdir(EXDIR) else set()

    def fresh_job(j, prepare=None):
        return worker("fresh", {"parser": j["parser"], "file": j["file"], "args": j["args"], "prepare": prepare or []}, timeout=300)

    # ---------------- (1) strict / error outcomes
    groups = []                      # (parser, [jobs])
    for name in sorted(rows):
        if rows[name].get("base") != "RinexParser" and not (rows[name]["kind"] == 2 and name.startswith("wip_")):
            continue
        files_ = [f for f in EXTRA_FILES.get(name, []) if f in have and os.path.getsize(ex(f)) <= HEAVY_BYTES]
        for f in files_[:1 if quick else 3]:
            groups.append((name, [dict(parser=name, fname=f, file=ex(f), args=a, argkey=json.dumps(a, sort_keys=True))
                                  for a in ({}, {"strict": True})]))
    known = {(j["parser"], j["file"], j["argkey"]): j for j in corpus}
    todo = [j for _, js in groups for j in js if (j["parser"], j["file"], j["argkey"]) not in known]
    refs = dict(zip([id(j) for j in todo], pmap(fresh_job, todo)))
    ejobs = []                       # jobs with a reference outcome
    for name, js in groups:
        ok_js = []
        for j in js:
            k = (j["parser"], j["file"], j["argkey"])
            if k in known:
                j.update(digest=known[k]["digest"], content=known[k]["content"], outcome="parsed")
            else:
                a = refs[id(j)]
                if "worker_error" in a:
                    continue
                j.update(digest=a["digest"], content=a["file_before"], outcome=a.get("exc", "parsed"))
            ok_js.append(j)
            ejobs.append(j)
            ctx.count("directed:outcome:" + j["outcome"].split(":")[0])
        js[:] = ok_js
    # the example jobs of the main corpus that raise (kept in coverage.skipped): repeat them too
    for sk in ctx_skipped(ctx):
        j = dict(sk["_job"], digest=sk["_digest"], content=sk["_content"], outcome=sk["reason"])
        groups.append((j["parser"], [j]))
        ejobs.append(j)
    hist1, hist2 = [], []            # two interpreters: strict first / default first
    iid = [0]

    def pf(j):
        iid[0] += 1
        return ("parse_file", iid[0], j)
    for name, js in groups:
        d = next((j for j in js if not j["args"]), None)
        st = next((j for j in js if j["args"]), None)
        if st is not None and d is not None:
            hist1 += [pf(st), pf(st), pf(d), pf(st), pf(d)]
            hist2 += [pf(d), pf(st), pf(st), pf(d)]
        else:
            only = st or d
            hist1 += [pf(only), pf(only)]
            hist2 += [pf(only)]
    ehists = [h for h in (hist1, hist2) if h]

    def run_e(h):
        return worker("history", {"ops": [dict(op="parse_file", i=i, parser=j["parser"], file=j["file"], args=j["args"]) for _, i, j in h]},
                      timeout=900)

    # ---------------- (2) rewrites
    disp = sorted(n for n, r in rows.items() if r["kind"] == 2)
    nav = [f for f in ("rinex2_nav.19n", "rinex3_nav", "rinex212_GN.rnx") if f in have]
    obs_ = [f for f in ("rinex3_obs", "rinex2_obs") if f in have]
    clk = [f for f in ("rinex3_clk", "rinex3_nav") if f in have]
    bundles = []
    for n in disp:
        cont = nav if "nav" in n else clk if "clk" in n else obs_
        if len(cont) >= 2:
            bundles.append((n, cont))
    for n, cont in (("sinex_site", ["sinex_site", "sinex_site_igs"]), ("rinex3_nav", ["rinex3_nav", "rinex2_nav.19n"])):
        if n in rows and all(c in have for c in cont):
            bundles.append((n, cont))

    def run_bundle(arg):
        bi, (name, cont) = arg
        path = os.path.join(ddir, f"rewritten_{bi:02d}_{name}")
        j = dict(parser=name, file=path, args={})
        wr = lambda ci: dict(op="write", file=path, src=ex(cont[ci]), mtime_ns=1_600_000_000_000_000_000 + (bi * 10 + ci) * 1_000_000_000)
        refs_ = [fresh_job(j, [wr(ci)]) for ci in range(len(cont))]          # one fresh interpreter per content, one after the other
        order = list(range(len(cont))) + list(range(len(cont) - 1, -1, -1)) + [0]
        ops, i = [], 0
        for ci in order:
            i += 1
            ops += [wr(ci), dict(op="parse_file", i=i, parser=name, file=path, args={}), dict(op="mutate", i=i)]
        res = worker("history", {"ops": ops}, timeout=900)
        return path, refs_, order, ops, res

    t0 = time.time()
    eres = pmap(run_e, ehists)
    bres = pmap(run_bundle, list(enumerate(bundles)))
    ctx.log(f"directed: {len(todo)} outcome references, {len(ehists)} outcome histories ({sum(len(h) for h in ehists)} parses), "
            f"{len(bundles)} rewrite bundles in {time.time() - t0:.0f}s")

    # ---------------- terms
    pid = {n: k for k, n in enumerate(sorted({j["parser"] for j in ejobs} | {n for n, _ in bundles}))}
    fid, aid = {}, {}
    fz = lambda f: fid.setdefault(f, len(fid))
    az = lambda a: aid.setdefault(a, len(aid))
    shards, meta = [], []
    if ejobs and all(isinstance(r, list) for r in eres):
        seen_t = {}
        for j in ejobs:
            seen_t[(pid[j["parser"]], zdig(j["content"]), az(j["argkey"]))] = zdig(j["digest"])
        t_term = emit.lst(f"zt {p_} {c_} {a_} {d_}" for (p_, c_, a_), d_ in sorted(seen_t.items()))
        f_term = emit.lst(emit.pair(emit.z(fz(j["file"])), emit.z(zdig(j["content"]))) for j in {j["file"]: j for j in ejobs}.values())
        cases = []
        for h, r in zip(ehists, eres):
            ops_t = emit.lst(x for _, i, j in h for x in (f"zC {i} {pid[j['parser']]} {fz(j['file'])} {az(j['argkey'])}", f"zP {i}"))
            obs_t = emit.lst(f"zo {o['i']} {zdig(o['digest'])} {zdig(o['file_before'])} {zdig(o['file_after'])}" for o in r)
            cases.append(f"zh {ops_t} {obs_t}")
        shards.append("let t := " + t_term + " in\nlet files := " + f_term + " in\n"
                      "List.concat (List.map (fun c => check_history_detail (t, files, fst c, snd c))\n" + emit.lst(cases) + ")")
        meta.append(("outcomes", None))
    elif ejobs:
        ctx.violation({"kind": "directed_worker_failed", "error": str(eres)[:400]}, what="a directed-outcome interpreter crashed", found=False)
    for (name, cont), (path, refs_, order, ops, res) in zip(bundles, bres):
        if not isinstance(res, list) or any("worker_error" in r for r in refs_):
            ctx.violation({"kind": "directed_worker_failed", "bundle": name, "error": str(res)[:300]}, what="a rewrite interpreter crashed", found=False)
            continue
        t_term = emit.lst(f"zt {pid[name]} {zdig(r['file_before'])} {az('{}')} {zdig(r['digest'])}" for r in refs_)
        wops, obs = [], []
        i = 0
        for ci in order:
            i += 1
            wops += [f"wW {fz(path)} {zdig(refs_[ci]['file_before'])}", f"wC {i} {pid[name]} {fz(path)} {az('{}')}", f"wP {i}", f"wM {i}"]
        obs_t = emit.lst(f"zo {o['i']} {zdig(o['digest'])} {zdig(o['file_before'])} {zdig(o['file_after'])}" for o in res)
        shards.append(f"check_whistory_detail ({t_term}, [], {emit.lst(wops)}, {obs_t})")
        meta.append(("rewrite", (name, cont, path, refs_, order, ops, res)))
        for k_, ci in enumerate(order):
            ctx.case(("REWRITE", name, tuple(cont), k_), nontrivial=True,
                     sample={"rewrite": name, "contents": cont, "order": order} if k_ == 0 and len(ctx.samples) < 6 else None)
        ctx.count("directed:rewrite_bundle")
    for h in ehists:
        for _, i, j in h:
            ctx.case(("OUTCOME", j["parser"], j["fname"] if "fname" in j else j["file"], j["argkey"], i), nontrivial=True)

    vs = yield shards

    for (kind, info), v in zip(meta, vs):
        if kind == "outcomes":
            flat_ops = [x for h in ehists for x in h]
            flat_res = [o for r in eres for o in r]
            if v is None or len(v) != len(flat_res):
                ctx.violation({"broken": "directed outcome shard did not evaluate in Coq", "errors": [e[1][-800:] for e in ctx.last_coq_errors[:1]]},
                              what="correspondence (model evaluation) failed", found=False)
                continue
            nrep = 0
            pos = 0
            for h, r in zip(ehists, eres):
                for k_, ((_, i, j), o) in enumerate(zip(h, r)):
                    code = v[pos + k_]
                    if code != 0 and nrep < 3:
                        nrep += 1
                        ops_ = [dict(op="parse_file", i=i2, parser=j2["parser"], file=j2["file"], args=j2["args"]) for _, i2, j2 in h[:k_ + 1]]
                        same = [x for x in ops_ if x["parser"] == j["parser"]]
                        ctx.violation({"kind": "directed_history", "ops": same, "failing_call": ops_[-1],
                                       "observed_outcome": o.get("exc") or o.get("parts"), "fresh_interpreter_outcome": j["outcome"],
                                       "fresh_digest": j["digest"], "observed_digest": o["digest"], "verdict_code": code,
                                       "how": f"{sys.executable} run_check.py C16 replay <this file>  (runs `ops` in one fresh interpreter, the failing call alone in another)"},
                                      what=(f"outcome of parse_file({j['parser']!r}, {os.path.basename(j['file'])}, {j['argkey']}) depends on the history: "
                                            f"{o.get('exc') or 'parsed'} after {len(same) - 1} earlier call(s) of this parser, {j['outcome']} in a fresh interpreter"))
                pos += len(r)
        else:
            name, cont, path, refs_, order, ops, res = info
            if v is None or len(v) != len(res):
                ctx.violation({"broken": "rewrite shard did not evaluate in Coq", "errors": [e[1][-800:] for e in ctx.last_coq_errors[:1]]},
                              what="correspondence (model evaluation) failed", found=False)
                continue
            for k_, code in enumerate(v):
                if code == 0:
                    continue
                ci = order[k_]
                upto = ops[:3 * (k_ + 1)]
                ctx.violation({"kind": "directed_history", "ops": upto, "failing_call": upto[-2], "content_at_path": cont[ci],
                               "contents_before": [cont[c] for c in order[:k_]],
                               "observed_outcome": res[k_].get("exc") or res[k_].get("parts"),
                               "fresh_interpreter_outcome": refs_[ci].get("exc") or refs_[ci].get("parts"), "verdict_code": code,
                               "how": f"{sys.executable} run_check.py C16 replay <this file>"},
                              what=(f"parse_file({name!r}, path) after the file at the path was replaced by {cont[ci]} "
                                    f"(before: {', '.join(cont[c] for c in order[:k_]) or '-'}) gives {res[k_].get('exc') or 'a result'} "
                                    f"that differs from the fresh interpreter on the same content ({refs_[ci].get('exc') or 'parsed'})"))
                break


def ctx_skipped(ctx):
    return getattr(ctx, "_c16_error_jobs", [])


def replay(ctx, path):
    rep = json.load(open(path))
    print(json.dumps({k: v for k, v in rep.items() if k not in ("ops",)}, indent=1)[:4000])
    if rep.get("kind") == "history" and rep.get("ops"):
        alone = worker("history", {"ops": rep["ops"]}, timeout=900)
        bad = 0
        for o in alone if isinstance(alone, list) else []:
            args = next((x.get("args") for x in rep["ops"] if x.get("i") == o["i"] and "parser" in x), {})
            fr = worker("fresh", {"parser": o["parser"], "file": o["file"], "args": args})
            same = fr.get("digest") == o.get("digest") and o["file_before"] == o["file_after"]
            bad += not same
            print(("same    " if same else "DIFFERS ") + f"instance {o['i']} {o['parser']}({os.path.basename(o['file'])}) in-history={o.get('digest')} fresh={fr.get('digest')} {o.get('exc', '')}")
        print("reproduced" if bad else "not reproduced")
        return 1 if bad else 0
    if rep.get("kind") == "directed_history":
        hist = worker("history", {"ops": rep["ops"]}, timeout=900)
        last = hist[-1] if isinstance(hist, list) and hist else hist
        fc = rep["failing_call"]
        prep = [o for o in rep["ops"] if o.get("op") == "write"][-1:]
        alone = worker("fresh", {"parser": fc["parser"], "file": fc["file"], "args": fc.get("args"), "prepare": prep})
        print("in the history      :", last.get("exc") or last.get("digest"))
        print("fresh interpreter   :", alone.get("exc") or alone.get("digest"))
        bad = last.get("digest") != alone.get("digest")
        print("reproduced" if bad else "not reproduced")
        return 1 if bad else 0
    if rep.get("kind") == "resolution_history":
        for ops in ([rep["failing_op"]], rep.get("minimal_history") or (rep["ops_before"] + [rep["failing_op"]])):
            print(len(ops), "op(s) ->", worker("resolve", {"ops": ops})[-1])
        return 0
    if rep.get("kind") == "header_history":
        d = os.path.join(ctx.work, "hdr")
        os.makedirs(d, exist_ok=True)
        paths = []
        for k, text in enumerate(rep["files"]):
            p = os.path.join(d, f"r{k}.rnx")
            open(p, "w").write(text)
            paths.append(p)
        print("in one interpreter :", worker("headers", {"parser": rep["parser"], "files": paths}))
        print("each file fresh    :", [worker("headers", {"parser": rep["parser"], "files": [p]}) for p in paths])
        return 0
    print("re-run: VERIF_SEED=%s /venv/bin/python run_check.py C16 %s" % (rep.get("seed"), rep.get("tier", "quick")))
    return 0
