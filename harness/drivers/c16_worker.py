"""C16 worker: runs midgard parsers inside one (fresh) interpreter and prints JSON.

Used by harness/drivers/c16.py through `subprocess` (one interpreter per job):

    python c16_worker.py fresh   '{"parser":..., "file":..., "args":{...}}'
        -> one parse in this fresh interpreter: {"digest":..., "file_before":..., "file_after":..., ...}
    python c16_worker.py history '{"ops":[...]}'
        -> the whole operation list in this one interpreter; one observation per `parse` op
    python c16_worker.py plugins '{}'
        -> the plug-in tables of parsers / writers / fieldtypes

The digest is a canonical deep digest (sha256) of data / meta / as_dict(): floats by float.hex (NaN canonical),
numpy arrays by dtype+shape+bytes (object arrays element-wise), dicts sorted by the digest of the key, sets sorted,
unknown objects by type name + their public state.  It never contains memory addresses.

No midgard import happens at module level: the interpreter is 'fresh' until the first op runs."""
from __future__ import annotations

import hashlib
import io
import json
import math
import os
import sys
import contextlib


# --------------------------------------------------------------------------------------- canonical digest
class Canon:
    def __init__(self):
        self.opaque = {}     # type name -> count (objects digested through their state)
        self.depth_hit = 0
        self.memo = {}       # id -> (object kept alive, digest): data / as_dict() share their nested containers

    def d(self, x, depth=0) -> str:
        """canonical text of x (small), nested parts hashed"""
        if isinstance(x, (dict, list)) or type(x).__name__ == "ndarray":
            hit = self.memo.get(id(x))
            if hit is not None and hit[0] is x:
                return hit[1]
            r = self._d(x, depth)
            self.memo[id(x)] = (x, r)
            return r
        return self._d(x, depth)

    def _d(self, x, depth=0) -> str:
        import numpy as np
        import datetime as _dt
        import pathlib
        if depth > 60:
            self.depth_hit += 1
            return "DEPTH"
        if x is None:
            return "N"
        if x is True:
            return "T"
        if x is False:
            return "F"
        t = type(x)
        if t is int:
            return f"i{x}"
        if t is float:
            return "fnan" if math.isnan(x) else "f" + x.hex()
        if t is str:
            return "s" + hashlib.sha256(x.encode("utf8", "surrogatepass")).hexdigest()[:32]
        if t is bytes:
            return "b" + hashlib.sha256(x).hexdigest()[:32]
        if t is complex:
            return f"c({self.d(x.real)},{self.d(x.imag)})"
        if isinstance(x, np.generic):
            if isinstance(x, np.floating):
                v = float(x)
                return f"np:{x.dtype.str}:" + ("nan" if math.isnan(v) else v.hex())
            if isinstance(x, (np.integer, np.bool_)):
                return f"np:{x.dtype.str}:{int(x)}"
            if isinstance(x, np.str_):
                return "nps" + self.d(str(x))
            if isinstance(x, np.datetime64) or isinstance(x, np.timedelta64):
                return f"np:{x.dtype.str}:{int(x.astype('int64'))}"
            return f"np:{x.dtype.str}:" + hashlib.sha256(x.tobytes()).hexdigest()[:32]
        if isinstance(x, np.ndarray):
            head = f"A:{x.dtype.str}:{x.shape}:"
            if x.dtype.hasobject:
                return head + self.h([self.d(v, depth + 1) for v in x.ravel().tolist()])
            a = np.ascontiguousarray(x)
            if a.dtype.kind == "f":
                a = a.copy()
                a[np.isnan(a)] = np.nan     # one NaN payload
            elif a.dtype.kind == "c":
                a = a.copy()
            return head + hashlib.sha256(a.tobytes()).hexdigest()[:32]
        if isinstance(x, dict):
            items = sorted((self.d(k, depth + 1), self.d(v, depth + 1)) for k, v in x.items())
            return f"D{type(x).__name__ if t is not dict else ''}" + self.h([k + "=" + v for k, v in items])
        if isinstance(x, (list, tuple)):
            tag = "L" if isinstance(x, list) else "U"
            if t not in (list, tuple):
                tag += t.__name__
            return tag + self.h([self.d(v, depth + 1) for v in x])
        if isinstance(x, (set, frozenset)):
            return "S" + self.h(sorted(self.d(v, depth + 1) for v in x))
        if isinstance(x, _dt.datetime):
            return "dt" + x.isoformat() + ("" if x.tzinfo is None else "tz")
        if isinstance(x, _dt.date):
            return "da" + x.isoformat()
        if isinstance(x, _dt.time):
            return "ti" + x.isoformat()
        if isinstance(x, _dt.timedelta):
            return f"td{x.days}:{x.seconds}:{x.microseconds}"
        if isinstance(x, pathlib.PurePath):
            return "P" + self.d(str(x))
        try:
            import pandas as pd
            if isinstance(x, pd.DataFrame):
                return "DF" + self.h([self.d(list(map(str, x.columns))), self.d(x.index.to_numpy(), depth + 1)]
                                     + [self.d(x[c].to_numpy(), depth + 1) for c in x.columns])
            if isinstance(x, (pd.Series, pd.Index)):
                return "SE" + self.d(x.to_numpy(), depth + 1)
            if isinstance(x, pd.Timestamp):
                return "pts" + x.isoformat()
        except ImportError:      # pragma: no cover
            pass
        # generic object: type name + state (never repr: it may contain addresses)
        name = f"{t.__module__}.{t.__qualname__}"
        self.opaque[name] = self.opaque.get(name, 0) + 1
        if callable(x) and hasattr(x, "__qualname__"):
            return f"fn:{getattr(x, '__module__', '')}.{x.__qualname__}"
        state = None
        if hasattr(x, "__dict__"):
            state = {k: v for k, v in vars(x).items() if not k.startswith("__")}
        elif hasattr(t, "__slots__"):
            state = {k: getattr(x, k, None) for k in t.__slots__}
        if state is not None:
            return f"O:{name}:" + self.d(state, depth + 1)
        return f"O:{name}:" + self.d(str(x))

    @staticmethod
    def h(parts) -> str:
        m = hashlib.sha256()
        for p in parts:
            m.update(p.encode())
            m.update(b"\x00")
        return f"[{len(parts)}]" + m.hexdigest()[:32]


def digest_parser(p, views=("data", "meta", "as_dict")):
    """digest of what a caller can observe of a parser object after parse()"""
    c = Canon()
    out = {}
    out["data"] = c.d(p.data)
    out["meta"] = c.d(p.meta)
    out["data_available"] = c.d(bool(p.data_available))
    try:
        out["as_dict"] = c.d(p.as_dict())
    except Exception as e:      # as_dict is re-implemented by some parsers; an exception is an observation too
        out["as_dict"] = f"EXC:{type(e).__name__}"
    hdr = getattr(p, "header", None)
    if hdr is not None:
        out["header"] = c.d(hdr)
    total = hashlib.sha256(json.dumps(out, sort_keys=True).encode()).hexdigest()[:32]
    # per-field digests of data (not part of the total; memoised, so free): lets the driver say WHICH fields differ
    if isinstance(p.data, dict) and len(p.data) <= 100:
        out = dict(out, data_keys={str(k): c.d(v) for k, v in p.data.items()})
    return total, out, c.opaque


def file_digest(path):
    try:
        with open(path, "rb") as f:
            raw = f.read()
        st = os.stat(path)
        return hashlib.sha256(raw).hexdigest()[:32] + f":{len(raw)}:{st.st_mtime_ns}"
    except OSError as e:
        return f"ERR:{type(e).__name__}"


# --------------------------------------------------------------------------------------- caller mutation
def mutate_deep(x, seen=None, depth=0):
    """What a careless caller may do with a result it owns: change everything reachable in place."""
    import numpy as np
    if seen is None:
        seen = set()
    if id(x) in seen or depth > 40:
        return 0
    seen.add(id(x))
    n = 0
    if isinstance(x, dict):
        for v in list(x.values()):
            n += mutate_deep(v, seen, depth + 1)
        try:
            x["__verif_mutation__"] = ["caller"]
            for k in list(x.keys())[:2]:
                if k != "__verif_mutation__" and isinstance(x[k], (str, int, float)) and not isinstance(x[k], bool):
                    x[k] = "MUTATED" if isinstance(x[k], str) else x[k] + 1
            n += 1
        except Exception:
            pass
    elif isinstance(x, list):
        for v in list(x):
            n += mutate_deep(v, seen, depth + 1)
        try:
            x.append("__verif_mutation__")
            if len(x) > 1:
                x[0] = "MUTATED"
            n += 1
        except Exception:
            pass
    elif isinstance(x, set):
        x.add("__verif_mutation__")
        n += 1
    elif isinstance(x, np.ndarray):
        try:
            if x.dtype.hasobject:
                for v in x.ravel().tolist():
                    n += mutate_deep(v, seen, depth + 1)
            if x.size and x.flags.writeable:
                if x.dtype.kind in "fiu":
                    x += 1
                elif x.dtype.kind == "U" or x.dtype.kind == "S":
                    x[...] = "M"
                elif x.dtype.kind == "b":
                    np.logical_not(x, out=x)
                n += 1
        except Exception:
            pass
    elif isinstance(x, tuple):
        for v in x:
            n += mutate_deep(v, seen, depth + 1)
    elif hasattr(x, "__dict__") and not isinstance(x, type) and not callable(x) and type(x).__module__.startswith("midgard"):
        for v in list(vars(x).values()):
            n += mutate_deep(v, seen, depth + 1)
    return n


# --------------------------------------------------------------------------------------- operations
def construct(parser, path, args):
    from midgard.dev import plugins
    # `use_cache` is an argument of parsers.parse_file, not of a parser: the construct / parse path is the uncached one
    args = {k: v for k, v in (args or {}).items() if k != "use_cache"}
    return plugins.call(package_name="midgard.parsers", plugin_name=parser, file_path=path, **args)


def quiet():
    return contextlib.redirect_stdout(io.StringIO())


def run_ops(ops):
    """ops: list of dicts
         {"op":"construct","i":k,"parser":..,"file":..,"args":{..}}
         {"op":"parse","i":k}            -> observation {digest, parts, file_before, file_after} (or exc)
         {"op":"parse_file","i":k,...}   -> construct + parse through parsers.parse_file (the public entry)
         {"op":"mutate","i":k}           -> deep in-place mutation of as_dict() / data / meta obtained from instance k
         {"op":"drop","i":k}
         {"op":"write","file":path,"src":path2,"mtime_ns":T}   -> the file at `path` is replaced (by the environment)
    Returns list of observations (one per parse / parse_file op, in order)."""
    import gc
    inst = {}
    info = {}
    obs = []
    ndrop = 0
    for o in ops:
        k = o.get("i")
        kind = o["op"]
        if kind == "construct":
            with quiet():
                inst[k] = construct(o["parser"], o["file"], o.get("args"))
            info[k] = o
        elif kind in ("parse", "parse_file"):
            if kind == "parse_file":
                info[k] = o
            path = info[k]["file"]
            before = file_digest(path)
            rec = {"i": k, "parser": info[k]["parser"], "file": path}
            try:
                with quiet():
                    if kind == "parse_file":
                        from midgard import parsers
                        inst[k] = parsers.parse_file(o["parser"], o["file"], **(o.get("args") or {}))
                    else:
                        if inst[k].data_available:      # what parsers.parse_file does
                            inst[k].parse()
                total, parts, opaque = digest_parser(inst[k])
                rec.update(digest=total, parts=parts, opaque=opaque)
            except BaseException as e:  # noqa - StopIteration / SystemExit are observations too
                if isinstance(e, KeyboardInterrupt):
                    raise
                # an error is an outcome like any other: exception type + message (addresses removed)
                import re
                msg = re.sub(r"0x[0-9a-fA-F]+", "0x?", str(e))[:400]
                rec.update(digest="EXC:" + hashlib.sha256(f"{type(e).__name__}|{msg}".encode("utf8", "replace")).hexdigest()[:24],
                           exc=f"{type(e).__name__}: {msg[:200]}")
            rec["file_before"] = before
            rec["file_after"] = file_digest(path)
            obs.append(rec)
        elif kind == "mutate":
            p = inst.get(k)
            if p is not None:
                n = 0
                seen = set()
                keep = []          # keep the copies alive so that ids in `seen` stay unique
                for getter in (lambda: p.as_dict(), lambda: p.as_dict(include_meta=True), lambda: p.data, lambda: p.meta,
                               lambda: getattr(p, "header", None)):
                    try:
                        got = getter()
                        keep.append(got)
                        n += mutate_deep(got, seen)
                    except Exception:
                        pass
        elif kind == "write":
            # the environment replaces the file at a path: content of `src`, modification time as given
            import shutil
            shutil.copyfile(o["src"], o["file"])
            os.utime(o["file"], ns=(int(o["mtime_ns"]), int(o["mtime_ns"])))
        elif kind == "drop":
            inst.pop(k, None)
            ndrop += 1
            if ndrop % 200 == 0:       # a full collection costs more than a parse: not on every drop
                gc.collect()
        else:
            raise ValueError(kind)
    return obs


# --------------------------------------------------------------------------------------- plug-in tables
def plugin_tables(example_dir=None):
    """For parsers / writers / fieldtypes: the names the library lists and, per name, the facts
    (module file exists, load succeeded, kind of the registered object, parse_file's arguments bind)."""
    import importlib
    import inspect
    import pathlib
    out = {}
    kinds = {"midgard.parsers": "parser", "midgard.writers": "writer", "midgard.data.fieldtypes": "fieldtype"}
    from midgard.dev import plugins
    for pkg, kind in kinds.items():
        rows = []
        err = None
        pkgdir = None
        try:
            with quiet():
                mod = importlib.import_module(pkg)
                pkgdir = pathlib.Path(mod.__file__).parent
                names = list(mod.names())
        except BaseException as e:  # noqa
            names, err = [], f"{type(e).__name__}: {str(e)[:300]}"
        # every public .py file of the package directory
        files = sorted(f.stem for f in pkgdir.glob("*.py") if not f.stem.startswith("_")) if pkgdir else []
        if err is not None:
            names = files          # the listing itself failed: report per file what loads
        for n in names:
            row = {"name": n, "file_exists": bool(pkgdir and (pkgdir / f"{n}.py").exists()), "loaded": False, "kind": 0,
                   "call": 0, "detail": ""}
            try:
                with quiet():
                    plug = plugins.get(pkg, n)
                obj = plug.function
                row["loaded"] = True
                row["detail"] = f"{type(obj).__name__}:{getattr(obj, '__qualname__', '?')}"
                in_module = getattr(obj, "__module__", "") == f"{pkg}.{n}"
                if kind == "parser":
                    from midgard.parsers._parser import Parser
                    if inspect.isclass(obj):
                        row["kind"] = 1 if (issubclass(obj, Parser) and obj is not Parser and in_module) else 0
                        from midgard.parsers import ChainParser, LineParser, RinexParser, SinexParser
                        row["base"] = next((b.__name__ for b in (SinexParser, RinexParser, LineParser, ChainParser) if issubclass(obj, b)), "Parser")
                    elif inspect.isfunction(obj) and in_module and example_dir:
                        # a dispatcher: must hand back a Parser for some RINEX example file
                        for f in sorted(os.listdir(example_dir)):
                            if "rinex" not in f:
                                continue
                            try:
                                with quiet():
                                    got = obj(file_path=os.path.join(example_dir, f))
                            except BaseException:  # noqa
                                continue
                            if isinstance(got, Parser):
                                row["kind"] = 2
                                row["detail"] += f" -> {type(got).__name__} ({f})"
                                break
                    try:
                        inspect.signature(obj).bind(file_path="x", encoding=None)
                        row["call"] = 1
                    except TypeError as e:
                        row["detail"] += f" ; parse_file arguments do not bind: {e}"
                elif kind == "writer":
                    row["kind"] = 1 if (inspect.isfunction(obj) and in_module) else 0
                    row["call"] = 1
                else:
                    from midgard.data.fieldtypes._fieldtype import FieldType
                    row["kind"] = 1 if (inspect.isclass(obj) and issubclass(obj, FieldType) and obj is not FieldType
                                        and in_module) else 0
                    row["call"] = 1
            except BaseException as e:  # noqa
                row["detail"] = f"{type(e).__name__}: {str(e)[:200]}"
            rows.append(row)
        out[kind] = {"package": pkg, "rows": rows, "error": err, "files": files,
                     "unlisted_files": sorted(set(files) - set(names))}
    return out


def run_headers(job):
    """parse the given files one after the other (new instance each, parsers.parse_file) and report
    header['obs_types'] as insertion-ordered pairs, or the exception class"""
    from midgard import parsers
    out = []
    for path in job["files"]:
        try:
            with quiet():
                p = parsers.parse_file(job["parser"], path)
            ot = p.header.get("obs_types", {})
            out.append({"ok": [[k, list(v)] for k, v in ot.items()]})
        except BaseException as e:  # noqa
            if isinstance(e, KeyboardInterrupt):
                raise
            out.append({"exc": type(e).__name__})
    return out


def run_resolve(job):
    """plug-in resolution history in this interpreter: one observation per op
         {"op":"names","pkg":P}            -> {"names":[...]}
         {"op":"exists"|"get"|"load","pkg":P,"name":N} -> {"found": true|false} | {"other": "Exc: text"}
         {"op":"parse_file","parser":..,"file":..,"args":{..}} -> {"digest":..} | {"found": false} | {"digest": "EXC:.."}"""
    import importlib
    from midgard.dev import plugins
    from midgard.dev.exceptions import UnknownPluginError
    out = []
    for o in job["ops"]:
        kind = o["op"]
        try:
            with quiet():
                if kind == "names":
                    out.append({"names": list(importlib.import_module(o["pkg"]).names())})
                elif kind == "exists":
                    out.append({"found": bool(plugins.exists(o["pkg"], o["name"]))})
                elif kind == "get":
                    plug = plugins.get(o["pkg"], o["name"])
                    out.append({"found": callable(plug.function)})
                elif kind == "load":
                    out.append({"found": plugins.load(o["pkg"], o["name"]) == o["name"]})
                elif kind == "parse_file":
                    try:
                        importlib.import_module("midgard.parsers")
                        plugins.load("midgard.parsers", o["parser"])
                    except UnknownPluginError:
                        out.append({"found": False})
                        continue
                    rec = run_ops([dict(o, i=0)])[0]
                    out.append({"digest": rec["digest"], "exc": rec.get("exc")})
                else:
                    raise ValueError(kind)
        except UnknownPluginError:
            out.append({"found": False})
        except BaseException as e:  # noqa
            if isinstance(e, KeyboardInterrupt):
                raise
            out.append({"other": f"{type(e).__name__}: {str(e)[:200]}"})
    return out


def main():
    mode = sys.argv[1]
    job = json.loads(sys.argv[2]) if len(sys.argv) > 2 and sys.argv[2] != "-" else json.loads(sys.stdin.read())
    import warnings
    warnings.simplefilter("ignore")
    if mode == "fresh":
        res = run_ops(list(job.get("prepare") or [])
                      + [dict(op="parse_file", i=0, parser=job["parser"], file=job["file"], args=job.get("args"))])[0]
    elif mode == "history":
        res = run_ops(job["ops"])
    elif mode == "resolve":
        res = run_resolve(job)
    elif mode == "headers":
        res = run_headers(job)
    elif mode == "plugins":
        res = plugin_tables(job.get("example_dir"))
    else:
        raise SystemExit(2)
    sys.stdout.write("\n@@C16@@" + json.dumps(res) + "\n")


if __name__ == "__main__":
    main()
