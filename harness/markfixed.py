"""usage: markfixed.py Cxx finding_id commit  -> flips the entry to status fixed and records the 'fixed:' line."""
import json, sys
prop, fid, commit = sys.argv[1:4]
p = f"/verif/known_findings/{prop}.json"
d = json.load(open(p))
hit = False
for e in d["findings"]:
    if e["id"] == fid:
        e["status"] = "fixed"; e["commit"] = commit
        e["line"] = f"fixed: property={prop} {commit} {e.get('what','')}"
        hit = True
assert hit, f"{fid} not in {p}"
json.dump(d, open(p, "w"), indent=1)
print("fixed", prop, fid, commit)
