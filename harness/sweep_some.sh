#!/bin/sh
# usage: harness/sweep_some.sh <seed> <tier> <jobs> Cxx ...   (like sweep_par.sh for a subset of the checks)
seed="$1"; tier="$2"; jobs="$3"; shift 3
/venv/bin/python run_check.py setup > sweep-setup.log 2>&1; tail -1 sweep-setup.log
for c in "$@"; do echo $c; done | xargs -P $jobs -I{} sh -c '
  t0=$(date +%s); VERIF_SEED='"$seed"' /venv/bin/python run_check.py {} '"$tier"' > sweep-{}-'"$seed"'-'"$tier"'.log 2>&1; rc=$?; t1=$(date +%s)
  echo "SWEEP seed='"$seed"' tier='"$tier"' {} rc=$rc wall=$((t1-t0))s viol=$(grep -c "^VIOLATION" sweep-{}-'"$seed"'-'"$tier"'.log) known=$(grep -c "^KNOWN-FINDING" sweep-{}-'"$seed"'-'"$tier"'.log)"'
