#!/bin/sh
# usage: seedbatch.sh Cxx tag   -> runs seedtest for /verif/seeded/_pending/Cxx-tag/{1,2,3} sequentially, writes results to /verif/work/seedres/Cxx-tag-n.json
p=$1; t=$2; mkdir -p /verif/work/seedres
for n in 1 2 3 4 5; do
  d=/verif/seeded/_pending/$p-$t/$n
  [ -d $d ] || continue
  /venv/bin/python /verif/harness/seedtest.py $d $p quick > /verif/work/seedres/$p-$t-$n.json 2>&1
done
