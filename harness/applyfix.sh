#!/bin/sh
# usage: applyfix.sh Cxx-n   -> applies /verif/fixes/Cxx-n.diff to /repo and commits with /verif/fixes/Cxx-n.msg
set -e
f=/verif/fixes/$1
cd /repo
git apply --3way "$f.diff" 2>/dev/null || git apply "$f.diff"
git add -A midgard
git commit -q -F "$f.msg"
git log --oneline | head -1
