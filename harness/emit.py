"""Python values -> Coq terms (text).  Floats are never rounded: an IEEE double is shipped as its exact
value m*2^e (`Dy m e`), see coq/theories/Lib/Dyadic.v."""
from __future__ import annotations

import math
from fractions import Fraction


def z(n) -> str:
    n = int(n)
    return f"({n})" if n < 0 else str(n)


def zs(n) -> str:
    """Z literal with explicit scope (for mixed nat/Z contexts)."""
    return f"({int(n)})%Z"


def nat(n) -> str:
    n = int(n)
    assert 0 <= n < 5000, "never write large nat literals"
    return f"{n}%nat"


def b(x) -> str:
    return "true" if x else "false"


def q(x) -> str:
    """Exact rational (Fraction, int, or float taken exactly) as a Coq Q literal."""
    f = Fraction(x)
    return f"(Qmake {z(f.numerator)} {f.denominator})"


def dy(x) -> str:
    """IEEE double -> `dy` (Lib/Dyadic.v)."""
    x = float(x)
    if math.isnan(x):
        return "DNaN"
    if math.isinf(x):
        return "(DInf true)" if x < 0 else "(DInf false)"
    if x == 0.0:
        return "(DZero true)" if math.copysign(1.0, x) < 0 else "(DZero false)"
    num, den = x.as_integer_ratio()
    e = -(den.bit_length() - 1)
    # normalise: odd mantissa
    while num % 2 == 0:
        num //= 2
        e += 1
    return f"(Dy {z(num)} {z(e)})"


def s(text: str) -> str:
    """Coq string literal. Printable ASCII goes in literally; anything else via explicit ascii codes."""
    if all(32 <= ord(c) < 127 for c in text):
        return '"' + text.replace('"', '""') + '"%string'
    parts = []
    buf = ""
    for c in text:
        if 32 <= ord(c) < 127:
            buf += c
        else:
            if buf:
                parts.append('"' + buf.replace('"', '""') + '"%string')
                buf = ""
            for byte in c.encode("utf8"):
                parts.append(f'(String (Ascii.ascii_of_nat {byte}) EmptyString)')
    if buf:
        parts.append('"' + buf.replace('"', '""') + '"%string')
    if not parts:
        return 'EmptyString'
    out = parts[-1]
    for p in reversed(parts[:-1]):
        out = f"(String.append {p} {out})"
    return out


def lst(items) -> str:
    items = list(items)
    return "[" + "; ".join(items) + "]"


def opt(x) -> str:
    return "None" if x is None else f"(Some {x})"


def pair(*xs) -> str:
    return "(" + ", ".join(xs) + ")"


def shard_terms(fn: str, cases, size=400):
    """Split a list of case terms into shard terms `map fn [c1; c2; ...]` of at most `size` cases."""
    cases = list(cases)
    out = []
    for i in range(0, len(cases), size):
        out.append(f"List.map {fn} " + lst(cases[i:i + size]))
    return out


def flatten_verdicts(vs, n):
    """Concatenate shard verdict lists; returns None if any shard failed or the count is off."""
    flat = []
    for v in vs:
        if v is None:
            return None
        flat.extend(v)
    if len(flat) != n:
        return None
    return flat
