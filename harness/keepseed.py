"""Keep a confirmed seeded change: /verif/seeded/<prop>-<tag><n>/ {patch.diff, demo.py, meta.json}.
usage: keepseed.py <seed_dir> <prop> <name> <caught:yes|no|partial> "<which check/what it reported>" """
import json, os, shutil, sys
seed, prop, name, caught, note = sys.argv[1:6]
dst = f"/verif/seeded/{name}"
os.makedirs(dst, exist_ok=True)
for f in ("patch.diff", "demo.py"):
    shutil.copy(os.path.join(seed, f), os.path.join(dst, f))
meta = json.load(open(os.path.join(seed, "meta.json")))
meta["property"] = prop
meta["confirmed_by_coordinator"] = {
    "how": "harness/seedtest.py in a scratch worktree of /repo HEAD: demo.py exits 0 on the clean tree and non-zero with the patch; pinned test suite (474 stable passes) still passes with the patch; then `run_check.py %s quick` with VERIF_REPO=<worktree>" % prop,
    "caught_by_check": caught, "check_report": note}
json.dump(meta, open(os.path.join(dst, "meta.json"), "w"), indent=1)
print("kept", dst)
