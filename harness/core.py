"""Shared machinery of the /verif checks (see DESIGN.md section 2).

One `Ctx` per run of one property.  It knows how to

  * regenerate `coq/theories/Gen/*.v` from the current source tree (`regen`),
  * (re)build the Coq development up to `Props/Cxx.vo` and collect the `Print Assumptions`
    output (`prove`),
  * evaluate model-vs-implementation case shards inside Coq with `vm_compute` (`coq_cases`),
  * classify disagreements against `known_findings/Cxx.json` (`finding`), report violations
    with a replay file (`violation`), and write the evidence file (`finish`).

Nothing here decides a property; drivers under harness/drivers do.
"""
from __future__ import annotations

import fcntl
import glob
import hashlib
import json
import os
import random
import re
import shutil
import subprocess
import sys
import time
from concurrent.futures import ThreadPoolExecutor

VERIF = os.path.dirname(os.path.dirname(os.path.abspath(__file__)))
REPO = os.environ.get("VERIF_REPO", "/repo")
COQ = os.environ.get("VERIF_COQ") or os.path.join(VERIF, "coq")   # VERIF_COQ: private copy of the Coq tree for scratch runs
THEORIES = os.path.join(COQ, "theories")
GEN = os.path.join(THEORIES, "Gen")
NCPU = int(os.environ.get("VERIF_JOBS", "16"))

FORBIDDEN = re.compile(
    r"\b(Admitted|admit|Axiom|Axioms|Parameter|Parameters|Conjecture|Conjectures|Hypothesis|Hypotheses|Variable|Variables|Context)\b"
    r"|Unset\s+Guard|bypass_check|type-in-type|Admit\s+Obligations|impredicative-set|Unset\s+Universe\s+Checking"
    r"|Unset\s+Positivity"
)


def sh(cmd, timeout=None, cwd=None, env=None):
    """Run a shell command, return (rc, combined output)."""
    try:
        p = subprocess.run(
            cmd, shell=isinstance(cmd, str), cwd=cwd, env=env, timeout=timeout,
            stdout=subprocess.PIPE, stderr=subprocess.STDOUT, text=True, errors="replace",
        )
        return p.returncode, p.stdout
    except subprocess.TimeoutExpired as e:
        out = e.stdout if isinstance(e.stdout, str) else (e.stdout or b"").decode("utf8", "replace")
        return 124, (out or "") + f"\n[timeout after {timeout}s]"


class Lock:
    """flock around everything that touches coq/ build products."""

    def __init__(self, path=os.path.join(COQ, ".lock")):
        self.path = path

    def __enter__(self):
        self.f = open(self.path, "w")
        fcntl.flock(self.f, fcntl.LOCK_EX)
        return self

    def __exit__(self, *a):
        fcntl.flock(self.f, fcntl.LOCK_UN)
        self.f.close()


def scan_forbidden(paths=None):
    """Return list of 'file:line: text' for forbidden declarations in the Coq sources.

    Section-local `Variable`/`Hypothesis` are allowed only between `Section` and `End`; we track
    that textually (fail-closed: anything we cannot classify is reported)."""
    hits = []
    if paths is None:
        paths = sorted(glob.glob(os.path.join(THEORIES, "**", "*.v"), recursive=True))
    for p in paths:
        depth = 0
        in_comment = 0
        try:
            lines = open(p, encoding="utf8").read().split("\n")
        except OSError:
            continue
        for n, raw in enumerate(lines, 1):
            # strip comments (nested) crudely but conservatively
            line = ""
            i = 0
            while i < len(raw):
                if raw.startswith("(*", i):
                    in_comment += 1
                    i += 2
                elif raw.startswith("*)", i) and in_comment:
                    in_comment -= 1
                    i += 2
                else:
                    if not in_comment:
                        line += raw[i]
                    i += 1
            if re.match(r"\s*(Section|Module\s+Type)\b", line):
                depth += 1
            if re.match(r"\s*End\b", line) and depth:
                depth -= 1
            for m in FORBIDDEN.finditer(line):
                w = m.group(0)
                if w in ("Variable", "Variables", "Hypothesis", "Hypotheses", "Context") and depth > 0:
                    continue
                hits.append(f"{os.path.relpath(p, VERIF)}:{n}: {raw.strip()[:120]}")
    return hits


def all_v_files():
    fs = sorted(glob.glob(os.path.join(THEORIES, "**", "*.v"), recursive=True))
    return [os.path.relpath(f, COQ) for f in fs]


def refresh_makefile():
    """(Re)write _CoqProject and the coq_makefile Makefile when the file list changed."""
    files = all_v_files()
    text = "-Q theories Verif\n-arg -w -arg -notation-overridden,-deprecated-hint-without-locality,-deprecated-instance-without-locality,-deprecated-hint-rewrite-without-locality\n" + "\n".join(files) + "\n"
    cp = os.path.join(COQ, "_CoqProject")
    old = open(cp).read() if os.path.exists(cp) else None
    if old != text or not os.path.exists(os.path.join(COQ, "Makefile")):
        with open(cp, "w") as f:
            f.write(text)
        rc, out = sh("coq_makefile -f _CoqProject -o Makefile", cwd=COQ, timeout=120)
        if rc != 0:
            raise RuntimeError("coq_makefile failed:\n" + out)


def make_all(args, timeout=7000, jobs=NCPU):
    """Full project build through coq_makefile + make (used by setup only; global lock)."""
    with Lock():
        refresh_makefile()
        t = " ".join(args)
        rc, out = sh(f"timeout {timeout} make -j{jobs} {t} 2>&1", cwd=COQ, timeout=timeout + 30)
    return rc == 0, out


COQFLAGS = "-Q theories Verif -w -notation-overridden,-deprecated-hint-without-locality,-deprecated-instance-without-locality,-deprecated-hint-rewrite-without-locality"


def _coqdep():
    """Dependency graph of all .v files: {rel .v path: [rel .v paths it requires]} (pure read, ~1 s)."""
    files = all_v_files()
    rc, out = sh("coqdep -Q theories Verif " + " ".join(files) + " 2>/dev/null", cwd=COQ, timeout=300)
    deps = {f: [] for f in files}
    fs = set(files)
    for line in out.split("\n"):
        if ".vo" not in line or ":" not in line:
            continue
        lhs, rhs = line.split(":", 1)
        tgt = lhs.split()[0]
        if not tgt.endswith(".vo"):
            continue
        v = tgt[:-1]
        if v not in fs:
            continue
        for d in rhs.split():
            if d.endswith(".vo") and d[:-1] in fs and d[:-1] != v:
                deps[v].append(d[:-1])
    return deps


class CpuSlot:
    """Machine-wide semaphore (NCPU+4 flock slots) around each coqc of a correspondence shard, so that several checks
    running at once (parallel development, parallel mutant testing) do not oversubscribe the cores."""

    def __enter__(self):
        d = os.path.join(VERIF, "coq", ".locks")      # machine-wide also for runs on a private copy of the Coq tree (VERIF_COQ)
        os.makedirs(d, exist_ok=True)
        n = NCPU + 4
        start = random.randrange(n)
        while True:
            for k in range(n):
                f = open(os.path.join(d, f"slot{(start + k) % n}"), "w")
                try:
                    fcntl.flock(f, fcntl.LOCK_EX | fcntl.LOCK_NB)
                    self.f = f
                    return self
                except OSError:
                    f.close()
            time.sleep(0.2)

    def __exit__(self, *a):
        fcntl.flock(self.f, fcntl.LOCK_UN)
        self.f.close()


class FileLock:
    """Per-file flock so that two runs never compile the same .v at the same time."""

    def __init__(self, rel):
        d = os.path.join(COQ, ".locks")
        os.makedirs(d, exist_ok=True)
        self.path = os.path.join(d, rel.replace("/", "__") + ".lock")

    def __enter__(self):
        self.f = open(self.path, "w")
        fcntl.flock(self.f, fcntl.LOCK_EX)
        return self

    def __exit__(self, *a):
        fcntl.flock(self.f, fcntl.LOCK_UN)
        self.f.close()


def _mtime(p):
    try:
        return os.stat(p).st_mtime_ns
    except OSError:
        return None


def make(targets, timeout=3000, jobs=NCPU):
    """Bring the given .vo targets (paths relative to coq/, e.g. theories/Props/C18.vo) up to date:
    coqdep for the graph, then coqc (full .vo, never -vos) on every out-of-date file below the targets, in
    dependency order, independent files in parallel.  No global lock: runs for different properties do not
    wait for each other; a per-file lock prevents double compilation.  Returns (ok, log)."""
    t_end = time.time() + timeout
    deps = _coqdep()
    want = []
    for t in targets:
        v = t[:-1] if t.endswith(".vo") else t
        if v not in deps:
            return False, f"[verif] unknown target {t}"
        want.append(v)
    # transitive closure
    need, stack = set(), list(want)
    while stack:
        v = stack.pop()
        if v in need:
            continue
        need.add(v)
        stack.extend(deps[v])
    log = []
    done = {}      # v -> True (ok) / False (failed)
    rebuilt = set()

    def build_one(v):
        vo = os.path.join(COQ, v + "o")
        src = os.path.join(COQ, v)
        with FileLock(v):
            mvo = _mtime(vo)
            stale = mvo is None or mvo < _mtime(src) or any(
                (_mtime(os.path.join(COQ, d + "o")) or 0) > mvo for d in deps[v]) or any(d in rebuilt for d in deps[v])
            if not stale:
                return True, ""
            left = max(30, int(t_end - time.time()))
            rc, out = sh(f"timeout {left} coqc {COQFLAGS} {v}", cwd=COQ, timeout=left + 30)
            if rc != 0:
                try:
                    os.remove(vo)
                except OSError:
                    pass
                return False, f"coqc {v} failed (rc={rc}):\n{out[-6000:]}"
            rebuilt.add(v)
            return True, out

    remaining = set(need)
    with ThreadPoolExecutor(max_workers=jobs) as ex:
        while remaining:
            ready = [v for v in remaining if all(d in done for d in deps[v])]
            if not ready:
                return False, "[verif] dependency cycle among " + ", ".join(sorted(remaining))
            blocked = [v for v in ready if any(done[d] is False for d in deps[v])]
            for v in blocked:
                done[v] = False
                remaining.discard(v)
            ready = [v for v in ready if v not in blocked]
            for v, (ok, out) in zip(ready, ex.map(build_one, ready)):
                done[v] = ok
                remaining.discard(v)
                if out.strip():
                    log.append(out)
    ok = all(done.get(v) for v in want)
    return ok, "\n".join(log)


def write_if_changed(path, text):
    os.makedirs(os.path.dirname(path), exist_ok=True)
    old = None
    if os.path.exists(path):
        with open(path, encoding="utf8") as f:
            old = f.read()
    if old != text:
        with open(path, "w", encoding="utf8") as f:
            f.write(text)
        return True
    return False


_VERDICT_RE = re.compile(r"=\s*\[(.*?)\]\s*:\s*list\s+Z", re.S)


def parse_verdicts(out):
    """Parse the (single) `Eval vm_compute in (... : list Z)` output of a shard."""
    m = _VERDICT_RE.search(out)
    if not m:
        if re.search(r"=\s*\[\s*\]\s*:\s*list Z", out):
            return []
        return None
    body = m.group(1).strip()
    if not body:
        return []
    vals = []
    for tok in body.split(";"):
        tok = tok.strip().replace("%Z", "").replace("(", "").replace(")", "")
        vals.append(int(tok))
    return vals


class Violation(Exception):
    pass


class Ctx:
    def __init__(self, prop, tier, seed):
        self.prop = prop
        self.tier = tier
        self.seed = seed
        self.rng = random.Random(seed)
        self.t0 = time.time()
        self.work = os.path.join(VERIF, "work", f"{prop}-{tier}-{os.getpid()}")
        shutil.rmtree(self.work, ignore_errors=True)
        os.makedirs(self.work, exist_ok=True)
        self.replays = os.path.join(VERIF, "work", "replays")
        os.makedirs(self.replays, exist_ok=True)
        self.violations = []          # (replay_path, found_input)
        self.known_printed = []       # finding ids printed
        self.obligations = []         # theorem names
        self.discharged = []
        self.assumptions = {}         # theorem -> text
        self.coverage = {}
        self.trusted = []
        self.assume = []
        self.notes = []
        self.evaluations = 0
        self.nontrivial = set()
        self.samples = []
        self.hist = {}
        self.checker_cmd = ""
        kf = os.path.join(VERIF, "known_findings", f"{prop}.json")
        self.known = []
        if os.path.exists(kf):
            self.known = json.load(open(kf)).get("findings", [])
        self.proof_ok = None
        self.proof_log = ""

    # ------------------------------------------------------------------ bookkeeping
    def quick(self):
        return self.tier == "quick"

    def count(self, key, n=1):
        self.hist[key] = self.hist.get(key, 0) + n

    def case(self, canon, nontrivial=True, sample=None):
        """Register one evaluated case; `canon` is any hashable canonical form."""
        self.evaluations += 1
        if nontrivial:
            h = hashlib.sha1(repr(canon).encode()).hexdigest()[:16]
            self.nontrivial.add(h)
        if sample is not None and len(self.samples) < 6:
            self.samples.append(sample)

    def log(self, *a):
        print(f"[{self.prop} {time.time()-self.t0:6.1f}s]", *a, flush=True)

    # ------------------------------------------------------------------ regeneration
    def regen(self, name, text):
        """Write coq/theories/Gen/<name>.v (only if changed). `name` must start with the property id
        or 'Shared_'."""
        assert name.startswith(self.prop + "_") or name.startswith("Shared_"), name
        header = f"(* GENERATED from the source tree under test by harness/drivers/{self.prop.lower()}.py on every run - do not edit, not committed *)\n"
        bad = FORBIDDEN.search(text)
        if bad:
            raise RuntimeError(f"generated file {name} contains forbidden token {bad.group(0)!r}")
        path = os.path.join(GEN, name + ".v")
        with FileLock(f"theories/Gen/{name}.v"):
            changed = write_if_changed(path, header + text)
        return changed

    # ------------------------------------------------------------------ proof obligations
    def prove(self, theorems, extra_targets=(), timeout=3000):
        """Build Props/<prop>.vo (and everything below it) from scratch-or-incrementally and record which
        of the named theorems were accepted by the kernel.  Returns True iff all were.

        `theorems`: names that must appear in the Print Assumptions output of Props/<prop>.v."""
        self.obligations = list(theorems)
        hits = scan_forbidden()
        if hits:
            self.proof_ok = False
            self.proof_log = "forbidden declarations:\n" + "\n".join(hits)
            self.log(self.proof_log)
            return False
        target = f"theories/Props/{self.prop}.vo"
        self.checker_cmd = (f"cd {COQ} && coqc -Q theories Verif <every out-of-date file below {target}, in coqdep order> && "
                            f"coqc -Q theories Verif theories/Props/{self.prop}.v   (full .vo compilation, coqc 8.16.1; "
                            "Print Assumptions under every theorem; whole project: coq_makefile + make in setup)")
        ok, out = make([target] + list(extra_targets), timeout=timeout)
        self.proof_log = out
        self.discharged = []
        if ok:
            # re-check the obligations file alone so that its Print Assumptions output is unambiguous
            with FileLock(f"theories/Props/{self.prop}.v"):
                rc, out2 = sh(f"timeout {timeout} coqc -Q theories Verif -w none theories/Props/{self.prop}.v",
                              cwd=COQ, timeout=timeout + 30)
            self.proof_log += "\n" + out2
            ok = rc == 0
            if ok:
                blocks = self._assumption_blocks(out2)
                for th in self.obligations:
                    if th in blocks:
                        self.discharged.append(th)
                        self.assumptions[th] = blocks[th]
                ok = len(self.discharged) == len(self.obligations)
                if not ok:
                    missing = [t for t in self.obligations if t not in self.discharged]
                    self.proof_log += "\n[verif] obligations without Print Assumptions output: " + ", ".join(missing)
        self.proof_ok = ok
        if not ok:
            self.log("PROOF BUILD FAILED; tail of log:\n" + "\n".join(self.proof_log.strip().split("\n")[-25:]))
        else:
            self.log(f"proof obligations: {len(self.discharged)}/{len(self.obligations)} accepted by coqc")
        return ok

    def _assumption_blocks(self, out):
        """Props files print `(*PA name*)` markers via `Print Assumptions name.` preceded by a
        `Check name.`-free convention: we rely on coqc echoing nothing but the assumptions, so the
        Props file uses  `Print Assumptions foo.`  and we re-read the file to get the order."""
        src = open(os.path.join(THEORIES, "Props", f"{self.prop}.v"), encoding="utf8").read()
        names = re.findall(r"Print\s+Assumptions\s+([A-Za-z0-9_'.]+)\s*\.", src)
        # split coqc output into assumption reports, in order: a report starts at "Closed under the global context"
        # or "Axioms:" and runs to the next such line (axiom statements may span several lines)
        reports = []
        cur = None
        for line in out.split("\n"):
            if line.startswith("Closed under the global context"):
                reports.append("closed")
                cur = None
            elif line.startswith("Axioms:"):
                cur = [line]
                reports.append(cur)
            elif cur is not None:
                if line.strip():
                    cur.append(line)
        res = {}
        if len(reports) == len(names):
            for n, r in zip(names, reports):
                res[n.split(".")[-1]] = r if isinstance(r, str) else "\n".join(r)
        return res

    # ------------------------------------------------------------------ running the model inside Coq
    def coq_cases(self, shards, requires, timeout=900):
        """Evaluate shards inside Coq.

        `shards`: list of strings, each a Coq *term* of type `list Z` (verdict codes, one per case, in
        order; 0 = model and implementation agree; other codes are driver-specific).
        `requires`: the `From Verif Require Import ...` line(s) the shard needs.
        Returns list of verdict lists (None for a shard that failed to evaluate, with .last_coq_errors)."""
        paths = []
        for i, term in enumerate(shards):
            p = os.path.join(self.work, f"cases_{i:04d}.v")
            with open(p, "w", encoding="utf8") as f:
                f.write("From Coq Require Import ZArith List String QArith.\nImport ListNotations.\n")
                f.write(requires + "\n")
                f.write("Open Scope Z_scope.\n")
                f.write("Definition verdicts : list Z :=\n" + term + ".\n")
                f.write("Eval vm_compute in verdicts.\n")
            paths.append(p)
        self.last_coq_errors = []

        def run(p, tmo=timeout):
            with CpuSlot():
                rc, out = sh(
                    f"ulimit -s unlimited 2>/dev/null; timeout {tmo} coqc -Q {THEORIES} Verif -w none {p}",
                    timeout=tmo + 30, cwd=self.work,
                )
            if rc != 0:
                return None, f"[rc={rc}] " + out
            return parse_verdicts(out), out

        with ThreadPoolExecutor(max_workers=NCPU) as ex:
            results = list(ex.map(run, paths))
        # a shard that was killed or ran out of time (overloaded machine) is evaluated once more, few at a time, with twice
        # the time; a shard that Coq rejected is not retried
        again = [i for i, (v, o) in enumerate(results) if v is None and o.startswith(("[rc=124]", "[rc=137]", "[rc=-9]"))]
        if again:
            self.log(f"{len(again)} Coq shard(s) killed / timed out, evaluating them once more")
            with ThreadPoolExecutor(max_workers=4) as ex:
                for i, r in zip(again, ex.map(lambda i: run(paths[i], 2 * timeout), again)):
                    results[i] = r
        out = []
        for p, (v, o) in zip(paths, results):
            if v is None:
                self.last_coq_errors.append((p, o[-3000:]))
            out.append(v)
        return out

    def coq_eval(self, requires, term, timeout=600):
        """Evaluate an arbitrary closed term with vm_compute; returns coqc's textual answer (for replays)."""
        p = os.path.join(self.work, f"eval_{len(os.listdir(self.work)):05d}.v")
        with open(p, "w", encoding="utf8") as f:
            f.write("From Coq Require Import ZArith List String QArith.\nImport ListNotations.\n" + requires + "\nOpen Scope Z_scope.\n")
            f.write("Eval vm_compute in (" + term + ").\n")
        rc, out = sh(f"ulimit -s unlimited 2>/dev/null; timeout {timeout} coqc -Q {THEORIES} Verif -w none {p}", timeout=timeout + 30, cwd=self.work)
        return out.strip()

    # ------------------------------------------------------------------ findings / violations
    def finding(self, fid, what, replay):
        """A disagreement with the specification that is explained by quirk `fid`.
        Known & open  -> KNOWN-FINDING line.  Otherwise -> violation."""
        for k in self.known:
            if k.get("id") == fid and k.get("status", "open") == "open":
                if fid not in self.known_printed:
                    self.known_printed.append(fid)
                    print(f"KNOWN-FINDING: property={self.prop} {k.get('what', what)}", flush=True)
                return True
        self.violation(replay, what=what)
        return False

    def violation(self, replay, what="", found=True):
        """Report a violation. `replay` is a JSON-serialisable dict."""
        replay = dict(replay)
        replay.setdefault("property", self.prop)
        replay.setdefault("what", what)
        replay.setdefault("seed", self.seed)
        replay.setdefault("tier", self.tier)
        replay.setdefault("repo", REPO)
        replay["failing_input_found"] = bool(found)
        blob = json.dumps(replay, indent=1, sort_keys=True, default=str)
        h = hashlib.sha1(blob.encode()).hexdigest()[:10]
        path = os.path.join(self.replays, f"{self.prop}-{h}.json")
        with open(path, "w") as f:
            f.write(blob)
        # at most a handful of lines per run
        if len(self.violations) < 5:
            tail = "" if found else " no-failing-input-found"
            print(f"VIOLATION property={self.prop} replay={path}{tail}", flush=True)
            if what:
                print(f"  ({what[:300]})", flush=True)
        self.violations.append((path, found))

    # ------------------------------------------------------------------ evidence
    def finish(self, level="proof", rule="", explanation="", extra=None):
        cov = {
            "obligations": len(self.obligations),
            "discharged": len(self.discharged),
            "obligation_names": self.obligations,
            "checker_cmd": self.checker_cmd or "n/a",
            "trusted_base": self.trusted + sorted({f"Print Assumptions {k}: {v.splitlines()[0] if v!='closed' else 'Closed under the global context'}" + ("" if v == "closed" else " " + "; ".join(l.strip() for l in v.splitlines()[1:])) for k, v in self.assumptions.items()}),
            "evaluations": self.evaluations,
            "distinct_nontrivial": len(self.nontrivial),
            "rule": rule,
            "samples": self.samples,
            "input_distribution": self.hist,
            "known_findings_printed": self.known_printed,
        }
        # every listed open finding gets its line, also when this run's inputs did not reach its class
        not_reached = []
        for k in self.known:
            if k.get("status", "open") == "open" and k.get("id") not in self.known_printed:
                not_reached.append(k.get("id"))
                print(f"KNOWN-FINDING: property={self.prop} {k.get('what', k.get('id'))} [listed; its class was not reached by the inputs of this run]", flush=True)
        cov["known_findings_listed_not_reached"] = not_reached
        if explanation:
            cov["explanation"] = explanation
        if extra:
            cov.update(extra)
        ev = {
            "property_id": self.prop,
            "tier": self.tier,
            "seed": self.seed,
            "level": level,
            "coverage": cov,
            "assumptions": self.assume,
            "wall_s": round(time.time() - self.t0, 2),
            "violations": len(self.violations),
            "repo": REPO,
        }
        os.makedirs(os.path.join(VERIF, "evidence"), exist_ok=True)
        dev_run = level == "proof" and not self.obligations      # a driver's development switch skipped the proof step
        if REPO == "/repo" and not dev_run:
            with open(os.path.join(VERIF, "evidence", f"{self.prop}.json"), "w") as f:
                json.dump(ev, f, indent=1, sort_keys=True, default=str)
        else:
            with open(os.path.join(self.work, f"evidence-{self.prop}.json"), "w") as f:
                json.dump(ev, f, indent=1, sort_keys=True, default=str)
        if not os.environ.get("VERIF_KEEP_WORK") and not self.violations:
            shutil.rmtree(self.work, ignore_errors=True)
        self.log(f"done: evaluations={self.evaluations} distinct_nontrivial={len(self.nontrivial)} "
                 f"obligations={len(self.discharged)}/{len(self.obligations)} violations={len(self.violations)} "
                 f"known={self.known_printed}")
        return 1 if self.violations else 0

    def obligations_broken(self, search):
        """Protocol of DESIGN 2.6 when prove() failed: `search()` looks for a concrete failing input
        (returns a replay dict or None)."""
        rep = None
        try:
            rep = search()
        except Exception as e:  # the search itself must never mask the broken obligation
            self.notes.append(f"search raised {type(e).__name__}: {e}")
        if rep:
            rep.setdefault("broken_obligation_log_tail", self.proof_log[-2000:])
            self.violation(rep, what=rep.get("what", "proof obligation broken and failing input found"), found=True)
        else:
            self.violation(
                {"broken": f"theorems of coq/theories/Props/{self.prop}.v no longer check",
                 "obligations": self.obligations, "discharged": self.discharged,
                 "log_tail": self.proof_log[-4000:], "notes": self.notes},
                what="proof obligation no longer checks", found=False)
