#!/bin/sh
# usage (from a /verif checkout): harness/sweep_par.sh <seed> <tier> [jobs]  -> setup, then every check (jobs at a time); one summary line per check
seed="$1"; tier="${2:-thorough}"; jobs="${3:-3}"
/venv/bin/python run_check.py setup > sweep-setup.log 2>&1; tail -1 sweep-setup.log
for c in C08 C19 C16 C03 C10 C01 C17 C09 C20 C04 C12 C13 C05 C14 C11 C15 C06 C07 C02 C18; do echo $c; done | xargs -P $jobs -I{} sh -c '
  t0=$(date +%s); VERIF_SEED='"$seed"' /venv/bin/python run_check.py {} '"$tier"' > sweep-{}-'"$seed"'-'"$tier"'.log 2>&1; rc=$?; t1=$(date +%s)
  echo "SWEEP seed='"$seed"' tier='"$tier"' {} rc=$rc wall=$((t1-t0))s viol=$(grep -c "^VIOLATION" sweep-{}-'"$seed"'-'"$tier"'.log) known=$(grep -c "^KNOWN-FINDING" sweep-{}-'"$seed"'-'"$tier"'.log)"'
