"""Regression: run every kept seed (seeded/<name>/) again against the check that caught it, in scratch worktrees with a private copy
of the Coq tree (harness/seedtest.py), several at a time.

usage: /venv/bin/python harness/regress_seeds.py [--only C04,C08] [--workers N] [--baseline]
Writes work/regress/<name>.json and prints one line per seed; exit 0 iff every seed is still confirmed and caught."""
import glob, json, os, re, subprocess, sys
from concurrent.futures import ThreadPoolExecutor

OUT = "/verif/work/regress"


def one(task):
    name, d, props, baseline = task
    res = {"name": name, "tried": {}}
    ok = False
    for q in props:
        cmd = ["/venv/bin/python", "/verif/harness/seedtest.py", d, q, "quick"] + ([] if baseline else ["--no-baseline"])
        p = subprocess.run(cmd, stdout=subprocess.PIPE, stderr=subprocess.STDOUT, text=True)
        try:
            r = json.loads(p.stdout[p.stdout.index("{"):])
        except Exception:
            r = {"error": p.stdout[-600:]}
        res["tried"][q] = {k: r.get(k) for k in ("confirmed", "caught", "apply_rc", "demo_clean_rc", "demo_patched_rc", "check_rc", "check_lines", "error")}
        if r.get("confirmed") and r.get("caught"):
            ok = True
            res["caught_by"] = q
            break
    res["ok"] = ok
    json.dump(res, open(os.path.join(OUT, name + ".json"), "w"), indent=1)
    print(name, "ok (" + res["caught_by"] + ")" if ok else "NOT OK " + json.dumps({q: (t.get("confirmed"), t.get("caught"), t.get("apply_rc")) for q, t in res["tried"].items()}), flush=True)
    return ok


def main():
    os.makedirs(OUT, exist_ok=True)
    only = sys.argv[sys.argv.index("--only") + 1].split(",") if "--only" in sys.argv else None
    workers = int(sys.argv[sys.argv.index("--workers") + 1]) if "--workers" in sys.argv else 8
    baseline = "--baseline" in sys.argv
    tasks = []
    for m in sorted(glob.glob("/verif/seeded/C*/meta.json")):
        d = os.path.dirname(m)
        name = os.path.basename(d)
        j = json.load(open(m))
        own = j.get("property") or name.split("-")[0]
        cb = [x for x in re.findall(r"C\d\d", j.get("confirmed_by_coordinator", {}).get("caught_by_check", ""))]
        props = cb + ([own] if own not in cb else [])
        if only and not (set(props) & set(only)):
            continue
        tasks.append((name, d, props, baseline))
    tasks.sort(key=lambda t: (t[0][4:], t[0]))
    with ThreadPoolExecutor(max_workers=workers) as ex:
        oks = list(ex.map(one, tasks))
    print(f"{sum(oks)} of {len(oks)} seeds still confirmed and caught")
    return 0 if all(oks) else 1


if __name__ == "__main__":
    sys.exit(main())
