"""Summarise work/coqchk/Cxx.log (coqchk -o per Props file) into trusted_base/coqchk.json and coqchk.md."""
import glob, json, os, re
fam = [("primitive 63-bit integers (PrimInt63 / Uint63 axioms of the standard library)", re.compile(r"Int63|Uint63")),
       ("primitive floats (PrimFloat / FloatAxioms of the standard library)", re.compile(r"Floats\.")),
       ("real numbers (ClassicalDedekindReals.sig_forall_dec, sig_not_dec)", re.compile(r"ClassicalDedekindReals")),
       ("functional extensionality (FunctionalExtensionality.functional_extensionality_dep)", re.compile(r"functional_extensionality")),
       ("excluded middle (Classical_Prop.classic)", re.compile(r"Classical_Prop\.classic")),
       ("other", re.compile(r"."))]
out = {}
for f in sorted(glob.glob("/verif/work/coqchk/C??.log")):
    pid = os.path.basename(f)[:3]
    s = open(f, errors="replace").read()
    if "CONTEXT SUMMARY" not in s:
        out[pid] = {"status": "not completed", "tail": s[-300:]}
        continue
    blk = s[s.index("CONTEXT SUMMARY"):]
    def section(title):
        m = re.search(r"\* " + re.escape(title) + r":(.*?)(?=\n\* |\Z)", blk, re.S)
        t = (m.group(1) if m else "").strip()
        return [] if t in ("", "<none>") else [x.strip() for x in t.split("\n") if x.strip()]
    ax = section("Axioms")
    fams = {}
    for a in ax:
        for name, rx in fam:
            if rx.search(a):
                fams.setdefault(name, []).append(a)
                break
    out[pid] = {"status": "checked", "axioms_total": len(ax), "axiom_families": {k: len(v) for k, v in fams.items()},
                "other_axioms": fams.get("other", []),
                "type_in_type": section("Constants/Inductives relying on type-in-type"),
                "unsafe_fixpoints": section("Constants/Inductives relying on unsafe (co)fixpoints"),
                "assumed_positivity": section("Inductives whose positivity is assumed")}
os.makedirs("/verif/trusted_base", exist_ok=True)
json.dump(out, open("/verif/trusted_base/coqchk.json", "w"), indent=1)
lines = ["# coqchk -o over every Props file (independent re-check of the compiled development and all it loads)", "",
         "`coqchk` lists the axioms of every library that is *loaded*, whether or not a property theorem depends on them; the per-theorem",
         "dependencies are the `Print Assumptions` outputs in `evidence/Cxx.json`.", "",
         "| Props file | status | axioms (by family) | type-in-type / unsafe fixpoints / assumed positivity |", "|---|---|---|---|"]
for pid, r in out.items():
    if r["status"] != "checked":
        lines.append(f"| {pid} | {r['status']} | | |")
        continue
    fa = "; ".join(f"{n}: {c}" for n, c in r["axiom_families"].items()) or "none"
    bad = len(r["type_in_type"]) + len(r["unsafe_fixpoints"]) + len(r["assumed_positivity"])
    lines.append(f"| {pid} | checked | {fa} | {'none' if not bad else bad} |")
open("/verif/trusted_base/coqchk.md", "w").write("\n".join(lines) + "\n")
print("\n".join(lines))
