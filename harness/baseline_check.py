"""Run the repository's pinned test suite (command of /root/.vp/BASELINE.json) on a tree and compare with stable_pass.
usage: /venv/bin/python harness/baseline_check.py [repo_dir]"""
import json, os, subprocess, sys, tempfile, xml.etree.ElementTree as ET
repo = sys.argv[1] if len(sys.argv) > 1 else "/repo"
base = json.load(open("/root/.vp/BASELINE.json"))
out = os.path.join("/verif/work", f"baseline.{os.getpid()}.junit.xml")
os.makedirs("/verif/work", exist_ok=True)
cmd = f"cd {repo} && /venv/bin/python -m pytest -ra -q -p no:cacheprovider --timeout=900 --continue-on-collection-errors --junitxml={out}"
env = dict(os.environ); env["PYTHONPATH"] = repo
env.pop("MIDGARD_VERIF", None)
subprocess.run(cmd, shell=True, env=env, stdout=subprocess.DEVNULL, stderr=subprocess.DEVNULL)
passed = set()
for tc in ET.parse(out).getroot().iter("testcase"):
    if not any(c.tag in ("failure", "error", "skipped") for c in tc):
        passed.add(f"{tc.get('classname')}::{tc.get('name')}")
want = set(base["stable_pass"])
missing = sorted(want - passed)
print(f"stable_pass={len(want)} passed_now={len(passed)} missing={len(missing)}")
for m in missing[:40]:
    print("  MISSING", m)
os.remove(out)
sys.exit(1 if missing else 0)
