"""Regenerate /verif/MANIFEST.json from the META dict of every driver (harness/drivers/cNN.py).
Properties without a driver are listed under not_applicable with the reason from NOT_APPLICABLE below
(or 'no check built yet')."""
import importlib
import json
import os
import subprocess

from harness import core
from harness.setup import drivers

NOT_APPLICABLE = {}


def main():
    props = [json.loads(l)["id"] for l in open(os.path.join(core.VERIF, "properties.jsonl")) if l.strip()]
    have = {d.upper(): importlib.import_module(f"harness.drivers.{d}") for d in drivers()}
    checks = []
    na = []
    for p in props:
        if p in have and getattr(have[p], "META", None) and not have[p].META.get("disabled"):
            m = have[p].META
            checks.append({
                "property_id": p,
                "quick_cmd": f"/venv/bin/python run_check.py {p} quick",
                "thorough_cmd": f"/venv/bin/python run_check.py {p} thorough",
                "evidence_file": f"/verif/evidence/{p}.json",
                "replay_cmd_template": f"/venv/bin/python run_check.py {p} replay {{path}}",
                "engine": "coq-model+correspondence",
                "level_claimed": {"category": m.get("level", "proof"), "text": m["level_text"], "design_ref": m.get("design_ref", "DESIGN.md")},
                "level_note": m["level_note"],
                "technique": m["technique"],
            })
        else:
            na.append({"property_id": p, "reason": NOT_APPLICABLE.get(p, "no check registered yet in this revision (work in progress, see DESIGN.md section 4)")})
    hooks_commits = []
    man = {
        "version": 1,
        "setup_cmd": "/venv/bin/python run_check.py setup",
        "hooks": {
            "guard": "MIDGARD_VERIF",
            "enable": "no source hooks are needed: the checks import midgard from /repo (PYTHONPATH=/repo) and observe public API / reflection only; MIDGARD_VERIF=1 is set by run_check.py but nothing in /repo reads it",
            "baseline_off_cmd": "cd /repo && /venv/bin/python -m pytest -ra -q -p no:cacheprovider --timeout=900 --continue-on-collection-errors",
            "source_commits": hooks_commits,
            "add_only": True,
        },
        "engines": [{
            "name": "coq-model+correspondence",
            "path": "/verif/run_check.py",
            "serves_properties": [c["property_id"] for c in checks],
            "kind_free_text": "Coq 8.16 theorems over executable Gallina models (coq/theories), tables regenerated from /repo into coq/theories/Gen on every run, and a correspondence check that runs midgard and evaluates the model on the same inputs inside Coq with vm_compute (harness/)",
        }],
        "checks": checks,
        "not_applicable": na,
        "notes": "Repairs of genuine defects are 'fix:' commits in /repo, listed per property in /verif/known_findings/<id>.json (status fixed/open). DESIGN.md describes approach, trusted base and which seeded changes each check catches.",
    }
    with open(os.path.join(core.VERIF, "MANIFEST.json"), "w") as f:
        json.dump(man, f, indent=1)
    print(f"MANIFEST.json: {len(checks)} checks, {len(na)} not_applicable")
    return 0
