"""MANIFEST.setup_cmd: regenerate every Gen/*.v from the current /repo, build the whole Coq
development with coq_makefile + make (full .vo), scan for forbidden declarations."""
import glob
import importlib
import os
import sys
import time

from harness import core


def drivers():
    out = []
    for p in sorted(glob.glob(os.path.join(core.VERIF, "harness", "drivers", "c[0-9][0-9].py"))):
        out.append(os.path.basename(p)[:-3])
    return out


def main():
    t0 = time.time()
    os.makedirs(core.GEN, exist_ok=True)
    rc = 0
    for d in drivers():
        mod = importlib.import_module(f"harness.drivers.{d}")
        if hasattr(mod, "regen"):
            ctx = core.Ctx(d.upper(), "quick", 0)
            try:
                mod.regen(ctx)
                print(f"[setup] regenerated Gen files of {d.upper()}")
            except Exception as e:
                # a table that can no longer be extracted is reported by the property's own check
                print(f"[setup] WARNING regen of {d.upper()} failed: {type(e).__name__}: {e}")
            import shutil
            shutil.rmtree(ctx.work, ignore_errors=True)
    hits = core.scan_forbidden()
    if hits:
        print("[setup] forbidden declarations in the Coq sources:\n" + "\n".join(hits))
        rc = 1
    ok, out = core.make_all(["all"], timeout=7000)
    tail = "\n".join(out.strip().split("\n")[-15:])
    if not ok:
        # one broken file must not stop the others from being built: -k, then report
        ok2, out2 = core.make_all(["-k", "all"], timeout=7000)
        print("[setup] make failed (tail):\n" + "\n".join(out2.strip().split("\n")[-40:]))
        print("[setup] (each property's own check reports its broken obligations; setup continues)")
    print(f"[setup] done in {time.time()-t0:.0f}s")
    return rc


if __name__ == "__main__":
    sys.exit(main())
