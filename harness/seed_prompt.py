"""Print the prompt for an independent 'seeding' sub-agent for one property (only the property text, a scratch worktree)."""
import json, sys, subprocess, os
pid = sys.argv[1]; tag = sys.argv[2] if len(sys.argv) > 2 else "a"
p = next(json.loads(l) for l in open("/verif/properties.jsonl") if json.loads(l)["id"] == pid)
wt = f"/tmp/seed-{pid}-{tag}"
if not os.path.exists(wt):
    subprocess.run(["git", "-C", "/repo", "worktree", "add", "--detach", wt, "HEAD"], check=True, stdout=subprocess.DEVNULL, stderr=subprocess.DEVNULL)
extra = sys.argv[3] if len(sys.argv) > 3 else ""
print(f"""You are testing how well a semantic property of the Python library kartverket/midgard (a geodesy utility library: GNSS/geodetic file parsers, writers, time/position datatypes, coordinate math) is protected. You work ONLY in your own scratch git worktree of the repository at {wt} (already created; never touch /repo or /verif, do not read anything under /verif). Python: `/venv/bin/python` with `PYTHONPATH={wt}` (so that `import midgard` resolves to your worktree — check `midgard.__file__`). The existing test suite: `cd {wt} && PYTHONPATH={wt} /venv/bin/python -m pytest -q -p no:cacheprovider --timeout=900 tests` (a few tests needing network error out on the unmodified tree too — ignore those; everything that passes on the unmodified tree must still pass with your change).

The property:

id: {p['id']} — {p['title']}
statement: {p['statement']}
quantifier: {p['quantifier']['text']}
why the tests cannot settle it: {p['why_tests_cant']}
anchored in: {', '.join(p['anchors']['files'])}
mechanisms: {'; '.join(m['name'] + ' @ ' + m.get('where','') for m in p['anchors'].get('mechanism', []))}

Your task: produce {('THREE different' if not extra else extra)} realistic source changes to midgard (each a separate small patch against the unmodified worktree) that BREAK this property while the code still imports and the existing test suite still passes. Prefer changes that need something specific to manifest — an unusual but valid input, a boundary value, a multi-step sequence of operations, a particular ordering, two cooperating sites that each look fine alone — rather than ones that ordinary use would expose at once; the kind of bug a plausible refactoring, optimisation or "clean-up" could introduce. Each change must touch only files under midgard/ in the worktree (not tests).

For each change deliver, in the directory {wt}/SEEDS/<n>/ (n = 1, 2, 3):
  - patch.diff  : `git diff` of the change against the unmodified tree (apply-able with `git apply` from the repo root)
  - demo.py     : a small self-contained program (run as `PYTHONPATH=<repo root> /venv/bin/python demo.py`) that exits 0 on the unmodified tree and exits non-zero (assertion failure showing the wrong behaviour) with the change applied; it demonstrates the violation of the property as stated above
  - meta.json   : {{"property": "{p['id']}", "summary": "...", "needs_to_manifest": "...", "files_changed": [...], "tests_run": "...", "tests_result": "..."}}
Verify everything yourself: for each change, apply it to the clean worktree, run the full test suite (same set of passing tests as on the unmodified tree), run demo.py (must fail), revert (`git checkout -- .`), run demo.py again (must pass). Leave the worktree clean (only the untracked SEEDS directory) at the end. Final report: one paragraph per change (what, why it breaks the property, what it needs to manifest).""")
