#!/bin/sh
# usage (from a /verif checkout): harness/sweep.sh "<seeds>" <tier>   -> runs setup, then every check for every seed; prints one summary line per run
seeds="$1"; tier="${2:-quick}"
/venv/bin/python run_check.py setup > sweep-setup.log 2>&1; tail -2 sweep-setup.log
for s in $seeds; do
  for c in C01 C02 C03 C04 C05 C06 C07 C08 C09 C10 C11 C12 C13 C14 C15 C16 C17 C18 C19 C20; do
    t0=$(date +%s)
    VERIF_SEED=$s /venv/bin/python run_check.py $c $tier > sweep-$c-$s-$tier.log 2>&1; rc=$?
    t1=$(date +%s)
    echo "SWEEP seed=$s tier=$tier $c rc=$rc wall=$((t1-t0))s viol=$(grep -c '^VIOLATION' sweep-$c-$s-$tier.log) known=$(grep -c '^KNOWN-FINDING' sweep-$c-$s-$tier.log)"
  done
done
