"""Final sweep: run every pending seed against its own property's check (and, if missed, against related properties'
checks), then keep it under /verif/seeded/<name>/ with the outcome.

usage: /venv/bin/python harness/seedsweep.py [--only Cxx] [--workers N] [--no-baseline]
Runs of the same *check* property are serialised (they share Gen files); different properties run in parallel."""
import fcntl
import glob
import json
import os
import subprocess
import sys
from concurrent.futures import ThreadPoolExecutor

PENDING = "/verif/seeded/_pending"
RES = "/verif/work/seedres2"
RELATED = {"C01": ["C04", "C08"], "C02": ["C04", "C08", "C01"], "C03": ["C04"], "C04": ["C08"], "C06": ["C05", "C08"], "C07": ["C08"],
           "C05": ["C06", "C08"], "C09": ["C04", "C10"], "C10": ["C09"], "C11": ["C16"], "C12": ["C16"], "C13": ["C16"], "C14": ["C16"],
           "C15": ["C16"], "C16": ["C15", "C14"], "C17": ["C14"], "C08": ["C04", "C06"], "C20": [], "C18": [], "C19": []}


def run_one(seed_dir, prop, baseline):
    os.makedirs(RES, exist_ok=True)
    lock = open(f"/verif/work/seedres2/.lock-{prop}", "w")
    fcntl.flock(lock, fcntl.LOCK_EX)
    try:
        cmd = ["/venv/bin/python", "/verif/harness/seedtest.py", seed_dir, prop, "quick"] + ([] if baseline else ["--no-baseline"])
        p = subprocess.run(cmd, stdout=subprocess.PIPE, stderr=subprocess.STDOUT, text=True)
        try:
            return json.loads(p.stdout[p.stdout.index("{"):])
        except Exception:
            return {"error": p.stdout[-800:]}
    finally:
        fcntl.flock(lock, fcntl.LOCK_UN)
        lock.close()


def handle(args):
    name, seed_dir, prop, baseline = args
    out = {"name": name, "property": prop, "runs": {}}
    r = run_one(seed_dir, prop, baseline)
    out["runs"][prop] = {k: r.get(k) for k in ("confirmed", "caught", "apply_rc", "demo_clean_rc", "demo_patched_rc", "baseline", "check_rc", "check_lines", "error")}
    caught_by = [prop] if r.get("caught") and r.get("apply_rc") == 0 else []
    if not caught_by and r.get("apply_rc") == 0:
        for q in RELATED.get(prop, []):
            r2 = run_one(seed_dir, q, False)
            out["runs"][q] = {k: r2.get(k) for k in ("caught", "check_rc", "check_lines", "error")}
            if r2.get("caught"):
                caught_by.append(q)
                break
    out["confirmed"] = bool(r.get("confirmed"))
    out["caught_by"] = caught_by
    json.dump(out, open(os.path.join(RES, name + ".json"), "w"), indent=1)
    print(name, "confirmed" if out["confirmed"] else "UNCONFIRMED", "caught by", caught_by or "NONE", flush=True)
    return out


def main():
    only = None
    workers = 6
    baseline = "--no-baseline" not in sys.argv
    if "--only" in sys.argv:
        only = sys.argv[sys.argv.index("--only") + 1].split(",")
    tag = None
    if "--tag" in sys.argv:
        tag = sys.argv[sys.argv.index("--tag") + 1]
    names = None
    if "--names" in sys.argv:
        names = sys.argv[sys.argv.index("--names") + 1].split(",")
    if "--workers" in sys.argv:
        workers = int(sys.argv[sys.argv.index("--workers") + 1])
    tasks = []
    for d in sorted(glob.glob(os.path.join(PENDING, "*", "*"))):
        if not os.path.exists(os.path.join(d, "patch.diff")):
            continue
        grp = os.path.basename(os.path.dirname(d))          # C18-a
        prop = grp.split("-")[0]
        if only and prop not in only:
            continue
        if tag and not grp.endswith("-" + tag):
            continue
        name = f"{grp}{os.path.basename(d)}"                # C18-a1
        if names and name not in names:
            continue
        tasks.append((name, d, prop, baseline))
    # interleave properties so that workers do not all queue on one lock
    tasks.sort(key=lambda t: (t[0][-1], t[0]))
    with ThreadPoolExecutor(max_workers=workers) as ex:
        list(ex.map(handle, tasks))


if __name__ == "__main__":
    main()
