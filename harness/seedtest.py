"""Confirm a seeded change and run a property's check against it, in a scratch worktree (never /repo itself).

usage: /venv/bin/python harness/seedtest.py <seed_dir> <Cxx> [quick|thorough] [--no-baseline]
<seed_dir> contains patch.diff, demo.py (exit 0 on the clean tree, non-zero with the patch), meta.json.
Prints a JSON summary; exit 0 iff confirmed AND the check reported a VIOLATION."""
import json, os, subprocess, sys, shutil, hashlib

def sh(cmd, env=None, timeout=3600):
    p = subprocess.run(cmd, shell=True, stdout=subprocess.PIPE, stderr=subprocess.STDOUT, text=True, env=env, timeout=timeout, errors="replace")
    return p.returncode, p.stdout

def main():
    seed = os.path.abspath(sys.argv[1]); prop = sys.argv[2]
    tier = sys.argv[3] if len(sys.argv) > 3 and not sys.argv[3].startswith("--") else "quick"
    nobase = "--no-baseline" in sys.argv
    tag = hashlib.sha1(seed.encode()).hexdigest()[:8]
    wt = f"/tmp/st-{prop}-{tag}"
    sh(f"git -C /repo worktree remove --force {wt}")
    rc, out = sh(f"git -C /repo worktree add --detach {wt} HEAD")
    res = {"seed": seed, "property": prop, "worktree": wt}
    try:
        env = dict(os.environ); env["PYTHONPATH"] = wt; env["PYTHONHASHSEED"] = "0"
        rc, out = sh(f"cd {wt} && /venv/bin/python {seed}/demo.py", env=env, timeout=900)
        res["demo_clean_rc"] = rc
        rc, out = sh(f"cd {wt} && git apply --3way {seed}/patch.diff 2>&1 || git apply {seed}/patch.diff")
        res["apply_rc"] = rc
        if rc != 0:
            res["apply_out"] = out[-500:]
        rc, out = sh(f"cd {wt} && /venv/bin/python {seed}/demo.py", env=env, timeout=900)
        res["demo_patched_rc"] = rc
        res["demo_patched_tail"] = out[-400:]
        if not nobase:
            rc, out = sh(f"/venv/bin/python /verif/harness/baseline_check.py {wt}", timeout=1800)
            res["baseline_rc"] = rc
            res["baseline"] = out.strip().split("\n")[0]
        env2 = dict(os.environ); env2["VERIF_REPO"] = wt
        # private copy of the Coq tree (compiled files included, mtimes kept): Gen files regenerated from the patched tree
        # never meet the ones of /repo, so runs against different trees are independent
        coqcopy = wt + "-coq"
        shutil.rmtree(coqcopy, ignore_errors=True)
        sh(f"cp -a /verif/coq {coqcopy}")
        env2["VERIF_COQ"] = coqcopy
        for k in ("PYTHONPATH", "PYTHONHASHSEED"):
            env2.pop(k, None)
        rc, out = sh(f"cd /verif && /venv/bin/python run_check.py {prop} {tier}", env=env2, timeout=7200)
        res["check_rc"] = rc
        lines = [l for l in out.split("\n") if l.startswith("VIOLATION") or l.startswith("KNOWN-FINDING") or l.startswith("  (")]
        res["check_lines"] = lines[:8]
        res["check_tail"] = out[-600:]
        res["confirmed"] = res["demo_clean_rc"] == 0 and res["apply_rc"] == 0 and res["demo_patched_rc"] != 0 and (nobase or res.get("baseline_rc") == 0)
        res["caught"] = rc == 1 and any(l.startswith("VIOLATION") for l in lines)
    finally:
        sh(f"git -C /repo worktree remove --force {wt}")
        shutil.rmtree(wt, ignore_errors=True)
        shutil.rmtree(wt + "-coq", ignore_errors=True)
    print(json.dumps(res, indent=1))
    return 0 if res.get("confirmed") and res.get("caught") else 1

sys.exit(main())
