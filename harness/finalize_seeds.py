"""Keep every confirmed pending seed under /verif/seeded/<name>/ with the outcome of the final sweep (work/seedres2/<name>.json).
usage: /venv/bin/python harness/finalize_seeds.py"""
import glob, json, os, shutil
PENDING = "/verif/seeded/_pending"; RES = "/verif/work/seedres2"
kept = missed = unconf = 0
for d in sorted(glob.glob(os.path.join(PENDING, "*", "*"))):
    if not os.path.exists(os.path.join(d, "patch.diff")):
        continue
    grp = os.path.basename(os.path.dirname(d)); name = f"{grp}{os.path.basename(d)}"; prop = grp.split("-")[0]
    rp = os.path.join(RES, name + ".json")
    if not os.path.exists(rp):
        print("no result for", name); continue
    r = json.load(open(rp))
    if not r.get("confirmed"):
        unconf += 1; print("UNCONFIRMED (not kept):", name); continue
    dst = f"/verif/seeded/{name}"
    os.makedirs(dst, exist_ok=True)
    for f in ("patch.diff", "demo.py"):
        shutil.copy(os.path.join(d, f), os.path.join(dst, f))
    meta = json.load(open(os.path.join(d, "meta.json")))
    meta["property"] = prop
    cb = r.get("caught_by") or []
    lines = []
    for q, rr in r.get("runs", {}).items():
        cl = [l for l in (rr.get("check_lines") or []) if l.startswith("  (")]
        lines.append(f"{q}: rc={rr.get('check_rc')} " + (cl[0].strip() if cl else ""))
    meta["confirmed_by_coordinator"] = {
        "how": "harness/seedtest.py in a scratch worktree of /repo HEAD: demo.py exits 0 on the clean tree and non-zero with the patch; "
               "the pinned test suite (474 stable passes) still passes with the patch; then `run_check.py <Cxx> quick` with VERIF_REPO=<worktree>",
        "caught_by_check": ", ".join(cb) if cb else "NOT CAUGHT",
        "check_report": " | ".join(lines)[:600]}
    json.dump(meta, open(os.path.join(dst, "meta.json"), "w"), indent=1)
    kept += 1
    if not cb: missed += 1
print(f"kept {kept} seeds, {missed} not caught, {unconf} unconfirmed")
