#!/bin/sh
# usage: harness/coqchk_all.sh [Cxx ...]   - re-check the compiled Props files (and everything they depend on) with coqchk -o,
# on a private copy of the Coq tree so that concurrent rebuilds do not disturb it. Logs: work/coqchk/Cxx.log;
# summary: trusted_base/coqchk.json + coqchk.md (harness/coqchk_summary.py)
cd /verif || exit 1
props="$*"; [ -z "$props" ] && props=$(seq -w 1 20 | sed 's/^/C/')
rm -rf /tmp/coqchk-tree; cp -a coq /tmp/coqchk-tree; mkdir -p work/coqchk
cd /tmp/coqchk-tree
for p in $props; do echo $p; done | xargs -P ${COQCHK_JOBS:-3} -I{} sh -c 'timeout ${COQCHK_TIMEOUT:-5000} coqchk -silent -o -Q theories Verif Verif.Props.{} > /verif/work/coqchk/{}.log 2>&1; echo {} rc=$?'
cd /verif; rm -rf /tmp/coqchk-tree
/venv/bin/python harness/coqchk_summary.py
