#!/venv/bin/python
"""Single entry point of the /verif checks.

    /venv/bin/python run_check.py setup                 build the whole Coq development (MANIFEST.setup_cmd)
    /venv/bin/python run_check.py C18 quick|thorough    run one property's check
    /venv/bin/python run_check.py C18 replay <file>     re-run the cases of a replay file (driver-specific)
    /venv/bin/python run_check.py manifest              regenerate MANIFEST.json from the drivers' META

Environment: VERIF_SEED (int), VERIF_REPO (default /repo; for scratch worktrees while testing),
VERIF_KEEP_WORK=1 keeps work/<run>.
"""
import importlib
import json
import os
import sys

HERE = os.path.dirname(os.path.abspath(__file__))


def _reexec():
    """Fix the interpreter environment: hash seed, import path (the tree under test first)."""
    repo = os.environ.get("VERIF_REPO", "/repo")
    want = {"PYTHONHASHSEED": "0", "PYTHONPATH": repo + os.pathsep + HERE, "MIDGARD_VERIF": "1",
            "PYTHONDONTWRITEBYTECODE": "1", "PYTHONWARNINGS": "ignore"}
    if any(os.environ.get(k) != v for k, v in want.items()):
        env = dict(os.environ)
        env.update(want)
        os.execve(sys.executable, [sys.executable] + sys.argv, env)


def main():
    _reexec()
    sys.path.insert(0, HERE)
    from harness import core
    if len(sys.argv) < 2:
        print(__doc__)
        return 2
    cmd = sys.argv[1]
    if cmd == "setup":
        from harness import setup
        return setup.main()
    if cmd == "manifest":
        from harness import mkmanifest
        return mkmanifest.main()
    if cmd == "design":
        from harness import mkdesign
        return mkdesign.main()
    prop = cmd.upper()
    tier = sys.argv[2] if len(sys.argv) > 2 else os.environ.get("VERIF_TIER", "quick")
    seed = int(os.environ.get("VERIF_SEED", "20260930"))
    import midgard
    if not os.path.abspath(midgard.__file__).startswith(os.path.abspath(core.REPO) + os.sep):
        print(f"midgard imported from {midgard.__file__}, expected under {core.REPO}")
        return 2
    drv = importlib.import_module(f"harness.drivers.{prop.lower()}")
    if tier == "replay":
        ctx = core.Ctx(prop, "quick", seed)
        return drv.replay(ctx, sys.argv[3])
    if tier not in ("quick", "thorough"):
        print("tier must be quick or thorough")
        return 2
    ctx = core.Ctx(prop, tier, seed)
    try:
        return drv.run(ctx)
    except Exception as e:  # a crashing check must not look like a pass
        import traceback
        traceback.print_exc()
        ctx.violation({"crash": f"{type(e).__name__}: {e}", "traceback": traceback.format_exc()},
                      what=f"check crashed: {type(e).__name__}: {e}", found=False)
        ctx.finish(level=getattr(drv, "META", {}).get("level", "proof"), rule="check crashed")
        return 1


if __name__ == "__main__":
    sys.exit(main())
