(* C19 - midgard.config.config : Configuration / ConfigurationSection / ConfigurationEntry.
   Executable model only (no proofs here).

   Anchors: midgard/config/config.py
     Configuration._set_sections_for_profiles, profiles.setter, master_section, get, exists, __getitem__,
     update, update_from_dict, update_from_options, update_from_file, sources, as_str, __str__, write_to_file
     ConfigurationEntry.{str,int,bool,list,tuple,dict,as_list,as_tuple,as_dict,replace,entry_as_str}, _replace
     midgard/dev/console.py fill (textwrap.fill with hanging indent)

   Python dicts are association lists (insertion order kept, `aset` overwrites in place).
   Strings are ASCII (Coq `string`). *)
From Coq Require Import ZArith QArith List Bool String Ascii.
From Verif Require Import Lib.Dyadic Gen.C19_BoolStates.
Import ListNotations.
Close Scope Q_scope.
Close Scope Z_scope.
Open Scope string_scope.

(* ================================================================== strings *)

Definition nl : ascii := ascii_of_nat 10.
Definition sp : ascii := " "%char.
Definition s1 (a : ascii) : string := String a EmptyString.

Definition lower_ascii (a : ascii) : ascii :=
  let n := nat_of_ascii a in
  if (Nat.leb 65 n && Nat.leb n 90)%bool then ascii_of_nat (n + 32) else a.

Fixpoint smap (f : ascii -> ascii) (s : string) : string :=
  match s with EmptyString => EmptyString | String a r => String (f a) (smap f r) end.
Definition lower := smap lower_ascii.

(* Python str.isspace on ASCII: space, \t \n \v \f \r, 0x1c-0x1f *)
Definition is_space (a : ascii) : bool :=
  let n := nat_of_ascii a in
  (Nat.eqb n 32 || (Nat.leb 9 n && Nat.leb n 13) || (Nat.leb 28 n && Nat.leb n 31))%bool.

Fixpoint lstrip (s : string) : string :=
  match s with
  | EmptyString => EmptyString
  | String a r => if is_space a then lstrip r else s
  end.
Fixpoint rstrip (s : string) : string :=
  match s with
  | EmptyString => EmptyString
  | String a r =>
      match rstrip r with
      | EmptyString => if is_space a then EmptyString else s1 a
      | r' => String a r'
      end
  end.
Definition strip (s : string) : string := rstrip (lstrip s).

Fixpoint sall (p : ascii -> bool) (s : string) : bool :=
  match s with EmptyString => true | String a r => p a && sall p r end.
Fixpoint sany (p : ascii -> bool) (s : string) : bool :=
  match s with EmptyString => false | String a r => p a || sany p r end.
Definition has_char (c : ascii) (s : string) : bool := sany (Ascii.eqb c) s.
Definition nonempty (s : string) : bool := match s with EmptyString => false | _ => true end.

(* split at every character satisfying p (re.split with a one-character class; str.split(c)) *)
Fixpoint split_where (p : ascii -> bool) (s : string) : list string :=
  match s with
  | EmptyString => [EmptyString]
  | String a r =>
      if p a then EmptyString :: split_where p r
      else match split_where p r with
           | [] => [s1 a]
           | h :: t => String a h :: t
           end
  end.
Definition split_on (c : ascii) := split_where (Ascii.eqb c).

Fixpoint join (sep : string) (l : list string) : string :=
  match l with
  | [] => EmptyString
  | [x] => x
  | x :: r => x ++ sep ++ join sep r
  end.

(* str.split(): maximal runs of non-whitespace *)
Definition py_split (s : string) : list string := filter nonempty (split_where is_space s).

(* str.partition(c) -> (before, found, after) *)
Fixpoint partition_on (c : ascii) (s : string) : string * bool * string :=
  match s with
  | EmptyString => (EmptyString, false, EmptyString)
  | String a r =>
      if Ascii.eqb a c then (EmptyString, true, r)
      else let '(b, f, t) := partition_on c r in (String a b, f, t)
  end.

Fixpoint prefix_b (p s : string) : bool :=
  match p, s with
  | EmptyString, _ => true
  | String a p', String b s' => Ascii.eqb a b && prefix_b p' s'
  | _, _ => false
  end.
Fixpoint drop (n : nat) (s : string) : string :=
  match n, s with
  | O, _ => s
  | S n', String _ r => drop n' r
  | S _, EmptyString => EmptyString
  end.

Fixpoint spaces (n : nat) : string := match n with O => EmptyString | S k => String sp (spaces k) end.
(* f"{s:<n}" *)
Definition pad_right (n : nat) (s : string) : string := s ++ spaces (n - String.length s).
Definition pad_left (n : nat) (s : string) : string := spaces (n - String.length s) ++ s.
Definition pad_center (n : nat) (s : string) : string :=
  let t := n - String.length s in
  spaces (Nat.div t 2) ++ s ++ spaces (t - Nat.div t 2).

(* str.replace(old, new): non-overlapping, left to right; old must be non-empty here *)
Fixpoint replace_fuel (fuel : nat) (old new s : string) : string :=
  match fuel with
  | O => s
  | S f =>
      match s with
      | EmptyString => EmptyString
      | String a r =>
          if prefix_b old s then new ++ replace_fuel f old new (drop (String.length old) s)
          else String a (replace_fuel f old new r)
      end
  end.
Definition replace_all (old new s : string) : string :=
  match old with
  | EmptyString => s
  | _ => replace_fuel (S (String.length s)) old new s
  end.

(* ================================================================== dictionaries *)

Section Assoc.
  Variables (K V : Type) (eqb : K -> K -> bool).
  Fixpoint aget (k : K) (l : list (K * V)) : option V :=
    match l with
    | [] => None
    | (k', v) :: r => if eqb k k' then Some v else aget k r
    end.
  Fixpoint aset (l : list (K * V)) (k : K) (v : V) : list (K * V) :=
    match l with
    | [] => [(k, v)]
    | (k', v') :: r => if eqb k k' then (k', v) :: r else (k', v') :: aset r k v
    end.
  Definition amem (k : K) (l : list (K * V)) : bool :=
    match aget k l with Some _ => true | None => false end.
End Assoc.
Arguments aget {K V} eqb k l.
Arguments aset {K V} eqb l k v.
Arguments amem {K V} eqb k l.

Definition sget {V} := @aget string V String.eqb.
Definition sset {V} := @aset string V String.eqb.
Definition smem {V} := @amem string V String.eqb.

(* ================================================================== configuration state *)

Definition meta : Set := list (string * option string).
Record entry : Set := Entry { e_key : string; e_val : string; e_src : string; e_meta : meta }.
Definition sect : Set := list (string * entry).          (* ConfigurationSection.data *)
Definition sections : Set := list (string * sect).       (* Dict[str, ConfigurationSection] *)
Definition profile : Set := option string.
Definition rawdata : Set := list (profile * sections).   (* _profile_sections *)

Definition prof_eqb (a b : profile) : bool :=
  match a, b with
  | None, None => true
  | Some x, Some y => String.eqb x y
  | _, _ => false
  end.
Definition pget := @aget profile sections prof_eqb.
Definition pset := @aset profile sections prof_eqb.

Inductive config : Set :=
  Config (name : string) (raw : rawdata) (profiles : list profile) (view : sections)
         (master : option string) (fallback : option config) (vars : list (string * string)).

Definition c_name c := let 'Config n _ _ _ _ _ _ := c in n.
Definition c_raw c := let 'Config _ r _ _ _ _ _ := c in r.
Definition c_profiles c := let 'Config _ _ p _ _ _ _ := c in p.
Definition c_view c := let 'Config _ _ _ v _ _ _ := c in v.
Definition c_master c := let 'Config _ _ _ _ m _ _ := c in m.
Definition c_fallback c := let 'Config _ _ _ _ _ f _ := c in f.
Definition c_vars c := let 'Config _ _ _ _ _ _ x := c in x.

Definition empty_config (name : string) : config := Config name [] [None] [] None None [].

Definition with_raw c r := let 'Config n _ p v m f x := c in Config n r p v m f x.
Definition with_profiles c p := let 'Config n r _ v m f x := c in Config n r p v m f x.
Definition with_view c v := let 'Config n r p _ m f x := c in Config n r p v m f x.
Definition with_master c m := let 'Config n r p v _ f x := c in Config n r p v m f x.
Definition with_fallback c f := let 'Config n r p v m _ x := c in Config n r p v m f x.
Definition with_vars c x := let 'Config n r p v m f _ := c in Config n r p v m f x.

(* sections.setdefault(name, ConfigurationSection(name)) *)
Definition ensure_section (ss : sections) (sn : string) : sections :=
  match sget sn ss with Some _ => ss | None => (ss ++ [(sn, [])])%list end.

(* sections[sn][key] = e (the section exists after ensure_section) *)
Definition set_entry (ss : sections) (sn key : string) (e : entry) : sections :=
  let ss' := ensure_section ss sn in
  match sget sn ss' with
  | Some s => sset ss' sn (sset s key e)
  | None => ss'
  end.

Definition lookup2 (ss : sections) (sn key : string) : option entry :=
  match sget sn ss with Some s => sget key s | None => None end.

(* inner loops of _set_sections_for_profiles for one profile *)
Definition merge_section (v : sections) (sn : string) (s : sect) : sections :=
  fold_left (fun v' ke => set_entry v' sn (fst ke) (snd ke)) s (ensure_section v sn).
Definition merge_sections (v : sections) (ps : sections) : sections :=
  fold_left (fun v' ns => merge_section v' (fst ns) (snd ns)) ps v.

(* _set_sections_for_profiles: clear, then for profile in profiles[::-1] ... *)
Definition flatten (profiles : list profile) (raw : rawdata) : sections :=
  fold_left (fun v p => match pget p raw with Some ps => merge_sections v ps | None => v end)
            (rev profiles) [].

Definition refresh (c : config) : config := with_view c (flatten (c_profiles c) (c_raw c)).

(* profiles.setter *)
Definition norm_profiles (ps : option (list profile)) : list profile :=
  match ps with
  | None => [None]
  | Some l => match last l (Some EmptyString) with None => l | Some _ => (l ++ [None])%list end
  end.

(* Deviations of the current source from the property (DESIGN 2.7).  Specification = all_off.
   q_stale    : update_from_dict / update_from_options / update_from_file / update_from_config_section leave the
                flattened view stale when an item raises (the closing _set_sections_for_profiles is skipped)
   q_fbsect   : get(): a MissingSectionError raised by the fallback configuration's get escapes (only
                MissingConfigurationError / MissingEntryError are caught), so `default` is ignored
   q_mkey     : get(key, section=s): when s is not a section but a key of the master section, __getitem__ returns
                that entry and get returns it (whatever `key` is)
   q_fmt      : _replace: an unknown variable written with a format specifier is formatted with itself
                ('{x:>10}' -> '   {x:>10}', '{x:%Y}' -> ValueError) instead of being kept
   q_metanl   : update_from_file replaces the line breaks of a continued value by blanks, but not those of a continued
                metadata value (key:help = ...): a wrapped help text is read back with "\n" in it
   q_clear    : clear() empties the flattened view (and the variables) but not the per-profile data: every cleared
                entry is back after the next update
   q_lead     : update_from_file: a value (or metadata value) whose first word does not fit on the first line is written
                on continuation lines only; configparser joins "" and the continuation with a line break, midgard
                turns it into a blank: the value is read back with a leading blank
   q_comment_cont : ConfigParser treats every line that starts with # or ; as a comment, also a continuation line of a
                value: a wrapped value loses the line that happens to start with such a word *)
Record quirks : Set := { q_stale : bool; q_fbsect : bool; q_mkey : bool; q_fmt : bool; q_metanl : bool; q_clear : bool;
                         q_lead : bool; q_comment_cont : bool }.
Definition all_off : quirks :=
  {| q_stale := false; q_fbsect := false; q_mkey := false; q_fmt := false; q_metanl := false; q_clear := false;
     q_lead := false; q_comment_cont := false |}.
Definition all_on : quirks :=
  {| q_stale := true; q_fbsect := true; q_mkey := true; q_fmt := true; q_metanl := true; q_clear := true; q_lead := true;
     q_comment_cont := true |}.

Inductive err : Set := ErrSection | ErrEntry | ErrConfig | ErrValue | ErrParse.
Inductive res (A : Type) : Type := Ok (a : A) | Err (e : err).
Arguments Ok {A} a.
Arguments Err {A} e.

Definition err_eqb (a b : err) : bool :=
  match a, b with
  | ErrSection, ErrSection | ErrEntry, ErrEntry | ErrConfig, ErrConfig | ErrValue, ErrValue | ErrParse, ErrParse => true
  | _, _ => false
  end.

(* Configuration.master_section (property) *)
Definition master_section (c : config) : res (string * sect) :=
  match c_master c with
  | None => Err ErrSection
  | Some m => match sget m (c_view c) with Some s => Ok (m, s) | None => Err ErrSection end
  end.

Inductive item : Set := ISection (s : sect) | IEntry (e : entry).

(* Configuration.__getitem__ *)
Fixpoint getitem (c : config) (key : string) : res item :=
  match sget key (c_view c) with
  | Some s => Ok (ISection s)
  | None =>
      match master_section c with
      | Ok (_, ms) => match sget key ms with Some e => Ok (IEntry e) | None => Err ErrEntry end
      | Err _ =>
          match c with
          | Config _ _ _ _ _ None _ => Err ErrSection
          | Config _ _ _ _ _ (Some f) _ =>
              match getitem f key with Ok i => Ok i | Err _ => Err ErrSection end
          end
      end
  end.

Definition sect_get (s : sect) (key : string) : res entry :=
  match sget key s with Some e => Ok e | None => Err ErrEntry end.

Definition mk_entry (key value src : string) : entry := Entry key value src [].

(* the part of get() inside the outer `try` *)
Definition local_get (q : quirks) (c : config) (key : string) (section : option string) : res entry :=
  match section with
  | None => match master_section c with Ok (_, s) => sect_get s key | Err e => Err e end
  | Some sn =>
      match getitem c sn with
      | Ok (ISection s) => sect_get s key
      | Ok (IEntry e) => if q_mkey q then Ok e else Err ErrSection
      | Err e => Err e
      end
  end.

(* Configuration.get *)
Fixpoint get (q : quirks) (c : config) (key : string) (value section default : option string) : res entry :=
  match value with
  | Some v => Ok (mk_entry key v "method call")
  | None =>
      match local_get q c key section with
      | Ok e => Ok e
      | Err orig =>
          let dflt := match default with
                      | None => Err orig
                      | Some d => Ok (mk_entry key d "default value")
                      end in
          match c with
          | Config _ _ _ _ _ None _ => dflt
          | Config _ _ _ _ _ (Some f) _ =>
              match get q f key None section None with
              | Ok e => Ok e
              | Err ErrSection => if q_fbsect q then Err ErrSection else dflt
              | Err _ => dflt
              end
          end
      end
  end.

(* Configuration.exists *)
Definition cfg_exists (c : config) (key : string) (section : option string) : res bool :=
  match section with
  | None => match master_section c with Ok (_, s) => Ok (smem key s) | Err e => Err e end
  | Some sn =>
      match getitem c sn with
      | Ok (ISection s) => Ok (smem key s)
      | Ok (IEntry _) => Ok false
      | Err _ => Ok false
      end
  end.

(* Configuration.sources (a set; compared as a set) *)
Definition sources (c : config) : list string :=
  filter nonempty (flat_map (fun ns => map (fun ke => e_src (snd ke)) (snd ns)) (c_view c)).

(* ------------------------------------------------------------------ updates *)

Record upd : Set := Upd { u_sec : string; u_key : string; u_val : string; u_prof : profile; u_src : string; u_meta : meta }.

Definition src_of (src : string) (p : profile) : string :=
  match p with None => src | Some pn => src ++ " (" ++ pn ++ ")" end.

(* Configuration.update without the closing _set_sections_for_profiles *)
Definition update1 (c : config) (u : upd) (allow_new : bool) : res config :=
  let chk :=
    if allow_new then Ok tt
    else match sget (u_sec u) (c_view c) with
         | None => Err ErrSection
         | Some s => if smem (u_key u) s then Ok tt else Err ErrEntry
         end in
  match chk with
  | Err e => Err e
  | Ok _ =>
      let e := Entry (u_key u) (u_val u) (src_of (u_src u) (u_prof u)) (u_meta u) in
      let ps := match pget (u_prof u) (c_raw c) with Some x => x | None => [] end in
      Ok (with_raw c (pset (c_raw c) (u_prof u) (set_entry ps (u_sec u) (u_key u) e)))
  end.

(* the loops of update_from_dict / _options / _file: items with _update_sections=False, one refresh at the end.
   `skip` = MissingEntryError of an item is swallowed (update_from_options). *)
Fixpoint batch (q : quirks) (c : config) (us : list (res upd)) (allow_new skip : bool) : config * res unit :=
  match us with
  | [] => (refresh c, Ok tt)
  | Err e :: _ => (if q_stale q then c else refresh c, Err e)
  | Ok u :: r =>
      match update1 c u allow_new with
      | Ok c' => batch q c' r allow_new skip
      | Err ErrEntry => if skip then batch q c r allow_new skip
                        else (if q_stale q then c else refresh c, Err ErrEntry)
      | Err e => (if q_stale q then c else refresh c, Err e)
      end
  end.

(* update_from_options: --name:section:key=value *)
Fixpoint rpartition_aux (c : ascii) (s : string) : option (string * string) :=
  match s with
  | EmptyString => None
  | String a r =>
      match rpartition_aux c r with
      | Some (h, t) => Some (String a h, t)
      | None => if Ascii.eqb a c then Some (EmptyString, r) else None
      end
  end.
(* str.rpartition(c) -> (head, tail); not found: ("", s) *)
Definition rpartition (c : ascii) (s : string) : string * string :=
  match rpartition_aux c s with Some ht => ht | None => (EmptyString, s) end.

Definition colon : ascii := ":"%char.
Definition eqsign : ascii := "="%char.

Definition option_upd (c : config) (opt : string) (p : profile) (src : string) : option (res upd) :=
  if (prefix_b "--" opt && has_char eqsign opt)%bool then
    let '(okey, _, oval) := partition_on eqsign (drop 2 opt) in
    let '(osec, key) := rpartition colon okey in
    let '(oname, sec) := rpartition colon osec in
    if (nonempty oname && negb (String.eqb oname (c_name c)))%bool then None
    else
      let src' := src ++ " (" ++ opt ++ ")" in
      match sec with
      | EmptyString =>
          match master_section c with
          | Ok (m, _) => Some (Ok (Upd m key oval p src' []))
          | Err e => Some (Err e)
          end
      | _ => Some (Ok (Upd sec key oval p src' []))
      end
  else None.

Fixpoint somes {A} (l : list (option A)) : list A :=
  match l with [] => [] | Some x :: r => x :: somes r | None :: r => somes r end.

(* ================================================================== typed accessors *)

Definition comma : ascii := ","%char.
Definition is_sep (a : ascii) : bool := (is_space a || Ascii.eqb a comma)%bool.

(* entry.list / entry.tuple : self._value.replace(",", " ").split() *)
Definition val_list (v : string) : list string :=
  py_split (smap (fun a => if Ascii.eqb a comma then sp else a) v).
(* entry.as_list() / as_tuple() : [s for s in re.split(r"[\s,]", value) if s] *)
Definition val_as_list (v : string) : list string := filter nonempty (split_where is_sep v).

Definition dict_of (kvs : list (string * string)) : list (string * string) :=
  fold_left (fun d kv => sset d (fst kv) (snd kv)) kvs [].

(* entry.dict : dict(i.partition(":")[::2] for i in self.list) *)
Definition val_dict (v : string) : list (string * string) :=
  dict_of (map (fun i => let '(k, _, t) := partition_on colon i in (k, t)) (val_list v)).

(* entry.as_dict() : re.split("[:]", i, maxsplit=1) must give two parts *)
Definition val_as_dict (v : string) : res (list (string * string)) :=
  let parts := map (partition_on colon) (val_as_list v) in
  if forallb (fun p => snd (fst p)) parts
  then Ok (dict_of (map (fun p => (fst (fst p), snd p)) parts))
  else Err ErrValue.

(* entry.bool : _BOOLEAN_STATES[value.lower()]  (table regenerated from the source) *)
Definition val_bool (v : string) : res bool :=
  match sget (lower v) bool_states with Some b => Ok b | None => Err ErrValue end.

(* entry.int : Python int(str) on ASCII: optional surrounding whitespace, sign, digits with single underscores *)
Definition digit_val (a : ascii) : option Z :=
  let n := nat_of_ascii a in
  if (Nat.leb 48 n && Nat.leb n 57)%bool then Some (Z.of_nat (n - 48)) else None.
Definition underscore : ascii := "_"%char.
(* after a digit *)
Fixpoint int_digits (acc : Z) (after_us : bool) (s : string) : option Z :=
  match s with
  | EmptyString => if after_us then None else Some acc
  | String a r =>
      match digit_val a with
      | Some d => int_digits (acc * 10 + d) false r
      | None => if (Ascii.eqb a underscore && negb after_us)%bool then int_digits acc true r else None
      end
  end.
Definition int_unsigned (s : string) : option Z :=
  match s with
  | EmptyString => None
  | String a r => match digit_val a with Some d => int_digits d false r | None => None end
  end.
Definition val_int (v : string) : res Z :=
  let s := strip v in
  let r := match s with
           | String "-" t => option_map Z.opp (int_unsigned t)
           | String "+" t => int_unsigned t
           | _ => int_unsigned s
           end in
  match r with Some z => Ok z | None => Err ErrValue end.

(* entry.float : Python float(str) on ASCII.  The model gives the exact decimal value m * 10^e (FDec), the observation
   the IEEE double Python returned (FDy); they agree when the double is the one nearest to the decimal value. *)
Inductive fval : Set := FDec (m e : Z) | FInf (neg : bool) | FNaN | FDy (d : dy).

(* a run of digits with single underscores between digits; value, number of digits, rest *)
Fixpoint scan_digits (acc n : Z) (prev_digit : bool) (s : string) : option (Z * Z * string) :=
  match s with
  | EmptyString => if (prev_digit || (n =? 0)%Z)%bool then Some (acc, n, EmptyString) else None
  | String a r =>
      match digit_val a with
      | Some d => scan_digits (acc * 10 + d) (n + 1) true r
      | None =>
          if Ascii.eqb a underscore then (if prev_digit then scan_digits acc n false r else None)
          else if (prev_digit || (n =? 0)%Z)%bool then Some (acc, n, s) else None
      end
  end.

Definition float_exponent (r : string) : option Z :=
  match r with
  | EmptyString => Some 0%Z
  | String c r' =>
      if (Ascii.eqb c "e" || Ascii.eqb c "E")%bool then
        let '(neg, digits) := match r' with
                              | String "-" t => (true, t)
                              | String "+" t => (false, t)
                              | _ => (false, r')
                              end in
        match scan_digits 0 0 false digits with
        | Some (x, n, EmptyString) => if (0 <? n)%Z then Some (if neg then (- x)%Z else x) else None
        | _ => None
        end
      else None
  end.

Definition float_unsigned (s : string) : option (Z * Z) :=
  match scan_digits 0 0 false s with
  | Some (m1, n1, r1) =>
      let frac := match r1 with
                  | String "." r => match scan_digits m1 0 false r with
                                    | Some (m2, n2, r2) => Some (m2, n2, r2)
                                    | None => None
                                    end
                  | _ => Some (m1, 0%Z, r1)
                  end in
      match frac with
      | Some (m, n2, r2) =>
          if (0 <? n1 + n2)%Z then
            match float_exponent r2 with Some x => Some (m, (x - n2)%Z) | None => None end
          else None
      | None => None
      end
  | None => None
  end.

Definition float_special (s : string) : option fval :=
  let l := lower s in
  if (String.eqb l "inf" || String.eqb l "infinity")%bool then Some (FInf false)
  else if String.eqb l "nan" then Some FNaN else None.

Definition val_float (v : string) : res fval :=
  let s := strip v in
  let '(neg, body) := match s with
                      | String "-" t => (true, t)
                      | String "+" t => (false, t)
                      | _ => (false, s)
                      end in
  match float_unsigned body with
  | Some (m, e) => Ok (FDec (if neg then (- m)%Z else m) e)
  | None =>
      match float_special body with
      | Some (FInf _) => Ok (FInf neg)
      | Some f => Ok f
      | None => Err ErrValue
      end
  end.

Definition dec_toQ (m e : Z) : Q :=
  if (0 <=? e)%Z then inject_Z (m * 10 ^ e) else Qmake m (Z.to_pos (10 ^ (- e))).

(* model value against observed double *)
Definition fval_agree (a b : fval) : bool :=
  match a, b with
  | FDec m e, FDy d => is_nearest_double (dec_toQ m e) d
  | FInf n, FDy (DInf n') => Bool.eqb n n'
  | FNaN, FDy DNaN => true
  | _, _ => false
  end.

(* ================================================================== _replace *)

Definition is_word (a : ascii) : bool :=
  let n := nat_of_ascii a in
  ((Nat.leb 48 n && Nat.leb n 57) || (Nat.leb 65 n && Nat.leb n 90) || (Nat.leb 97 n && Nat.leb n 122) || Nat.eqb n 95)%bool.
Definition lbrace : ascii := "{"%char.
Definition rbrace : ascii := "}"%char.

(* longest prefix of characters satisfying p, and the rest *)
Fixpoint span (p : ascii -> bool) (s : string) : string * string :=
  match s with
  | EmptyString => (EmptyString, EmptyString)
  | String a r => if p a then let '(x, y) := span p r in (String a x, y) else (EmptyString, s)
  end.

(* one match of the regular expression of _replace: brace, word characters, optionally a colon and
   any characters but braces, closing brace *)
Record rmatch : Set := RMatch { m_var : string; m_spec : option string; m_expr : string }.

(* `s` is the text after an opening brace; result: the match and the text after it *)
Definition match_here (s : string) : option (rmatch * string) :=
  let '(w, r) := span is_word s in
  match w with
  | EmptyString => None
  | _ =>
      match r with
      | String c r' =>
          if Ascii.eqb c rbrace then Some (RMatch w None (s1 lbrace ++ w ++ s1 rbrace), r')
          else if Ascii.eqb c colon then
            let '(sp_, r2) := span (fun a => negb (Ascii.eqb a lbrace || Ascii.eqb a rbrace)) r' in
            match r2 with
            | String c2 r3 =>
                if Ascii.eqb c2 rbrace
                then Some (RMatch w (Some sp_) (s1 lbrace ++ w ++ s1 colon ++ sp_ ++ s1 rbrace), r3)
                else None
            | EmptyString => None
            end
          else None
      | EmptyString => None
      end
  end.

(* re.finditer: leftmost, non-overlapping *)
Fixpoint find_matches (fuel : nat) (s : string) : list rmatch :=
  match fuel with
  | O => []
  | S f =>
      match s with
      | EmptyString => []
      | String a r =>
          if Ascii.eqb a lbrace then
            match match_here r with
            | Some (m, rest) => m :: find_matches f rest
            | None => find_matches f r
            end
          else find_matches f r
      end
  end.
Definition matches (s : string) : list rmatch := find_matches (S (String.length s)) s.

(* str.__format__ for the specs  [<>^]?[0-9]*  ; anything else: ValueError (None) *)
Fixpoint nat_of_digits (acc : nat) (s : string) : option nat :=
  match s with
  | EmptyString => Some acc
  | String a r => match digit_val a with Some d => nat_of_digits (acc * 10 + Z.to_nat d) r | None => None end
  end.
Definition apply_spec (spec : string) (v : string) : option string :=
  match spec with
  | EmptyString => Some v
  | String a r =>
      if Ascii.eqb a "<" then option_map (fun n => pad_right n v) (nat_of_digits 0 r)
      else if Ascii.eqb a ">" then option_map (fun n => pad_left n v) (nat_of_digits 0 r)
      else if Ascii.eqb a "^" then option_map (fun n => pad_center n v) (nat_of_digits 0 r)
      else match digit_val a with
           | Some _ => option_map (fun n => pad_right n v) (nat_of_digits 0 spec)
           | None => None
           end
  end.
(* var_expr.format(var=v); an all-digit name is a positional index for str.format: IndexError (None) *)
Definition all_digits (s : string) : bool := sall (fun a => match digit_val a with Some _ => true | None => false end) s.
Definition fmt_match (m : rmatch) (v : string) : option string :=
  if all_digits (m_var m) then None
  else match m_spec m with None => Some v | Some spec => apply_spec spec v end.

(* _replace(string, replace_vars, default); `fuel` bounds the nesting depth (Python: RecursionError -> ErrValue) *)
Fixpoint replace_vars_in (q : quirks) (fuel : nat) (vars : list (string * string)) (default : option string)
         (s : string) : res string :=
  match fuel with
  | O => Err ErrValue
  | S f =>
      fold_left
        (fun acc m =>
           match acc with
           | Err e => Err e
           | Ok cur =>
               let step (v : string) :=
                 match fmt_match m v with
                 | Some t => Ok (replace_all (m_expr m) t cur)
                 | None => Err ErrValue
                 end in
               match sget (m_var m) vars with
               | Some v => match replace_vars_in q f vars default v with Ok v' => step v' | Err e => Err e end
               | None =>
                   match default with
                   | Some d => step d
                   | None => if q_fmt q then step (m_expr m) else Ok cur
                   end
               end
           end)
        (matches s) (Ok s)
  end.
Definition py_replace (q : quirks) := replace_vars_in q 12.

(* entry.replace(default, **replace_vars): dict(self._vars_dict, **replace_vars) *)
Definition merge_vars (a b : list (string * string)) : list (string * string) :=
  fold_left (fun d kv => sset d (fst kv) (snd kv)) b a.

(* ================================================================== text form *)

(* textwrap.TextWrapper(width, initial_indent="", subsequent_indent=" "*hanging, break_long_words=False,
   break_on_hyphens=False).fill  for text whose only whitespace is the blank *)
Fixpoint chunks_aux (cur : string) (cur_ws : bool) (s : string) : list string :=
  match s with
  | EmptyString => match cur with EmptyString => [] | _ => [cur] end
  | String a r =>
      let w := Ascii.eqb a sp in
      match cur with
      | EmptyString => chunks_aux (s1 a) w r
      | _ => if Bool.eqb w cur_ws then chunks_aux (cur ++ s1 a) cur_ws r
             else cur :: chunks_aux (s1 a) w r
      end
  end.
Definition chunks (s : string) : list string := chunks_aux EmptyString false s.
Definition is_blank (s : string) : bool := sall (Ascii.eqb sp) s.

(* take chunks while they fit; returns (line chunks reversed, rest) *)
Fixpoint take_fit (avail cur_len : nat) (cs : list string) (acc : list string) : list string * list string :=
  match cs with
  | [] => (acc, [])
  | c :: r =>
      if Nat.leb (cur_len + String.length c) avail
      then take_fit avail (cur_len + String.length c) r (c :: acc)
      else (acc, cs)
  end.

Fixpoint wrap_lines (fuel width hanging : nat) (first : bool) (cs : list string) : list string :=
  match fuel with
  | O => []
  | S f =>
      match cs with
      | [] => []
      | c0 :: r0 =>
          let indent := if first then 0 else hanging in
          let avail := width - indent in
          (* drop a leading whitespace chunk on every line but the first *)
          let cs1 := if (negb first && is_blank c0)%bool then r0 else cs in
          match cs1 with
          | [] => []
          | _ =>
              let '(acc, rest) := take_fit avail 0 cs1 [] in
              let '(acc2, rest2) :=
                match acc, rest with
                | [], c :: r => ([c], r)            (* a chunk longer than the line: break_long_words=False *)
                | _, _ => (acc, rest)
                end in
              let acc3 := match acc2 with c :: r => if is_blank c then r else acc2 | [] => [] end in
              match acc3 with
              | [] => wrap_lines f width hanging false rest2
              | _ => (spaces indent ++ String.concat "" (rev acc3)) :: wrap_lines f width hanging false rest2
              end
          end
      end
  end.
Definition fill (width hanging : nat) (text : string) : string :=
  let cs := chunks text in
  join (s1 nl) (wrap_lines (S (List.length cs)) width hanging true cs).

Definition key_width : nat := 30.

(* ConfigurationEntry.entry_as_str(width, key_width=30, metadata) *)
Definition entry_lines (width : nat) (with_meta : bool) (e : entry) : list string :=
  let f := fill width (key_width + 3) in
  let first := f (pad_right key_width (e_key e) ++ " = " ++ e_val e) in
  if (with_meta && match e_meta e with [] => false | _ => true end)%bool then
    List.app (first :: map (fun kv =>
                    let mk := e_key e ++ ":" ++ fst kv in
                    match snd kv with
                    | None => f mk
                    | Some v => f (pad_right key_width mk ++ " = " ++ v)
                    end) (e_meta e)) [EmptyString]
  else [first].
Definition entry_str (width : nat) (with_meta : bool) (e : entry) : string :=
  join (s1 nl) (entry_lines width with_meta e).

(* ConfigurationSection.as_str *)
Definition section_str (width : nat) (with_meta : bool) (ns : string * sect) : string :=
  match snd ns with
  | [] => EmptyString
  | _ => "[" ++ fst ns ++ "]" ++ s1 nl ++ join (s1 nl) (map (fun ke => entry_str width with_meta (snd ke)) (snd ns))
  end.

(* Configuration.as_str(width, metadata) *)
Definition as_str (width : nat) (with_meta : bool) (c : config) : string :=
  join (s1 nl ++ s1 nl ++ s1 nl) (filter nonempty (map (section_str width with_meta) (c_view c))).

(* ------------------------------------------------------------------ reading (the subset of configparser used:
   allow_no_value, delimiters ("=",), full-line comments # ;, continuation lines, strict duplicates) *)

Definition parsed : Set := list (string * list (string * option (list string))).   (* section -> option -> value lines *)

Definition indent_of (line : string) : nat := String.length line - String.length (lstrip line).

Definition is_comment (v : string) : bool := (prefix_b "#" v || prefix_b ";" v)%bool.

(* \[(?P<header>.+)\] matched at the start of the stripped line: between the first [ and the last ] *)
Definition header_of (v : string) : option string :=
  match v with
  | String "[" r =>
      match rpartition_aux "]"%char r with
      | Some (h, _) => match h with EmptyString => None | _ => Some h end
      | None => None
      end
  | _ => None
  end.

Record rstate : Set := RState { r_done : parsed; r_sect : option string; r_opt : option string; r_indent : nat }.

Definition add_value_line (p : parsed) (sn on : string) (l : string) : parsed :=
  match sget sn p with
  | Some opts =>
      match sget on opts with
      | Some (Some ls) => sset p sn (sset opts on (Some (ls ++ [l])%list))
      | _ => p
      end
  | None => p
  end.

(* a line that is not a continuation: section header or option *)
Definition new_line (case_sensitive : bool) (s : rstate) (v : string) (ind : nat) : res rstate :=
  match header_of v with
  | Some h => if smem h (r_done s) then Err ErrParse                 (* DuplicateSectionError *)
              else Ok (RState ((r_done s ++ [(h, [])])%list) (Some h) None ind)
  | None =>
      match r_sect s with
      | None => Err ErrParse                                         (* MissingSectionHeaderError *)
      | Some sn =>
          let '(o, found, val) := partition_on eqsign v in
          let on' := rstrip o in
          let on'' := if case_sensitive then on' else lower on' in
          match on' with
          | EmptyString => Err ErrParse
          | _ =>
              match sget sn (r_done s) with
              | Some opts =>
                  if smem on'' opts then Err ErrParse                (* DuplicateOptionError *)
                  else Ok (RState (sset (r_done s) sn ((opts ++ [(on'', if found then Some [strip val] else None)])%list))
                                  (Some sn) (Some on'') ind)
              | None => Err ErrParse
              end
          end
      end
  end.

(* a line that continues the value of the option in progress *)
Definition is_cont (s : rstate) (line : string) : bool :=
  match r_sect s, r_opt s with
  | Some _, Some _ => Nat.ltb (r_indent s) (indent_of line)
  | _, _ => false
  end.

(* SPECIFICATION reader: a continuation line belongs to the value, also when it starts with # or ; *)
Definition read_line (case_sensitive : bool) (st : res rstate) (line : string) : res rstate :=
  match st with
  | Err e => Err e
  | Ok s =>
      let v := strip line in
      if (is_comment v && negb (is_cont s line))%bool then Ok s    (* comment: nothing appended, indent kept *)
      else match v with
      | EmptyString =>
          (* empty line: appended to a value in progress; indent_level = maxsize *)
          match r_sect s, r_opt s with
          | Some sn, Some on => Ok (RState (add_value_line (r_done s) sn on EmptyString) (r_sect s) (r_opt s) 1000000)
          | _, _ => Ok (RState (r_done s) (r_sect s) (r_opt s) 1000000)
          end
      | _ =>
          let ind := indent_of line in
          match r_sect s, r_opt s with
          | Some sn, Some on =>
              if Nat.ltb (r_indent s) ind
              then Ok (RState (add_value_line (r_done s) sn on v) (r_sect s) (r_opt s) (r_indent s))
              else new_line case_sensitive s v ind
          | _, _ => new_line case_sensitive s v ind
          end
      end
  end.

(* configparser: every line that starts with # or ; is a comment, continuation lines included *)
Definition read_line_q (q : quirks) (case_sensitive : bool) (st : res rstate) (line : string) : res rstate :=
  match st with
  | Err e => Err e
  | Ok s => if (q_comment_cont q && is_comment (strip line))%bool then Ok s else read_line case_sensitive st line
  end.

Definition parse_ini (q : quirks) (case_sensitive : bool) (text : string) : res parsed :=
  match fold_left (read_line_q q case_sensitive) (split_on nl text) (Ok (RState [] None None 0)) with
  | Ok s => Ok (r_done s)
  | Err e => Err e
  end.

(* _join_multiline_values: "\n".join(lines).rstrip(); midgard then replaces "\n" by " " *)
Definition joined_raw (ls : list string) : string :=
  smap (fun a => if Ascii.eqb a nl then sp else a) (rstrip (join (s1 nl) ls)).
(* specification: no leading blank either (a value that starts on a continuation line is joined as "\n" + value) *)
Definition joined_value (ls : list string) : string := lstrip (joined_raw ls).
Definition joined_value_q (q : quirks) (ls : list string) : string :=
  if q_lead q then joined_raw ls else joined_value ls.

Definition opt_value (v : option (list string)) : option string := option_map joined_value v.
Definition opt_value_q (q : quirks) (v : option (list string)) : option string := option_map (joined_value_q q) v.
(* metadata values: the same in the specification; the source keeps the line breaks *)
Definition meta_value (q : quirks) (v : option (list string)) : option string :=
  if q_metanl q then option_map (fun ls => rstrip (join (s1 nl) ls)) v else opt_value_q q v.

(* str.partition("__") *)
Fixpoint partition_dunder (s : string) : string * bool * string :=
  match s with
  | EmptyString => (EmptyString, false, EmptyString)
  | String a r =>
      if prefix_b "__" s then (EmptyString, true, drop 2 s)
      else let '(b, f, t) := partition_dunder r in (String a b, f, t)
  end.

Definition res_map {A B} (f : A -> B) (r : res A) : res B :=
  match r with Ok a => Ok (f a) | Err e => Err e end.

(* one option of a section: nothing for a key:meta option, else the update with its metadata *)
Definition file_item (q : quirks) (path : string) (rvars : list (string * string)) (sec : string) (has_prof : bool)
           (prof : string) (opts : list (string * option (list string))) (kv : string * option (list string))
  : list (res upd) :=
  let key := fst kv in
  if has_char colon key then []
  else
    let m := flat_map (fun kv2 : string * option (list string) =>
                         if prefix_b (key ++ ":") (fst kv2)
                         then [(snd (partition_on colon (fst kv2)), meta_value q (snd kv2))] else [])
                      opts in
    let value := match opt_value_q q (snd kv) with None => Ok "None" | Some v => py_replace q rvars None v end in
    [match py_replace q rvars None key, value with
     | Ok k', Ok v' => Ok (Upd sec k' v' (if has_prof then Some prof else None) path m)
     | Err e, _ => Err e
     | _, Err e => Err e
     end].

Definition section_items (q : quirks) (path : string) (rvars : list (string * string))
           (sn : string) (opts : list (string * option (list string))) : list (res upd) :=
  let '(sec, has_prof, prof) := partition_dunder sn in
  match sec with
  | EmptyString => []
  | _ => flat_map (file_item q path rvars sec has_prof prof opts) opts
  end.

(* {k: v for k, v in section.items()}; a key without value has value None = unknown variable *)
Definition valued (opts : list (string * option (list string))) : list (string * string) :=
  flat_map (fun kv => match opt_value (snd kv) with Some v => [(fst kv, v)] | None => [] end) opts.

(* meta dictionaries are dict comprehensions: later duplicates overwrite *)
Definition norm_meta (m : meta) : meta := fold_left (fun d kv => sset d (fst kv) (snd kv)) m [].

Definition parsed_items (q : quirks) (path : string) (p : parsed) : list (res upd) :=
  let rvars := match sget "__replace__" p with
               | Some opts => valued opts
               | None => []
               end in
  map (res_map (fun u => Upd (u_sec u) (u_key u) (u_val u) (u_prof u) (u_src u) (norm_meta (u_meta u))))
      (flat_map (fun ns => section_items q path rvars (fst ns) (snd ns)) p).

(* ================================================================== operations *)

Inductive op : Set :=
| OUpdate (u : upd) (allow_new : bool)
| ODict (sec : option string) (kvs : list (string * string)) (src : string) (allow_new : bool)
| OOptions (opts : list string) (p : profile) (src : string) (allow_new : bool)
| OFile (text path : string) (allow_new case_sensitive : bool)
| OProfiles (ps : option (list profile))
| OMaster (m : option string)
| OFallback (f : option config)
| OVars (vs : list (string * string))
| OClearVars
| OClear.

Fixpoint options_batch (q : quirks) (c : config) (opts : list string) (p : profile) (src : string)
         (allow_new : bool) : config * res unit :=
  match opts with
  | [] => (refresh c, Ok tt)
  | o :: r =>
      match option_upd c o p src with
      | None => options_batch q c r p src allow_new
      | Some (Err e) => (if q_stale q then c else refresh c, Err e)
      | Some (Ok u) =>
          match update1 c u allow_new with
          | Ok c' => options_batch q c' r p src allow_new
          | Err ErrEntry => options_batch q c r p src allow_new
          | Err e => (if q_stale q then c else refresh c, Err e)
          end
      end
  end.

Definition apply_op (q : quirks) (c : config) (o : op) : config * res unit :=
  match o with
  | OUpdate u allow_new =>
      match update1 c u allow_new with
      | Ok c' => (refresh c', Ok tt)
      | Err e => (c, Err e)
      end
  | ODict sec kvs src allow_new =>
      let sn := match sec with
                | Some s => Ok s
                | None => match master_section c with Ok (m, _) => Ok m | Err e => Err e end
                end in
      match sn with
      | Err e => (c, Err e)
      | Ok s => batch q c (map (fun kv => Ok (Upd s (fst kv) (snd kv) None src [])) kvs) allow_new false
      end
  | OOptions opts p src allow_new => options_batch q c opts p src allow_new
  | OFile text path allow_new cs =>
      match parse_ini q cs text with
      | Err e => (c, Err e)
      | Ok p =>
          let c' := match sget "__vars__" p with
                    | Some opts => with_vars c (merge_vars (c_vars c) (valued opts))
                    | None => c
                    end in
          batch q c' (parsed_items q path p) allow_new false
      end
  | OProfiles ps => (refresh (with_profiles c (norm_profiles ps)), Ok tt)
  | OMaster m => (with_master c m, Ok tt)
  | OFallback f => (with_fallback c f, Ok tt)
  | OVars vs => (with_vars c (merge_vars (c_vars c) vs), Ok tt)
  | OClearVars => (with_vars c [], Ok tt)
  | OClear => (with_vars (with_view (if q_clear q then c else with_raw c []) []) [], Ok tt)
  end.

Definition run (q : quirks) (ops : list op) (c : config) : config :=
  fold_left (fun c' o => fst (apply_op q c' o)) ops c.

(* the same, recording the outcome of every operation *)
Fixpoint run_obs (q : quirks) (ops : list op) (c : config) : config * list (res unit) :=
  match ops with
  | [] => (c, [])
  | o :: r =>
      let '(c', x) := apply_op q c o in
      let '(c'', xs) := run_obs q r c' in (c'', x :: xs)
  end.

(* declarative lookup: the first listed profile that defines (section, key) *)
Fixpoint first_def (profiles : list profile) (raw : rawdata) (sn key : string) : option entry :=
  match profiles with
  | [] => None
  | p :: r =>
      match match pget p raw with Some ps => lookup2 ps sn key | None => None end with
      | Some e => Some e
      | None => first_def r raw sn key
      end
  end.

(* ================================================================== correspondence *)

Inductive query : Set :=
| QGet (key : string) (value section default : option string)
| QExists (key : string) (section : option string)
| QSources
| QLayout                                   (* section names and keys of the flattened view, in order *)
| QTyped (sn key : string)                  (* str, list, tuple, as_list, dict, as_dict, bool, int *)
| QReplaced (sn key : string) (default : option string) (extra : list (string * string))
| QAsStr (width : nat) (with_meta : bool)
| QReadBack (width : nat) (case_sensitive : bool).   (* write_to_file; read_from_file; content of the new view *)

Record typed : Set := Typed {
  t_str : string; t_list : list string; t_tuple : list string; t_as_list : list string;
  t_dict : list (string * string); t_as_dict : res (list (string * string)); t_bool : res bool; t_int : res Z;
  t_float : res fval }.

Definition content : Set := list (string * list (string * string * meta)).

Inductive obs : Set :=
| AEntry (r : res (string * string))        (* value, source *)
| ABool (r : res bool)
| AStrings (l : list string)
| ALayout (l : list (string * list string))
| ATyped (r : res typed)
| AText (r : res string)
| AContent (r : res content).

Definition view_content (v : sections) : content :=
  map (fun ns => (fst ns, map (fun ke => (fst ke, e_val (snd ke), e_meta (snd ke))) (snd ns))) v.

Definition answer (q : quirks) (c : config) (qu : query) : obs :=
  match qu with
  | QGet key value section default =>
      AEntry (res_map (fun e => (e_val e, e_src e)) (get q c key value section default))
  | QExists key section => ABool (cfg_exists c key section)
  | QSources => AStrings (sources c)
  | QLayout => ALayout (map (fun ns => (fst ns, map fst (snd ns))) (c_view c))
  | QTyped sn key =>
      ATyped (match lookup2 (c_view c) sn key with
              | None => Err ErrEntry
              | Some e => let v := e_val e in
                          Ok (Typed v (val_list v) (val_list v) (val_as_list v) (val_dict v) (val_as_dict v)
                                    (val_bool v) (val_int v) (val_float v))
              end)
  | QReplaced sn key default extra =>
      AText (match lookup2 (c_view c) sn key with
             | None => Err ErrEntry
             | Some e => py_replace q (merge_vars (c_vars c) extra) default (e_val e)
             end)
  | QAsStr width with_meta => AText (Ok (as_str width with_meta c))
  | QReadBack width cs =>
      AContent (match apply_op q (empty_config "readback") (OFile (as_str width true c ++ s1 nl) "f" true cs) with
                | (c', Ok _) => Ok (view_content (c_view c'))
                | (_, Err e) => Err e
                end)
  end.

(* ---- equality of observations *)
Fixpoint list_eqb {A} (eqb : A -> A -> bool) (x y : list A) : bool :=
  match x, y with
  | [], [] => true
  | a :: r, b :: s => eqb a b && list_eqb eqb r s
  | _, _ => false
  end.
Definition opt_eqb {A} (eqb : A -> A -> bool) (x y : option A) : bool :=
  match x, y with Some a, Some b => eqb a b | None, None => true | _, _ => false end.
Definition res_eqb {A} (eqb : A -> A -> bool) (x y : res A) : bool :=
  match x, y with Ok a, Ok b => eqb a b | Err a, Err b => err_eqb a b | _, _ => false end.
Definition pair_eqb {A B} (ea : A -> A -> bool) (eb : B -> B -> bool) (x y : A * B) : bool :=
  ea (fst x) (fst y) && eb (snd x) (snd y).
Definition strs_eqb := list_eqb String.eqb.
Definition kvs_eqb := list_eqb (pair_eqb String.eqb String.eqb).
Definition meta_eqb := list_eqb (pair_eqb String.eqb (opt_eqb String.eqb)).
Definition subset_b (a b : list string) : bool := forallb (fun x => existsb (String.eqb x) b) a.

Definition typed_eqb (a b : typed) : bool :=
  String.eqb (t_str a) (t_str b) && strs_eqb (t_list a) (t_list b) && strs_eqb (t_tuple a) (t_tuple b)
  && strs_eqb (t_as_list a) (t_as_list b) && kvs_eqb (t_dict a) (t_dict b)
  && res_eqb kvs_eqb (t_as_dict a) (t_as_dict b) && res_eqb Bool.eqb (t_bool a) (t_bool b)
  && res_eqb Z.eqb (t_int a) (t_int b) && res_eqb fval_agree (t_float a) (t_float b).

Definition content_eqb : content -> content -> bool :=
  list_eqb (pair_eqb String.eqb (list_eqb (pair_eqb (pair_eqb String.eqb String.eqb) meta_eqb))).

Definition obs_eqb (x y : obs) : bool :=
  match x, y with
  | AEntry a, AEntry b => res_eqb (pair_eqb String.eqb String.eqb) a b
  | ABool a, ABool b => res_eqb Bool.eqb a b
  | AStrings a, AStrings b => subset_b a b && subset_b b a          (* a set *)
  | ALayout a, ALayout b => list_eqb (pair_eqb String.eqb strs_eqb) a b
  | ATyped a, ATyped b => res_eqb typed_eqb a b
  | AText a, AText b => res_eqb String.eqb a b
  | AContent a, AContent b => res_eqb content_eqb a b
  | _, _ => false
  end.

Definition unit_res_eqb (a b : res unit) : bool := res_eqb (fun _ _ => true) a b.

(* one case: name, operations with the observed outcome, queries with the observed answers *)
Definition case : Set := string * list (op * res unit) * list (query * obs).

Definition agrees (q : quirks) (k : case) : bool :=
  let '(name, ops, qs) := k in
  let '(c, outs) := run_obs q (map fst ops) (empty_config name) in
  list_eqb unit_res_eqb outs (map snd ops) && forallb (fun qo => obs_eqb (answer q c (fst qo)) (snd qo)) qs.

Definition quirks_of_mask (m : nat) : quirks :=
  {| q_stale := Nat.testbit m 0; q_fbsect := Nat.testbit m 1; q_mkey := Nat.testbit m 2; q_fmt := Nat.testbit m 3;
     q_metanl := Nat.testbit m 4; q_clear := Nat.testbit m 5; q_lead := Nat.testbit m 6;
     q_comment_cont := Nat.testbit m 7 |}.

(* explanations tried: every single deviation, every pair, all of them (a mismatch that needs three or more
   particular deviations at once is reported as unexplained: fail closed, and an unexplained case costs 37 model
   evaluations instead of 255) *)
Definition masks : list nat := [128; 64; 32; 16; 8; 4; 2; 1; 192; 160; 144; 136; 132; 130; 129; 96; 80; 72; 68; 66; 65; 48; 40; 36; 34; 33; 24; 20; 18; 17; 12; 10; 9; 6; 5; 3; 255]%nat.

(* 0 = midgard equals the specification; 100+mask = equals the model with exactly these deviations switched on;
   1 = unexplained *)
Definition check_case (k : case) : Z :=
  if agrees all_off k then 0%Z
  else match find (fun m => agrees (quirks_of_mask m) k) masks with
       | Some m => (100 + Z.of_nat m)%Z
       | None => 1%Z
       end.

(* first pass of the driver: does midgard equal the specification on this case? (0 yes, 2 no; the explanation search
   of check_case is then run on the differing cases only) *)
Definition check_plain (k : case) : Z := if agrees all_off k then 0%Z else 2%Z.

(* first differing step, for replay files: index of the first operation / query whose answer differs (spec model) *)
Definition first_diff (k : case) : Z * Z :=
  let '(name, ops, qs) := k in
  let '(c, outs) := run_obs all_off (map fst ops) (empty_config name) in
  let fix idx {A} (p : A -> bool) (l : list A) (n : Z) : Z :=
    match l with [] => (-1)%Z | x :: r => if p x then n else idx p r (n + 1)%Z end in
  (idx (fun ab => negb (unit_res_eqb (fst ab) (snd ab))) (combine outs (map snd ops)) 0%Z,
   idx (fun qo => negb (obs_eqb (answer all_off c (fst qo)) (snd qo))) qs 0%Z).
