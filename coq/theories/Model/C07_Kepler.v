(* C07 - orbit state <-> Keplerian elements (DESIGN 4.7): the model.

   Part 1 (over R): midgard/math/transformation.py kepler2trs / trs2kepler written step for step as the code writes them
   (rotation.R1/R3 entry for entry, nputil.norm / unit_vector, np.cross, np.arctan2 = Lib/Atan2.atan2), and
   KeplerPosVel.M / .f of midgard/data/position.py.  GM is a parameter of the model; the correspondence instantiates it with
   Gen/C07_Const.GM_Q (regenerated from midgard/math/constant.txt on every run).
   Part 2: the same computations as staged `Ival.rexpr` expressions (tied to part 1 by the `*_env_ok` lemmas of
   Proofs/C07_Kepler.v) and the check_* functions of the correspondence (verdict 0 = implementation agrees with the
   model / satisfies the oracle, 1 = it does not). *)
From Coq Require Import Reals ZArith QArith Qabs List Bool.
From Verif Require Import Lib.Dyadic Lib.Atan2 Lib.Ival Lib.Vec3 Lib.Mat3 Gen.C07_Const.
Import ListNotations.

(* ================================================================= Part 1: real-number model *)
Section RealModel.
Open Scope R_scope.

(* rotation.R1 / R3 *)
Definition R1 (a : R) : mat3 := M3 1 0 0   0 (cos a) (sin a)   0 (- sin a) (cos a).
Definition R3 (a : R) : mat3 := M3 (cos a) (sin a) 0   (- sin a) (cos a) 0   0 0 1.

(* columns of a KeplerPosVel: a, e, i, Omega, omega, E *)
Record kepler : Type := Kep { k_a : R; k_e : R; k_i : R; k_Omega : R; k_omega : R; k_E : R }.

(* ---------------------------------------------------------------- kepler2trs *)
(* PQW = rotation.R3(-Omega) @ rotation.R1(-i) @ rotation.R3(-omega) *)
Definition PQW (k : kepler) : mat3 := mmul (mmul (R3 (- k_Omega k)) (R1 (- k_i k))) (R3 (- k_omega k)).
Definition k2t_fac (k : kepler) : R := sqrt ((1 - k_e k) * (1 + k_e k)).
Definition k2t_r (k : kepler) : R := k_a k * (1 - k_e k * cos (k_E k)).
Definition k2t_v (GM : R) (k : kepler) : R := sqrt (GM * k_a k) / k2t_r k.
Definition r_orb (k : kepler) : vec3 :=
  V3 (k_a k * (cos (k_E k) - k_e k)) (k_a k * k2t_fac k * sin (k_E k)) 0.
Definition v_orb (GM : R) (k : kepler) : vec3 :=
  V3 (- k2t_v GM k * sin (k_E k)) (k2t_v GM k * k2t_fac k * cos (k_E k)) 0.
Definition kepler2trs (GM : R) (k : kepler) : vec3 * vec3 :=
  (mvec (PQW k) (r_orb k), mvec (PQW k) (v_orb GM k)).

(* ---------------------------------------------------------------- trs2kepler *)
(* nputil.unit_vector: vector / norm *)
Definition unitv (a : vec3) : vec3 := V3 (vx a / norm a) (vy a / norm a) (vz a / norm a).

Definition t2k_h (r v : vec3) : vec3 := cross r v.
Definition t2k_hu (r v : vec3) : vec3 := unitv (t2k_h r v).
Definition t2k_i (r v : vec3) : R :=
  atan2 (sqrt (vx (t2k_hu r v) * vx (t2k_hu r v) + vy (t2k_hu r v) * vy (t2k_hu r v))) (vz (t2k_hu r v)).
Definition t2k_Omega (r v : vec3) : R := atan2 (vx (t2k_hu r v)) (- vy (t2k_hu r v)).
Definition t2k_a (GM : R) (r v : vec3) : R := 1 / (2 / norm r - norm v * norm v / GM).
Definition t2k_p (GM : R) (r v : vec3) : R := norm (t2k_h r v) * norm (t2k_h r v) / GM.
Definition t2k_e (GM : R) (r v : vec3) : R := sqrt (1 - t2k_p GM r v / t2k_a GM r v).
Definition t2k_n (GM : R) (r v : vec3) : R := sqrt (GM / (t2k_a GM r v * t2k_a GM r v * t2k_a GM r v)).
Definition t2k_E (GM : R) (r v : vec3) : R :=
  atan2 (dot r v) ((t2k_a GM r v * t2k_a GM r v * t2k_n GM r v) * (1 - norm r / t2k_a GM r v)).
(* true anomaly from eccentricity and eccentric anomaly: the expression of trs2kepler (`vega`) and of KeplerPosVel.f *)
Definition true_anom (e E : R) : R := atan2 (sqrt (1 - e * e) * sin E) (cos E - e).
Definition t2k_u (r v : vec3) : R :=
  atan2 (vz r) (- vx r * vy (t2k_hu r v) + vy r * vx (t2k_hu r v)).
(* `if omega < 0: omega += 2 * np.pi` *)
Definition wrap_neg (w : R) : R := if Rlt_dec w 0 then w + 2 * PI else w.
Definition t2k_omega (GM : R) (r v : vec3) : R :=
  wrap_neg (t2k_u r v - true_anom (t2k_e GM r v) (t2k_E GM r v)).
Definition trs2kepler (GM : R) (r v : vec3) : kepler :=
  Kep (t2k_a GM r v) (t2k_e GM r v) (t2k_i r v) (t2k_Omega r v) (t2k_omega GM r v) (t2k_E GM r v).

(* ---------------------------------------------------------------- KeplerPosVel.M / .f *)
Definition mean_anomaly (k : kepler) : R := k_E k - k_e k * sin (k_E k).
Definition true_anomaly (k : kepler) : R := true_anom (k_e k) (k_E k).

(* domain of the property: bound (a > 0, e < 1), non-circular (0 < e), inclined (0 < i < PI) *)
Definition elliptic_inclined (k : kepler) : Prop := 0 < k_a k /\ 0 < k_e k < 1 /\ 0 < k_i k < PI.
(* principal ranges of the angles trs2kepler returns *)
Definition principal (k : kepler) : Prop :=
  - PI < k_Omega k <= PI /\ 0 <= k_omega k < 2 * PI /\ - PI < k_E k <= PI.
(* the same property stated on a state: negative energy, orbital plane not the equator, not circular *)
Definition bound_state (GM : R) (r v : vec3) : Prop :=
  0 < norm r /\ norm v * norm v / GM < 2 / norm r.
Definition inclined_state (r v : vec3) : Prop :=
  let h := cross r v in 0 < vx h * vx h + vy h * vy h.
Definition noncircular_state (GM : R) (r v : vec3) : Prop := 0 < t2k_e GM r v.

Definition kepler_entries (k : kepler) : list R := [k_a k; k_e k; k_i k; k_Omega k; k_omega k; k_E k].
Definition state_entries (s : vec3 * vec3) : list R :=
  [vx (fst s); vy (fst s); vz (fst s); vx (snd s); vy (snd s); vz (snd s)].
End RealModel.

(* ================================================================= Part 2: expressions and checks *)
Definition v_ (n : nat) : rexpr := EVar n.
Definition one_ : rexpr := EZ 1.
Definition two_ : rexpr := EZ 2.
Definition zero_ : rexpr := EZ 0.
Definition gm_ (g : Q) : rexpr := EQ g.   (* GM: a rational parameter of every staged expression *)
Definition neg_c (n : nat) : rexpr := ECos (ENeg (EVar n)).
Definition neg_s (n : nat) : rexpr := ESin (ENeg (EVar n)).

(* ---------------------------------------------------------------- kepler2trs, staged.
   variables 0..5 = a e i Omega omega E
   stage 1:  6 cosE  7 sinE  8 fac  9 cos(-Omega) 10 sin(-Omega) 11 cos(-i) 12 sin(-i) 13 cos(-omega) 14 sin(-omega)
   stage 2: 15 r     stage 3: 16 v
   stage 4: 17,18 r_orb x y   19,20 v_orb x y
   stage 5: 21..29 A = R3(-Omega) R1(-i) row major     stage 6: 30..38 PQW = A R3(-omega)
   stage 7: 39..41 R   42..44 V *)
Definition k2t_s1 : list rexpr :=
  [ECos (v_ 5); ESin (v_ 5); ESqrt (EMul (ESub one_ (v_ 1)) (EAdd one_ (v_ 1)));
   neg_c 3; neg_s 3; neg_c 2; neg_s 2; neg_c 4; neg_s 4].
Definition k2t_s2 : list rexpr := [EMul (v_ 0) (ESub one_ (EMul (v_ 1) (v_ 6)))].
Definition k2t_s3 (g : Q) : list rexpr := [EDiv (ESqrt (EMul (gm_ g) (v_ 0))) (v_ 15)].
Definition k2t_s4 : list rexpr :=
  [EMul (v_ 0) (ESub (v_ 6) (v_ 1)); EMul (EMul (v_ 0) (v_ 8)) (v_ 7);
   EMul (ENeg (v_ 16)) (v_ 7); EMul (EMul (v_ 16) (v_ 8)) (v_ 6)].
Definition dot3 (a1 a2 a3 b1 b2 b3 : rexpr) : rexpr := EAdd (EAdd (EMul a1 b1) (EMul a2 b2)) (EMul a3 b3).
(* product of two 3x3 matrices given as 9 expressions each (row major), as Mat3.mmul *)
Definition mmul_e (x y : list rexpr) : list rexpr :=
  match x, y with
  | [a; b; c; d; e; f; g; h; i], [a'; b'; c'; d'; e'; f'; g'; h'; i'] =>
      [dot3 a b c a' d' g'; dot3 a b c b' e' h'; dot3 a b c c' f' i';
       dot3 d e f a' d' g'; dot3 d e f b' e' h'; dot3 d e f c' f' i';
       dot3 g h i a' d' g'; dot3 g h i b' e' h'; dot3 g h i c' f' i']
  | _, _ => []
  end.
Definition mvec_e (m v : list rexpr) : list rexpr :=
  match m, v with
  | [a; b; c; d; e; f; g; h; i], [x; y; z] => [dot3 a b c x y z; dot3 d e f x y z; dot3 g h i x y z]
  | _, _ => []
  end.
Definition R1_e (c s : rexpr) : list rexpr := [one_; zero_; zero_;  zero_; c; s;  zero_; ENeg s; c].
Definition R3_e (c s : rexpr) : list rexpr := [c; s; zero_;  ENeg s; c; zero_;  zero_; zero_; one_].
Definition vars9 (from : nat) : list rexpr := map (fun k => EVar (from + k)) (seq 0 9).
Definition k2t_s5 : list rexpr := mmul_e (R3_e (v_ 9) (v_ 10)) (R1_e (v_ 11) (v_ 12)).
Definition k2t_s6 : list rexpr := mmul_e (vars9 21) (R3_e (v_ 13) (v_ 14)).
Definition k2t_s7 : list rexpr :=
  mvec_e (vars9 30) [v_ 17; v_ 18; zero_] ++ mvec_e (vars9 30) [v_ 19; v_ 20; zero_].
Definition k2t_stages (g : Q) : list (list rexpr) := [k2t_s1; k2t_s2; k2t_s3 g; k2t_s4; k2t_s5; k2t_s6; k2t_s7].
Definition k2t_out : list rexpr := [v_ 39; v_ 40; v_ 41; v_ 42; v_ 43; v_ 44].

Definition stages_I (p : prec) (env : list I.type) (st : list (list rexpr)) : list I.type :=
  fold_left (stage_I p) st env.
Definition stages_R (env : list R) (st : list (list rexpr)) : list R := fold_left stage_R st env.

(* ---------------------------------------------------------------- trs2kepler, staged.
   variables 0..5 = x y z vx vy vz
   stage 1:  6 r_norm  7 v_norm  8,9,10 h      stage 2: 11 h_norm
   stage 3: 12,13,14 h_unit   15 a   16 r.v
   stage 4: 17 i  18 Omega  19 p  20 n
   stage 5: 21 e  22 E  23 u          stage 6: 24 vega          stage 7: 25 u - vega (omega before the wrap) *)
Definition sq (e : rexpr) : rexpr := EMul e e.
Definition t2k_s1 : list rexpr :=
  [ESqrt (dot3 (v_ 0) (v_ 1) (v_ 2) (v_ 0) (v_ 1) (v_ 2));
   ESqrt (dot3 (v_ 3) (v_ 4) (v_ 5) (v_ 3) (v_ 4) (v_ 5));
   ESub (EMul (v_ 1) (v_ 5)) (EMul (v_ 2) (v_ 4));
   ESub (EMul (v_ 2) (v_ 3)) (EMul (v_ 0) (v_ 5));
   ESub (EMul (v_ 0) (v_ 4)) (EMul (v_ 1) (v_ 3))].
Definition t2k_s2 : list rexpr := [ESqrt (dot3 (v_ 8) (v_ 9) (v_ 10) (v_ 8) (v_ 9) (v_ 10))].
Definition t2k_s3 (g : Q) : list rexpr :=
  [EDiv (v_ 8) (v_ 11); EDiv (v_ 9) (v_ 11); EDiv (v_ 10) (v_ 11);
   EDiv one_ (ESub (EDiv two_ (v_ 6)) (EDiv (sq (v_ 7)) (gm_ g)));
   dot3 (v_ 0) (v_ 1) (v_ 2) (v_ 3) (v_ 4) (v_ 5)].
Definition t2k_s4 (g : Q) : list rexpr :=
  [EAtan2 (ESqrt (EAdd (sq (v_ 12)) (sq (v_ 13)))) (v_ 14);
   EAtan2 (v_ 12) (ENeg (v_ 13));
   EDiv (sq (v_ 11)) (gm_ g);
   ESqrt (EDiv (gm_ g) (EMul (EMul (v_ 15) (v_ 15)) (v_ 15)))].
Definition true_anom_e (e E : rexpr) : rexpr :=
  EAtan2 (EMul (ESqrt (ESub one_ (EMul e e))) (ESin E)) (ESub (ECos E) e).
Definition t2k_s5 : list rexpr :=
  [ESqrt (ESub one_ (EDiv (v_ 19) (v_ 15)));
   EAtan2 (v_ 16) (EMul (EMul (EMul (v_ 15) (v_ 15)) (v_ 20)) (ESub one_ (EDiv (v_ 6) (v_ 15))));
   EAtan2 (v_ 2) (EAdd (EMul (ENeg (v_ 0)) (v_ 13)) (EMul (v_ 1) (v_ 12)))].
Definition t2k_s6 : list rexpr := [true_anom_e (v_ 21) (v_ 22)].
Definition t2k_s7 : list rexpr := [ESub (v_ 23) (v_ 24)].
Definition t2k_stages (g : Q) : list (list rexpr) := [t2k_s1; t2k_s2; t2k_s3 g; t2k_s4 g; t2k_s5; t2k_s6; t2k_s7].

(* ---------------------------------------------------------------- tolerances.  1e-8 (round trip) is the figure of the
   property; 1e-10 is the harness' budget for implementation-vs-model (DESIGN 4.7); the absolute floor 1e-12 on e covers the
   conditioning of e = sqrt(1 - p/a) at e = 0.001 (d e = d(e^2) / 2e). *)
Definition rel10 : Q := 1 # 10000000000.
Definition rel9 : Q := 1 # 1000000000.
Definition rel8 : Q := 1 # 100000000.
Definition abs12 : Q := 1 # 1000000000000.
Definition abs14 : Q := 1 # 100000000000000.
Definition tol_angle : Q := 1 # 10000000000.      (* 1e-10 rad *)

Fixpoint qs_of (l : list dy) : option (list Q) :=
  match l with
  | [] => Some []
  | d :: l' => match dy_toQ d, qs_of l' with
               | Some q, Some qs => Some (q :: qs)
               | _, _ => None
               end
  end.
Definition qmax (l : list Q) : Q := fold_right (fun x acc => if Qle_bool acc (Qabs x) then Qabs x else acc) 0%Q l.
(* rel * max |entries| of a list of doubles; 0 if one of them is not finite (every check then fails) *)
Definition tol_of (rel : Q) (l : list dy) : Q :=
  match qs_of l with Some q => (rel * qmax q)%Q | None => 0%Q end.

Fixpoint check_all_abs (p : prec) (tol : Q) (rI : nat -> I.type) (es : list rexpr) (ds : list dy) : bool :=
  match es, ds with
  | [], [] => true
  | e :: es', d :: ds' => check_close p tol e rI d && check_all_abs p tol rI es' ds'
  | _, _ => false
  end.

Definition verdict (ok : bool) : Z := if ok then 0%Z else 1%Z.
Definition pi_d : dy := Dy 884279719003555 (-48).        (* np.pi *)
Definition dy_abs_le (x bound : dy) : bool :=
  match dy_toQ x, dy_toQ bound with Some a, Some b => Qle_bool (Qabs a) b | _, _ => false end.
Definition dy_nonneg (x : dy) : bool :=
  match dy_toQ x with Some a => Qle_bool 0 a | None => false end.

(* ---------------------------------------------------------------- A. kepler2trs: elements (6 doubles) -> state (6 doubles)
   each position entry within 1e-10 * max|position entries| of the model, each velocity entry within 1e-10 * max|velocity| *)
Definition k2t_env (p : prec) (g : Q) (k : list dy) : nat -> I.type := env_I (stages_I p (map (I_ofdy p) k) (k2t_stages g)).
Definition check_k2t_g (g : Q) (c : list dy * list dy) : Z :=
  let '(k, s) := c in
  match s with
  | [x; y; z; vx; vy; vz] =>
      let env := k2t_env p128 g k in
      verdict ((length k =? 6)%nat &&
               check_all_abs p128 (tol_of rel10 [x; y; z]) env [v_ 39; v_ 40; v_ 41] [x; y; z] &&
               check_all_abs p128 (tol_of rel10 [vx; vy; vz]) env [v_ 42; v_ 43; v_ 44] [vx; vy; vz])
  | _ => 1%Z
  end.

(* ---------------------------------------------------------------- B. trs2kepler: state -> elements.
   a relative 1e-10; e relative 1e-10 + 1e-12; i absolute 1e-10; Omega, omega, E within 1e-10 rad modulo one turn (the
   implementation may sit on the other side of an arctan2 cut / of the omega < 0 wrap by a rounding error), and every angle
   in its principal range: 0 <= i <= pi, |Omega| <= pi, 0 <= omega < 2 pi, |E| <= pi. *)
Definition t2k_env (p : prec) (g : Q) (s : list dy) : nat -> I.type := env_I (stages_I p (map (I_ofdy p) s) (t2k_stages g)).
Definition check_t2k_g (g : Q) (c : list dy * list dy) : Z :=
  let '(s, k) := c in
  match k with
  | [a; e; i; Om; om; E] =>
      let env := t2k_env p128 g s in
      verdict ((length s =? 6)%nat &&
               check_close_rel p128 rel10 0 (v_ 15) env a &&
               check_close_rel p128 rel10 abs12 (v_ 21) env e &&
               check_close p128 tol_angle (v_ 17) env i &&
               check_close_mod2pi p128 tol_angle (v_ 18) env Om &&
               check_close_mod2pi p128 tol_angle (v_ 25) env om &&
               check_close_mod2pi p128 tol_angle (v_ 22) env E &&
               dy_nonneg i && dy_abs_le i pi_d && dy_abs_le Om pi_d && dy_abs_le E pi_d &&
               dy_nonneg om && check_lt p128 (EDy om) (EMul two_ EPi) env)
  | _ => 1%Z
  end.

(* ---------------------------------------------------------------- C. the two-body relations on the implementation's own
   doubles (property oracle, no model of the conversion involved): state s, elements k = implementation(s)
     vis-viva           | v^2 - GM (2/r - 1/a) |          <= 1e-9 v^2
     angular momentum   | h^2 - GM a (1 - e^2) |          <= 1e-9 h^2
     inclination        | cos i - h_z / h |               <= 1e-10
     node               | sin i sin Om - h_x/h |, | - sin i cos Om - h_y/h |   <= 1e-10
     radius             | r - a (1 - e cos E) |           <= 1e-9 r
     radial velocity    | r.v - sqrt(GM a) e sin E |      <= 1e-9 r v
   variables 0..5 = state, 6..11 = a e i Omega omega E;  stage: 12 r  13 v  14 h_x 15 h_y 16 h_z  then 17 h *)
Definition tb_s1 : list rexpr :=
  [ESqrt (dot3 (v_ 0) (v_ 1) (v_ 2) (v_ 0) (v_ 1) (v_ 2));
   ESqrt (dot3 (v_ 3) (v_ 4) (v_ 5) (v_ 3) (v_ 4) (v_ 5));
   ESub (EMul (v_ 1) (v_ 5)) (EMul (v_ 2) (v_ 4));
   ESub (EMul (v_ 2) (v_ 3)) (EMul (v_ 0) (v_ 5));
   ESub (EMul (v_ 0) (v_ 4)) (EMul (v_ 1) (v_ 3))].
Definition tb_s2 : list rexpr := [ESqrt (dot3 (v_ 14) (v_ 15) (v_ 16) (v_ 14) (v_ 15) (v_ 16))].
Definition le_scaled (p : prec) (env : nat -> I.type) (lhs : rexpr) (rel : Q) (scale : rexpr) : bool :=
  check_le p (EAbs lhs) (EMul (EQ rel) scale) env.
Definition check_twobody_g (g : Q) (c : list dy * list dy) : Z :=
  let '(s, k) := c in
  let env := env_I (stages_I p128 (map (I_ofdy p128) (s ++ k)) [tb_s1; tb_s2]) in
  verdict ((length s =? 6)%nat && (length k =? 6)%nat &&
    le_scaled p128 env (ESub (sq (v_ 13)) (EMul (gm_ g) (ESub (EDiv two_ (v_ 12)) (EDiv one_ (v_ 6))))) rel9 (sq (v_ 13)) &&
    le_scaled p128 env (ESub (sq (v_ 17)) (EMul (EMul (gm_ g) (v_ 6)) (ESub one_ (sq (v_ 7))))) rel9 (sq (v_ 17)) &&
    le_scaled p128 env (ESub (ECos (v_ 8)) (EDiv (v_ 16) (v_ 17))) rel10 one_ &&
    le_scaled p128 env (ESub (EMul (ESin (v_ 8)) (ESin (v_ 9))) (EDiv (v_ 14) (v_ 17))) rel10 one_ &&
    le_scaled p128 env (ESub (ENeg (EMul (ESin (v_ 8)) (ECos (v_ 9)))) (EDiv (v_ 15) (v_ 17))) rel10 one_ &&
    le_scaled p128 env (ESub (v_ 12) (EMul (v_ 6) (ESub one_ (EMul (v_ 7) (ECos (v_ 11)))))) rel9 (v_ 12) &&
    le_scaled p128 env (ESub (dot3 (v_ 0) (v_ 1) (v_ 2) (v_ 3) (v_ 4) (v_ 5))
                             (EMul (EMul (ESqrt (EMul (gm_ g) (v_ 6))) (v_ 7)) (ESin (v_ 11)))) rel9 (EMul (v_ 12) (v_ 13))).

(* the checks with the library's default constant ... *)
Definition check_k2t : list dy * list dy -> Z := check_k2t_g GM_Q.
Definition check_t2k : list dy * list dy -> Z := check_t2k_g GM_Q.
Definition check_twobody : list dy * list dy -> Z := check_twobody_g GM_Q.
(* ... and with the constant of the n-th source of [GM] in constant.txt (Gen/C07_Const.GM_sources, regenerated): the conversion
   was run inside `constant.use_source(<that source>)`.  An unknown index gives GM = 0 and every check fails. *)
Definition gm_of_source (n : Z) : Q := nth (Z.to_nat n) (map fst GM_sources) 0%Q.
Definition check_k2t_src (c : Z * list dy * list dy) : Z := let '(n, k, s) := c in check_k2t_g (gm_of_source n) (k, s).
Definition check_t2k_src (c : Z * list dy * list dy) : Z := let '(n, s, k) := c in check_t2k_g (gm_of_source n) (s, k).
Definition check_twobody_src (c : Z * list dy * list dy) : Z := let '(n, s, k) := c in check_twobody_g (gm_of_source n) (s, k).
(* constant.GM observed inside use_source(n-th source) is the correctly rounded decimal of the text, and positive *)
Definition check_const_src (c : Z * dy) : Z :=
  let '(n, d) := c in verdict ((0 <=? n)%Z && (Z.to_nat n <? length GM_sources)%nat &&
                               is_nearest_double (gm_of_source n) d && negb (Qle_bool (gm_of_source n) 0)).

(* ---------------------------------------------------------------- D. round trips, exact rational arithmetic on the doubles.
   state -> elements -> state:  max |dpos| <= 1e-8 max |pos|,  max |dvel| <= 1e-8 max |vel|  (the property's figure) *)
Definition close_cert (rel : Q) (a b : list dy) : bool :=
  match qs_of a, qs_of b with
  | Some qa, Some qb =>
      (length qa =? length qb)%nat && negb (Qle_bool (qmax qa) 0) &&
      Qle_bool (qmax (map (fun xy => (fst xy - snd xy)%Q) (combine qb qa))) (rel * qmax qa)%Q
  | _, _ => false
  end.
Definition check_roundtrip (c : list dy * list dy) : Z :=
  let '(s, s') := c in
  match s, s' with
  | [x; y; z; vx; vy; vz], [x'; y'; z'; vx'; vy'; vz'] =>
      verdict (close_cert rel8 [x; y; z] [x'; y'; z'] && close_cert rel8 [vx; vy; vz] [vx'; vy'; vz'])
  | _, _ => 1%Z
  end.

(* elements -> state -> elements: a, e relative 1e-8 (e with the 1e-12 floor), angles within 1e-8 rad modulo one turn *)
Definition pi2_lo : Q := 6283185307179586 # 1000000000000000.    (* < 2 pi < pi2_lo + 1e-15 *)
Definition ang_close (tol : Q) (a b : dy) : bool :=
  match dy_toQ a, dy_toQ b with
  | Some x, Some y =>
      let d := Qabs (x - y)%Q in
      Qle_bool d tol || Qle_bool (Qabs (d - pi2_lo)%Q) tol || Qle_bool (Qabs (d - 2 * pi2_lo)%Q) tol
  | _, _ => false
  end.
Definition check_roundtrip_elements (c : list dy * list dy) : Z :=
  let '(k, k') := c in
  match k, k' with
  | [a; e; i; Om; om; E], [a'; e'; i'; Om'; om'; E'] =>
      verdict (close_cert rel8 [a] [a'] &&
               within_rel rel8 abs12 (dyQ e) e' &&
               ang_close rel8 i i' && ang_close rel8 Om Om' && ang_close rel8 om om' && ang_close rel8 E E')
  | _, _ => 1%Z
  end.

(* ---------------------------------------------------------------- E. mean and true anomaly of a KeplerPosVel:
   (e, E, M, f) with M, f the implementation's doubles.
     Kepler's equation      | M - (E - e sin E) |  <= 1e-14 (1 + |M|)
     true anomaly           f = atan2(sqrt(1-e^2) sin E, cos E - e) within 1e-12 rad modulo one turn, |f| <= pi
     half-angle relation    | sqrt(1-e) sin(f/2) cos(E/2) - sqrt(1+e) sin(E/2) cos(f/2) | <= 1e-12
                            (tan(f/2) = sqrt((1+e)/(1-e)) tan(E/2) multiplied out: also meaningful at E = +-pi, and
                            for E outside (-pi, pi], where both sides of the tangent relation are pi-periodic in E/2) *)
Definition tol12 : Q := 1 # 1000000000000.
Definition half (e : rexpr) : rexpr := EDiv e two_.
Definition check_anomaly (c : dy * dy * dy * dy) : Z :=
  let '(e, E, M, f) := c in
  let env := env_dy p128 [e; E; M; f] in
  verdict (check_close_rel p128 abs14 abs14 (ESub (v_ 1) (EMul (v_ 0) (ESin (v_ 1)))) env M &&
           check_close_mod2pi p128 tol12 (true_anom_e (v_ 0) (v_ 1)) env f &&
           dy_abs_le f pi_d &&
           check_close p128 tol12
             (ESub (EMul (EMul (ESqrt (ESub one_ (v_ 0))) (ESin (half (v_ 3)))) (ECos (half (v_ 1))))
                   (EMul (EMul (ESqrt (EAdd one_ (v_ 0))) (ESin (half (v_ 1)))) (ECos (half (v_ 3)))))
             env (DZero false)).

(* ---------------------------------------------------------------- F. the constant: the double the library uses is the
   correctly rounded value of the decimal text of constant.txt, and it is positive *)
Definition check_const (u : unit) : Z :=
  verdict (is_nearest_double GM_Q GM_dy && negb (Qle_bool GM_Q 0)).
