(* C04 - time arrays under derivation histories.  Executable model only (no proofs here).

   Anchors: midgard/data/_time.py  TimeBase.__new__, __array_finalize__, __getitem__, subset, insert,
            __copy__/__deepcopy__, to_scale / to_format (lru_cache keyed by __hash__/__eq__),
            __hash__, __eq__, __setattr__.

   An object carries its values (one row per epoch), its split Julian dates (one pair per epoch, or a
   bare pair for a 0-dimensional object), format, scale and the hidden attribute `_jd*_sliced`
   (o_sl).  Data only moves: values and Julian dates are opaque tokens (V, J); the three elementwise
   functions of the code (format value of a jd pair `vj`, scale conversion `cv`) are parameters.

   `F q` is the transition function with quirk switches q; the specification is `F quirks_off`.

   Quirks (mechanisms of the present source):
     q_side     __getitem__ leaves jd[item] in _jd*_sliced on the *parent*; __array_finalize__ of any
                later view of that parent (view(), tuple index) takes whatever is stored there
     q_cache    to_scale / to_format are lru_cache'd on (self, arg) where hash/eq of self look at the jd
                bytes only: an equal-jd object of another shape gets the first caller's result
                (to_scale: the very same object, including its hidden state)
     q_rebuild  a single gps_ws epoch (shape (3,)) cannot be re-created from its values
                (TimeGPSWeekSec._to_jds insists on val2): copy/deepcopy/subset(int) raise *)
From Coq Require Import ZArith List Bool.
Import ListNotations.
Open Scope Z_scope.

(* ------------------------------------------------------------------ generic list helpers *)
Fixpoint mapM {A B : Type} (f : A -> option B) (l : list A) : option (list B) :=
  match l with
  | [] => Some []
  | x :: r => match f x, mapM f r with
              | Some y, Some ys => Some (y :: ys)
              | _, _ => None
              end
  end.

Definition pick {A : Type} (l : list A) (idx : list nat) : option (list A) :=
  mapM (fun i => nth_error l i) idx.

(* ------------------------------------------------------------------ index expressions *)
Inductive item : Type :=
| IInt (i : Z)
| ISlice (a b : option Z) (c : Z)
| IMask (m : list bool)
| ITake (l : list Z).

Definition is_int (it : item) : bool := match it with IInt _ => true | _ => false end.
Definition is_slice (it : item) : bool := match it with ISlice _ _ _ => true | _ => false end.

(* Python / NumPy index normalisation on an axis of length n *)
Definition norm_idx (n i : Z) : option nat :=
  if (0 <=? i) && (i <? n) then Some (Z.to_nat i)
  else if (- n <=? i) && (i <? 0) then Some (Z.to_nat (i + n))
  else None.

(* CPython PySlice_AdjustIndices *)
Definition slice_adj (n c x : Z) : Z :=
  if x <? 0 then (let y := x + n in if y <? 0 then (if c <? 0 then -1 else 0) else y)
  else if n <=? x then (if c <? 0 then n - 1 else n)
  else x.

Definition slice_sel (n : Z) (a b : option Z) (c : Z) : option (list nat) :=
  if c =? 0 then None else
  let start := match a with Some x => slice_adj n c x | None => if c <? 0 then n - 1 else 0 end in
  let stop := match b with Some x => slice_adj n c x | None => if c <? 0 then -1 else n end in
  let len := if c <? 0 then (if stop <? start then (start - stop - 1) / (- c) + 1 else 0)
             else (if start <? stop then (stop - start - 1) / c + 1 else 0) in
  Some (map (fun k => Z.to_nat (start + Z.of_nat k * c)) (seq 0 (Z.to_nat len))).

Fixpoint mask_sel (m : list bool) (i : nat) : list nat :=
  match m with
  | [] => []
  | b :: r => (if b then [i] else []) ++ mask_sel r (S i)
  end.

(* positions selected on an axis of length n; None = IndexError / ValueError *)
Definition sel (n : nat) (it : item) : option (list nat) :=
  match it with
  | IInt i => option_map (fun x => [x]) (norm_idx (Z.of_nat n) i)
  | ISlice a b c => slice_sel (Z.of_nat n) a b c
  | IMask m => if Nat.eqb (length m) n || Nat.eqb (length m) 0   (* NumPy accepts an empty boolean index *)
               then Some (mask_sel m 0) else None
  | ITake l => mapM (norm_idx (Z.of_nat n)) l
  end.

Definition index {A : Type} (l : list A) (it : item) : option (list A) :=
  match sel (length l) it with
  | None => None
  | Some idx => pick l idx
  end.

(* np.insert(l, pos, xs) with scalar pos *)
Definition insert_at {A : Type} (l : list A) (pos : Z) (xs : list A) : option (list A) :=
  let n := Z.of_nat (length l) in
  if (- n <=? pos) && (pos <=? n) then
    let p := Z.to_nat (if pos <? 0 then pos + n else pos) in
    Some (firstn p l ++ xs ++ skipn p l)
  else None.

(* ------------------------------------------------------------------ quirks *)
(* q_shape refines q_cache: the memoization keys (hash / eq of the array) also contain the shape of jd1, so that a
   single epoch and a one-element array are different keys (repair of __eq__/__hash__); equal arrays of the same shape
   still share the memoized to_scale result object *)
Record quirks : Set := mkQ { q_side : bool; q_cache : bool; q_rebuild : bool; q_shape : bool }.
Definition quirks_off : quirks := mkQ false false false false.
Definition quirks_on : quirks := mkQ true true true false.

(* format tags: 0 = jd, 1 = mjd, 2 = gps_ws (three columns), 3 = days, 4 = seconds, 5 = datetime, 6 = isot;  scale tags: 0 = scale of the root,
   1 = the other scale of the history *)
(* formats whose single epoch cannot be rebuilt from its values under q_rebuild: 2 = gps_ws (repaired in the
   source since), 5 = datetime, 6 = isot (the format classes loop over / hash a 0-d array) *)
Definition multi (fmt : Z) : bool := (fmt =? 2) || (fmt =? 5) || (fmt =? 6).

Section Model.
  Variables V J : Type.
  Variable jeqb : J -> J -> bool.          (* equality of jd pairs as seen by __hash__/__eq__ *)
  Variable vj : Z -> Z -> J -> V.           (* scale, fmt, jd pair -> value row: Format.from_jds *)
  Variable cv : J -> J.                     (* conversion scale 0 -> scale 1 (elementwise) *)
  Variable cvi : J -> J.                    (* conversion scale 1 -> scale 0 (not the exact inverse: last bits) *)
  Variable fmt_to : Z -> Z.                 (* format of the converted array (fallback "jd") *)
  Variable cv_iter : bool.                  (* the conversion iterates over its argument (delta_tai_utc:
                                               `for t in time`) and reads time.mjd through to_format *)

  Inductive jdv : Type := JS (j : J) | JA (l : list J).
  Definition flat (x : jdv) : list J := match x with JS j => [j] | JA l => l end.
  Definition is_js (x : jdv) : bool := match x with JS _ => true | JA _ => false end.
  Definition map_jdv (f : J -> J) (x : jdv) : jdv :=
    match x with JS j => JS (f j) | JA l => JA (map f l) end.

  Record obj : Type := mkObj {
    o_scalar : bool;            (* values are a single epoch (0-d, or one gps_ws row) *)
    o_vals : list V;
    o_jd : jdv;
    o_fmt : Z;
    o_scale : Z;
    o_sl : option jdv           (* _jd1_sliced/_jd2_sliced *)
  }.

  (* len(o): number of epochs *)
  Definition olen (o : obj) : nat := if o_scalar o then 1%nat else length (o_vals o).

  Definition set_sl (o : obj) (s : option jdv) : obj :=
    mkObj (o_scalar o) (o_vals o) (o_jd o) (o_fmt o) (o_scale o) s.

  (* cls.from_jds(jd1, jd2, fmt): values are computed from the jd pair(s) *)
  Definition from_jds (scale fmt : Z) (x : jdv) : obj :=
    mkObj (is_js x) (map (vj scale fmt) (flat x)) x fmt scale None.

  (* jd[item] *)
  Definition index_jd (x : jdv) (it : item) : option jdv :=
    match x with
    | JS _ => None
    | JA l => match index l it with
              | None => None
              | Some r => if is_int it then match r with [j] => Some (JS j) | _ => None end
                          else Some (JA r)
              end
    end.

  Inductive op : Type :=
  | Get (k : nat) (it : item)       (* o[it]            (int, slice, mask, int list) *)
  | GetT (k : nat) (it : item)      (* o[(slice,)]      tuple index *)
  | Iter (k : nat)                  (* list(o) *)
  | View (k : nat)                  (* o.view() *)
  | Copy (k : nat)                  (* copy.copy(o) / o.copy() *)
  | Deepcopy (k : nat)              (* copy.deepcopy(o) *)
  | Subset (k : nat) (it : item)    (* o.subset(idx, {}) *)
  | Insert (k : nat) (pos : Z) (j : nat)   (* TimeArray.insert(o_k, pos, o_j, {}) *)
  | Scale (k : nat) (s : Z)         (* getattr(o, <scale s>) *)
  | Write (k : nat) (w : Z).        (* o[i] = x, o.attr = x, o.jd1[i] = x, o.val[i] = x, o += x *)

  Definition is_write (p : op) : bool := match p with Write _ _ => true | _ => false end.

  (* result of one step; the bool is the shape (true = scalar) in which a derived format is returned *)
  Inductive result : Type :=
  | RErr
  | RObj (o : obj) (dsc : bool)
  | RList (l : list (obj * bool))
  | RMixed.     (* an object whose jd1 is a scalar and jd2 an array: outside the model, histories stop here *)

  Definition skey : Type := (Z * list J * Z)%type.
  Definition fkey : Type := (Z * list J)%type.

  Record state : Type := mkState {
    heap : list obj;
    names : list nat;                    (* name (position in the history) -> heap cell *)
    scache : list (skey * nat);          (* to_scale lru_cache: key -> heap cell *)
    fcache : list (fkey * bool)          (* to_format lru_cache: key -> shape of the stored result *)
  }.

  Fixpoint list_eqb {A : Type} (e : A -> A -> bool) (a b : list A) : bool :=
    match a, b with
    | [], [] => true
    | x :: a', y :: b' => e x y && list_eqb e a' b'
    | _, _ => false
    end.

  Definition skey_eqb (a b : skey) : bool :=
    (fst (fst a) =? fst (fst b)) && list_eqb jeqb (snd (fst a)) (snd (fst b)) && (snd a =? snd b).
  Definition fkey_eqb (a b : fkey) : bool :=
    (fst a =? fst b) && list_eqb jeqb (snd a) (snd b).

  Fixpoint assoc {K W : Type} (e : K -> K -> bool) (k : K) (l : list (K * W)) : option W :=
    match l with
    | [] => None
    | (k', w) :: r => if e k k' then Some w else assoc e k r
    end.

  Definition getobj (st : state) (k : nat) : option (nat * obj) :=
    match nth_error (names st) k with
    | None => None
    | Some h => match nth_error (heap st) h with None => None | Some o => Some (h, o) end
    end.

  Fixpoint upd {A : Type} (l : list A) (i : nat) (x : A) : list A :=
    match l, i with
    | [], _ => []
    | _ :: r, O => x :: r
    | y :: r, S i' => y :: upd r i' x
    end.

  Definition set_heap_sl (st : state) (h : nat) (s : option jdv) : state :=
    match nth_error (heap st) h with
    | None => st
    | Some o => mkState (upd (heap st) h (set_sl o s)) (names st) (scache st) (fcache st)
    end.

  Definition push (st : state) (o : obj) : state :=
    mkState (heap st ++ [o]) (names st ++ [length (heap st)]) (scache st) (fcache st).

  Definition alias (st : state) (h : nat) : state :=
    mkState (heap st) (names st ++ [h]) (scache st) (fcache st).

  (* first component of the memoization keys: the scale (class) of the array, with q_shape also its shape *)
  Definition kscale (q : quirks) (o : obj) : Z :=
    if q_shape q then 10 + 2 * o_scale o + (if is_js (o_jd o) then 1 else 0) else o_scale o.

  (* reading a derived format of o (done by the harness on every object it obtains) *)
  Definition observe (q : quirks) (st : state) (o : obj) : state * bool :=
    let own := is_js (o_jd o) in
    if q_cache q then
      let key := (kscale q o, flat (o_jd o)) in
      match assoc fkey_eqb key (fcache st) with
      | Some b => (st, b)
      | None => (mkState (heap st) (names st) (scache st) ((key, own) :: fcache st), own)
      end
    else (st, own).

  Definition new_obj (q : quirks) (st : state) (o : obj) : state * result :=
    let (st1, b) := observe q (push st o) o in (st1, RObj o b).

  Definition ref_obj (q : quirks) (st : state) (h : nat) : state * result :=
    match nth_error (heap st) h with
    | None => (st, RErr)
    | Some o => let (st1, b) := observe q (alias st h) o in (st1, RObj o b)
    end.

  Definition do_get (q : quirks) (st : state) (k : nat) (it : item) : state * result :=
    match getobj st k with
    | None => (st, RErr)
    | Some (h, o) =>
      if o_scalar o then (st, RErr) else
      if q_side q then
        (* the source: store jd[item] on the parent, then build / view *)
        match (match o_jd o with
               | JA _ => match index_jd (o_jd o) it with
                         | Some r => Some (set_heap_sl st h (Some r), Some r)
                         | None => None
                         end
               | JS _ => Some (st, o_sl o)
               end) with
        | None => (st, RErr)
        | Some (st1, sl1) =>
          if is_int it then
            match sl1 with
            | Some x => new_obj q st1 (from_jds (o_scale o) (o_fmt o) x)
            | None => (st1, RErr)
            end
          else
            match index (o_vals o) it with
            | None => (st1, RErr)
            | Some vs =>
              new_obj q st1 (mkObj false vs (match sl1 with Some s => s | None => o_jd o end)
                                   (o_fmt o) (o_scale o) None)
            end
        end
      else
        match index_jd (o_jd o) it with
        | None => (st, RErr)
        | Some r =>
          if is_int it then new_obj q st (from_jds (o_scale o) (o_fmt o) r)
          else match index (o_vals o) it with
               | None => (st, RErr)
               | Some vs => new_obj q st (mkObj false vs r (o_fmt o) (o_scale o) None)
               end
        end
    end.

  (* jd attached by __array_finalize__ to a view of o that did not come through a non-tuple __getitem__ *)
  Definition finalize_jd (q : quirks) (o : obj) (spec : option jdv) : option jdv :=
    if q_side q then Some (match o_sl o with Some s => s | None => o_jd o end) else spec.

  Definition do_gett (q : quirks) (st : state) (k : nat) (it : item) : state * result :=
    match getobj st k with
    | None => (st, RErr)
    | Some (h, o) =>
      if o_scalar o || negb (is_slice it) then (st, RErr) else
      match index (o_vals o) it, finalize_jd q o (index_jd (o_jd o) it) with
      | Some vs, Some r => new_obj q st (mkObj false vs r (o_fmt o) (o_scale o) None)
      | _, _ => (st, RErr)
      end
    end.

  Definition do_view (q : quirks) (st : state) (k : nat) : state * result :=
    match getobj st k with
    | None => (st, RErr)
    | Some (h, o) =>
      match finalize_jd q o (Some (o_jd o)) with
      | Some r => new_obj q st (mkObj (o_scalar o) (o_vals o) r (o_fmt o) (o_scale o) None)
      | None => (st, RErr)
      end
    end.

  (* iteration = o[0], o[1], ... until IndexError (only the jd's are consulted) *)
  Fixpoint observe_all (q : quirks) (st : state) (os : list obj) : state * list (obj * bool) :=
    match os with
    | [] => (st, [])
    | o :: r => let (st1, b) := observe q st o in
                let (st2, l) := observe_all q st1 r in (st2, (o, b) :: l)
    end.

  Definition do_iter (q : quirks) (st : state) (k : nat) : state * result :=
    match getobj st k with
    | None => (st, RErr)
    | Some (h, o) =>
      if o_scalar o then (st, RErr) else
      match o_jd o with
      | JS _ => (st, RErr)
      | JA l =>
        let st1 := if q_side q then match rev l with j :: _ => set_heap_sl st h (Some (JS j)) | [] => st end
                   else st in
        let (st2, rs) := observe_all q st1 (map (fun j => from_jds (o_scale o) (o_fmt o) (JS j)) l) in
        (st2, RList rs)
      end
    end.

  Definition do_copy (q : quirks) (st : state) (k : nat) : state * result :=
    match getobj st k with
    | None => (st, RErr)
    | Some (h, o) =>
      if q_rebuild q && o_scalar o && multi (o_fmt o) then (st, RErr)
      else new_obj q st (mkObj (o_scalar o) (o_vals o) (o_jd o) (o_fmt o) (o_scale o) None)
    end.

  Definition do_subset (q : quirks) (st : state) (k : nat) (it : item) : state * result :=
    match getobj st k with
    | None => (st, RErr)
    | Some (h, o) =>
      if o_scalar o then (st, RErr) else
      match index (o_vals o) it, index_jd (o_jd o) it with
      | Some vs, Some r =>
        if q_rebuild q && is_int it && (o_fmt o =? 2) then (st, RErr)   (* the element of a text / datetime array is a bare value *)
        else new_obj q st (mkObj (is_int it) vs r (o_fmt o) (o_scale o) None)
      | _, _ => (st, RErr)
      end
    end.

  (* np.insert of b's rows / jd pairs into a's *)
  Definition ins (q : quirks) (st : state) (a b : obj) (pos : Z) : state * result :=
    match insert_at (o_vals a) pos (o_vals b), insert_at (flat (o_jd a)) pos (flat (o_jd b)) with
    | Some vs, Some js => new_obj q st (mkObj false vs (JA js) (o_fmt a) (o_scale a) None)
    | _, _ => (st, RErr)
    end.

  (* getattr(b, <scale 1>) of an array of scale 0 whose result is used but not kept by the caller (insert of an
     array of another scale): the converted object and the state with the side effects of the conversion *)
  Definition convert_anon (q : quirks) (st : state) (h : nat) (o : obj) : state * option obj :=
    let key := (kscale q o, flat (o_jd o), 1) in
    match (if q_cache q then assoc skey_eqb key (scache st) else None) with
    | Some h' => (st, nth_error (heap st) h')
    | None =>
      if q_side q && cv_iter && negb (o_scalar o) && is_js (o_jd o) then (st, None)
      else if q_cache q && cv_iter && is_js (o_jd o) &&
              match assoc fkey_eqb (kscale q o, flat (o_jd o)) (fcache st) with Some false => true | _ => false end
      then (st, None)      (* jd1 scalar / jd2 array: outside the model, not generated *)
      else
        let st0 := if q_side q && cv_iter && negb (o_scalar o)
                   then match rev (flat (o_jd o)) with j :: _ => set_heap_sl st h (Some (JS j)) | [] => st end
                   else st in
        let o' := from_jds 1 (fmt_to (o_fmt o)) (map_jdv cv (o_jd o)) in
        (if q_cache q
         then mkState (heap st0 ++ [o']) (names st0) ((key, length (heap st0)) :: scache st0) (fcache st0)
         else st0, Some o')
    end.

  (* getattr(b, <scale 0>) of an object of scale 1 (only used by insert; utc/tai configurations): tai -> utc
     iterates over its argument as well and reads `time.tai` (own scale, through the cache: b is registered) *)
  Definition convert_back (q : quirks) (st : state) (h : nat) (o : obj) : state * option obj :=
    let key := (kscale q o, flat (o_jd o), 0) in
    match (if q_cache q then assoc skey_eqb key (scache st) else None) with
    | Some h' => (st, nth_error (heap st) h')
    | None =>
      if q_side q && cv_iter && negb (o_scalar o) && is_js (o_jd o) then (st, None)
      else if q_cache q && cv_iter && is_js (o_jd o) &&
              match assoc fkey_eqb (kscale q o, flat (o_jd o)) (fcache st) with Some false => true | _ => false end
      then (st, None)
      else
        let st0 := if q_side q && cv_iter && negb (o_scalar o)
                   then match rev (flat (o_jd o)) with j :: _ => set_heap_sl st h (Some (JS j)) | [] => st end
                   else st in
        let o' := from_jds 0 (o_fmt o) (map_jdv cvi (o_jd o)) in
        (if q_cache q
         then let own := (kscale q o, flat (o_jd o), o_scale o) in
              let sc0 := match assoc skey_eqb own (scache st0) with
                         | Some _ => scache st0
                         | None => (own, h) :: scache st0
                         end in
              mkState (heap st0 ++ [o']) (names st0) ((key, length (heap st0)) :: sc0) (fcache st0)
         else st0, Some o')
    end.

  (* TimeArray.insert(a, pos, b, {}): b (array or single epoch) is first brought to the scale of a, then values and jd pairs of the converted b are inserted *)
  Definition do_insert (q : quirks) (st : state) (k : nat) (pos : Z) (j : nat) : state * result :=
    match getobj st k, getobj st j with
    | Some (_, a), Some (hb, b) =>
      if o_scalar a then (st, RErr)
      else if o_scale a =? o_scale b then
        (if o_fmt a =? o_fmt b then ins q st a b pos else (st, RErr))
      else if (o_scale a =? 1) && (o_scale b =? 0) then
        match convert_anon q st hb b with
        | (st1, Some b') => if o_fmt a =? o_fmt b' then ins q st1 a b' pos else (st1, RErr)
        | (st1, None) => (st1, RErr)
        end
      else if (o_scale a =? 0) && (o_scale b =? 1) then
        match convert_back q st hb b with
        | (st1, Some b') => if o_fmt a =? o_fmt b' then ins q st1 a b' pos else (st1, RErr)
        | (st1, None) => (st1, RErr)
        end
      else (st, RErr)
    | _, _ => (st, RErr)
    end.

  Definition do_scale (q : quirks) (st : state) (k : nat) (s : Z) : state * result :=
    match getobj st k with
    | None => (st, RErr)
    | Some (h, o) =>
      let key := (kscale q o, flat (o_jd o), s) in
      if s =? o_scale o then                           (* to_scale returns self - through the lru_cache *)
        match (if q_cache q then assoc skey_eqb key (scache st) else None) with
        | Some h' => ref_obj q st h'
        | None => ref_obj q (if q_cache q then mkState (heap st) (names st) ((key, h) :: scache st) (fcache st)
                             else st) h
        end
      else if (o_scale o =? 0) && (s =? 1) then
        match (if q_cache q then assoc skey_eqb key (scache st) else None) with
        | Some h' => ref_obj q st h'
        | None =>
          if q_side q && cv_iter && negb (o_scalar o) && is_js (o_jd o) then (st, RErr)
          else if q_cache q && cv_iter && is_js (o_jd o) &&
                  match assoc fkey_eqb (kscale q o, flat (o_jd o)) (fcache st) with Some false => true | _ => false end
          then (st, RMixed)
          else
          let st0 := if q_side q && cv_iter && negb (o_scalar o)
                     then match rev (flat (o_jd o)) with j :: _ => set_heap_sl st h (Some (JS j)) | [] => st end
                     else st in
          let o' := from_jds 1 (fmt_to (o_fmt o)) (map_jdv cv (o_jd o)) in
          let st1 := if q_cache q
                     then mkState (heap st0) (names st0) ((key, length (heap st0)) :: scache st0) (fcache st0)
                     else st0 in
          new_obj q st1 o'
        end
      else (st, RErr)
    end.

  Definition step (q : quirks) (st : state) (p : op) : state * result :=
    match p with
    | Get k it => do_get q st k it
    | GetT k it => do_gett q st k it
    | Iter k => do_iter q st k
    | View k => do_view q st k
    | Copy k => do_copy q st k
    | Deepcopy k => do_copy q st k
    | Subset k it => do_subset q st k it
    | Insert k pos j => do_insert q st k pos j
    | Scale k s => do_scale q st k s
    | Write _ _ => (st, RErr)
    end.

  Fixpoint run (q : quirks) (st : state) (ps : list op) : state * list result :=
    match ps with
    | [] => (st, [])
    | p :: r => let (st1, x) := step q st p in
                let (st2, xs) := run q st1 r in (st2, x :: xs)
    end.

  (* the root array: values computed from its jd pairs, observed once *)
  Definition root_obj (fmt : Z) (js : list J) : obj := from_jds 0 fmt (JA js).
  Definition init (q : quirks) (fmt : Z) (js : list J) : state :=
    fst (observe q (mkState [root_obj fmt js] [0%nat] [] []) (root_obj fmt js)).

  (* __eq__ (NumPy broadcasting of a 0-d / 1-element operand) and what __hash__ hashes *)
  Definition eq_model (a b : obj) : bool :=
    let x := flat (o_jd a) in let y := flat (o_jd b) in
    (o_scale a =? o_scale b) &&
    match x, y with
    | [u], _ => forallb (jeqb u) y
    | _, [w] => forallb (fun e => jeqb e w) x
    | _, _ => list_eqb jeqb x y
    end.
  Definition eq_spec (a b : obj) : bool :=
    (o_scale a =? o_scale b) && Bool.eqb (is_js (o_jd a)) (is_js (o_jd b)) &&
    list_eqb jeqb (flat (o_jd a)) (flat (o_jd b)).
  Definition hash_model (a : obj) : list J := flat (o_jd a).
End Model.

Arguments JS {J}. Arguments JA {J}.
Arguments RErr {V J}. Arguments RObj {V J}. Arguments RList {V J}. Arguments RMixed {V J}.


(* ==================================================================== correspondence *)
(* tokens: every distinct IEEE double (bit pattern) of a run is numbered by the harness; a value
   row is a list of tokens, a jd pair is a pair of tokens *)
Definition tV : Type := list Z.
Definition tJ : Type := (Z * Z)%type.
Definition tJ_eqb (a b : tJ) : bool := (fst a =? fst b) && (snd a =? snd b).

Inductive jo : Type := S1 (z : Z) | A1 (l : list Z).
(* what is read off an object: scalar?, value rows, jd1, jd2, len, derived format, fmt, scale *)
Record oobs : Type := mkO {
  b_scalar : bool; b_vals : list (list Z); b_jd1 : jo; b_jd2 : jo; b_len : Z; b_der : jo; b_fmt : Z; b_scale : Z }.
Inductive obsres : Type := OErr | OObj (o : oobs) | OList (l : list oobs) | OMixed | ONotTime.

Record tables : Type := mkT {
  t_vj : list ((Z * Z * tJ) * tV);     (* (scale, fmt, jd pair) -> row *)
  t_cv : list (tJ * tJ);
  t_cvi : list (tJ * tJ);
  t_dv : list ((Z * tJ) * Z);          (* (scale, jd pair) -> derived format value *)
  t_fmt_to : list (Z * Z);
  t_cv_iter : bool
}.

Definition key3_eqb (a b : Z * Z * tJ) : bool :=
  (fst (fst a) =? fst (fst b)) && (snd (fst a) =? snd (fst b)) && tJ_eqb (snd a) (snd b).
Definition key2_eqb (a b : Z * tJ) : bool := (fst a =? fst b) && tJ_eqb (snd a) (snd b).

Fixpoint assocd {K W : Type} (e : K -> K -> bool) (d : W) (k : K) (l : list (K * W)) : W :=
  match l with
  | [] => d
  | (k', w) :: r => if e k k' then w else assocd e d k r
  end.

Definition T_vj (t : tables) (s f : Z) (j : tJ) : tV := assocd key3_eqb [(-1)] (s, f, j) (t_vj t).
Definition T_cv (t : tables) (j : tJ) : tJ := assocd tJ_eqb (-1, -1) j (t_cv t).
Definition T_cvi (t : tables) (j : tJ) : tJ := assocd tJ_eqb (-2, -2) j (t_cvi t).
Definition T_dv (t : tables) (s : Z) (j : tJ) : Z := assocd key2_eqb (-1) (s, j) (t_dv t).
Definition T_fmt_to (t : tables) (f : Z) : Z := assocd Z.eqb (-1) f (t_fmt_to t).

Definition jo_of (f : tJ -> Z) (x : jdv tJ) : jo :=
  match x with JS j => S1 (f j) | JA l => A1 (map f l) end.

Definition obs_of (t : tables) (o : obj tV tJ) (dsc : bool) : oobs :=
  mkO (o_scalar _ _ o) (o_vals _ _ o) (jo_of fst (o_jd _ _ o)) (jo_of snd (o_jd _ _ o))
      (Z.of_nat (olen _ _ o))
      (let d := map (T_dv t (o_scale _ _ o)) (flat _ (o_jd _ _ o)) in
       if dsc then match d with [x] => S1 x | _ => A1 d end else A1 d)
      (o_fmt _ _ o) (o_scale _ _ o).

Definition obs_res (t : tables) (r : result tV tJ) : obsres :=
  match r with
  | RErr => OErr
  | RObj o b => OObj (obs_of t o b)
  | RList l => OList (map (fun ob => obs_of t (fst ob) (snd ob)) l)
  | RMixed => OMixed
  end.

Definition zl_eqb := list_eqb Z.eqb.
Definition jo_eqb (a b : jo) : bool :=
  match a, b with
  | S1 x, S1 y => x =? y
  | A1 x, A1 y => zl_eqb x y
  | _, _ => false
  end.
Definition oobs_eqb (a b : oobs) : bool :=
  Bool.eqb (b_scalar a) (b_scalar b) && list_eqb zl_eqb (b_vals a) (b_vals b) &&
  jo_eqb (b_jd1 a) (b_jd1 b) && jo_eqb (b_jd2 a) (b_jd2 b) && (b_len a =? b_len b) &&
  jo_eqb (b_der a) (b_der b) && (b_fmt a =? b_fmt b) && (b_scale a =? b_scale b).
Definition obsres_eqb (a b : obsres) : bool :=
  match a, b with
  | OErr, OErr => true
  | OObj x, OObj y => oobs_eqb x y
  | OList x, OList y => list_eqb oobs_eqb x y
  | OMixed, OMixed => true
  | ONotTime, ONotTime => true
  | _, _ => false
  end.

(* the model variants tried, in this order: the specification first, then single quirks, pairs, all.
   verdict 0 = specification; 2 + position = first variant (after the specification) that explains
   the observation; 1 = none does *)
Definition variants : list quirks :=
  [ quirks_off;
    mkQ true false false false; mkQ false true false false; mkQ false false true false;
    mkQ true true false true;      (* hand-over + memoization keyed by value and shape: before the shape-blind key *)
    mkQ true true false false; mkQ true false true false; mkQ false true true false;
    mkQ true true true true; quirks_on ].

Definition mstep (t : tables) (q : quirks) := step tV tJ tJ_eqb (T_vj t) (T_cv t) (T_cvi t) (T_fmt_to t) (t_cv_iter t) q.
Definition minit (t : tables) (q : quirks) := init tV tJ tJ_eqb (T_vj t) q.

(* what a model variant predicts for a whole history (used for replay files) *)
Definition predict (t : tables) (fmt : Z) (js : list tJ) (ps : list op) (q : quirks) : list obsres :=
  map (obs_res t) (snd (run tV tJ tJ_eqb (T_vj t) (T_cv t) (T_cvi t) (T_fmt_to t) (t_cv_iter t) q (minit t q fmt js) ps)).

(* a variant explains a node only if it has explained every node on the way to it (`alive`): a variant whose
   state has already diverged from the implementation can agree with a later observation only by accident.
   The specification (position 0) is exempt: an observation equal to its prediction is verdict 0. *)
Fixpoint first_match (ob : obsres) (preds : list (obsres * bool)) (i : Z) : Z :=
  match preds with
  | [] => 1
  | (p, live) :: r =>
    if obsres_eqb ob p && (live || (i =? 0)) then (if i =? 0 then 0 else i + 1)
    else first_match ob r (i + 1)
  end.

(* one node of a history tree: operation, what the implementation returned, names of earlier
   objects whose observable content changed during the step (must be empty), subtrees *)
Inductive trie : Type := Node (p : op) (ob : obsres) (changed : list Z) (kids : list trie).

(* `changed` = [-1] is the harness's mark for one class of steps that are decided on observables of the real objects:
   TimeArray.insert(a, pos, b) where a has no rows, the format's values are not floats (datetime, text) but a's value
   array is float64 (an empty array rebuilt by subset / copy / insert / conversion loses its dtype) and b has rows.
   The specification inserts; the source raises (np.insert of datetimes / strings into a float array): verdict 50,
   no variant takes the step (nothing was created). *)
Definition is_mark (changed : list Z) : bool := match changed with [m] => m =? -1 | _ => false end.

Fixpoint check_trie (t : tables) (sts : list (state tV tJ * bool)) (n : trie) : list Z :=
  match n with
  | Node p ob changed kids =>
    if is_mark changed && obsres_eqb ob OErr && match p with Insert _ _ _ => true | _ => false end then
      50 :: flat_map (check_trie t sts) kids
    else
    let rs := map (fun qs => (mstep t (fst qs) (fst (snd qs)) p, snd (snd qs))) (combine variants sts) in
    let preds := map (fun r => (obs_res t (snd (fst r)), snd r)) rs in
    let v := match changed with
             | [] => first_match ob preds 0
             | _ => 1
             end in
    let sts' := map (fun r => (fst (fst r), snd r && obsres_eqb ob (obs_res t (snd (fst r))))) rs in
    v :: flat_map (check_trie t sts') kids
  end.

(* a case: tables, format of the root, jd pairs of the root, observation of the root, history trees *)
Definition case : Type := (tables * Z * list tJ * oobs * list trie)%type.

Definition check_case (c : case) : list Z :=
  match c with
  | (t, fmt, js, rootobs, tries) =>
    let sts := map (fun q => (minit t q fmt js, true)) variants in
    let v0 := if oobs_eqb rootobs (obs_of t (root_obj tV tJ (T_vj t) fmt js) false) then 0 else 1 in
    v0 :: flat_map (check_trie t sts) tries
  end.

Definition check_cases (cs : list case) : list Z := flat_map check_case cs.

(* __eq__ / __hash__ on pairs of objects (eq_obs: 0 False, 1 True, 2 raised): the observed eq must be
   the model's, and eq -> equal hash.
   verdict 0 ok; 2 = eq is True through NumPy broadcasting (shapes differ) while the hashes differ
   (eq without equal hash; the shape-aware specification eq_spec says "not equal"); 1 otherwise *)
Definition obj_of_obs (o : oobs) : obj tV tJ :=
  let j1 := match b_jd1 o with S1 z => [z] | A1 l => l end in
  let j2 := match b_jd2 o with S1 z => [z] | A1 l => l end in
  mkObj tV tJ (b_scalar o) (b_vals o)
        (match b_jd1 o with
         | S1 _ => match combine j1 j2 with [j] => JS j | l => JA l end
         | A1 _ => JA (combine j1 j2)
         end)
        (b_fmt o) (b_scale o) None.

(* pyfloat: one of the two objects keeps its jd1/jd2 as Python floats (a single epoch built from one datetime);
   verdict 3 = equal in every respect (same shape, same jd bits) and still another hash: __hash__ hashes str()
   of Python floats and the bytes of NumPy values *)
Definition check_eqhash (c : oobs * oobs * Z * bool * bool) : Z :=
  match c with
  | (a, b, eq_obs, hash_eq, pyfloat) =>
    let oa := obj_of_obs a in let ob := obj_of_obs b in
    let la := length (flat _ (o_jd _ _ oa)) in let lb := length (flat _ (o_jd _ _ ob)) in
    let em := if negb (b_scale a =? b_scale b) then 0
              else if Nat.eqb la lb || Nat.eqb la 1 || Nat.eqb lb 1
                   then (if eq_model tV tJ tJ_eqb oa ob then 1 else 0) else 2 in
    let es := if eq_spec tV tJ tJ_eqb oa ob then 1 else 0 in
    if eq_obs =? es then
      (* the specification's equality (same scale, same shape, same jd pairs; never raises): equal => equal hash *)
      (if (eq_obs =? 1) && negb hash_eq then (if pyfloat then 3 else 1) else 0)
    else if eq_obs =? em then 2   (* the broadcasting == of the source where it deviates from the specification:
                                     True across shapes (with or without equal hashes) or ValueError for other lengths *)
    else 1
  end.

(* write attempts (w: 0 o[i]=x, 1 o.fmt=x, 2 o.jd1[i]=x, 3 o.val[i]=x, 4 o+=x, 5 o.jd2=x, 6 del o.fmt,
   7 o.sort(), 8 o.fill(x), 9 o.jd2[...]=x, 10/11 o.jd1/jd2[...]+=x, 12 np.asarray(o)[...]=x, 13 o.jd1[0]=x,
   14 np.copyto(o.jd2, x)) on every kind of derived object: each must raise and leave every observable and the
   hash unchanged.
   verdict 2 = the attribute deletion went through (no __delattr__ guard) *)
Definition check_write (c : Z * bool * bool) : Z :=
  match c with
  | (w, raised, changed) =>
    if raised && negb changed then 0 else if w =? 6 then 2 else 1
  end.

(* TimeArray.insert(a, pos, b, {}) for arrays of any two scales / formats, stated on observables: `b` is the
   observation of b brought to the scale and format of a by a fresh conversion; the result must be a's rows,
   jd1, jd2 and derived format with b's inserted at pos (error iff pos is out of range) *)
Definition jo_list (x : jo) : list Z := match x with S1 z => [z] | A1 l => l end.
Definition check_insert (c : bool * oobs * oobs * Z * obsres) : Z :=
  match c with
  | (gpsws_other_fmt, a, b, pos, new) =>
    let expected :=
      match insert_at (b_vals a) pos (b_vals b), insert_at (jo_list (b_jd1 a)) pos (jo_list (b_jd1 b)),
            insert_at (jo_list (b_jd2 a)) pos (jo_list (b_jd2 b)), insert_at (jo_list (b_der a)) pos (jo_list (b_der b)) with
      | Some vs, Some j1, Some j2, Some d =>
        OObj (mkO false vs (A1 j1) (A1 j2) (Z.of_nat (length vs)) (A1 d) (b_fmt a) (b_scale a))
      | _, _, _, _ => OErr
      end in
    if obsres_eqb new expected then 0
    else if gpsws_other_fmt then 2   (* target in the 3-column format, inserted array given in another format:
                                        the converted (week, seconds, day) columns are inserted as rows *)
    else 1
  end.

(* t[<NumPy integer scalar or 0-d integer array>] must be what t[<the same Python int>] is (both observed on fresh
   arrays).  verdict 2 = the result is not a time object at all (a bare float; an error for a 0-d array index on
   gps_ws): the integer branch of __getitem__ only recognises int / np.int_ *)
Definition check_idx (c : Z * obsres * obsres) : Z :=
  match c with
  | (kind, with_int, with_np) =>
    if obsres_eqb with_int with_np then 0
    else match kind, with_np with
         | 1, ONotTime | 1, OErr => 2      (* kind 1: not np.int64 / np.intp, which the source does recognise *)
         | 2, ONotTime => 2                (* kind 2: column index on a single gps_ws epoch, must raise *)
         | _, _ => 1
         end
  end.

(* subset(idx, memo) under a memo shared by several arrays (Dataset.subset): the memo is keyed by the *identity* of
   the array.  A call = (identity of the array, its observation, index, what was returned, position of the earlier
   call whose result object was returned again or -1).  Specification: an identity seen before gives that very
   object again; otherwise the result is the array's own rows / jd1 / jd2 / derived format at the index, whatever
   other arrays (equal epochs, other format, other indices) went through the memo before. *)
Definition subset_obs (a : oobs) (it : item) : obsres :=
  match index (b_vals a) it, index (jo_list (b_jd1 a)) it, index (jo_list (b_jd2 a)) it, index (jo_list (b_der a)) it with
  | Some vs, Some j1, Some j2, Some d =>
    OObj (mkO false vs (A1 j1) (A1 j2) (Z.of_nat (length vs)) (A1 d) (b_fmt a) (b_scale a))
  | _, _, _, _ => OErr
  end.

Fixpoint check_memo_from (memo : list (Z * (Z * obsres))) (n : Z)
         (calls : list (Z * oobs * item * obsres * Z)) : Z :=
  match calls with
  | [] => 0
  | (ident, a, it, res, again) :: r =>
    match assocd Z.eqb (-1, OErr) ident (map (fun e => (fst e, snd e)) memo), existsb (fun e => fst e =? ident) memo with
    | (m, mres), true =>
      if obsres_eqb res mres && (again =? m) then check_memo_from memo (n + 1) r else 1
    | _, false =>
      let expected := subset_obs a it in
      if obsres_eqb res expected && (again =? -1)
      then check_memo_from (match expected with OErr => memo | _ => (ident, (n, expected)) :: memo end) (n + 1) r
      else 1
    end
  end.
Definition check_memo (calls : list (Z * oobs * item * obsres * Z)) : Z := check_memo_from [] 0 calls.
