(* C03 - Time and time-difference arithmetic obeys the affine laws.  Executable model only.

   Anchors: midgard/data/_time.py  TimeArray.__add__/__sub__, TimeDeltaArray.__add__/__sub__,
            TimeDeltaJD / TimeDeltaSec / TimeDeltaDay / TimeDeltaDateTime  _to_jds/_from_jds.

   An epoch / a duration is a two-part Julian date (jd1, jd2) of exact rationals (unit: day); the
   instant / length it denotes is  value = jd1 + jd2.

   Three layers:
   1. a tiny program language (`method`) - the shape the four arithmetic methods have in the source:
      a scale guard, an isinstance chain on `other`, and per branch either NotImplemented or
      `X.from_jds(e1, e2, fmt)` with e1, e2 sums/differences of jd1/jd2/days attributes.
      The driver REGENERATES the four methods from /repo as terms of this language
      (Gen/C03_TimeArith.v); `run_method` is its interpreter; `method_eqb` decides equality of two
      methods as functions (linear normal form of the expressions).
   2. the specification `model all_off` (plain Gallina, two-part arithmetic) and the faithful family
      `model q` (quirks = documented deviations of the current source).
   3. the check functions used by the correspondence (values shipped as exact doubles). *)
From Coq Require Import ZArith QArith Qabs Qround Qminmax List Bool String Ascii.
From Verif Require Import Lib.Dyadic.
Import ListNotations.
Open Scope Q_scope.

(* ------------------------------------------------------------------ objects *)
Inductive kind : Set := KTime | KDelta.
Definition kind_eqb (a b : kind) : bool :=
  match a, b with KTime, KTime | KDelta, KDelta => true | _, _ => false end.

Record jds : Set := mkJ { jd1 : Q; jd2 : Q }.
Definition value (p : jds) : Q := jd1 p + jd2 p.

(* scale and fmt are the Python strings ("utc", "jd", ...) *)
Record obj : Set := mkObj { okind : kind; oscale : string; ofmt : string; ojd : jds }.

Definition jadd (a b : jds) : jds := mkJ (jd1 a + jd1 b) (jd2 a + jd2 b).
Definition jsub (a b : jds) : jds := mkJ (jd1 a - jd1 b) (jd2 a - jd2 b).
Definition jneg (a : jds) : jds := mkJ (- jd1 a) (- jd2 a).

(* ------------------------------------------------------------------ 1. the program language *)
Inductive who : Set := Self | Other.
Inductive attr : Set := Jd1 | Jd2 | Days.          (* .jd1  .jd2  .days (= .jd for a duration) *)
Inductive expr : Set :=
| EAttr (w : who) (a : attr)
| EAdd (a b : expr)
| ESub (a b : expr)
| ENeg (a : expr).

(* the class whose from_jds builds the result *)
Inductive target : Set :=
| TSelf                (* self.from_jds            : class (kind and scale) of self  *)
| TOther               (* other.from_jds           : class of other                  *)
| TDeltaSelfScale      (* _SCALES["TimeDeltaArray"][self.scale].from_jds             *)
| TTimeSelfScale.      (* _SCALES["TimeArray"][self.scale].from_jds                  *)

Inductive fmtexpr : Set :=
| FmtOf (w : who)                              (* self.fmt / other.fmt *)
| FmtConst (s : string)
| FmtIfBoth (c yes no : string).               (* yes if self.fmt == other.fmt == c else no *)

Inductive outcome : Set :=
| ONotImpl
| OFromJds (t : target) (e1 e2 : expr) (f : fmtexpr).

Record method : Set := mkMethod {
  m_guard : bool;                              (* `if self.scale != other.scale: return NotImplemented` *)
  m_branches : list (kind * outcome)           (* isinstance(other, K) chain, first match wins; else NotImplemented *)
}.

Definition attr_of (a : attr) (p : jds) : Q :=
  match a with Jd1 => jd1 p | Jd2 => jd2 p | Days => jd1 p + jd2 p end.

Fixpoint eval (e : expr) (s o : jds) : Q :=
  match e with
  | EAttr Self a => attr_of a s
  | EAttr Other a => attr_of a o
  | EAdd a b => eval a s o + eval b s o
  | ESub a b => eval a s o - eval b s o
  | ENeg a => - eval a s o
  end.

Definition feval (f : fmtexpr) (s o : obj) : string :=
  match f with
  | FmtOf Self => ofmt s
  | FmtOf Other => ofmt o
  | FmtConst c => c
  | FmtIfBoth c yes no => if String.eqb (ofmt s) c && String.eqb (ofmt o) c then yes else no
  end.

Definition tkind (t : target) (s o : obj) : kind :=
  match t with TSelf => okind s | TOther => okind o | TDeltaSelfScale => KDelta | TTimeSelfScale => KTime end.
Definition tscale (t : target) (s o : obj) : string :=
  match t with TOther => oscale o | _ => oscale s end.

Fixpoint branch_for (bs : list (kind * outcome)) (k : kind) : outcome :=
  match bs with
  | [] => ONotImpl
  | (k', oc) :: r => if kind_eqb k' k then oc else branch_for r k
  end.

(* None = NotImplemented (Python then raises TypeError: the operation is refused) *)
Definition run_method (m : method) (s o : obj) : option obj :=
  if m_guard m && negb (String.eqb (oscale s) (oscale o)) then None else
  match branch_for (m_branches m) (okind o) with
  | ONotImpl => None
  | OFromJds t e1 e2 f =>
      Some (mkObj (tkind t s o) (tscale t s o) (feval f s o) (mkJ (eval e1 (ojd s) (ojd o)) (eval e2 (ojd s) (ojd o))))
  end.

(* --- deciding equality of methods: linear normal form (coefficients of s.jd1 s.jd2 o.jd1 o.jd2) *)
Definition lin : Set := (Q * Q * Q * Q)%type.
Definition lin_attr (w : who) (a : attr) : lin :=
  match w, a with
  | Self, Jd1 => (1, 0, 0, 0) | Self, Jd2 => (0, 1, 0, 0) | Self, Days => (1, 1, 0, 0)
  | Other, Jd1 => (0, 0, 1, 0) | Other, Jd2 => (0, 0, 0, 1) | Other, Days => (0, 0, 1, 1)
  end.
Definition ladd (x y : lin) : lin :=
  let '(a, b, c, d) := x in let '(a', b', c', d') := y in (a + a', b + b', c + c', d + d').
Definition lneg (x : lin) : lin := let '(a, b, c, d) := x in (- a, - b, - c, - d).
Fixpoint lin_of (e : expr) : lin :=
  match e with
  | EAttr w a => lin_attr w a
  | EAdd a b => ladd (lin_of a) (lin_of b)
  | ESub a b => ladd (lin_of a) (lneg (lin_of b))
  | ENeg a => lneg (lin_of a)
  end.
Definition lin_eval (l : lin) (s o : jds) : Q :=
  let '(a, b, c, d) := l in a * jd1 s + b * jd2 s + c * jd1 o + d * jd2 o.
Definition lin_eqb (x y : lin) : bool :=
  let '(a, b, c, d) := x in let '(a', b', c', d') := y in
  Qeq_bool a a' && Qeq_bool b b' && Qeq_bool c c' && Qeq_bool d d'.

Definition target_eqb (a b : target) : bool :=
  match a, b with
  | TSelf, TSelf | TOther, TOther | TDeltaSelfScale, TDeltaSelfScale | TTimeSelfScale, TTimeSelfScale => true
  | _, _ => false
  end.
Definition who_eqb (a b : who) : bool := match a, b with Self, Self | Other, Other => true | _, _ => false end.
Definition fmtexpr_eqb (a b : fmtexpr) : bool :=
  match a, b with
  | FmtOf w, FmtOf w' => who_eqb w w'
  | FmtConst c, FmtConst c' => String.eqb c c'
  | FmtIfBoth c y n, FmtIfBoth c' y' n' => String.eqb c c' && String.eqb y y' && String.eqb n n'
  | _, _ => false
  end.
Definition outcome_eqb (a b : outcome) : bool :=
  match a, b with
  | ONotImpl, ONotImpl => true
  | OFromJds t e1 e2 f, OFromJds t' e1' e2' f' =>
      target_eqb t t' && lin_eqb (lin_of e1) (lin_of e1') && lin_eqb (lin_of e2) (lin_of e2') && fmtexpr_eqb f f'
  | _, _ => false
  end.
Definition method_eqb (m m' : method) : bool :=
  Bool.eqb (m_guard m) (m_guard m')
  && outcome_eqb (branch_for (m_branches m) KTime) (branch_for (m_branches m') KTime)
  && outcome_eqb (branch_for (m_branches m) KDelta) (branch_for (m_branches m') KDelta).

(* ------------------------------------------------------------------ 2. specification and faithful models *)
Inductive opname : Set := TimeAdd | TimeSub | DeltaAdd | DeltaSub.
Definition all_ops : list opname := [TimeAdd; TimeSub; DeltaAdd; DeltaSub].
Definition self_kind (op : opname) : kind :=
  match op with TimeAdd | TimeSub => KTime | DeltaAdd | DeltaSub => KDelta end.

Record quirks : Set := mkQuirks {
  q_sub_drops_days : bool;      (* Time - TimeDelta subtracts only the day fraction jd2 of the duration *)
  q_add_collapses : bool;       (* Time + TimeDelta adds the collapsed float `other.days` to jd2 (exact in Q, lossy in doubles) *)
  q_neg_keeps_jds : bool        (* -TimeDelta (inherited ndarray.__neg__) negates the values but keeps jd1, jd2 *)
}.
Definition all_off : quirks := mkQuirks false false false.

Definition datetime_fmt : string := "datetime".
Definition diff_fmt (s o : obj) : string :=
  if String.eqb (ofmt s) datetime_fmt && String.eqb (ofmt o) datetime_fmt then "timedelta"%string else "jd"%string.

Definition model (q : quirks) (op : opname) (s o : obj) : option obj :=
  if negb (String.eqb (oscale s) (oscale o)) then None else
  match op, okind o with
  | TimeAdd, KDelta =>                                   (* time + duration -> time *)
      Some (mkObj KTime (oscale s) (ofmt s)
              (if q_add_collapses q then mkJ (jd1 (ojd s)) (jd2 (ojd s) + (jd1 (ojd o) + jd2 (ojd o)))
               else jadd (ojd s) (ojd o)))
  | TimeAdd, KTime => None                               (* time + time is meaningless *)
  | TimeSub, KDelta =>                                   (* time - duration -> time *)
      Some (mkObj KTime (oscale s) (ofmt s)
              (if q_sub_drops_days q then mkJ (jd1 (ojd s)) (jd2 (ojd s) - jd2 (ojd o))
               else jsub (ojd s) (ojd o)))
  | TimeSub, KTime =>                                    (* time - time -> duration *)
      Some (mkObj KDelta (oscale s) (diff_fmt s o) (jsub (ojd s) (ojd o)))
  | DeltaAdd, KDelta => Some (mkObj KDelta (oscale s) (ofmt s) (jadd (ojd s) (ojd o)))
  | DeltaAdd, KTime => Some (mkObj KTime (oscale o) (ofmt o) (jadd (ojd s) (ojd o)))   (* duration + time -> time *)
  | DeltaSub, KDelta => Some (mkObj KDelta (oscale s) (ofmt s) (jsub (ojd s) (ojd o)))
  | DeltaSub, KTime => None                              (* duration - time is meaningless *)
  end.

Definition spec := model all_off.

(* Python's binary operators: a + b calls type(a).__add__; NotImplemented from it (and from the
   reflected method, which always answers NotImplemented) is a TypeError = refusal. *)
Definition plus_q (q : quirks) (a b : obj) : option obj :=
  model q (match okind a with KTime => TimeAdd | KDelta => DeltaAdd end) a b.
Definition minus_q (q : quirks) (a b : obj) : option obj :=
  model q (match okind a with KTime => TimeSub | KDelta => DeltaSub end) a b.
Definition plus := plus_q all_off.
Definition minus := minus_q all_off.
Definition neg_q (q : quirks) (d : obj) : obj :=
  mkObj (okind d) (oscale d) (ofmt d) (if q_neg_keeps_jds q then ojd d else jneg (ojd d)).
Definition neg := neg_q all_off.

Definition obind (x : option obj) (f : obj -> option obj) : option obj :=
  match x with Some v => f v | None => None end.

(* the same models written in the program language (compared with the regenerated methods) *)
Definition sj1 := EAttr Self Jd1.  Definition sj2 := EAttr Self Jd2.
Definition oj1 := EAttr Other Jd1. Definition oj2 := EAttr Other Jd2.
Definition spec_method (q : quirks) (op : opname) : method :=
  match op with
  | TimeAdd => mkMethod true
      [(KDelta, if q_add_collapses q then OFromJds TSelf sj1 (EAdd sj2 (EAttr Other Days)) (FmtOf Self)
                else OFromJds TSelf (EAdd sj1 oj1) (EAdd sj2 oj2) (FmtOf Self))]
  | TimeSub => mkMethod true
      [(KDelta, if q_sub_drops_days q then OFromJds TSelf sj1 (ESub sj2 oj2) (FmtOf Self)
                else OFromJds TSelf (ESub sj1 oj1) (ESub sj2 oj2) (FmtOf Self));
       (KTime, OFromJds TDeltaSelfScale (ESub sj1 oj1) (ESub sj2 oj2) (FmtIfBoth "datetime" "timedelta" "jd"))]
  | DeltaAdd => mkMethod true
      [(KDelta, OFromJds TSelf (EAdd sj1 oj1) (EAdd sj2 oj2) (FmtOf Self));
       (KTime, OFromJds TOther (EAdd sj1 oj1) (EAdd sj2 oj2) (FmtOf Other))]
  | DeltaSub => mkMethod true
      [(KDelta, OFromJds TSelf (ESub sj1 oj1) (ESub sj2 oj2) (FmtOf Self))]
  end.

(* which member of the faithful family do four given methods implement?  (quirk sets, specification first) *)
Definition candidate_quirks : list quirks :=
  [all_off; mkQuirks true false false; mkQuirks false true false; mkQuirks true true false].
Definition methods_match (get : opname -> method) (q : quirks) : bool :=
  forallb (fun op => method_eqb (get op) (spec_method q op)) all_ops.
Definition classify_methods (get : opname -> method) : option quirks :=
  find (methods_match get) candidate_quirks.
Definition quirks_code (q : option quirks) : Z :=
  match q with
  | None => (-1)%Z
  | Some q => ((if q_sub_drops_days q then 1 else 0) + (if q_add_collapses q then 2 else 0))%Z
  end.

(* ------------------------------------------------------------------ duration formats (_to_jds / _from_jds) *)
Inductive dfmt : Set := DDays | DJd | DSeconds | DTimedelta.
(* days per format unit; a timedelta is given by its total_seconds() *)
Definition unit_days (f : dfmt) : Q :=
  match f with DDays | DJd => 1 | DSeconds | DTimedelta => 1 # 86400 end.
(* _to_jds:  jd1 = floor(v + v2) whole days, jd2 = the rest in [0, 1) *)
Definition to_jds (f : dfmt) (v v2 : Q) : jds :=
  let d := (v + v2) * unit_days f in
  let w := inject_Z (Qfloor d) in mkJ w (d - w).
(* _from_jds: days / jd: jd1 + jd2; seconds: (jd1 + jd2) * 86400; timedelta: the same, as total seconds
   (datetime.timedelta additionally rounds to whole microseconds) *)
Definition from_jds (f : dfmt) (p : jds) : Q := value p / unit_days f.

(* ------------------------------------------------------------------ 3. correspondence checks *)
Definition ns : Q := 1 # 86400000000000.          (* one nanosecond, in days *)
Definition tol_op : Q := 1 # 172800000000000.     (* half a nanosecond: every law composes two operations *)

(* operand as shipped: kind, scale, fmt, jd1, jd2 (exact doubles) *)
Definition dobj : Set := (kind * string * string * dy * dy)%type.
Inductive obs : Set :=
| ObsRefused                                      (* TypeError / NotImplemented *)
| ObsErr                                          (* any other exception *)
| ObsObj (d : dobj).

Definition obj_of (d : dobj) : option obj :=
  let '(k, sc, f, a, b) := d in
  match dy_toQ a, dy_toQ b with
  | Some x, Some y => Some (mkObj k sc f (mkJ x y))
  | _, _ => None
  end.

Definition Qlt_bool (a b : Q) : bool := negb (Qle_bool b a).

Definition agrees (tol : Q) (exp : option obj) (r : obs) : bool :=
  match exp, r with
  | None, ObsRefused => true
  | Some e, ObsObj d =>
      match obj_of d with
      | Some x => kind_eqb (okind e) (okind x) && String.eqb (oscale e) (oscale x) && String.eqb (ofmt e) (ofmt x)
                  && Qlt_bool (Qabs (value (ojd e) - value (ojd x))) tol
      | None => false
      end
  | _, _ => false
  end.

(* float-faithful description of quirk q_add_collapses:  jd1' = self.jd1,
   jd2' = RN(self.jd2 + D) with D = RN(other.jd1 + other.jd2) = other.days (shipped) *)
Definition collapsed_add_float (s o : dobj) (odays : dy) (r : obs) : bool :=
  match obj_of s, obj_of o, dy_toQ odays, r with
  | Some s', Some o', Some dq, ObsObj (k, sc, f, a, b) =>
      kind_eqb k KTime && String.eqb sc (oscale s') && String.eqb f (ofmt s')
      && dy_numeqb a (snd (fst s))
      && is_nearest_double (value (ojd o')) odays
      && is_nearest_double (jd2 (ojd s') + dq) b
  | _, _, _, _ => false
  end.

(* the implementation did exactly the two-part arithmetic of the specification in binary64 (both parts are
   correctly rounded results of the specification's parts), but an operand carries whole days in its
   fraction part (|jd2| >= 2), so the rounding error of the fraction exceeds the tolerance.  Such operands
   are produced by q_add_collapses only. *)
Definition two_part_float (op : opname) (s o : dobj) (r : obs) : bool :=
  match obj_of s, obj_of o, r with
  | Some s', Some o', ObsObj (k, sc, f, a, b) =>
      match spec op s' o' with
      | Some e => kind_eqb k (okind e) && String.eqb sc (oscale e) && String.eqb f (ofmt e)
                  && is_nearest_double (jd1 (ojd e)) a && is_nearest_double (jd2 (ojd e)) b
                  && (Qle_bool 2 (Qabs (jd2 (ojd s'))) || Qle_bool 2 (Qabs (jd2 (ojd o'))))
      | None => false
      end
  | _, _, _ => false
  end.

(* one operation: verdict 0 = specification (within 1/2 ns), 2 = q_sub_drops_days, 3 = q_add_collapses
   (bit-exact float description), 6 = faithful two-part arithmetic on an un-normalised operand, 1 = unexplained *)
Definition opcase : Set := (opname * dobj * dobj * dy * obs)%type.
Definition check_op (c : opcase) : Z :=
  let '(op, s, o, odays, r) := c in
  match obj_of s, obj_of o with
  | Some s', Some o' =>
      if agrees tol_op (spec op s' o') r then 0%Z
      else if agrees tol_op (model (mkQuirks true false false) op s' o') r then 2%Z
      else if (match op with TimeAdd => true | _ => false end) && collapsed_add_float s o odays r then 3%Z
      else if two_part_float op s o r then 6%Z
      else 1%Z
  | _, _ => 1%Z
  end.

(* unary minus on a duration: 0 = negated, 4 = q_neg_keeps_jds, 1 = unexplained *)
Definition check_neg (c : dobj * obs) : Z :=
  let '(d, r) := c in
  match obj_of d with
  | Some d' =>
      if agrees tol_op (Some (neg d')) r then 0%Z
      else if agrees tol_op (Some (neg_q (mkQuirks false false true) d')) r then 4%Z
      else 1%Z
  | None => 1%Z
  end.

(* a law, end to end on the implementation's own observables: |value(lhs) - value(rhs)| < 1 ns *)
Definition check_law (c : dobj * dobj) : Z :=
  let '(l, r) := c in
  match obj_of l, obj_of r with
  | Some a, Some b =>
      if kind_eqb (okind a) (okind b) && String.eqb (oscale a) (oscale b)
         && Qlt_bool (Qabs (value (ojd a) - value (ojd b))) ns then 0%Z else 1%Z
  | _, _ => 1%Z
  end.

(* constructor TimeDelta(val, fmt, val2): (fmt, exact value of val+val2 in format units, is the input
   given with at most microsecond resolution, jd1, jd2).   Accuracy demanded: 1/2 ns or 4 ulp of the
   input magnitude in days, whichever is larger (the double holding the input cannot resolve more) *)
Definition ulp_days (x : Q) : Q :=      (* 2^-52 * |x|: upper bound of the ulp of a double near x *)
  Qabs x * (1 # 4503599627370496).
Definition check_ctor (c : dfmt * Q * dy * dy) : Z :=
  let '(f, v, a, b) := c in
  match dy_toQ a, dy_toQ b with
  | Some x, Some y =>
      let e := value (to_jds f v 0) in
      if Qle_bool (Qabs (x + y - e)) (Qmax tol_op (4 * ulp_days e)) then 0%Z else 1%Z
  | _, _ => 1%Z
  end.

(* format read-out  d.days / d.seconds / d.jd / d.timedelta(total seconds):  (fmt, jd1, jd2, observed value, exact).
   Tolerance: 4 ulp of the result, or 1/2 ns in the format's unit; timedelta: plus half a microsecond *)
Definition check_fmt (c : dfmt * dy * dy * Q) : Z :=
  let '(f, a, b, z) := c in
  match dy_toQ a, dy_toQ b with
  | Some x, Some y =>
      let e := from_jds f (mkJ x y) in
      let slack := match f with DTimedelta => 1 # 2000000 | _ => 0 end in
      if Qle_bool (Qabs (z - e)) (Qmax (tol_op / unit_days f) (4 * ulp_days e) + slack) then 0%Z else 1%Z
  | _, _ => 1%Z
  end.

(* integrity of a caller's array across a constructor call: 0 = byte-identical,
   5 = every element was multiplied in place by Unit.second2day (quirk seconds_inplace), 1 = other change *)
Definition second2day_double : dy := Dy 6832127434707241 (-69).   (* RN(1/86400), checked in Proofs *)
Definition check_intact (c : dfmt * list dy * list dy) : Z :=
  let '(f, before, after) := c in
  if Nat.eqb (List.length before) (List.length after) && forallb (fun p => dy_eqb (fst p) (snd p)) (combine before after) then 0%Z
  else match f, dy_toQ second2day_double with
       | DSeconds, Some k =>
           if Nat.eqb (List.length before) (List.length after)
              && forallb (fun p => match dy_toQ (fst p) with
                                   | Some x => is_nearest_double (x * k) (snd p)
                                   | None => false end) (combine before after)
           then 5%Z else 1%Z
       | _, _ => 1%Z
       end.

(* ------------------------------------------------------------------ relations used in the statements *)
(* same kind, same scale, same instant / length (the format is presentation only) *)
Definition same_point (a b : option obj) : Prop :=
  match a, b with
  | Some x, Some y => okind x = okind y /\ oscale x = oscale y /\ value (ojd x) == value (ojd y)
  | None, None => True
  | _, _ => False
  end.
(* equal as two-part objects: kind, scale, fmt, and both parts *)
Definition obj_equiv (x y : obj) : Prop :=
  okind x = okind y /\ oscale x = oscale y /\ ofmt x = ofmt y /\ jd1 (ojd x) == jd1 (ojd y) /\ jd2 (ojd x) == jd2 (ojd y).
Definition oequiv (a b : option obj) : Prop :=
  match a, b with
  | Some x, Some y => obj_equiv x y
  | None, None => True
  | _, _ => False
  end.
Definition with_fmt (x : obj) (f : string) : obj := mkObj (okind x) (oscale x) f (ojd x).

(* ------------------------------------------------------------------ expressions over epochs and durations *)
(* any sequence of a + b, a - b, -d, as Python evaluates it on the specification *)
Inductive term : Set :=
| Leaf (x : obj)
| TPlus (a b : term)
| TMinus (a b : term)
| TNeg (a : term).

Definition neg_opt (x : obj) : option obj :=
  match okind x with KDelta => Some (neg x) | KTime => None end.

Fixpoint run (t : term) : option obj :=
  match t with
  | Leaf x => Some x
  | TPlus a b => obind (run a) (fun x => obind (run b) (fun y => plus x y))
  | TMinus a b => obind (run a) (fun x => obind (run b) (fun y => minus x y))
  | TNeg a => obind (run a) neg_opt
  end.

Fixpoint aff (t : term) : Q :=
  match t with
  | Leaf x => value (ojd x)
  | TPlus a b => aff a + aff b
  | TMinus a b => aff a - aff b
  | TNeg a => - aff a
  end.

Definition kweight (k : kind) : Z := match k with KTime => 1 | KDelta => 0 end.
Fixpoint weight (t : term) : Z :=
  match t with
  | Leaf x => kweight (okind x)
  | TPlus a b => weight a + weight b
  | TMinus a b => weight a - weight b
  | TNeg a => - weight a
  end%Z.

(* an expression is accepted iff all leaves share one scale and every intermediate result is an epoch or a duration *)
Fixpoint wellformed (sc : string) (t : term) : bool :=
  match t with
  | Leaf x => String.eqb (oscale x) sc
  | TPlus a b => wellformed sc a && wellformed sc b && (Z.leb 0 (weight a + weight b)) && (Z.leb (weight a + weight b) 1)
  | TMinus a b => wellformed sc a && wellformed sc b && (Z.leb 0 (weight a - weight b)) && (Z.leb (weight a - weight b) 1)
  | TNeg a => wellformed sc a && Z.eqb (weight a) 0
  end.


(* ------------------------------------------------------------------ unary minus as read from the source *)
(* TimeDeltaArray.__neg__: absent (ndarray.__neg__ is inherited = q_neg_keeps_jds), a body of the program language
   (`return X.from_jds(e1, e2, fmt)` over self only), or a body outside the language *)
Inductive neg_src : Set := NegAbsent | NegUnknown | NegBody (oc : outcome).
Definition neg_spec_outcome : outcome := OFromJds TSelf (ENeg sj1) (ENeg sj2) (FmtOf Self).
Definition run_unary (oc : outcome) (d : obj) : option obj :=
  match oc with
  | ONotImpl => None
  | OFromJds t e1 e2 f =>
      Some (mkObj (tkind t d d) (tscale t d d) (feval f d d) (mkJ (eval e1 (ojd d) (ojd d)) (eval e2 (ojd d) (ojd d))))
  end.
(* 0 = the specification, 4 = q_neg_keeps_jds, -1 = neither *)
Definition classify_neg (n : neg_src) : Z :=
  match n with
  | NegAbsent => 4%Z
  | NegUnknown => (-1)%Z
  | NegBody oc => if outcome_eqb oc neg_spec_outcome then 0%Z else (-1)%Z
  end.
