(* Model/C17_Layout.v - executable model of the line formats written by midgard/writers/* and read by the
   matching parsers (DESIGN 4.17).

   A writer line is a [layout]: literals and format fields (Python format-spec subset  [<>]? width? (.prec)? [sdfeE]?).
   The layouts themselves are NOT written here: they are regenerated from the writers' format strings on every run
   (Gen/C17_WriterLayouts.v).  This file defines
     - [content]      Python's formatting of one value for one field, without padding (exact: a double is m*2^e)
     - [render_line]  the written line
     - [skel]         the static column skeleton of a layout (what is known about every column before any value is seen)
     - [span_class], [compatible]   the decidable criterion "a fixed-column parser reads this layout back"
     - [parse_slices], [parse_tokens]   the parsers (genfromtxt with a delimiter tuple / ChainParser slices / split on blanks)
     - the TMS file skeleton ([tms_file], [balanced])
     - the [check_*] functions of the correspondence (verdict codes, see harness/drivers/c17.py). *)
From Coq Require Import Ascii String List Bool Arith ZArith QArith Lia.
From Verif Require Import Lib.Text Lib.Decimal Lib.Dyadic.
Import ListNotations.
Local Open Scope string_scope.

(* ------------------------------------------------------------------------------------------ layouts *)
Inductive align := AL | AR.
Inductive kind :=
| KStr (prec : option nat)        (* {:s} {:.20s} ; also a bare {:10} applied to a str *)
| KInt                            (* {:d}, or a bare spec applied to an int *)
| KFix (d : nat)                  (* {:.df} *)
| KExp (d : nat) (upper : bool).  (* {:.de} / {:.dE} *)

(* [f_w] = minimum width (0: none).  [f_max] = the largest content length of the field's domain
   (precision of a string field, length of a strftime pattern, width of the identifier in the format, else the width).
   A field with f_w = 0 is a "tail" field: it is written as it is, the line has no static columns after it. *)
Record fld := mkfld { f_w : nat; f_al : align; f_kind : kind; f_max : nat }.
Inductive item := Lit (s : string) | Fld (f : fld).
Definition layout := list item.

Inductive value := VS (s : string) | VI (z : Z) | VF (x : dy).

(* ------------------------------------------------------------------------------ number formatting *)
(* n / d rounded half-to-even, for n >= 0, d > 0 *)
Definition round_half_even (n d : Z) : Z :=
  let q := (n / d)%Z in let r := (n mod d)%Z in
  if (2 * r <? d)%Z then q else if (d <? 2 * r)%Z then (q + 1)%Z else if Z.even q then q else (q + 1)%Z.

(* |m * 2^e| * 10^k rounded half-to-even to an integer (k may be negative) *)
Definition scaled_round (m e k : Z) : Z :=
  let num := (Z.abs m * 2 ^ (Z.max e 0) * 10 ^ (Z.max k 0))%Z in
  let den := (2 ^ (Z.max (- e) 0) * 10 ^ (Z.max (- k) 0))%Z in
  round_half_even num den.

(* the integer mantissa Python prints for "%.{d}f" % (m * 2^e): correctly rounded, ties to even *)
Definition fix_mant (d : nat) (m e : Z) : Z :=
  let r := scaled_round m e (Z.of_nat d) in if (m <? 0)%Z then (- r)%Z else r.

Definition py_fix (d : nat) (x : dy) : string :=
  match x with
  | Dy m e => let r := fix_mant d m e in
              if (r =? 0)%Z && (m <? 0)%Z then "-" ++ render_F_raw d 0 else render_F_raw d r
  | DZero neg => (if neg then "-" else "") ++ render_F_raw d 0
  | DInf neg => if neg then "-inf" else "inf"
  | DNaN => "nan"
  end.

(* 10^ex <= |m| * 2^e ? *)
Definition le_pow10 (ex m e : Z) : bool :=
  (10 ^ (Z.max ex 0) * 2 ^ (Z.max (- e) 0) <=? Z.abs m * 2 ^ (Z.max e 0) * 10 ^ (Z.max (- ex) 0))%Z.

Fixpoint exp_search (fuel : nat) (ex m e : Z) : Z :=
  match fuel with
  | O => ex
  | S f => if le_pow10 (ex + 1) m e then exp_search f (ex + 1) m e else ex
  end.
(* the decimal exponent of m * 2^e (m <> 0): 10^ex <= |m 2^e| < 10^(ex+1) *)
Definition dec_exponent (m e : Z) : Z :=
  let bits := (Z.log2 (Z.abs m) + e)%Z in
  let ex0 := (bits * 30103 / 100000 - 2)%Z in
  exp_search 6 ex0 m e.

Definition py_exp (d : nat) (upper : bool) (x : dy) : string :=
  let letter := if upper then "E"%char else "e"%char in
  match x with
  | Dy m e =>
      let ex := dec_exponent m e in
      let r := scaled_round m e (Z.of_nat d - ex) in
      let '(r, ex) := if (r =? 10 ^ Z.of_nat (S d))%Z then ((10 ^ Z.of_nat d)%Z, (ex + 1)%Z) else (r, ex) in
      let ke := if (Z.abs ex <? 100)%Z then 2%nat else 3%nat in
      (if (m <? 0)%Z then "-" else "") ++ render_sci letter 1 ke d r ex
  | DZero neg => (if neg then "-" else "") ++ render_sci letter 1 2 d 0 0
  | DInf neg => (if neg then "-" else "") ++ (if upper then "INF" else "inf")
  | DNaN => if upper then "NAN" else "nan"
  end.

Definition dy_of_Z (z : Z) : dy := if (z =? 0)%Z then DZero false else Dy z 0.

(* Python's format(value, spec) without the padding *)
Definition content (k : kind) (v : value) : string :=
  match k, v with
  | KStr None, VS s => s
  | KStr (Some n), VS s => take n s
  | KStr None, VI z => render_int 0 z          (* bare spec on an int *)
  | KInt, VI z => render_int 0 z
  | KFix d, VF x => py_fix d x
  | KFix d, VI z => py_fix d (dy_of_Z z)
  | KExp d u, VF x => py_exp d u x
  | KExp d u, VI z => py_exp d u (dy_of_Z z)
  | _, _ => "<?>"
  end.

(* --------------------------------------------------------------------------------------- rendering *)
Definition render_field (f : fld) (c : string) : string :=
  match f_al f with AR => rjust (f_w f) c | AL => ljust (f_w f) c end.

(* the line, from the already formatted contents of its fields *)
Fixpoint render_c (lay : layout) (cs : list string) : string :=
  match lay with
  | [] => ""
  | Lit s :: r => s ++ render_c r cs
  | Fld f :: r => match cs with
                  | c :: cs' => render_field f c ++ render_c r cs'
                  | [] => render_field f "" ++ render_c r []
                  end
  end.

Fixpoint contents (lay : layout) (vals : list value) : list string :=
  match lay with
  | [] => []
  | Lit _ :: r => contents r vals
  | Fld f :: r => match vals with
                  | v :: vs => content (f_kind f) v :: contents r vs
                  | [] => []
                  end
  end.

Definition render_line (lay : layout) (vals : list value) : string := render_c lay (contents lay vals).

Fixpoint fields_of (lay : layout) : list fld :=
  match lay with [] => [] | Lit _ :: r => fields_of r | Fld f :: r => f :: fields_of r end.

(* "the values fit their widths": one content per field, none longer than min(width, domain length).
   Tail fields (f_w = 0) are unconstrained. *)
Definition is_tail (f : fld) : bool := (f_w f =? 0)%nat.
Definition win_len (f : fld) : nat := Nat.min (f_w f) (f_max f).
Definition fit1 (f : fld) (c : string) : bool := is_tail f || (len c <=? win_len f)%nat.
Fixpoint fitsb (fs : list fld) (cs : list string) : bool :=
  match fs, cs with
  | [], [] => true
  | f :: fr, c :: cr => fit1 f c && fitsb fr cr
  | _, _ => false
  end.
Definition fits (lay : layout) (cs : list string) : bool := fitsb (fields_of lay) cs.

(* --------------------------------------------------------------------------------- static skeleton *)
Inductive cell := CLit (c : ascii) | CPad | CWin (i : nat).

Definition los := list_ascii_of_string.
Definition sol := string_of_list_ascii.

Definition fld_skel (i : nat) (f : fld) : list cell :=
  let m := win_len f in
  match f_al f with
  | AR => repeat CPad (f_w f - m) ++ repeat (CWin i) m
  | AL => repeat (CWin i) m ++ repeat CPad (f_w f - m)
  end.

Fixpoint skel_from (i : nat) (lay : layout) : list cell :=
  match lay with
  | [] => []
  | Lit s :: r => map CLit (los s) ++ skel_from i r
  | Fld f :: r => fld_skel i f ++ skel_from (S i) r
  end.
Definition skel (lay : layout) : list cell := skel_from 0 lay.

Definition static (lay : layout) : bool := forallb (fun f => negb (is_tail f)) (fields_of lay).

(* layout = static part ++ optional tail field *)
Fixpoint split_tail (lay : layout) : layout * option fld :=
  match lay with
  | [] => ([], None)
  | [Fld f] => if is_tail f then ([], Some f) else ([Fld f], None)
  | it :: r => let '(a, t) := split_tail r in (it :: a, t)
  end.

Definition blank_cell (c : cell) : bool :=
  match c with CLit a => is_space a | CPad => true | CWin _ => false end.
Definition is_win (i : nat) (c : cell) : bool := match c with CWin j => (i =? j)%nat | _ => false end.
Definition count_win (i : nat) (cs : list cell) : nat := List.length (filter (is_win i) cs).

Fixpoint drop_blank (cs : list cell) : list cell :=
  match cs with c :: r => if blank_cell c then drop_blank r else cs | [] => [] end.
Fixpoint drop_win (i : nat) (cs : list cell) : list cell :=
  match cs with c :: r => if is_win i c then drop_win i r else cs | [] => [] end.
Definition lit_char (c : cell) : option ascii := match c with CLit a => Some a | _ => None end.
Fixpoint lit_string (cs : list cell) : option string :=
  match cs with
  | [] => Some ""
  | c :: r => match lit_char c, lit_string r with Some a, Some s => Some (String a s) | _, _ => None end
  end.

Inductive pres := PFld (i : nat) | PConst (s : string).

(* what a parser column covering the cells [sub] of the skeleton [sk] delivers (after strip):
   the complete window of exactly one field, surrounded by guaranteed blanks -> that field;  literals only -> their text *)
Definition span_class (sk sub : list cell) : option pres :=
  match drop_blank sub with
  | (CWin i :: _) as r =>
      let rest := drop_win i r in
      if forallb blank_cell rest && (List.length r - List.length rest =? count_win i sk)%nat then Some (PFld i) else None
  | [] => match lit_string sub with Some s => Some (PConst (strip s)) | None => Some (PConst "") end
  | _ => match lit_string sub with Some s => Some (PConst (strip s)) | None => None end
  end.

Definition sub_cells (a b : nat) (sk : list cell) : list cell := firstn (b - a) (skipn a sk).

(* parser columns: (start, Some stop) or (start, None) = to the end of the line *)
Definition pspan := (nat * option nat)%type.

(* the class of the open-ended column: the rest of the static skeleton must be blank and the tail field follows,
   or (no tail field) the rest of the line is static *)
Definition span_map1 (lay : layout) (sp : pspan) : option pres :=
  let '(st, tl) := split_tail lay in
  let sk := skel st in
  let nf := List.length (fields_of st) in
  if negb (static st) then None else
  match sp with
  | (a, Some b) => if (b <=? List.length sk)%nat then span_class sk (sub_cells a b sk) else None
  | (a, None) =>
      match tl with
      | Some _ => if (a <=? List.length sk)%nat && forallb blank_cell (skipn a sk) then Some (PFld nf) else None
      | None => if (a <=? List.length sk)%nat then span_class sk (skipn a sk) else None
      end
  end.
Definition span_map (lay : layout) (spans : list pspan) : list (option pres) := map (span_map1 lay) spans.

Definition is_some {A} (o : option A) : bool := match o with Some _ => true | None => false end.
Definition compatible (lay : layout) (spans : list pspan) : bool := forallb is_some (span_map lay spans).

(* genfromtxt(delimiter=(w1,...,wn)): consecutive columns *)
Fixpoint spans_of_widths (a : nat) (ws : list nat) : list pspan :=
  match ws with [] => [] | w :: r => (a, Some (a + w)%nat) :: spans_of_widths (a + w) r end.
(* SinexParser.parse_lines: field k runs from its start column to the next start column, the last one to the line end *)
Fixpoint spans_of_starts (starts : list nat) : list pspan :=
  match starts with
  | [] => []
  | [a] => [(a, None)]
  | a :: ((b :: _) as r) => (a, Some b) :: spans_of_starts r
  end.


(* ----------------------------------------------------------------------- column rulers of a format *)
(* Bernese files carry their own column ruler ("****************      ***  YYYY MM DD HH MM SS ...").  A field is inside
   its column when the ruler under the field's window starts and ends with a non-blank and has no two blanks in a row. *)
Fixpoint first_win (i : nat) (sk : list cell) (pos : nat) : option nat :=
  match sk with
  | [] => None
  | c :: r => if is_win i c then Some pos else first_win i r (S pos)
  end.
Definition win_span (sk : list cell) (i : nat) : option (nat * nat) :=
  match first_win i sk 0 with Some a => Some (a, (a + count_win i sk)%nat) | None => None end.
Fixpoint no_double_blank (s : string) : bool :=
  match s with
  | String a ((String b _) as r) => negb (is_space a && is_space b) && no_double_blank r
  | _ => true
  end.
Definition window_in_ruler (ruler : string) (ab : nat * nat) : bool :=
  let s := slice (fst ab) (snd ab) ruler in
  (len s =? snd ab - fst ab)%nat && (0 <? len s)%nat && trimmed s && no_double_blank s.
Definition fields_in_ruler (ruler : string) (lay : layout) : bool :=
  let '(st, _) := split_tail lay in
  let sk := skel st in
  forallb (fun i => match win_span sk i with Some ab => window_in_ruler ruler ab | None => false end)
          (seq 0 (List.length (fields_of st))).

(* ------------------------------------------------------------------------------------------ parsers *)
Definition slice_span (sp : pspan) (line : string) : string :=
  match sp with (a, Some b) => slice a b line | (a, None) => drop a line end.
Definition parse_slices (spans : list pspan) (line : string) : list string :=
  map (fun sp => strip (slice_span sp line)) spans.
Definition parse_tokens (line : string) : list string := split_ws line.

(* what the parser is expected to deliver for a column, from the writer's input *)
Definition expected1 (cs : list string) (p : option pres) : string :=
  match p with
  | Some (PFld i) => strip (nth i cs "")
  | Some (PConst s) => s
  | None => "<incompatible>"
  end.

(* ------------------------------------------------------------------- rows of blank separated tokens *)
(* a line as gaps and words:  spaces g1 ++ t1 ++ spaces g2 ++ t2 ... ++ spaces gend *)
Fixpoint pieces_str (ps : list (nat * string)) (gend : nat) : string :=
  match ps with
  | [] => spaces gend
  | (g, t) :: r => spaces g ++ t ++ pieces_str r gend
  end.

(* a row of right-justified fields after the leading literal blank: field k occupies w_k columns *)
Definition row_pieces (ws : list nat) (cs : list string) : list (nat * string) :=
  map (fun wc => ((fst wc - len (snd wc))%nat, snd wc)) (combine ws cs).
Definition row_line (lead : nat) (ws : list nat) (cs : list string) : string :=
  spaces lead ++ pieces_str (row_pieces ws cs) 0.

(* gaps of a general layout: trailing pad of a left-justified field + literal blanks + leading pad of the next *)
Definition lpad (f : fld) (c : string) : nat := match f_al f with AR => (f_w f - len c)%nat | AL => 0%nat end.
Definition rpad (f : fld) (c : string) : nat := match f_al f with AL => (f_w f - len c)%nat | AR => 0%nat end.
Fixpoint lay_pieces (g : nat) (lay : layout) (cs : list string) : option (list (nat * string) * nat) :=
  match lay with
  | [] => Some ([], g)
  | Lit s :: r => if String.eqb s (spaces (len s)) then lay_pieces (g + len s) r cs else None
  | Fld f :: r => match cs with
                  | c :: cs' => match lay_pieces (rpad f c) r cs' with
                                | Some (ps, ge) => Some ((g + lpad f c, c)%nat :: ps, ge)
                                | None => None
                                end
                  | [] => None
                  end
  end.
Definition gaps_ok (ps : list (nat * string)) : bool :=
  match ps with [] => true | _ :: r => forallb (fun p => (0 <? fst p)%nat) r end.

(* --------------------------------------------------------------------------------- TMS file skeleton *)
(* a block as the writer emits it: begin marker line, body lines, end marker line *)
Record block := mkblock { b_begin : string; b_end : string }.
Definition block_wf (b : block) : bool :=
  match b_begin b, b_end b with
  | String "+" n1, String "-" n2 => String.eqb n1 n2 && negb (String.eqb n1 "")
  | _, _ => false
  end.
Definition block_lines (b : block) (body : list string) : list string := b_begin b :: body ++ [b_end b].
Fixpoint file_lines (bs : list (block * list string)) : list string :=
  match bs with [] => [] | (b, body) :: r => block_lines b body ++ file_lines r end.

Definition first_char (s : string) : option ascii := match s with String c _ => Some c | "" => None end.
Definition body_line_ok (s : string) : bool :=
  match first_char s with Some c => Ascii.eqb c " " || Ascii.eqb c "*" | None => false end.

(* SINEX block discipline: every +NAME is closed by -NAME before the next +, nothing is closed that is not open,
   and lines inside a block start with a blank (data) or * (comment) *)
Fixpoint balanced (open : option string) (ls : list string) : bool :=
  match ls with
  | [] => match open with None => true | Some _ => false end
  | l :: r =>
      match l with
      | String "+" n => match open with None => balanced (Some n) r | Some _ => false end
      | String "-" n => match open with Some m => String.eqb m n && balanced None r | None => false end
      | _ => match open with
             | Some _ => body_line_ok l && balanced open r
             | None => balanced open r          (* header line %=TMS, %ENDTMS *)
             end
      end
  end.

(* ------------------------------------------------------------------------ correspondence: verdicts *)
Local Open Scope Z_scope.

Inductive obs := OS (s : string) | OF (x : dy) | ONone.

(* conversion applied by the parser to the stripped column text: "U n" keeps n characters; floats are compared
   as "the double nearest to the decimal numeral" *)
Inductive conv := CU (n : nat) | CStr | CFloat | CSkip.

Definition obs_matches (cv : conv) (text : string) (o : obs) : bool :=
  match cv, o with
  | CSkip, _ => true
  | CU n, OS s => String.eqb (take n text) s
  | CStr, OS s => String.eqb text s
  | CFloat, OF x =>
      match parse_float text with
      | Some q => is_nearest_double q x
      | None => (String.eqb text "nan" && is_nan x)
                || (String.eqb text "" && is_nan x)
                || (String.eqb text "inf" && dy_eqb x (DInf false)) || (String.eqb text "-inf" && dy_eqb x (DInf true))
      end
  | _, _ => false
  end.

Fixpoint all_match (cvs : list conv) (texts : list string) (os : list obs) : bool :=
  match cvs, texts, os with
  | [], [], [] => true
  | cv :: cr, t :: tr, o :: or => obs_matches cv t o && all_match cr tr or
  | _, _, _ => false
  end.

(* one written line against the model:
     0  the bytes are the model's rendering, the values fit, and the real parser returned the writer's input
        (to printed precision)
     1  the bytes differ from the model's rendering of the same input                      (model <> writer)
     2  bytes as modelled, but a value does not fit its column (accepted input, non-conformant line)
     3  bytes as modelled, values fit, but the real parser did not return the input         (layouts incompatible)
     4  bytes as modelled, values fit, parser output = model of the parser <> input         (cannot happen when
        [compatible] holds - theorem layout_compatible_sound; reported separately to tell 3 from a parser-model gap) *)
Definition check_line (lay : layout) (vals : list value) (actual : string) : Z :=
  let cs := contents lay vals in
  if negb (String.eqb (render_c lay cs) actual) then 1
  else if negb (fits lay cs) then 2 else 0.

Definition check_row (lay : layout) (spans : list pspan) (cvs : list conv)
           (vals : list value) (actual : string) (os : list obs) : Z :=
  let cs := contents lay vals in
  if negb (String.eqb (render_c lay cs) actual) then 1
  else if negb (fits lay cs) then 2
  else
    let want := map (expected1 cs) (span_map lay spans) in
    if all_match cvs want os then 0
    else if all_match cvs (parse_slices spans actual) os then 4 else 3.

(* a row read by splitting on blanks (TIMESERIES/DATA): [os] = the parser's columns for this row, or [] when the
   parser raised / returned a different number of columns *)
Definition check_token_row (lay : layout) (cvs : list conv) (vals : list value) (actual : string) (os : list obs) : Z :=
  let cs := contents lay vals in
  if negb (String.eqb (render_c lay cs) actual) then 1
  else
    match lay_pieces 0 lay cs with
    | None => 1
    | Some (ps, _) =>
        if negb (fits lay cs && gaps_ok ps) then 2
        else if all_match cvs cs os then 0 else 3
    end.

Definition check_token_line (lay : layout) (vals : list value) (actual : string) : Z :=
  let cs := contents lay vals in
  if negb (String.eqb (render_c lay cs) actual) then 1
  else
    match lay_pieces 0 lay cs with
    | None => 1
    | Some (ps, _) => if negb (fits lay cs && gaps_ok ps) then 2 else 0
    end.

(* TIMESERIES/DATA row of the columns [names] (table = Gen tms_types) *)
Fixpoint lookup_fld (tbl : list (string * fld)) (n : string) : option fld :=
  match tbl with
  | [] => None
  | (k, f) :: r => if String.eqb k n then Some f else lookup_fld r n
  end.
Definition tms_row_layout (tbl : list (string * fld)) (names : list string) : layout :=
  Lit " " :: map (fun n => match lookup_fld tbl n with Some f => Fld f | None => Lit "<unknown column>" end) names.

(* tuple wrappers for the case shards *)
Definition check_line_t (c : layout * list value * string) : Z :=
  let '(lay, vals, act) := c in check_line lay vals act.
Definition check_row_t (c : layout * list pspan * list conv * list value * string * list obs) : Z :=
  let '(lay, sp, cv, vals, act, os) := c in check_row lay sp cv vals act os.
Definition check_token_row_t (c : layout * list conv * list value * string * list obs) : Z :=
  let '(lay, cv, vals, act, os) := c in check_token_row lay cv vals act os.
Definition check_token_line_t (c : layout * list value * string) : Z :=
  let '(lay, vals, act) := c in check_token_line lay vals act.
Definition check_balanced (ls : list string) : Z := if balanced None ls then 0 else 1.

(* a delimiter separated row (csv_): the line is the model's rendering and every parsed column is the written content *)
Definition check_list_row (lay : layout) (cvs : list conv) (vals : list value) (actual : string) (os : list obs) : Z :=
  let cs := contents lay vals in
  if negb (String.eqb (render_c lay cs) actual) then 1
  else if all_match cvs (map strip cs) os then 0 else 3.
Definition check_list_row_t (c : layout * list conv * list value * string * list obs) : Z :=
  let '(lay, cv, vals, act, os) := c in check_list_row lay cv vals act os.
