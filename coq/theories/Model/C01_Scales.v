(* C01 - executable model of the time-scale conversions of midgard/data/_time.py
   (delta_tai_utc, delta_tai_tt, delta_gps_tai, delta_tcg_tt, the eight _x2y hops,
   _find_conversion_hops, TimeBase.to_scale).  Exact rational arithmetic; an epoch is its Julian
   date x = jd1 + jd2 (every hop returns (jd1, jd2 + delta(x)), so only the sum matters; the
   two-part form is used by the float quirk and by the correspondence).  No proofs here. *)
From Coq Require Import ZArith QArith Qabs Qround Bool List String.
From Verif Require Import Lib.Dyadic Gen.C01_TaiUtc Gen.C01_Const Gen.C01_Graph.
Import ListNotations.
Open Scope Q_scope.

(* ------------------------------------------------------------------ the TAI-UTC table *)
Record row := { r_start : Q; r_end : Q; r_off : Q; r_ref : Q; r_fac : Q }.

Definition mk_row (t : Q * Q * Q * Q * Q) : row :=
  let '(s, e, o, r, f) := t in {| r_start := s; r_end := e; r_off := o; r_ref := r; r_fac := f |}.

Definition table : list row := map mk_row taiutc_txt.

Definition mjd0 : Q := 24000005 # 10.          (* TimeMJD._mjd0 *)
Definition day : Q := 86400.                   (* Unit.seconds2day = 1/86400 *)
Definition dummy_row : row := {| r_start := 0; r_end := 0; r_off := 0; r_ref := 0; r_fac := 0 |}.

(* np.logical_and(t >= start, t < end) *)
Definition in_row (x : Q) (r : row) : bool := Qle_bool (r_start r) x && Qlt_b x (r_end r).

(* np.argmax of the boolean vector: first True, index 0 when all False *)
Definition find_row (tbl : list row) (x : Q) : row :=
  match find (in_row x) tbl with Some r => r | None => hd dummy_row tbl end.

(* offset + (mjd - ref_epoch) * factor   [seconds] *)
Definition delta_s (r : row) (x_mjd : Q) : Q := r_off r + (x_mjd - r_ref r) * r_fac r.
(* the same in days, as a function of the Julian date *)
Definition delta_d (r : row) (x : Q) : Q := delta_s r (x - mjd0) / day.

(* ------------------------------------------------------------------ quirks *)
Record quirks := { row_by_float_sum : bool }.
Definition all_off : quirks := {| row_by_float_sum := false |}.
Definition q_float : quirks := {| row_by_float_sum := true |}.

(* round to nearest double, ties to even (normal range only; 0 stays 0) *)
Definition round_half_even (q : Q) : Z :=
  let f := Qfloor q in
  let r := q - inject_Z f in
  match Qcompare r (1 # 2) with
  | Lt => f
  | Gt => (f + 1)%Z
  | Eq => if Z.even f then f else (f + 1)%Z
  end.

Definition ilog2Q (a : Q) : Z :=            (* floor(log2 a) for a > 0 *)
  let n := Qnum a in let d := Zpos (Qden a) in
  let e0 := (Z.log2 n - Z.log2 d)%Z in
  if Qle_bool (pow2Q e0) a then e0 else (e0 - 1)%Z.

Definition rnd (x : Q) : Q :=
  match Qnum x with
  | Z0 => 0
  | _ =>
      let a := Qabs x in
      let e := ilog2Q a in
      let sc := pow2Q (52 - e) in
      let m := round_half_even (a * sc) in
      let v := Qred (inject_Z m / sc) in
      if Qle_bool 0 x then v else - v
  end.

Definition dyq (d : dy) : Q := match dy_toQ d with Some v => v | None => 0 end.

(* ------------------------------------------------------------------ utc <-> tai *)
(* delta_tai_utc, time.scale == "utc": the row is looked up at `xsel`, the offset evaluated at x *)
Definition utc2tai_delta (tbl : list row) (xsel x : Q) : Q := delta_d (find_row tbl xsel) x.

(* delta_tai_utc, time.scale == "tai": two steps exactly as coded.  First row: the TAI date compared
   with the (UTC) bounds; provisional UTC = TAI - delta; second row looked up at the provisional
   UTC; second delta evaluated at the provisional UTC (tmp_utc_mjd).  `tmpsel r1 tmp` is the value the
   second lookup sees (the exact tmp in the specification). *)
Definition tai2utc_delta (tbl : list row) (xsel : Q) (tmpsel : row -> Q -> Q) (x : Q) : Q :=
  let r1 := find_row tbl xsel in
  let tmp := x - delta_d r1 x in
  let r2 := find_row tbl (tmpsel r1 tmp) in
  - delta_d r2 tmp.

(* specification (exact) versions on the Julian date *)
Definition utc2tai_t (tbl : list row) (x : Q) : Q := x + utc2tai_delta tbl x x.
Definition tai2utc_t (tbl : list row) (x : Q) : Q := x + tai2utc_delta tbl x (fun _ t => t) x.
Definition utc2tai (x : Q) : Q := utc2tai_t table x.
Definition tai2utc (x : Q) : Q := tai2utc_t table x.

(* ------------------------------------------------------------------ the constant and affine hops *)
Definition c_gps : Q := 19 / day.                 (* delta_gps_tai: 19 * seconds2day *)
Definition c_tt : Q := (32184 # 1000) / day.      (* delta_tai_tt: 32.184 * seconds2day *)
Definition L_G : Q := L_G_txt.
Definition T0 : Q := T_0_jd1_txt + T_0_jd2_txt.   (* dt = jd1 - T_0_jd1 + jd2 - T_0_jd2 *)

Definition gps2tai (x : Q) : Q := x + c_gps.
Definition tai2gps (x : Q) : Q := x - c_gps.
Definition tai2tt (x : Q) : Q := x + c_tt.
Definition tt2tai (x : Q) : Q := x - c_tt.
Definition tt2tcg_L (L t0 x : Q) : Q := x + L / (1 - L) * (x - t0).
Definition tcg2tt_L (L t0 x : Q) : Q := x - L * (x - t0).
Definition tt2tcg (x : Q) : Q := tt2tcg_L L_G T0 x.
Definition tcg2tt (x : Q) : Q := tcg2tt_L L_G T0 x.

(* ------------------------------------------------------------------ the conversion graph *)
Open Scope string_scope.
Definition edge := (string * string)%type.
Definition edge_eqb (a b : edge) : bool := (fst a =? fst b) && (snd a =? snd b).

(* semantics of one registered hop *)
Definition hop_fn (e : edge) : option (Q -> Q) :=
  let '(a, b) := e in
  if (a =? "utc") && (b =? "tai") then Some utc2tai
  else if (a =? "tai") && (b =? "utc") then Some tai2utc
  else if (a =? "tai") && (b =? "tt") then Some tai2tt
  else if (a =? "tt") && (b =? "tai") then Some tt2tai
  else if (a =? "tt") && (b =? "tcg") then Some tt2tcg
  else if (a =? "tcg") && (b =? "tt") then Some tcg2tt
  else if (a =? "gps") && (b =? "tai") then Some gps2tai
  else if (a =? "tai") && (b =? "gps") then Some tai2gps
  else None.

(* _find_conversion_hops: breadth-first search, `visited` holds hops (edges), FIFO queue *)
Fixpoint bfs_inner (from : string) (hops : list edge) (outs : list string) (target : string)
         (queue : list (string * list edge)) (visited : list edge)
  : list edge + (list (string * list edge) * list edge) :=
  match outs with
  | [] => inr (queue, visited)
  | to :: outs' =>
      let one := (from, to) in
      if to =? target then inl (hops ++ [one])%list
      else if existsb (edge_eqb one) visited then bfs_inner from hops outs' target queue visited
      else bfs_inner from hops outs' target (queue ++ [(to, (hops ++ [one])%list)])%list (one :: visited)
  end.

Fixpoint bfs (fuel : nat) (es : list edge) (target : string)
         (queue : list (string * list edge)) (visited : list edge) : option (list edge) :=
  match fuel with
  | O => None
  | S fuel' =>
      match queue with
      | [] => None                                   (* UnknownConversionError *)
      | (from, hops) :: rest =>
          let outs := map snd (filter (fun e => fst e =? from) es) in
          match bfs_inner from hops outs target rest visited with
          | inl found => Some found
          | inr (queue', visited') => bfs fuel' es target queue' visited'
          end
      end
  end.

Definition find_hops_in (es : list edge) (a b : string) : option (list edge) :=
  if a =? b then Some [(a, b)] else bfs (S (S (List.length es))) es b [(a, [])] [].

Definition find_hops := find_hops_in edges.

Definition run_hops (hs : list edge) (x : Q) : option Q :=
  fold_left (fun acc h => match acc, hop_fn h with Some v, Some f => Some (f v) | _, _ => None end) hs (Some x).

(* TimeBase.to_scale (the lru_cache in front of it belongs to C08) *)
Definition to_scale (a b : string) (x : Q) : option Q :=
  if a =? b then Some x
  else match find_hops a b with Some hs => run_hops hs x | None => None end.

Definition scales : list string := ["utc"; "tai"; "gps"; "tt"; "tcg"].

(* array form: delta_tai_utc builds an index list, then combines columns element-wise *)
Fixpoint index_of (x : Q) (tbl : list row) (i : nat) : nat :=
  match tbl with
  | [] => O
  | r :: t => if in_row x r then i else index_of x t (S i)
  end.
Definition argmax_row (tbl : list row) (x : Q) : nat :=
  if existsb (in_row x) tbl then index_of x tbl O else O.
Definition utc2tai_list (tbl : list row) (xs : list Q) : list Q :=
  let idx := map (argmax_row tbl) xs in
  let deltas := map (fun p => delta_d (nth (snd p) tbl dummy_row) (fst p)) (combine xs idx) in
  map (fun p => (fst p + snd p)%Q) (combine xs deltas).
Definition to_scale_list (a b : string) (xs : list Q) : list (option Q) := map (to_scale a b) xs.
(* the tai branch of delta_tai_utc on arrays: index list, delta, provisional UTC array, second index list, second delta *)
Definition tai2utc_list (tbl : list row) (xs : list Q) : list Q :=
  let idx := map (argmax_row tbl) xs in
  let delta := map (fun p => delta_d (nth (snd p) tbl dummy_row) (fst p)) (combine xs idx) in
  let tmp := map (fun p => (fst p - snd p)%Q) (combine xs delta) in
  let idx2 := map (argmax_row tbl) tmp in
  let delta2 := map (fun p => delta_d (nth (snd p) tbl dummy_row) (fst p)) (combine tmp idx2) in
  map (fun p => (fst p + - snd p)%Q) (combine xs delta2).
(* taking the elements of xs in the order given by a list of indices (a permutation, a selection, repetitions) *)
Definition take_idx {A} (d : A) (xs : list A) (perm : list nat) : list A := map (fun i => nth i xs d) perm.


(* ------------------------------------------------------------------ domain of the round-trip theorems *)
Open Scope Q_scope.
Definition us : Q := 1 / (86400 * 1000000).          (* one microsecond in days *)
Definition ns : Q := 1 / (86400 * 1000000000).       (* one nanosecond in days *)
Definition Qmax (a b : Q) : Q := if Qle_bool a b then b else a.
Definition Qmin (a b : Q) : Q := if Qle_bool a b then a else b.

Definition is_const (r : row) : bool := Qeq_bool (r_fac r) 0.

(* jump of TAI-UTC from row r to its successor n, as a function of the date: D_n(x) - D_r(x) *)
Definition jump (r n : row) (x : Q) : Q := delta_d n x - delta_d r x.
Definition dmax (r : row) : Q := delta_d r (r_end r).
(* UTC labels at the end of row r that never existed because TAI-UTC stepped down at r_end
   (1961-08-01: 0.05 s, 1968-02-01: 0.1 s): length in days, 0 for all other rows *)
Definition skip (r n : row) : Q :=
  Qmax 0 (- Qmin (jump r n (r_end r)) (jump r n (r_end r + dmax r))).
Definition jump_hi (r n : row) : Q := Qmax (jump r n (r_end r)) (jump r n (r_end r + dmax r)).
Definition jump_lo (r n : row) : Q := Qmin (jump r n (r_end r)) (jump r n (r_end r + dmax r)).

(* guard after the start of a drift row within which the two-step inverse falls into the previous row *)
Definition guard (r : row) : Q := if is_const r then 0 else us.

(* u (a UTC Julian date) lies in row r, successor n, inside the domain of the round-trip theorem *)
Definition rt_dom (r n : row) (u : Q) : Prop :=
  r_start r + guard r <= u /\ u < r_end r - skip r n - guard r.

(* side conditions of the generic round-trip lemma, computed row by row on the regenerated table *)
Definition eps_rt : Q := 4 * ns.
(* conditions on the row alone *)
Definition row_self_ok (r : row) : bool :=
  let b := r_fac r / day in
  Qle_bool 0 (r_fac r) && Qle_bool (r_fac r) day &&
  Qle_bool 0 (delta_d r (r_start r)) &&                       (* TAI-UTC >= 0 on the row *)
  Qlt_b (r_start r) (r_end r) &&
  Qle_bool (b * dmax r) (guard r) &&                          (* provisional UTC does not leave the row at its start *)
  Qle_bool (b * (b * dmax r)) eps_rt.

(* conditions on a row and its successor *)
Definition row_rt_ok (r n : row) : bool :=
  let b := r_fac r / day in
  row_self_ok r && Qle_bool 0 (r_fac n) &&
  Qle_bool (r_end r) (r_start n) && Qle_bool (r_start n) (r_end r) &&
  Qlt_b (r_end r + dmax r) (r_end n) &&                       (* the TAI label stays inside the successor *)
  Qle_bool (jump_hi r n + b * dmax r + dmax r) (r_end r - r_start r) &&   (* provisional UTC stays in the row when TAI is in the successor *)
  Qle_bool (b * (jump_hi r n + b * dmax r)) eps_rt &&
  Qle_bool (b * (- jump_lo r n)) eps_rt &&
  (negb (is_const r) || (is_const n && Qle_bool 0 (jump_lo r n))).   (* leap rows: followed by leap rows, steps up *)

Fixpoint pairs_ok (l : list row) : bool :=
  match l with
  | r :: ((n :: _) as t) => row_rt_ok r n && pairs_ok t
  | _ => true
  end.

Definition adjacent (tbl : list row) (r n : row) : Prop := exists l1 l2, tbl = (l1 ++ r :: n :: l2)%list.
Definition last_row (tbl : list row) : row := last tbl dummy_row.

(* the domain of the round-trip / path-independence theorems as a computable predicate on a UTC Julian date u:
   u lies in a row r of the table and
   - r has a successor n: start_r + guard_r <= u < end_r - skip r n - guard_r  (guard = 1 us on the pre-1972 drift rows, 0 on
     the leap-second rows; skip = the UTC labels that never existed because TAI-UTC stepped down: 0.05 s before 1961-08-01,
     0.1 s before 1968-02-01, 3.7 ns before 1962-01-01, nothing else), and the row-pair side conditions hold;
   - r is the open last row: u at least one day before its end (9999-12-31). *)
Definition utc_ok_in (tbl : list row) (u : Q) : bool :=
  let i := argmax_row tbl u in
  match nth_error tbl i with
  | None => false
  | Some r =>
      in_row u r &&
      match nth_error tbl (S i) with
      | Some n => row_rt_ok r n && Qle_bool (r_start r + guard r) u && Qlt_b u (r_end r - skip r n - guard r)
      | None => row_self_ok r && is_const r && Qlt_b (u + 1) (r_end r) && Qlt_b (dmax r) 1
      end
  end.
Definition utc_ok (u : Q) : bool := utc_ok_in table u.

(* well-formedness of the table (computed on the regenerated table) *)
Fixpoint chain_ok (prev_end : Q) (l : list row) : bool :=
  match l with
  | [] => true
  | r :: t => Qeq_bool prev_end (r_start r) && Qlt_b (r_start r) (r_end r) && chain_ok (r_end r) t
  end.
Definition half_integer (x : Q) : bool := Qeq_bool (inject_Z (Qfloor x) + (1 # 2)) x.
Definition table_wf (tbl : list row) : bool :=
  match tbl with
  | [] => false
  | r0 :: _ =>
      chain_ok (r_start r0) tbl &&
      forallb (fun r => half_integer (r_start r) && half_integer (r_end r)) tbl
  end.

(* ------------------------------------------------------------------ float quirk (row chosen with the double jd1+jd2) *)
Definition rowf (i : nat) : (dy * dy * dy * dy * dy) :=
  nth i taiutc_loaded (DNaN, DNaN, DNaN, DNaN, DNaN).
Definition row_index (tbl : list row) (x : Q) : nat := argmax_row tbl x.

(* float evaluation of  offset[idx] + (mjd - ref[idx]) * factor[idx]  then  * seconds2day *)
Definition delta_float (i : nat) (mjd_f : Q) : Q :=
  let '(_, _, o, r, f) := rowf i in
  rnd (rnd (dyq o + rnd (rnd (mjd_f - dyq r) * dyq f)) * dyq seconds2day_loaded).

Definition sel_utc (q : quirks) (j1 j2 : Q) : Q := if row_by_float_sum q then rnd (j1 + j2) else j1 + j2.

(* the hops on the two-part epoch, with quirks *)
Definition F_utc2tai (q : quirks) (j1 j2 : Q) : Q :=
  let x := j1 + j2 in x + utc2tai_delta table (sel_utc q j1 j2) x.

Definition F_tai2utc (q : quirks) (j1 j2 : Q) : Q :=
  let x := j1 + j2 in
  let tmpsel := fun (r1 : row) (tmp : Q) =>
    if row_by_float_sum q then
      let jd_f := rnd (j1 + j2) in
      let mjd_f := rnd (rnd (j1 - mjd0) + j2) in
      rnd (jd_f - delta_float (row_index table jd_f) mjd_f)
    else tmp in
  x + tai2utc_delta table (sel_utc q j1 j2) tmpsel x.

Definition F_hop (q : quirks) (e : edge) : option (Q * Q -> Q * Q) :=
  let '(a, b) := e in
  let lift (f : Q -> Q) := fun p : Q * Q => (fst p, snd p + (f (fst p + snd p) - (fst p + snd p))) in
  if ((a =? "utc") && (b =? "tai"))%string then Some (fun p => (fst p, F_utc2tai q (fst p) (snd p) - fst p))
  else if ((a =? "tai") && (b =? "utc"))%string then Some (fun p => (fst p, F_tai2utc q (fst p) (snd p) - fst p))
  else match hop_fn e with Some f => Some (lift f) | None => None end.

Definition F_run_hops (q : quirks) (hs : list edge) (p : Q * Q) : option (Q * Q) :=
  fold_left (fun acc h => match acc, F_hop q h with
                          | Some v, Some f => let r := f v in Some (Qred (fst r), Qred (snd r))   (* same value, small numbers *)
                          | _, _ => None end) hs (Some p).

Definition F_to_scale (q : quirks) (a b : string) (p : Q * Q) : option Q :=
  if (a =? b)%string then Some (fst p + snd p)
  else match find_hops a b with
       | Some hs => match F_run_hops q hs p with Some r => Some (fst r + snd r) | None => None end
       | None => None
       end.

(* ------------------------------------------------------------------ correspondence checks *)
Definition tol_conv : Q := ns.            (* implementation vs model: 1 ns *)
Definition tol_prop : Q := 10 * ns.       (* the property's 10 ns *)

Definition close (tol a b : Q) : bool := Qle_bool (Qabs (a - b)) tol.

(* one conversion: scales a b, input (jd1, jd2), observed output (jd1', jd2')
   0 = equals the specification model within 1 ns;
   5 = the input is in a scale other than UTC and lies within 1 ns of a discontinuity of the specification (the
       begin/end of an inserted leap second, which is not a double): equals the specification at an input 1 ns away;
   2 = equals the model with the float-sum quirk; 1 = none of these *)
Definition check_conv (c : string * string * (dy * dy) * (dy * dy)) : Z :=
  let '(a, b, (i1, i2), (o1, o2)) := c in
  match dy_toQ i1, dy_toQ i2, dy_toQ o1, dy_toQ o2 with
  | Some j1, Some j2, Some k1, Some k2 =>
      let y := Qred (k1 + k2) in
      let near (j2' : Q) := match F_to_scale all_off a b (j1, j2') with
                            | Some m => close (2 * tol_conv) (Qred m) y | None => false end in
      match F_to_scale all_off a b (j1, j2) with
      | Some m =>
          if close tol_conv (Qred m) y then 0%Z
          else if negb (a =? "utc")%string && (near (j2 + ns) || near (j2 - ns)) then 5%Z
          else match F_to_scale q_float a b (j1, j2) with
               | Some mf => if close tol_conv (Qred mf) y then 2%Z else 1%Z
               | None => 1%Z
               end
      | None => 1%Z
      end
  | _, _, _, _ => 1%Z
  end.

(* what the model expects, for replay files: (spec, float-quirk) in days *)
Definition expect_conv (a b : string) (i1 i2 : dy) : option Q * option Q :=
  (option_map Qred (F_to_scale all_off a b (dyq i1, dyq i2)),
   option_map Qred (F_to_scale q_float a b (dyq i1, dyq i2))).

(* the property stated on observables: two results (each (jd1, jd2)) denote the same instant within 10 ns.
   0 = yes, 1 = no *)
Definition check_same (c : (dy * dy) * (dy * dy)) : Z :=
  let '((a1, a2), (b1, b2)) := c in
  match dy_toQ a1, dy_toQ a2, dy_toQ b1, dy_toQ b2 with
  | Some p1, Some p2, Some q1, Some q2 =>
      if close tol_prop (Qred (p1 + p2)) (Qred (q1 + q2)) then 0%Z else 1%Z
  | _, _, _, _ => 1%Z
  end.

(* class of the inverse-at-a-drift-boundary finding: UTC epoch u in a drift row within 1 us after a
   start at which TAI-UTC steps, and the exact model's own round trip fails there *)
Definition in_drift_start_window (u : Q) : bool :=
  let r := find_row table u in
  negb (is_const r) && Qle_bool (r_start r) u && Qlt_b u (r_start r + us).

(* UTC labels that never existed (TAI-UTC stepped down at the end of the row): outside the property's domain *)
Definition in_skipped_labels (u : Q) : bool :=
  let i := argmax_row table u in
  let r := nth i table dummy_row in
  let n := nth (S i) table dummy_row in
  in_row u r && Qlt_b 0 (skip r n) && Qle_bool (r_end r - skip r n) u.

(* round trip utc -> tai -> utc observed on the implementation: 0 = within 10 ns; 4 = outside the domain (skipped
   label); 3 = fails, and the exact model fails in the same way on the class above; 1 = fails otherwise *)
Definition check_rt_utc (c : (dy * dy) * (dy * dy)) : Z :=
  let '((a1, a2), (b1, b2)) := c in
  match check_same c with
  | 0%Z => 0%Z
  | _ =>
      let u := (dyq a1 + dyq a2) in
      if in_skipped_labels u then 4%Z
      else if in_drift_start_window u && negb (close tol_prop (tai2utc (utc2tai u)) u)
         && close tol_conv (Qred (tai2utc (utc2tai u))) (Qred (dyq b1 + dyq b2))
      then 3%Z else 1%Z
  end.
