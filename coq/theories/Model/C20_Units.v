(* C20 / units - exact values of the units the library uses, as multiples q * pi^k (k in {-1,0,1})
   of the SI base of their dimension, the conversion factor `factor a b = val a / val b`, and the
   executable comparisons used by the correspondence with midgard.math.unit.Unit (pint).
   Model only (definitions + check functions); proofs are in Proofs/C20_Units.v. *)
From Coq Require Import ZArith QArith Qabs Bool List String Reals Qreals.
From Verif Require Import Lib.Dyadic.
Import ListNotations.
Open Scope Z_scope.

Inductive dim := Length | Time | Angle | AngRate | Dimless.

Definition dim_eqb (a b : dim) : bool :=
  match a, b with
  | Length, Length | Time, Time | Angle, Angle | AngRate, AngRate | Dimless, Dimless => true
  | _, _ => false
  end.

(* value of a unit in the SI base unit of its dimension: uq * pi ^ uk *)
Record unit := mkU { uname : string; udim : dim; uq : Q; uk : Z }.

Definition pw10 (n : Z) : Q := if 0 <=? n then inject_Z (10 ^ n) else Qmake 1 (Z.to_pos (10 ^ (- n))).

Definition s_year : Q := 31557600.        (* julian year = 365.25 d, pint's `year` too *)
Definition mas_q : Q := 1 # 648000000.    (* milliarcsecond = pi / 648000000 rad *)

Definition units : list unit := [
  (* length, base metre *)
  mkU "meter" Length 1 0;
  mkU "kilometer" Length 1000 0;
  mkU "decimeter" Length (1 # 10) 0;
  mkU "centimeter" Length (1 # 100) 0;
  mkU "millimeter" Length (1 # 1000) 0;
  mkU "micrometer" Length (pw10 (-6)) 0;
  mkU "nanometer" Length (pw10 (-9)) 0;
  mkU "angstrom" Length (pw10 (-10)) 0;
  mkU "inch" Length (254 # 10000) 0;
  mkU "foot" Length (3048 # 10000) 0;
  mkU "yard" Length (9144 # 10000) 0;
  mkU "mile" Length (1609344 # 1000) 0;
  mkU "nautical_mile" Length 1852 0;
  mkU "Megameter" Length 1000000 0;                      (* defined in midgard/math/unit.txt *)
  mkU "astronomical_unit" Length 149597870700 0;
  mkU "light_year" Length (299792458 * 31557600) 0;
  (* time, base second *)
  mkU "second" Time 1 0;
  mkU "millisecond" Time (1 # 1000) 0;
  mkU "microsecond" Time (pw10 (-6)) 0;
  mkU "nanosecond" Time (pw10 (-9)) 0;
  mkU "picosecond" Time (pw10 (-12)) 0;
  mkU "minute" Time 60 0;
  mkU "hour" Time 3600 0;
  mkU "day" Time 86400 0;
  mkU "week" Time 604800 0;
  mkU "fortnight" Time 1209600 0;
  mkU "year" Time s_year 0;
  mkU "julian_year" Time s_year 0;
  mkU "century" Time (100 * s_year) 0;
  mkU "megasecond" Time 1000000 0;
  (* angle, base radian *)
  mkU "radian" Angle 1 0;
  mkU "degree" Angle (1 # 180) 1;
  mkU "arcminute" Angle (1 # 10800) 1;
  mkU "arcsecond" Angle (1 # 648000) 1;
  mkU "milliarcsecond" Angle mas_q 1;
  mkU "mas" Angle mas_q 1;                                (* unit.txt *)
  mkU "microarcsecond" Angle (1 # 648000000000) 1;
  mkU "turn" Angle 2 1;
  mkU "revolution" Angle 2 1;
  mkU "grade" Angle (1 # 200) 1;
  (* angular rate, base radian / second *)
  mkU "radian / second" AngRate 1 0;
  mkU "radian per year" AngRate (1 / s_year) 0;
  mkU "degree per year" AngRate ((1 # 180) / s_year) 1;
  mkU "milliarcsecond per year" AngRate (mas_q / s_year) 1;
  mkU "masD" AngRate (mas_q / 86400) 1;                   (* unit.txt: milliarcsec per day *)
  mkU "degree per day" AngRate ((1 # 180) / 86400) 1;
  (* dimensionless (unit.txt) *)
  mkU "unit" Dimless 1 0;
  mkU "percent" Dimless (1 # 100) 0;
  mkU "ppb" Dimless (pw10 (-9)) 0
].

Fixpoint find_unit (l : list unit) (n : string) : option unit :=
  match l with
  | [] => None
  | u :: r => if String.eqb (uname u) n then Some u else find_unit r n
  end.

(* ---- the specification, in R: value and conversion factor *)
Definition Rval (u : unit) : R := (Q2R (uq u) * powerRZ PI (uk u))%R.
Definition factor (a b : unit) : R := (Rval a / Rval b)%R.

(* ---- the same, symbolically: a factor is q * pi^k *)
Definition factor_sym (a b : unit) : Q * Z := ((uq a / uq b)%Q, uk a - uk b).
Definition interp (f : Q * Z) : R := (Q2R (fst f) * powerRZ PI (snd f))%R.

(* ---- rational bracket of pi (proved in Proofs/C20_Units.v with coq-interval) *)
Definition pi_lo : Q := 3141592653589793238462643383279 # 1000000000000000000000000000000.
Definition pi_hi : Q := 3141592653589793238462643383280 # 1000000000000000000000000000000.

(* enclosure [lo, hi] of q * pi^k for k in {-1,0,1}; None for other k (never needed) *)
Definition enclose (f : Q * Z) : option (Q * Q) :=
  let q := fst f in
  match snd f with
  | 0 => Some (q, q)
  | 1 => Some (if Qle_bool 0 q then (q * pi_lo, q * pi_hi) else (q * pi_hi, q * pi_lo))%Q
  | -1 => Some (if Qle_bool 0 q then (q / pi_hi, q / pi_lo) else (q / pi_lo, q / pi_hi))%Q
  | _ => None
  end.

(* the double d lies within k ulps (of d) of the interval [lo, hi] *)
Definition near_interval (k : Z) (lo hi : Q) (d : dy) : bool :=
  match dy_toQ d with
  | Some v => let t := (inject_Z k * ulpQ d)%Q in Qle_bool (lo - t) v && Qle_bool v (hi + t)
  | None => false
  end.

(* relative agreement of two exact values: |a - b| <= rel * |b| *)
Definition rel_close (rel a b : Q) : bool := Qle_bool (Qabs (a - b)) (rel * Qabs b).

Definition rel_ident : Q := 1 # (2 ^ 50).     (* tolerance of the identities on doubles: 2^-50 (4..8 ulp) *)

(* ---- correspondence check 1: one factor of the implementation against the model.
   0 = within 4 ulp of the exact factor; 1 = not; 3 = unknown unit / different dimension in the model *)
Definition check_factor (c : string * string * dy) : Z :=
  let '(a, b, d) := c in
  match find_unit units a, find_unit units b with
  | Some ua, Some ub =>
      if negb (dim_eqb (udim ua) (udim ub)) then 3 else
      match enclose (factor_sym ua ub) with
      | Some (lo, hi) => if near_interval 4 lo hi d then 0 else 1
      | None => 3
      end
  | _, _ => 3
  end.

(* ---- correspondence check 2: the identities on the implementation's doubles.
   `m` = all factors of one dimension as a matrix: row a, column b = Unit(a, b).  One verdict per ordered
   pair (a, b), row-major: 0 = a2b*b2a = 1 and a2b*b2c = a2c for every c (relative 2^-50, exact rational
   arithmetic); 1 = reciprocity fails; 2 = transitivity fails for some c; 3 = matrix not square / not finite *)
Definition mget (m : list (list dy)) (a b : nat) : option Q := dy_toQ (nth b (nth a m []) DNaN).

Definition check_pair (m : list (list dy)) (n : nat) (a b : nat) : Z :=
  match mget m a b, mget m b a with
  | Some ab, Some ba =>
      if negb (rel_close rel_ident (ab * ba) 1) then 1 else
      let bad := existsb (fun c =>
         match mget m b c, mget m a c with
         | Some bc, Some ac => negb (rel_close rel_ident (ab * bc) ac)
         | _, _ => true
         end) (seq 0 n) in
      if bad then 2 else 0
  | _, _ => 3
  end.

Definition check_identities (m : list (list dy)) : list Z :=
  let n := List.length m in
  flat_map (fun a => map (fun b => check_pair m n a b) (seq 0 n)) (seq 0 n).

(* ---- unit.txt: definitions regenerated from the source into Gen/C20_UnitTxt.v as
   (name, coefficient, [(referenced unit, exponent)]); a definition is consistent with the table
   above when substituting the table's values gives the table's value of `name`. *)
Definition txt_def := (string * Q * list (string * Z))%type.

Definition qpow (q : Q) (e : Z) : Q := Qpower q e.

Fixpoint resolve (refs : list (string * Z)) (acc : Q * Z) : option (Q * Z) :=
  match refs with
  | [] => Some acc
  | (n, e) :: r =>
      match find_unit units n with
      | Some u => resolve r ((fst acc * qpow (uq u) e)%Q, snd acc + e * uk u)
      | None => None
      end
  end.

(* names that the table above does not model are not constrained *)
Definition txt_def_ok (d : txt_def) : bool :=
  let '(n, c, refs) := d in
  match find_unit units n with
  | Some u => match resolve refs (c, 0) with
              | Some (q, k) => Qeq_bool q (uq u) && (k =? uk u)
              | None => false
              end
  | None => true
  end.

(* history independence: the same factor requested twice in one process must be the same double *)
Definition check_same_dy (c : dy * dy) : Z := if dy_eqb (fst c) (snd c) then 0 else 1.
