(* C02 - one interface for all 13 formats (value read from an instant / instant denoted by a value) and its
   lifting to arrays as the code does it (`zip(jd1, jd2)` / list comprehensions).  Definitions only. *)
From Coq Require Import ZArith QArith Qround Qabs Bool List String Ascii.
From Verif Require Import Lib.Dyadic Model.C02_Formats.
Import ListNotations.
Open Scope Z_scope.

(* what a format accessor returns in the specification *)
Inductive mval : Set :=
| MQ (q : Q)                       (* jd, mjd, gps_seconds, jyear, decimalyear *)
| MWs (w : Z) (s : Q) (d : Z)      (* gps_ws: week, second of week, day of week *)
| MDt (x : dt)                     (* datetime *)
| MStr (s : string).               (* the six text formats *)

(* timedelta(days=...) keeps whole microseconds: nearest, ties to even *)
Definition round_us (T : Q) : Z := round_half_even (usq_of_jd T).

(* Time.<f> of an instant T in scale s; None = the format does not exist for the scale *)
Definition from_T (rows : list taiutc_row) (s : scale) (f : fmt) (T : Q) : option mval :=
  if negb (fmt_valid s f) then None else
  Some match f with
       | Fjd => MQ T
       | Fmjd => MQ (mjd_of_jd T)
       | Fdatetime => MDt (dt_of_us (round_us T))
       | Fgps_ws => let '(w, sec, d) := gpsws_of_jd T in MWs w sec d
       | Fgps_seconds => MQ (gpssec_of_jd T)
       | Fjyear => MQ (jyear_of_jd T)
       | Fdecimalyear => MQ (decyear_of_jd (ylen_of rows s) T)
       | Fyy => MStr (text_of_us Tyy (round_us T))
       | Fyyyy => MStr (text_of_us Tyyyy (round_us T))
       | Fisot => MStr (text_of_us Tisot (round_us T))
       | Fiso => MStr (text_of_us Tiso (round_us T))
       | Fyday => MStr (text_of_us Tyday (round_us T))
       | Fdate => MStr (text_of_us Tdate (round_us T))
       end.

(* Time(v, fmt=f, scale=s): the instant a value denotes *)
Definition to_Tm (rows : list taiutc_row) (s : scale) (f : fmt) (v : mval) : option Q :=
  if negb (fmt_valid s f) then None else
  match f, v with
  | Fjd, MQ q => Some q
  | Fmjd, MQ q => Some (jd_of_mjd q)
  | Fdatetime, MDt x => if valid_dt x then Some (jd_of_us (us_of_dt x)) else None
  | Fgps_ws, MWs w sec _ => Some (jd_of_gpsws (Qz w) sec)
  | Fgps_seconds, MQ q => Some (jd_of_gpssec q)
  | Fjyear, MQ q => Some (jd_of_jyear q)
  | Fdecimalyear, MQ q => Some (jd_of_decyear (ylen_of rows s) q)
  | _, MStr str => match tfmt_of f with
                   | Some tf => match us_of_text tf str with Some u => Some (jd_of_us u) | None => None end
                   | None => None
                   end
  | _, _ => None
  end.

(* resolution of a format in microseconds: how far below the (microsecond-rounded) instant the value may lie *)
Definition res_us (f : fmt) : Z :=
  match f with
  | Fyy | Fyyyy => US_S
  | Fdate => US_DAY
  | _ => 0
  end.
(* does the value pass through the microsecond grid of datetime? *)
Definition on_us_grid (f : fmt) : bool :=
  match f with Fdatetime | Fyy | Fyyyy | Fisot | Fiso | Fyday | Fdate => true | _ => false end.

(* the domain on which the round trip is claimed: 4-digit years for the texts, the strptime window for yy,
   the datetime range for the utc year length *)
Definition in_domain (s : scale) (f : fmt) (T : Q) : bool :=
  match f with
  | Fdecimalyear => match s with Sutc => (1 <=? year_of_jd T) && (year_of_jd T <=? 9998) | _ => true end
  | _ => match tfmt_of f with
         | Some tf => year_ok tf (dY (dt_of_us (round_us T)))
         | None => true
         end
  end.

(* ---------------------------------------------------------------- arrays *)
(* TimeFormat._from_jds on arrays: [f(j1, j2) for j1, j2 in zip(jd1, jd2)] *)
Fixpoint from_jds_list (rows : list taiutc_row) (s : scale) (f : fmt) (jd1 jd2 : list Q) : list (option mval) :=
  match jd1, jd2 with
  | a :: jd1', b :: jd2' => from_T rows s f (a + b) :: from_jds_list rows s f jd1' jd2'
  | _, _ => []
  end.

(* TimeFormat._to_jds on arrays: [g(v) for v in val] *)
Fixpoint to_jds_list (rows : list taiutc_row) (s : scale) (f : fmt) (vs : list mval) : list (option Q) :=
  match vs with
  | [] => []
  | v :: vs' => to_Tm rows s f v :: to_jds_list rows s f vs'
  end.
