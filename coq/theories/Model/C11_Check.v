(* Model/C11_Check.v - comparison of what midgard returned (observed, doubles shipped exactly) with the model's
   result, evaluated inside Coq by the correspondence check.  Verdicts: 0 = equals the specification model,
   2 = equals the model with quirks q_blank_dropped + q_century_from_first_obs, 4 = equals the model with quirk
   q_century_from_first_obs only, 1 = unexplained difference, 3 = the columns of the observed
   record table do not all have the same length. *)
From Coq Require Import Ascii String List Bool Arith ZArith QArith.
From Verif Require Import Lib.Text Lib.Decimal Lib.Fixed Lib.Dyadic Model.C11_Rinex.
From Verif Require Gen.C11_Rinex2ObsFields Gen.C11_Rinex3ObsFields.
Import ListNotations.
Local Open Scope string_scope.

Inductive oval :=
| OStr (s : string) | ONum (d : dy) | OInt (z : Z) | OList (l : list string)
| OTypes (l : list (string * list string)) | OSDict (l : list (string * string)).

Record observed := {
  ob_meta : list (string * oval);
  ob_pos : option (dy * dy * dy);
  ob_time : list string; ob_flag : list Z; ob_clk : list dy;
  ob_station : list string; ob_sys : list string; ob_sat : list string;
  ob_satnum_s : list string; ob_satnum_z : list Z;
  ob_obs : list (string * (list dy * list dy * list dy))
}.

Definition match_num (e : option Q) (d : dy) : bool :=
  match e with None => is_nan d | Some q => is_nearest_double q d end.

Fixpoint list_eqb {A} (eqb : A -> A -> bool) (a b : list A) : bool :=
  match a, b with
  | [], [] => true
  | x :: r, y :: r' => eqb x y && list_eqb eqb r r'
  | _, _ => false
  end.
Fixpoint forall2b {A B} (p : A -> B -> bool) (a : list A) (b : list B) : bool :=
  match a, b with
  | [], [] => true
  | x :: r, y :: r' => p x y && forall2b p r r'
  | _, _ => false
  end.
Definition strs_eqb := list_eqb String.eqb.

Definition types_match (e o : list (string * list string)) : bool :=
  Nat.eqb (List.length e) (List.length o) &&
  forallb (fun kv => match assoc (fst kv) e with Some l => strs_eqb l (snd kv) | None => false end) o.
Definition sdict_match (e o : list (string * string)) : bool :=
  Nat.eqb (List.length e) (List.length o) &&
  forallb (fun kv => match assoc (fst kv) e with Some v => String.eqb v (snd kv) | None => false end) o.

Definition mval_match (e : mval) (o : oval) : bool :=
  match e, o with
  | MStr a, OStr b => String.eqb a b
  | MNum q, ONum d => is_nearest_double q d || (Qeq_bool q 0 && match d with DZero _ => true | _ => false end)
  | MInt a, OInt b => Z.eqb a b
  | MList a, OList b => strs_eqb a b
  | MTypes a, OTypes b => types_match a b
  | MSDict a, OSDict b => sdict_match a b
  | _, _ => false
  end.

Definition meta_match (e : list (string * mval)) (o : list (string * oval)) : bool :=
  Nat.eqb (List.length e) (List.length o) &&
  forallb (fun kv => match assoc (fst kv) e with Some v => mval_match v (snd kv) | None => false end) o.

Definition pos_match (e : option (Q * Q * Q)) (o : option (dy * dy * dy)) : bool :=
  match e, o with
  | None, None => true
  | Some (x, y, z), Some (a, b, c) => match_num (Some x) a && match_num (Some y) b && match_num (Some z) c
  | _, _ => false
  end.

Definition col_match (e : list cellv) (o : list dy * list dy * list dy) : bool :=
  let '(ov, ol, os) := o in
  forall2b (fun c d => match_num (fst (fst c)) d) e ov &&
  forall2b (fun c d => match_num (snd (fst c)) d) e ol &&
  forall2b (fun c d => match_num (snd c) d) e os.

Definition result_match (v3 : bool) (e : result) (o : observed) : bool :=
  let rs := o_rows e in
  meta_match (o_meta e) (ob_meta o) && pos_match (o_pos e) (ob_pos o) &&
  strs_eqb (map r_time rs) (ob_time o) && list_eqb Z.eqb (map r_flag rs) (ob_flag o) &&
  forall2b match_num (map r_clk rs) (ob_clk o) &&
  strs_eqb (map r_station rs) (ob_station o) && strs_eqb (map r_sys rs) (ob_sys o) && strs_eqb (map r_sat rs) (ob_sat o) &&
  (if v3 then strs_eqb (map r_satnum_s rs) (ob_satnum_s o) else list_eqb Z.eqb (map r_satnum_z rs) (ob_satnum_z o)) &&
  forall2b (fun ec oc => String.eqb (fst ec) (fst oc) && col_match (snd ec) (snd oc)) (o_obs e) (ob_obs o).

(* all per-record columns of the observed table have the same length *)
Definition rectangular (v3 : bool) (o : observed) : bool :=
  let n := List.length (ob_time o) in
  Nat.eqb (List.length (ob_flag o)) n && Nat.eqb (List.length (ob_clk o)) n && Nat.eqb (List.length (ob_station o)) n &&
  Nat.eqb (List.length (ob_sys o)) n && Nat.eqb (List.length (ob_sat o)) n &&
  Nat.eqb (List.length (if v3 then map (fun _ => 0%Z) (ob_satnum_s o) else ob_satnum_z o)) n &&
  forallb (fun kv => let '(a, b, c) := snd kv in
                     Nat.eqb (List.length a) n && Nat.eqb (List.length b) n && Nat.eqb (List.length c) n) (ob_obs o).

Definition opt_match (v3 : bool) (e : option result) (o : option observed) : bool :=
  match e, o with
  | None, None => true
  | Some r, Some ob => result_match v3 r ob
  | _, _ => false
  end.

Definition model_v2 (q : quirks) rate lines :=
  parse_v2 q Gen.C11_Rinex2ObsFields.header_table Gen.C11_Rinex2ObsFields.obs_table rate lines.
Definition model_v3 rate lines :=
  parse_v3 Gen.C11_Rinex3ObsFields.header_table Gen.C11_Rinex3ObsFields.obs_table rate lines.

(* one correspondence case: (RINEX 3?, sampling rate, lines of the file, what midgard returned (None = it raised)) *)
Definition check_file (c : bool * option Q * list string * option observed) : Z :=
  let '(v3, rate, lines, o) := c in
  let rect := match o with Some ob => rectangular v3 ob | None => true end in
  if negb rect then 3%Z
  else if v3 then (if opt_match true (model_v3 rate lines) o then 0%Z else 1%Z)
  else if opt_match false (model_v2 spec_q rate lines) o then 0%Z
  else if opt_match false (model_v2 cent_q rate lines) o then 4%Z
  else if opt_match false (model_v2 impl_q rate lines) o then 2%Z
  else 1%Z.

(* number of rows the specification model finds (for replay files) *)
Definition spec_rows (c : bool * option Q * list string) : option (list (string * string)) :=
  let '(v3, rate, lines) := c in
  match (if v3 then model_v3 rate lines else model_v2 spec_q rate lines) with
  | Some r => Some (map (fun x => (r_time x, r_sat x)) (o_rows r))
  | None => None
  end.

(* ---- the same comparison with the record layouts of the format specification substituted for the regenerated
   ones (used to look for a failing input when the obligation obs_fields_wf no longer checks) *)
From Verif Require Spec.C11_RinexFormat.
Module S := Spec.C11_RinexFormat.
Definition override_h (spec : list (string * list fieldspec)) (t : table) : table :=
  map (fun row : table_row => let '(l, p, nl, fs) := row in
         match assoc l spec with Some fs' => (l, p, nl, fs') | None => row end) t.
Definition override_o (spec : list (string * bool * list fieldspec)) (t : table) : table :=
  map (fun row : table_row => let '(l, p, nl, fs) := row in
         match find (fun e => String.eqb (fst (fst e)) l) spec with
         | Some e => (l, p, snd (fst e), snd e) | None => row end) t.

Definition check_file_spec (c : bool * option Q * list string * option observed) : Z :=
  let '(v3, rate, lines, o) := c in
  if v3 then
    (if opt_match true (parse_v3 (override_h S.v3_header_spec Gen.C11_Rinex3ObsFields.header_table)
                                 (override_o S.v3_obs_spec Gen.C11_Rinex3ObsFields.obs_table) rate lines) o then 0%Z else 1%Z)
  else
    let th := override_h S.v2_header_spec Gen.C11_Rinex2ObsFields.header_table in
    let to := override_o S.v2_obs_spec Gen.C11_Rinex2ObsFields.obs_table in
    if opt_match false (parse_v2 spec_q th to rate lines) o then 0%Z
    else if opt_match false (parse_v2 cent_q th to rate lines) o then 4%Z
    else if opt_match false (parse_v2 impl_q th to rate lines) o then 2%Z else 1%Z.
