(* C16 - parsing is a pure function of file and arguments; every listed plug-in resolves.
   Executable model only (no proofs here).

   Anchors: midgard/parsers/__init__.py      parse_file = plugins.call(...) ; parser.parse()
            midgard/parsers/_parser.py        Parser.__init__ (fresh data / meta dicts), parse, as_dict (shallow copy)
            midgard/parsers/_parser_chain.py  ChainParser.read_data (fresh cache dict per group)
            midgard/parsers/_parser_rinex.py  parser_cache (func.cache: ONE list per decorated function, shared by all
                                              instances and files, never cleared), parse_sys_obs_types
            midgard/dev/plugins.py            names / get / call

   Part 1 is the plumbing: a world of parser instances, one shared mutable cell, a file system that no operation
   writes, and four operations.  What a parser computes is NOT modelled: `run` is a Section variable (closed by
   instantiation: in the correspondence by digests obtained from fresh interpreters, in the refutation witnesses
   by Part 2).  Part 2 is a concrete model of the one shared cell that exists in the code (parser_cache on
   parse_sys_obs_types).  Part 3 are the check functions used by the correspondence. *)
From Coq Require Import ZArith List Bool String.
Import ListNotations.
Open Scope Z_scope.

(* ------------------------------------------------------------------------------------------------ quirks *)
Record quirks : Set := mkQ {
  q_cache_shared : bool;   (* c16_parser_cache_shared: the parser_cache list is one cell for all instances, never cleared *)
  q_no_reset     : bool;   (* c16_reparse_accumulates: parse() on an instance that has parsed before starts from its old data *)
  q_alias        : bool    (* as_dict() hands out the instance's own containers (shallow copy): caller mutations reach the instance *)
}.
Definition all_off : quirks := mkQ false false false.
Definition midgard_quirks : quirks := mkQ true true true.

(* ------------------------------------------------------------------------------------------------ part 1 *)
Section World.
  Variables parser file content args result token : Type.

  (* The (possibly impure) meaning of one parse: what it computes from the file content and the arguments, given
     what it finds in the shared cell and in its own instance state left by an earlier parse. *)
  Variable run : parser -> content -> args -> list token -> option result -> result.
  (* what one parse leaves behind in the shared cell *)
  Variable emits : parser -> content -> args -> list token -> list token.
  (* what a caller does to a result it was given *)
  Variable mutate : result -> result.

  (* the pure meaning: a fresh interpreter - empty cell, fresh instance *)
  Definition parse_fn (p : parser) (c : content) (a : args) : result := run p c a [] None.

  Record inst : Type := mkInst { ip : parser; ifile : file; iargs : args; istate : option result }.
  Record world : Type := mkWorld { fs : file -> content; cell : list token; insts : list (Z * inst) }.

  Inductive op : Type :=
  | Construct (i : Z) (p : parser) (f : file) (a : args)
  | Parse (i : Z)
  | Mutate (i : Z)       (* the caller changes, in place, the result it got from instance i *)
  | Drop (i : Z).

  (* what the caller sees at a Parse: the result, and the file's content before and after *)
  Record obs : Type := mkObs { o_inst : Z; o_result : result; o_before : content; o_after : content }.

  Fixpoint lookup {A : Type} (i : Z) (l : list (Z * A)) : option A :=
    match l with
    | [] => None
    | (j, x) :: r => if i =? j then Some x else lookup i r
    end.
  Fixpoint remove {A : Type} (i : Z) (l : list (Z * A)) : list (Z * A) :=
    match l with
    | [] => []
    | (j, x) :: r => if i =? j then remove i r else (j, x) :: remove i r
    end.
  Definition update {A : Type} (i : Z) (x : A) (l : list (Z * A)) : list (Z * A) := (i, x) :: remove i l.

  Definition step (q : quirks) (w : world) (o : op) : world * list obs :=
    match o with
    | Construct i p f a => (mkWorld (fs w) (cell w) (update i (mkInst p f a None) (insts w)), [])
    | Parse i =>
        match lookup i (insts w) with
        | None => (w, [])
        | Some n =>
            let c := fs w (ifile n) in
            let seen := if q_cache_shared q then cell w else [] in
            let prev := if q_no_reset q then istate n else None in
            let r := run (ip n) c (iargs n) seen prev in
            let cell' := if q_cache_shared q then emits (ip n) c (iargs n) (cell w) else cell w in
            (mkWorld (fs w) cell' (update i (mkInst (ip n) (ifile n) (iargs n) (Some r)) (insts w)),
             [mkObs i r c c])
        end
    | Mutate i =>
        if q_alias q then
          match lookup i (insts w) with
          | None => (w, [])
          | Some n => (mkWorld (fs w) (cell w)
                               (update i (mkInst (ip n) (ifile n) (iargs n) (option_map mutate (istate n))) (insts w)), [])
          end
        else (w, [])                      (* results are fresh copies: nothing in the world changes *)
    | Drop i => (mkWorld (fs w) (cell w) (remove i (insts w)), [])
    end.

  Fixpoint exec (q : quirks) (w : world) (ops : list op) : world * list obs :=
    match ops with
    | [] => (w, [])
    | o :: r => let (w1, t1) := step q w o in
                let (w2, t2) := exec q w1 r in (w2, t1 ++ t2)
    end.
  Definition trace (q : quirks) (w : world) (ops : list op) : list obs := snd (exec q w ops).

  (* which (parser, file, args) an instance name is bound to after `ops` - a function of the Construct / Drop
     operations on that name alone *)
  Fixpoint bound (ops : list op) (i : Z) (cur : option (parser * file * args)) : option (parser * file * args) :=
    match ops with
    | [] => cur
    | Construct j p f a :: r => bound r i (if i =? j then Some (p, f, a) else cur)
    | Drop j :: r => bound r i (if i =? j then None else cur)
    | _ :: r => bound r i cur
    end.

  (* the specification, stated directly: every Parse of a bound name yields parse_fn of its binding *)
  Fixpoint spec_trace (fs0 : file -> content) (ops : list op) (b : list (Z * (parser * file * args))) : list obs :=
    match ops with
    | [] => []
    | Construct i p f a :: r => spec_trace fs0 r (update i (p, f, a) b)
    | Drop i :: r => spec_trace fs0 r (remove i b)
    | Mutate _ :: r => spec_trace fs0 r b
    | Parse i :: r =>
        match lookup i b with
        | None => spec_trace fs0 r b
        | Some (p, f, a) => mkObs i (parse_fn p (fs0 f) a) (fs0 f) (fs0 f) :: spec_trace fs0 r b
        end
    end.

  Definition binding_of (n : inst) : parser * file * args := (ip n, ifile n, iargs n).
  Definition empty_world (fs0 : file -> content) : world := mkWorld fs0 [] [].

  (* a parse is *self-contained* when what is in the shared cell cannot influence it *)
  Definition self_contained (p : parser) (c : content) (a : args) : Prop :=
    forall v, run p c a v None = run p c a [] None.
End World.

Arguments Construct {parser file args}.
Arguments Parse {parser file args}.
Arguments Mutate {parser file args}.
Arguments Drop {parser file args}.
Arguments mkObs {content result}.
Arguments o_inst {content result}.
Arguments o_result {content result}.
Arguments o_before {content result}.
Arguments o_after {content result}.

(* ------------------------------------------------------------------------------------------------ part 2 *)
(* RinexParser.parse_sys_obs_types under the parser_cache decorator, on the header lines 'SYS / # / OBS TYPES'.
   A line is (satellite system | blank = continuation line, its non-empty type fields in column order).
   Systems and observation types are integers (character codes / indices). *)
Definition hline : Set := (option Z * list Z)%type.
Definition hfile : Set := list hline.
Definition obs_types : Set := list (Z * list Z).            (* header['obs_types'], insertion ordered *)
Inductive hres : Set := HOk (t : obs_types) | HIndexError | HOther.

(*  while not satellite_sys: satellite_sys = cache[prev_idx]["satellite_sys"]; prev_idx -= 1
    i.e. the latest cache entry with a system; IndexError when the walk falls off the front of the list *)
Fixpoint last_sys (cache_rev : list (option Z)) : option Z :=
  match cache_rev with
  | [] => None
  | Some s :: _ => Some s
  | None :: r => last_sys r
  end.

Fixpoint dict_extend (d : obs_types) (s : Z) (ts : list Z) : obs_types :=
  match d with
  | [] => [(s, ts)]
  | (s', l) :: r => if s =? s' then (s', l ++ ts) :: r else (s', l) :: dict_extend r s ts
  end.

(* one header of one file: returns the result and the cache (most recent entry first) it leaves behind;
   the entry of a line that raised is not appended (the wrapper appends after the call) *)
Fixpoint hdr_lines (ls : hfile) (cache_rev : list (option Z)) (d : obs_types) : hres * list (option Z) :=
  match ls with
  | [] => (HOk d, cache_rev)
  | (sys, ts) :: r =>
      match (match sys with Some s => Some s | None => last_sys cache_rev end) with
      | None => (HIndexError, cache_rev)
      | Some s => hdr_lines r (sys :: cache_rev) (dict_extend d s ts)
      end
  end.

(* an instance that never sees an OBS TYPES line has no 'obs_types' key: the harness reports that as HOk [] *)
Definition hdr_run (f : hfile) (cache_rev : list (option Z)) : hres := fst (hdr_lines f cache_rev []).
Definition hdr_emits (f : hfile) (cache_rev : list (option Z)) : list (option Z) := snd (hdr_lines f cache_rev []).

(* Part 1 instantiated: parser = unit (the header parser), file = content = hfile, args = unit, token = cache entry *)
Definition hdr_world_run (_ : unit) (c : hfile) (_ : unit) (v : list (option Z)) (_ : option hres) : hres := hdr_run c v.
Definition hdr_world_emits (_ : unit) (c : hfile) (_ : unit) (v : list (option Z)) : list (option Z) := hdr_emits c v.

(* files parsed one after the other by new instances in one interpreter *)
Definition hdr_ops (n : nat) : list (@op unit Z unit) :=
  flat_map (fun k => [Construct (Z.of_nat k) tt (Z.of_nat k) tt; Parse (Z.of_nat k)]) (seq 0 n).
Definition hdr_history (q : quirks) (files : list hfile) : list hres :=
  map o_result
      (trace unit Z hfile unit hres (option Z) hdr_world_run hdr_world_emits (fun r => r) q
             (empty_world unit Z hfile unit hres (option Z) (fun k => nth (Z.to_nat k) files []))
             (hdr_ops (List.length files))).

(* ------------------------------------------------------------------------------------------------ part 3 *)
(* Correspondence.  Parsers, files, arguments and results are integers: indices into the run's job table and
   digests (sha256 strings interned one-to-one as small integers by the driver).  `table` lists, per (parser, content digest, args), the digest obtained in a FRESH interpreter. *)
Definition job : Set := (Z * Z * Z)%type.
Definition fresh_table : Set := list (job * Z).

Definition job_eqb (a b : job) : bool :=
  (fst (fst a) =? fst (fst b)) && (snd (fst a) =? snd (fst b)) && (snd a =? snd b).
Fixpoint table_get (t : fresh_table) (j : job) : Z :=
  match t with
  | [] => -1                                  (* not in the table: never equals an observed digest (those are >= 0) *)
  | (k, d) :: r => if job_eqb j k then d else table_get r j
  end.

(* `run` instantiated by the table; the uninterpreted parts the specification never looks at are constants *)
Definition z_run (t : fresh_table) (p c a : Z) (_ : list Z) (_ : option Z) : Z := table_get t (p, c, a).
Definition z_emits (_ _ _ : Z) (v : list Z) : list Z := v.
Definition z_world (files : list (Z * Z)) : world Z Z Z Z Z Z :=
  empty_world Z Z Z Z Z Z (fun f => match lookup f files with Some c => c | None => -2 end).

Definition zobs : Set := (Z * Z * Z * Z)%type.              (* instance, result digest, file digest before, after *)
Definition zobs_of (o : @obs Z Z) : zobs := (o_inst o, o_result o, o_before o, o_after o).

Definition predict (t : fresh_table) (files : list (Z * Z)) (ops : list (@op Z Z Z)) : list zobs :=
  map zobs_of (trace Z Z Z Z Z Z (z_run t) z_emits (fun r => r) all_off (z_world files) ops).

(* is this Parse the second one on the same live instance?  (set of names parsed since their construction) *)
Fixpoint reparse_flags (ops : list (@op Z Z Z)) (parsed : list Z) : list bool :=
  match ops with
  | [] => []
  | Construct i _ _ _ :: r => reparse_flags r (List.remove Z.eq_dec i parsed)
  | Drop i :: r => reparse_flags r (List.remove Z.eq_dec i parsed)
  | Mutate _ :: r => reparse_flags r parsed
  | Parse i :: r => existsb (Z.eqb i) parsed :: reparse_flags r (i :: parsed)
  end.

Definition zobs_eqb (a b : zobs) : bool :=
  match a, b with (i, r, f1, f2), (i', r', f1', f2') => (i =? i') && (r =? r') && (f1 =? f1') && (f2 =? f2') end.

(* verdict per observation: 0 = as the specification predicts; 4 = the file's bytes differ from the model's
   file system (before or after the parse); 3 = the result differs and this is a re-parse of an instance that
   has parsed before (the only thing quirk q_no_reset / q_alias leave unconstrained); 1 = unexplained *)
Fixpoint verdicts (pred obsd : list zobs) (flags : list bool) : list Z :=
  match pred, obsd, flags with
  | [], [], _ => []
  | p :: pr, o :: or, fl :: fr =>
      (if zobs_eqb p o then 0
       else match p, o with (i, r, f1, f2), (i', r', f1', f2') =>
              if negb ((f1 =? f1') && (f2 =? f2')) then 4
              else if negb (i =? i') then 1
              else if fl then 3 else 1
            end) :: verdicts pr or fr
  | _, _, _ => [1]                              (* different number of observations *)
  end.

(* typed constructors for the emitted case terms (fast elaboration) *)
Definition zop : Type := @op Z Z Z.
Definition zC (i p f a : Z) : zop := Construct i p f a.
Definition zP (i : Z) : zop := Parse i.
Definition zM (i : Z) : zop := Mutate i.
Definition zD (i : Z) : zop := Drop i.
Definition zo (i r b a : Z) : zobs := (i, r, b, a).
Definition zt (p c a d : Z) : job * Z := ((p, c, a), d).
Definition zh (o : list zop) (b : list zobs) : list zop * list zobs := (o, b).

(* one case = one interpreter: table, file system, operation list, observations *)
Definition check_history (c : fresh_table * list (Z * Z) * list (@op Z Z Z) * list zobs) : Z :=
  match c with
  | (t, files, ops, obsd) =>
      let v := verdicts (predict t files ops) obsd (reparse_flags ops []) in
      fold_left (fun acc x => if acc =? 1 then 1 else if x =? 0 then acc else if x =? 1 then 1 else Z.max acc x) v 0
  end.
Definition check_history_detail (c : fresh_table * list (Z * Z) * list (@op Z Z Z) * list zobs) : list Z :=
  match c with
  | (t, files, ops, obsd) => verdicts (predict t files ops) obsd (reparse_flags ops [])
  end.

(* header-cache cases: the files of one interpreter and what wip_rinex3_obs_header delivered for each *)
Fixpoint hres_eqb (a b : hres) : bool :=
  match a, b with
  | HOk x, HOk y =>
      (fix eqd (x y : obs_types) : bool :=
         match x, y with
         | [], [] => true
         | (s, l) :: xr, (s', l') :: yr =>
             (s =? s') && (if list_eq_dec Z.eq_dec l l' then true else false) && eqd xr yr
         | _, _ => false
         end) x y
  | HIndexError, HIndexError => true
  | _, _ => false
  end.
Fixpoint hres_list_eqb (a b : list hres) : bool :=
  match a, b with
  | [], [] => true
  | x :: xr, y :: yr => hres_eqb x y && hres_list_eqb xr yr
  | _, _ => false
  end.

(* 0 = specification (every parse sees an empty cache); 2 = model with c16_parser_cache_shared; 1 = neither *)
Definition check_hdr (c : list hfile * list hres) : Z :=
  let (files, obsd) := c in
  if hres_list_eqb (hdr_history all_off files) obsd then 0
  else if hres_list_eqb (hdr_history (mkQ true false false) files) obsd then 2
  else 1.

(* the same per file of one interpreter (many files one after the other) *)
Fixpoint hdr_codes (spec quirk obsd : list hres) : list Z :=
  match spec, quirk, obsd with
  | [], [], [] => []
  | s :: sr, k :: kr, o :: or => (if hres_eqb s o then 0 else if hres_eqb k o then 2 else 1) :: hdr_codes sr kr or
  | _, _, _ => [1]
  end.
Definition check_hdr_detail (c : list hfile * list hres) : list Z :=
  let (files, obsd) := c in
  hdr_codes (hdr_history all_off files) (hdr_history (mkQ true false false) files) obsd.

(* ------------------------------------------------------------------------------------------------ plug-ins *)
(* one row of Gen/C16_Plugins.v: name, module file exists, loading succeeded, kind code, call code
   kind : 1 = of the advertised kind (parsers: subclass of Parser; writers: plain function; field types: subclass
              of FieldType); 2 = parsers only: a dispatcher - plain function of the plug-in module that returns a
              Parser instance; 0 = anything else
   call : 1 = the keyword arguments parsers.parse_file passes (file_path, encoding) bind to the registered callable
              (writers / field types: always 1); 0 = they do not *)
Definition plugin_row : Set := (string * bool * bool * Z * Z)%type.
Definition row_name (r : plugin_row) : string := match r with (n, _, _, _, _) => n end.
Definition row_resolves (r : plugin_row) : bool :=
  match r with (_, ex, ld, k, _) => ex && ld && ((k =? 1) || (k =? 2)) end.
Definition row_callable (r : plugin_row) : bool := match r with (_, _, _, _, c) => c =? 1 end.
Definition no_dup_names (rows : list plugin_row) : bool :=
  (fix nd (l : list string) : bool :=
     match l with [] => true | x :: r => negb (existsb (String.eqb x) r) && nd r end) (map row_name rows).

(* open finding c16_rinex_nav_signature: the dispatcher registered as 'rinex_nav' takes only file_path, so
   parsers.parse_file('rinex_nav', f) (which always passes encoding=...) raises TypeError.  The callable-theorem is
   stated for every other row; it stays true once the defect is repaired. *)
Definition known_uncallable : list string := ["rinex_nav"%string].
Definition row_callable_or_known (r : plugin_row) : bool :=
  row_callable r || existsb (String.eqb (row_name r)) known_uncallable.
