(* C01 - the property oracle on implementation observables, stated with the hand-typed Spec only (no regenerated
   data, no model): used by the driver's search for a failing input when a proof obligation no longer checks. *)
From Coq Require Import ZArith QArith Qabs Bool List String.
From Verif Require Import Lib.Dyadic Spec.C01_IersTaiUtc.
Import ListNotations.
Open Scope Q_scope.

Definition ns_d : Q := 1 / (86400 * 1000000000).

Fixpoint entry_at (pub : list entry) (x : Q) : option entry :=
  match pub with
  | [] => None
  | e :: t =>
      match t with
      | e' :: _ => if Qle_bool (e_start e') x then entry_at t x else if Qle_bool (e_start e) x then Some e else None
      | [] => if Qle_bool (e_start e) x then Some e else None
      end
  end.

(* kind 0: utc -> tai observed; kind 1: tai -> gps; kind 2: tai -> tt; kind 3: tt -> tcg.
   input (jd1, jd2), output (jd1, jd2).  0 = agrees with the published definition within 1 ns, 1 = not *)
Definition check_published (c : Z * (dy * dy) * (dy * dy)) : Z :=
  let '(kind, (i1, i2), (o1, o2)) := c in
  match dy_toQ i1, dy_toQ i2, dy_toQ o1, dy_toQ o2 with
  | Some j1, Some j2, Some k1, Some k2 =>
      let x := j1 + j2 in let y := k1 + k2 in
      let expected :=
        match kind with
        | 0%Z => match entry_at published x with Some e => Some (x + e_value e x / day_s) | None => None end
        | 1%Z => Some (x - tai_minus_gps_s / day_s)
        | 2%Z => Some (x + tt_minus_tai_s / day_s)
        | _ => Some (x + L_G_iers2010 / (1 - L_G_iers2010) * (x - T_0_iers2010))
        end in
      match expected with
      | Some m => if Qle_bool (Qabs (Qred m - Qred y)) ns_d then 0%Z else 1%Z
      | None => 1%Z
      end
  | _, _, _, _ => 1%Z
  end.
