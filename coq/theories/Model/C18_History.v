(* C18 - site-information history lookup.  Executable model only (no proofs here).

   Anchors: midgard/site_info/_site_info.py  SiteInfoHistoryBase.get, ModuleBase.get/get_history
            midgard/site_info/{antenna,receiver,eccentricity,site_coord}.py  *History{Sinex,Ssc}._create_history
            midgard/site_info/site_info.py  SiteInfo.get

   Times are integers (microseconds on any fixed origin); datetime.min / datetime.max, which the
   code substitutes for a missing start / end, are the infinities NegInf / PosInf. *)
From Coq Require Import ZArith List Bool String Ascii.
Import ListNotations.
Open Scope Z_scope.

Inductive ext : Set := NegInf | Fin (t : Z) | PosInf.

Definition ext_leb (a b : ext) : bool :=
  match a, b with
  | NegInf, _ => true
  | _, PosInf => true
  | Fin x, Fin y => x <=? y
  | _, _ => false
  end.

Definition ext_eqb (a b : ext) : bool :=
  match a, b with
  | NegInf, NegInf => true
  | PosInf, PosInf => true
  | Fin x, Fin y => x =? y
  | _, _ => false
  end.

Definition ext_ltb (a b : ext) : bool := ext_leb a b && negb (ext_eqb a b).

Definition key : Set := (ext * ext)%type.
Definition key_eqb (a b : key) : bool := ext_eqb (fst a) (fst b) && ext_eqb (snd a) (snd b).
(* Python tuple order *)
Definition key_ltb (a b : key) : bool :=
  ext_ltb (fst a) (fst b) || (ext_eqb (fst a) (fst b) && ext_ltb (snd a) (snd b)).

(* A history is a Python dict {(date_from, date_to): info}: insertion ordered, unique keys.
   `info` is represented by the identity (an integer) of the source record it was built from. *)
Definition history : Set := list (key * Z).

Fixpoint dict_set (h : history) (k : key) (v : Z) : history :=
  match h with
  | [] => [(k, v)]
  | (k', v') :: r => if key_eqb k k' then (k', v) :: r else (k', v') :: dict_set r k v
  end.

(* raw source record: (start, end, identity); None = the falsy value the parsers deliver for an
   open start / end *)
Definition raw : Set := (option Z * option Z * Z)%type.
Definition raw_id (r : raw) : Z := snd r.
Definition key_of_raw (r : raw) : key :=
  (match fst (fst r) with Some s => Fin s | None => NegInf end,
   match snd (fst r) with Some e => Fin e | None => PosInf end).

(* *HistorySinex/Ssc._create_history *)
Definition create_history (rs : list raw) : history :=
  fold_left (fun h r => dict_set h (key_of_raw r) (raw_id r)) rs [].

Inductive query : Set := At (d : Z) | Last.
Inductive answer : Set := Found (i : Z) | Nothing | ErrIndex | ErrMissing | ErrKey.

Definition contains (k : key) (d : Z) : bool := ext_leb (fst k) (Fin d) && ext_ltb (Fin d) (snd k).

Fixpoint get_at (h : history) (d : Z) : answer :=
  match h with
  | [] => Nothing
  | (k, i) :: r => if contains k d then Found i else get_at r d
  end.

Definition max_entry (e : key * Z) (r : history) : key * Z :=
  fold_left (fun best x => if key_ltb (fst best) (fst x) then x else best) r e.

(* sorted(history.keys())[-1] ; IndexError on an empty dict *)
Definition get_last (h : history) : answer :=
  match h with
  | [] => ErrIndex
  | e :: r => Found (snd (max_entry e r))
  end.

Definition get (h : history) (q : query) : answer :=
  match q with At d => get_at h d | Last => get_last h end.

(* ------------------------------------------------------------------ station normalisation *)

Definition lower_ascii (a : ascii) : ascii :=
  let n := nat_of_ascii a in
  if (Nat.leb 65 n && Nat.leb n 90)%bool then ascii_of_nat (n + 32) else a.
Definition upper_ascii (a : ascii) : ascii :=
  let n := nat_of_ascii a in
  if (Nat.leb 97 n && Nat.leb n 122)%bool then ascii_of_nat (n - 32) else a.

Fixpoint smap (f : ascii -> ascii) (s : string) : string :=
  match s with EmptyString => EmptyString | String a r => String (f a) (smap f r) end.
Definition lower := smap lower_ascii.
Definition upper := smap upper_ascii.

(* Python str.isspace for ASCII: space, \t \n \v \f \r, and 0x1c-0x1f *)
Definition is_space (a : ascii) : bool :=
  let n := nat_of_ascii a in
  (Nat.eqb n 32 || (Nat.leb 9 n && Nat.leb n 13) || (Nat.leb 28 n && Nat.leb n 31))%bool.

Fixpoint lstrip (s : string) : string :=
  match s with
  | EmptyString => EmptyString
  | String a r => if is_space a then lstrip r else s
  end.
Fixpoint rstrip (s : string) : string :=
  match s with
  | EmptyString => EmptyString
  | String a r =>
      match rstrip r with
      | EmptyString => if is_space a then EmptyString else String a EmptyString
      | r' => String a r'
      end
  end.
Definition strip (s : string) : string := rstrip (lstrip s).

(* Python s.split(c) for a one-character separator *)
Fixpoint split_on (c : ascii) (s : string) : list string :=
  match s with
  | EmptyString => [EmptyString]
  | String a r =>
      if Ascii.eqb a c then EmptyString :: split_on c r
      else match split_on c r with
           | [] => [String a EmptyString]
           | h :: t => String a h :: t
           end
  end.

Fixpoint join (c : ascii) (l : list string) : string :=
  match l with
  | [] => EmptyString
  | [x] => x
  | x :: r => append x (String c (join c r))
  end.

Definition comma : ascii := ","%char.

(* The station argument (`Union[str, Iterable]`): comma-separated text, a re-iterable collection (list, tuple,
   dict keys view: `AsList l`, l = the names it enumerates) or a ONE-SHOT iterable (generator expression, map /
   filter object, iterator: `AsIter l`, l = the names it yields when it is consumed).  A one-shot iterable
   denotes the same request as the list it enumerates: every entry point consumes it exactly once, before the
   first module is asked. *)
Inductive stations : Set := AsText (s : string) | AsList (l : list string) | AsIter (l : list string).

(* ModuleBase.get / get_history, SiteInfo.get / get_history:
                                   text -> [s.strip().lower() for s in text.split(",")],
                                   any other iterable -> [s.lower() for s in iterable] *)
Definition normalize (st : stations) : list string :=
  match st with
  | AsText s => map (fun x => lower (strip x)) (split_on comma s)
  | AsList l => map lower l
  | AsIter l => map lower l
  end.

(* ------------------------------------------------------------------ module level *)

(* Deviations of the current source from the property (DESIGN 2.7).  Specification = all_off.
   pop_pos_vel   : SiteCoordHistorySsc._create_history does raw_info.pop("pos_vel") on the caller's data
   upper_key_err : Antenna/Eccentricity/Identifier HistorySinex test `station.upper() in source_data`
                   but then index source_data[station] (lower case) -> KeyError *)
Record quirks : Set := { pop_pos_vel : bool; upper_key_err : bool }.
Definition all_off : quirks := {| pop_pos_vel := false; upper_key_err := false |}.

(* The source dictionary of one module: station key (as spelled in the source) -> raw records.
   `None` as payload = the module has no history for this source type (the Ssc antenna / receiver /
   eccentricity classes return history None for known stations). *)
Definition source : Set := list (string * option (list raw)).

Fixpoint assoc (k : string) (sd : source) : option (option (list raw)) :=
  match sd with
  | [] => None
  | (k', v) :: r => if String.eqb k k' then Some v else assoc k r
  end.

(* `if station in source_data ... elif station.upper() in source_data ... else raise MissingDataError` *)
Definition lookup_station (sd : source) (st : string) : option (option (list raw)) :=
  match assoc st sd with
  | Some v => Some v
  | None => assoc (upper st) sd
  end.

Definition empty_answer (q : query) : answer := match q with At _ => Nothing | Last => ErrIndex end.

(* one station, one module; `q = None` means "no date": the history object itself is returned,
   which we represent by Nothing-free answer `Found (-1)`?  No: we only model dated queries. *)
Definition module_get1q (qk : quirks) (sd : source) (st : string) (q : query) : answer :=
  match sd with
  | [] => empty_answer q                (* `if source_data:` is false -> history = {} *)
  | _ =>
    match assoc st sd with
    | Some None => Nothing              (* history is None -> get returns None *)
    | Some (Some rs) => get (create_history rs) q
    | None =>
        match assoc (upper st) sd with
        | None => ErrMissing
        | Some v => if upper_key_err qk then ErrKey
                    else match v with None => Nothing | Some rs => get (create_history rs) q end
        end
    end
  end.
Definition module_get1 := module_get1q all_off.

(* result dict {station: value}: later duplicates overwrite, first position kept *)
Fixpoint adict_set {A : Type} (d : list (string * A)) (k : string) (v : A) : list (string * A) :=
  match d with
  | [] => [(k, v)]
  | (k', v') :: r => if String.eqb k k' then (k', v) :: r else (k', v') :: adict_set r k v
  end.

Fixpoint sdict_set (d : list (string * answer)) (k : string) (v : answer) : list (string * answer) :=
  match d with
  | [] => [(k, v)]
  | (k', v') :: r => if String.eqb k k' then (k', v) :: r else (k', v') :: sdict_set r k v
  end.

Definition is_err (a : answer) : bool :=
  match a with ErrIndex | ErrMissing | ErrKey => true | _ => false end.

(* ModuleBase.get: the first failing station aborts the whole call (exception) *)
Fixpoint module_get_list (qk : quirks) (sd : source) (sts : list string) (q : query) (acc : list (string * answer))
  : list (string * answer) + answer :=
  match sts with
  | [] => inl acc
  | st :: r =>
      let a := module_get1q qk sd st q in
      if is_err a then inr a else module_get_list qk sd r q (sdict_set acc st a)
  end.

Definition module_getq (qk : quirks) (sd : source) (st : stations) (q : query) : list (string * answer) + answer :=
  module_get_list qk sd (normalize st) q [].
Definition module_get := module_getq all_off.

(* SiteInfo.get over several modules (each with its own view of the source data) *)
Definition site_info_get1 (mods : list source) (st : string) (q : query) : list answer :=
  map (fun sd => module_get1 sd st q) mods.

Fixpoint site_info_list (mods : list source) (sts : list string) (q : query)
  (acc : list (string * list answer)) : list (string * list answer) + answer :=
  match sts with
  | [] => inl acc
  | st :: r =>
      let row := site_info_get1 mods st q in
      match find is_err row with
      | Some e => inr e
      | None => site_info_list mods r q (adict_set acc st row)
      end
  end.

Definition site_info_get (mods : list source) (st : stations) (q : query) :=
  site_info_list mods (normalize st) q [].

(* ------------------------------------------------------------------ get_history (no date): the history itself.
   Per station: inl (Some h) = history object with dict h, inl None = history object whose `.history` is None,
   inr e = the call raises. *)
Definition hres : Set := (option history + answer)%type.

Definition module_hist1 (sd : source) (st : string) : hres :=
  match sd with
  | [] => inl (Some [])                 (* `if source_data:` is false -> history = {} *)
  | _ =>
    match lookup_station sd st with
    | None => inr ErrMissing
    | Some None => inl None
    | Some (Some rs) => inl (Some (create_history rs))
    end
  end.

(* ModuleBase.get_history *)
Fixpoint module_hist_list (sd : source) (sts : list string) (acc : list (string * option history))
  : list (string * option history) + answer :=
  match sts with
  | [] => inl acc
  | st :: r =>
      match module_hist1 sd st with
      | inr e => inr e
      | inl h => module_hist_list sd r (adict_set acc st h)
      end
  end.

Definition module_get_history (sd : source) (st : stations) := module_hist_list sd (normalize st) [].

(* SiteInfo.get_history over the history modules *)
Definition site_info_hist1 (mods : list source) (st : string) : list hres :=
  map (fun sd => module_hist1 sd st) mods.

Fixpoint hrow (l : list hres) : list (option history) + answer :=
  match l with
  | [] => inl []
  | inr e :: _ => inr e
  | inl h :: r => match hrow r with inr e => inr e | inl t => inl (h :: t) end
  end.

Fixpoint site_info_hist_list (mods : list source) (sts : list string)
  (acc : list (string * list (option history))) : list (string * list (option history)) + answer :=
  match sts with
  | [] => inl acc
  | st :: r =>
      match hrow (site_info_hist1 mods st) with
      | inr e => inr e
      | inl row => site_info_hist_list mods r (adict_set acc st row)
      end
  end.

Definition site_info_get_history (mods : list source) (st : stations) :=
  site_info_hist_list mods (normalize st) [].

(* ------------------------------------------------------------------ repeated queries on one source
   (purity).  The SSC site-coordinate history is built with raw_info.pop("pos_vel") in the current
   source: quirk `pop_pos_vel` removes the records from the source after the first query. *)

Definition qstep (qk : quirks) (s : option (list raw)) (q : query) : option (list raw) * answer :=
  match s with
  | None => (None, ErrKey)
  | Some rs => (if pop_pos_vel qk then None else Some rs,
                get (create_history rs) q)
  end.

Fixpoint qrun (qk : quirks) (s : option (list raw)) (qs : list query) : list answer :=
  match qs with
  | [] => []
  | q :: r => let '(s', a) := qstep qk s q in a :: qrun qk s' r
  end.

(* ------------------------------------------------------------------ correspondence cases *)

Definition answer_eqb (a b : answer) : bool :=
  match a, b with
  | Found i, Found j => i =? j
  | Nothing, Nothing | ErrIndex, ErrIndex | ErrMissing, ErrMissing | ErrKey, ErrKey => true
  | _, _ => false
  end.

Fixpoint list_eqb {A} (eqb : A -> A -> bool) (x y : list A) : bool :=
  match x, y with
  | [], [] => true
  | a :: r, b :: s => eqb a b && list_eqb eqb r s
  | _, _ => false
  end.

(* history lookup: raw records, query, what midgard returned *)
Definition check_get (c : list raw * query * answer) : Z :=
  let '(rs, q, obs) := c in
  if answer_eqb (get (create_history rs) q) obs then 0 else 1.

Definition res_eqb (x y : list (string * answer) + answer) : bool :=
  match x, y with
  | inl a, inl b => list_eqb (fun p q => String.eqb (fst p) (fst q) && answer_eqb (snd p) (snd q)) a b
  | inr a, inr b => answer_eqb a b
  | _, _ => false
  end.

Definition check_module (c : source * stations * query * (list (string * answer) + answer)) : Z :=
  let '(sd, st, q, obs) := c in
  if res_eqb (module_get sd st q) obs then 0
  else if res_eqb (module_getq {| pop_pos_vel := false; upper_key_err := true |} sd st q) obs then 3
  else 1.

Definition sres_eqb (x y : list (string * list answer) + answer) : bool :=
  match x, y with
  | inl a, inl b => list_eqb (fun p q => String.eqb (fst p) (fst q) && list_eqb answer_eqb (snd p) (snd q)) a b
  | inr a, inr b => answer_eqb a b
  | _, _ => false
  end.

Definition check_site_info (c : list source * stations * query * (list (string * list answer) + answer)) : Z :=
  let '(mods, st, q, obs) := c in
  if sres_eqb (site_info_get mods st q) obs then 0 else 1.

Definition hist_eqb (a b : history) : bool :=
  list_eqb (fun p q => key_eqb (fst p) (fst q) && (snd p =? snd q)) a b.
Definition ohist_eqb (a b : option history) : bool :=
  match a, b with Some x, Some y => hist_eqb x y | None, None => true | _, _ => false end.

(* ModuleBase.get_history: source, request, {station: history} or the exception *)
Definition check_module_history (c : source * stations * (list (string * option history) + answer)) : Z :=
  let '(sd, st, obs) := c in
  match module_get_history sd st, obs with
  | inl a, inl b => if list_eqb (fun p q => String.eqb (fst p) (fst q) && ohist_eqb (snd p) (snd q)) a b then 0 else 1
  | inr a, inr b => if answer_eqb a b then 0 else 1
  | _, _ => 1
  end.

(* SiteInfo.get_history: module sources, request, {station: [history per module]} or the exception *)
Definition check_site_info_history
  (c : list source * stations * (list (string * list (option history)) + answer)) : Z :=
  let '(mods, st, obs) := c in
  match site_info_get_history mods st, obs with
  | inl a, inl b =>
      if list_eqb (fun p q => String.eqb (fst p) (fst q) && list_eqb ohist_eqb (snd p) (snd q)) a b then 0 else 1
  | inr a, inr b => if answer_eqb a b then 0 else 1
  | _, _ => 1
  end.

(* repeated queries: 0 = equals the specification, 2 = differs from it but equals the model with the
   pop quirk on (known defect class), 1 = unexplained *)
Definition check_repeat (c : list raw * list query * list answer) : Z :=
  let '(rs, qs, obs) := c in
  if list_eqb answer_eqb (qrun all_off (Some rs) qs) obs then 0
  else if list_eqb answer_eqb (qrun {| pop_pos_vel := true; upper_key_err := false |} (Some rs) qs) obs then 2
  else 1.
