(* C08 - caching is invisible.  Executable model only (no proofs here).

   Anchors: midgard/math/nputil.py      HashArray (__new__/__array_finalize__/__hash__/__eq__), hashable
            midgard/math/transformation.py  trs2llh/_trs2llh, llh2trs/_llh2trs   (functools.lru_cache, 128 entries)
            midgard/math/rotation.py        enu2trs, trs2enu                        (hashable + lru_cache)
            midgard/data/_position.py       PosBase.to_system/__setitem__/__setattr__/clear_cache/add_dependency,
                                            PositionArray.__getitem__/convert_to/enu2trs/trs2enu/distance/direction/
                                            azimuth/elevation
            midgard/data/_time.py           TimeBase.to_scale (lru_cache keyed by __hash__/__eq__ on jd1/jd2)

   An array is (descriptor, words): descriptor = dtype code :: dimensions, words = the 64-bit patterns
   of its elements in C order.  The numerical functions themselves are NOT modelled: `pf fn ext args`
   is an arbitrary (partial) function - fn 1 = trs2llh, 2 = llh2trs, 3 = enu2trs, 4 = trs2enu,
   11..14 = the arithmetic that combines converted ingredients into distance / direction / azimuth /
   elevation.  Everything here is the plumbing around it: the four process-wide LRU tables, the
   per-object `_cache`, the dependents of `other`, views created by slicing, and who shares memory
   with whom.

   Machine `step q` has six switches (quirks observed in the code); the specification is
   `step all_off`. *)
From Coq Require Import ZArith List Bool Lia.
From Verif Require Import Lib.C08_Lru.
Import ListNotations.
Open Scope Z_scope.

(* ------------------------------------------------------------------------------------ arrays *)
Definition arr : Type := (list Z * list Z)%type.

Fixpoint zlist_eqb (a b : list Z) : bool :=
  match a, b with
  | [], [] => true
  | x :: a', y :: b' => (x =? y) && zlist_eqb a' b'
  | _, _ => false
  end.

Definition arr_eqb (a b : arr) : bool := zlist_eqb (fst a) (fst b) && zlist_eqb (snd a) (snd b).

(* one positional argument of a memoised function: (is a Python scalar, array) *)
Definition karg : Type := (bool * arr)%type.
(* key of a memo table: (extra argument (ellipsoid identity), arguments) *)
Definition key : Type := (Z * list karg)%type.

Record quirks : Set := mkQ {
  q_shape : bool;   (* c08_key_ignores_shape     HashArray.__hash__/__eq__ use the bytes only *)
  q_alias : bool;   (* c08_result_aliases_cache  the memoised functions hand out the cached array itself *)
  q_ro    : bool;   (* c08_arg_made_readonly     HashArray.__array_finalize__ clears `writeable` on the caller's array *)
  q_view  : bool;   (* c08_view_write_stale      item assignment through a slice does not invalidate its base (and back) *)
  q_hand  : bool;   (* c08_object_cache_handout  p.llh / p.distance return the `_cache` entry itself *)
  q_sval  : bool    (* c08_scalar_key_by_value   numpy scalars (lat, lon of a single position) are memo keys compared by
                       value: +0.0 and -0.0 share an entry *)
}.
Definition all_off : quirks := mkQ false false false false false false.
Definition all_on : quirks := mkQ true true true true true true.

(* bit pattern of -0.0 read as +0.0 *)
Definition zero_norm (w : Z) : Z := if w =? 9223372036854775808 then 0 else w.

Definition karg_eqb (q : quirks) (a b : karg) : bool :=
  Bool.eqb (fst a) (fst b)
  && (if q_sval q && fst a then zlist_eqb (map zero_norm (snd (snd a))) (map zero_norm (snd (snd b)))
      else zlist_eqb (snd (snd a)) (snd (snd b)))
  && (q_shape q || zlist_eqb (fst (snd a)) (fst (snd b))).

Fixpoint kargs_eqb (q : quirks) (a b : list karg) : bool :=
  match a, b with
  | [], [] => true
  | x :: a', y :: b' => karg_eqb q x y && kargs_eqb q a' b'
  | _, _ => false
  end.

Definition key_eqb (q : quirks) (a b : key) : bool := (fst a =? fst b) && kargs_eqb q (snd a) (snd b).

(* ------------------------------------------------------------------------------------ world *)
(* a cell is an array living somewhere in memory: (value when created, identity).  Two holders share
   memory iff they hold the same identity; `poll` records whole-array overwrites by identity. *)
Definition cell : Type := (arr * nat)%type.

(* HashArray(x) is a *view* of the caller's memory and is what the memo table stores as its key: if that
   memory changes later, the stored key no longer equals what it was hashed as and the entry is dead (until
   the old values come back).  `src` says which memory a stored key looks at. *)
Inductive src : Type :=
| SNone                          (* the key owns its values *)
| SBufConv (b : nat) (v : Z)     (* view v of buffer b (argument of trs2llh / llh2trs) *)
| SBufRot (b : nat) (v : Z)      (* lat / lon columns of view v of buffer b *)
| SCellRot (c : arr * nat).      (* lat / lon columns of a converted position living in cell c *)

Definition lentry : Type := ((key * src) * cell)%type.

Record obj : Type := mkObj {
  okind : Z;                    (* 0 plain ndarray, 1 TrsPosition, 2 LlhPosition *)
  obuf : nat;                   (* buffer holding the values *)
  oview : Z;                    (* 0 whole buffer, 1 first row as (1,3) view, 2 first row as (3,) view *)
  oother : option nat;          (* attribute `other` *)
  ochild : option cell;         (* _cache[<the other system>] *)
  oderived : list (Z * cell);   (* _cache["distance"/...]: 1 distance 2 direction 3 azimuth 4 elevation 5 enu2trs 6 trs2enu *)
  oro : bool                    (* flags.writeable == False *)
}.

Record world : Type := mkW {
  bufs : list arr;
  objs : list obj;
  slots : list (Z * nat);           (* variable -> object, latest binding first *)
  lrus : Z -> list lentry;          (* one functools.lru_cache table per decorated function *)
  poll : list (nat * Z);            (* cell identity -> value it was overwritten with *)
  nextid : nat;
  reg : option nat;                 (* identity of the memory the last returned result lives in, if anything else holds it *)
  fired : bool                      (* some quirk has had an effect (used only to allow `unknown` predictions) *)
}.

Definition empty_world : world := mkW [] [] [] (fun _ => []) [] 0%nat None false.

Definition set_bufs w x := mkW x (objs w) (slots w) (lrus w) (poll w) (nextid w) (reg w) (fired w).
Definition set_objs w x := mkW (bufs w) x (slots w) (lrus w) (poll w) (nextid w) (reg w) (fired w).
Definition set_slots w x := mkW (bufs w) (objs w) x (lrus w) (poll w) (nextid w) (reg w) (fired w).
Definition set_lrus w x := mkW (bufs w) (objs w) (slots w) x (poll w) (nextid w) (reg w) (fired w).
Definition set_poll w x := mkW (bufs w) (objs w) (slots w) (lrus w) x (nextid w) (reg w) (fired w).
Definition set_next w x := mkW (bufs w) (objs w) (slots w) (lrus w) (poll w) x (reg w) (fired w).
Definition set_reg w x := mkW (bufs w) (objs w) (slots w) (lrus w) (poll w) (nextid w) x (fired w).
Definition set_fired w x := mkW (bufs w) (objs w) (slots w) (lrus w) (poll w) (nextid w) (reg w) x.

Definition set_lru (w : world) (fn : Z) (l : list lentry) : world :=
  set_lrus w (fun g => if g =? fn then l else lrus w g).

Definition o_set_cache (o : obj) (c : option cell) (d : list (Z * cell)) : obj :=
  mkObj (okind o) (obuf o) (oview o) (oother o) c d (oro o).
Definition o_clear (o : obj) : obj := o_set_cache o None [].
Definition o_set_other (o : obj) (x : option nat) : obj :=
  mkObj (okind o) (obuf o) (oview o) x None [] (oro o).         (* __setattr__ clears the cache *)
Definition o_set_ro (o : obj) (b : bool) : obj :=
  mkObj (okind o) (obuf o) (oview o) (oother o) (ochild o) (oderived o) b.

Fixpoint upd_nth {A : Type} (n : nat) (f : A -> A) (l : list A) : list A :=
  match l, n with
  | [], _ => []
  | x :: t, O => f x :: t
  | x :: t, S m => x :: upd_nth m f t
  end.

Definition dummy_obj : obj := mkObj (-1) 0%nat 0 None None [] false.
Definition get_obj (w : world) (p : nat) : obj := nth p (objs w) dummy_obj.
Definition upd_obj (w : world) (p : nat) (f : obj -> obj) : world := set_objs w (upd_nth p f (objs w)).

Fixpoint assoc_z {A : Type} (k : Z) (l : list (Z * A)) : option A :=
  match l with [] => None | (k', v) :: t => if k =? k' then Some v else assoc_z k t end.
Fixpoint assoc_n {A : Type} (k : nat) (l : list (nat * A)) : option A :=
  match l with [] => None | (k', v) :: t => if Nat.eqb k k' then Some v else assoc_n k t end.

Definition slot (w : world) (s : Z) : option nat := assoc_z s (slots w).

(* ------------------------------------------------------------------------------------ contents *)
Definition desc13 : list Z := [0; 1; 3].
Definition desc3 : list Z := [0; 3].

Definition contents (w : world) (o : obj) : arr :=
  let b := nth (obuf o) (bufs w) ([], []) in
  if oview o =? 1 then (desc13, firstn 3 (snd b))
  else if oview o =? 2 then (desc3, firstn 3 (snd b))
  else b.

(* item assignment of the first position (3 words) *)
Definition write_row0 (v : list Z) (a : arr) : arr := (fst a, v ++ skipn 3 (snd a)).

Definition fill (a : arr) (c : Z) : arr := (fst a, map (fun _ => c) (snd a)).

Definition resolve (w : world) (c : cell) : arr :=
  match assoc_n (snd c) (poll w) with
  | Some x => fill (fst c) x
  | None => fst c
  end.

(* new memory holding a copy of what cell c shows now *)
Definition fresh_copy (w : world) (c : cell) : world * cell :=
  (set_next w (S (nextid w)), (resolve w c, nextid w)).

(* Position(np.asarray(val, dtype=float, order="C")) keeps the memory of `val` unless val is 2-d
   with more than one row (np.stack(...).T is then not C contiguous) *)
Definition keeps_memory (a : arr) : bool :=
  match fst a with
  | [_; n; _] => n <=? 1
  | _ => true
  end.

(* columns of an (n,3) / (3,) array *)
Fixpoint column (k : nat) (ws : list Z) : list Z :=
  match ws with
  | a :: b :: c :: t => nth k [a; b; c] 0 :: column k t
  | _ => []
  end.

(* lat, lon, _ = llh.val.T : numpy scalars for a (3,) array, (n,) arrays for an (n,3) array *)
Definition rot_args (llh : arr) : list karg :=
  match fst llh with
  | [d; _] => [(true, ([d], [nth 0 (snd llh) 0])); (true, ([d], [nth 1 (snd llh) 0]))]
  | [d; n; _] => [(false, ([d; n], column 0 (snd llh))); (false, ([d; n], column 1 (snd llh)))]
  | _ => []
  end.

(* lat = np.array(x[..., 0]), lon = np.array(x[..., 1]) for a raw call: 0-d arrays for a (3,) array *)
Definition rot_args_raw (x : arr) : list karg :=
  match fst x with
  | [d; _] => [(false, ([d], [nth 0 (snd x) 0])); (false, ([d], [nth 1 (snd x) 0]))]
  | [d; n; _] => [(false, ([d; n], column 0 (snd x))); (false, ([d; n], column 1 (snd x)))]
  | _ => []
  end.

Definition cap : nat := 128.

Definition view_of (w : world) (b : nat) (v : Z) : arr := contents w (mkObj 1 b v None None [] false).

Definition cur_args (w : world) (s : src) : option (list karg) :=
  match s with
  | SNone => None
  | SBufConv b v => Some [(false, view_of w b v)]
  | SBufRot b v => Some (rot_args (view_of w b v))
  | SCellRot c => Some (rot_args (resolve w c))
  end.

(* does the stored key still show the values it was hashed with? *)
Definition alive (w : world) (k : key) (s : src) : bool :=
  match cur_args w s with
  | None => true
  | Some a => kargs_eqb all_off a (snd k)
  end.

Section Machine.
  Variable pf : Z -> Z -> list karg -> option arr.
  Variable q : quirks.

  (* ---------------------------------------------------------------------------------- LRU call *)
  Definition descs_differ (a b : key) : bool :=
    negb (zlist_eqb (concat (map (fun x => fst (snd x)) (snd a))) (concat (map (fun x => fst (snd x)) (snd b)))).

  Definition keq_w (w : world) (a b : key * src) : bool :=
    key_eqb q (fst a) (fst b) && (negb (q_ro q) || alive w (fst b) (snd b)).

  Definition lru_get (w : world) (fn ext : Z) (args : list karg) (sr : src) : world * option cell :=
    let k := (ext, args) in
    match lru_take (keq_w w) (k, sr) (lrus w fn) with
    | Some (e, rest) =>
        let w1 := set_lru w fn (e :: rest) in
        (if descs_differ k (fst (fst e)) then set_fired w1 true else w1, Some (snd e))
    | None =>
        match pf fn ext args with
        | None => (w, None)
        | Some v =>
            let c := (v, nextid w) in
            (set_next (set_lru w fn (lru_insert cap (k, sr) c (lrus w fn))) (S (nextid w)), Some c)
        end
    end.

  (* what the caller of a memoised function receives *)
  Definition hand_out (w : world) (c : cell) : world * cell :=
    if q_alias q then (w, c) else fresh_copy w c.

  (* ---------------------------------------------------------------------------------- Position.to_system *)
  Definition convfn (kind : Z) : Z := if kind =? 1 then 1 else 2.
  Definition othersys (kind : Z) : Z := if kind =? 1 then 2 else 1.

  Definition get_child (w : world) (p : nat) : world * option cell :=
    let o := get_obj w p in
    match ochild o with
    | Some c => (w, Some c)
    | None =>
        let (w1, oc) := lru_get w (convfn (okind o)) 0 [(false, contents w o)] (SBufConv (obuf o) (oview o)) in
        match oc with
        | None => (w1, None)
        | Some c =>
            let (w2, c1) := hand_out w1 c in
            let (w3, c2) := if keeps_memory (fst c1) then (w2, c1) else fresh_copy w2 c1 in
            (upd_obj w3 p (fun o' => o_set_cache o' (Some c2) (oderived o')), Some c2)
        end
    end.

  Definition to_sys (w : world) (p : nat) (s : Z) : world * option arr :=
    let o := get_obj w p in
    if okind o =? s then (w, Some (contents w o))
    else let (w1, oc) := get_child w p in
         (w1, match oc with Some c => Some (resolve w1 c) | None => None end).

  (* p.enu2trs / p.trs2enu  (fn 3 / 4, stored under quantity 5 / 6) *)
  Definition get_rot (w : world) (p : nat) (fn qt : Z) : world * option cell :=
    match assoc_z qt (oderived (get_obj w p)) with
    | Some c => (w, Some c)
    | None =>
        let (w1, ollh) := to_sys w p 2 in
        match ollh with
        | None => (w1, None)
        | Some llh =>
            let o1 := get_obj w1 p in
            let sr := match fst llh with
                      | [_; _; _] => if okind o1 =? 2 then SBufRot (obuf o1) (oview o1)
                                     else match ochild o1 with Some c => SCellRot c | None => SNone end
                      | _ => SNone                 (* numpy scalars are copies *)
                      end in
            let (w2, oc) := lru_get w1 fn 0 (rot_args llh) sr in
            match oc with
            | None => (w2, None)
            | Some c =>
                let (w3, c1) := hand_out w2 c in
                (upd_obj w3 p (fun o' => o_set_cache o' (ochild o') ((qt, c1) :: oderived o')), Some c1)
            end
        end
    end.

  (* converted ingredients of a derived quantity, in the order the code evaluates them *)
  Definition ingredients (w : world) (p : nat) (qo : nat) (qt : Z) : world * option (list arr) :=
    if qt <=? 2 then
      (* vector_to: other.pos.to_system(self.system).val - self.pos.val *)
      let (w1, a2) := to_sys w qo (okind (get_obj w p)) in
      match a2 with
      | None => (w1, None)
      | Some x2 => (w1, Some [x2; contents w1 (get_obj w1 p)])
      end
    else
      (* azimuth_to / elevation_to: self.trs, other.trs, self.enu2trs *)
      let (w1, a1) := to_sys w p 1 in
      match a1 with
      | None => (w1, None)
      | Some x1 =>
          let (w2, a2) := to_sys w1 qo 1 in
          match a2 with
          | None => (w2, None)
          | Some x2 =>
              let (w3, oc) := get_rot w2 p 3 5 in
              match oc with
              | None => (w3, None)
              | Some c => (w3, Some [x1; x2; resolve w3 c])
              end
          end
      end.

  (* ---------------------------------------------------------------------------------- observations *)
  (* (array, auxiliary code).  None = the model cannot predict the value (only in machines where a quirk fired) *)
  Definition obs : Type := option (arr * Z).
  Definition nothing : arr := ([], []).
  Definition ok_obs : obs := Some (nothing, 0).
  Definition invalid_obs : obs := Some (nothing, -9).

  (* numpy scalars (distance of a single position, ...) cannot be written into *)
  (* a machine with quirks that cannot predict a derived value (its ingredients are not in the table of
     reference results) remembers that the implementation has memoised *something* there *)
  Definition any_quirk : bool := q_shape q || q_alias q || q_ro q || q_view q || q_hand q || q_sval q.
  Definition unknown_arr : arr := ([-1], []).
  Definition taint (w : world) (p : nat) (qt : Z) : world :=
    if any_quirk then
      upd_obj (set_next w (S (nextid w))) p
              (fun o' => o_set_cache o' (ochild o') ((qt, (unknown_arr, nextid w)) :: oderived o'))
    else w.
  Definition obs_of (a : arr) : obs :=
    if any_quirk && zlist_eqb (fst a) [-1] then None else Some (a, 0).

  Definition hand_reg (w : world) (c : cell) : world :=
    set_reg w (match fst (fst c) with
               | [_] => None
               | _ => if q_hand q then Some (snd c) else None
               end).

  Definition do_read (w : world) (p : nat) (qt : Z) : world * obs :=
    if (5 <=? qt) then
      let (w1, oc) := get_rot w p (qt - 2) qt in
      match oc with
      | None => (set_reg w1 None, None)
      | Some c => (hand_reg w1 c, Some (resolve w1 c, 0))
      end
    else
      match oother (get_obj w p) with
      | None => (set_reg w None, Some (nothing, -2))            (* InitializationError *)
      | Some qo =>
          match assoc_z qt (oderived (get_obj w p)) with
          | Some c => (hand_reg w c, obs_of (resolve w c))
          | None =>
              let (w1, oi) := ingredients w p qo qt in
              match oi with
              | None => (set_reg (taint w1 p qt) None, None)
              | Some l =>
                  match pf (10 + qt) 0 (map (fun a => (false, a)) l) with
                  | None => (set_reg (taint w1 p qt) None, None)
                  | Some v =>
                      let c := (v, nextid w1) in
                      let w2 := set_next w1 (S (nextid w1)) in
                      (hand_reg (upd_obj w2 p (fun o' => o_set_cache o' (ochild o') ((qt, c) :: oderived o'))) c,
                       Some (v, 0))
                  end
              end
          end
      end.

  Definition do_conv (w : world) (p : nat) : world * obs :=
    let (w1, oc) := get_child w p in
    match oc with
    | None => (set_reg w1 None, None)
    | Some c => (hand_reg w1 c, Some (resolve w1 c, 0))
    end.

  (* raw call of a memoised function on a plain array: the argument may be left read-only *)
  Definition do_raw (w : world) (p : nat) (fn ext : Z) (args : list karg) (mark : bool) : world * obs :=
    let (w1, oc) := lru_get w fn ext args
                      (if mark then SBufConv (obuf (get_obj w p)) (oview (get_obj w p)) else SNone) in
    let w2 := if mark && q_ro q then upd_obj w1 p (fun o => o_set_ro o true) else w1 in
    let aux := if q_ro q then 0 else 1 in
    match oc with
    | None => (set_reg w2 None, None)
    | Some c =>
        let (w3, c1) := hand_out w2 c in
        (set_reg w3 (if q_alias q then Some (snd c1) else None), Some (resolve w3 c1, aux))
    end.

  (* which per-object caches an item assignment to object x empties *)
  Definition shares_buf (w : world) (x y : nat) : bool :=
    Nat.eqb (obuf (get_obj w x)) (obuf (get_obj w y)).

  Definition must_clear (w : world) (x : nat) (i : nat) (o : obj) : bool :=
    if q_view q then
      Nat.eqb i x || match oother o with Some y => Nat.eqb y x | None => false end
    else
      Nat.eqb (obuf o) (obuf (get_obj w x))
      || match oother o with Some y => shares_buf w x y | None => false end.

  Fixpoint clear_from (w : world) (x : nat) (i : nat) (l : list obj) : list obj :=
    match l with
    | [] => []
    | o :: t => (if must_clear w x i o then o_clear o else o) :: clear_from w x (S i) t
    end.

  (* does the faithful rule leave a cache filled that the specification empties? *)
  Fixpoint stale_left (w : world) (x : nat) (i : nat) (l : list obj) : bool :=
    match l with
    | [] => false
    | o :: t =>
        ((Nat.eqb (obuf o) (obuf (get_obj w x))
          || match oother o with Some y => shares_buf w x y | None => false end)
         && negb (Nat.eqb i x || match oother o with Some y => Nat.eqb y x | None => false end)
         && (match ochild o with Some _ => true | None => false end
             || match oderived o with [] => false | _ => true end))
        || stale_left w x (S i) t
    end.

  Definition do_setrow (w : world) (x : nat) (v : list Z) : world * obs :=
    let o := get_obj w x in
    if (okind o =? 0) && oro o then (w, Some (nothing, -1))      (* ValueError: assignment destination is read-only *)
    else
      let w0 := if q_view q && stale_left w x 0 (objs w) then set_fired w true else w in
      let w1 := set_objs w0 (clear_from w0 x 0 (objs w0)) in
      (set_bufs w1 (upd_nth (obuf o) (write_row0 v) (bufs w1)), ok_obs).

  Definition new_obj (w : world) (s : Z) (kind : Z) (a : arr) : world :=
    let b := length (bufs w) in
    let id := length (objs w) in
    set_slots (set_objs (set_bufs w (bufs w ++ [a])) (objs w ++ [mkObj kind b 0 None None [] false])) ((s, id) :: slots w).

  (* the object made by p + delta: new memory, the attributes (`other`) of p *)
  Definition aug_obj (w : world) (s : Z) (v : arr) (oth : option nat) : world :=
    upd_obj (new_obj w s 1 v) (length (objs w)) (fun o' => o_set_other o' oth).

  Definition is_whole_2d (w : world) (o : obj) : bool :=
    (1 <=? okind o) && (oview o =? 0)
    && match fst (contents w o) with [_; n; _] => 2 <=? n | _ => false end.

  (* s' = p[0:1] (kind 1) or p[0] (kind 2) *)
  Definition do_slice (w : world) (p : nat) (kind : Z) (s' : Z) : world * obs :=
    let o := get_obj w p in
    if negb (is_whole_2d w o) then (w, invalid_obs)
    else
      match oother o with
      | None =>
          let id := length (objs w) in
          (set_slots (set_objs w (objs w ++ [mkObj (okind o) (obuf o) kind None None [] false])) ((s', id) :: slots w), ok_obs)
      | Some y =>
          let oy := get_obj w y in
          if negb (is_whole_2d w oy) then (w, invalid_obs)
          else match oother oy with
          | Some _ => (w, invalid_obs)
          | None =>
              (* setattr(self, "_other_sliced", other[item]) empties p's cache; the slice gets other[item] *)
              let w1 := upd_obj w p o_clear in
              let idy := length (objs w1) in
              let w2 := set_objs w1 (objs w1 ++ [mkObj (okind oy) (obuf oy) kind None None [] false]) in
              let id := length (objs w2) in
              (set_slots (set_objs w2 (objs w2 ++ [mkObj (okind o) (obuf o) kind (Some idy) None [] false])) ((s', id) :: slots w2), ok_obs)
          end
      end.

  Fixpoint flood (n : nat) (l : list lentry) : list lentry :=
    match n with
    | O => l
    | S m => flood m (lru_insert cap (((-1, []) : key), SNone) ((nothing, 0%nat) : cell) l)
    end.

  Inductive op : Type :=
  | NewArr (s : Z) (a : arr)
  | NewPos (s : Z) (sys : Z) (a : arr)
  | Raw (fn ext : Z) (s : Z)                (* trs2llh (1) / llh2trs (2) on the plain array in s *)
  | Rot (fn : Z) (s : Z)                    (* enu2trs (3) / trs2enu (4) on columns 0, 1 of the plain array in s *)
  | Conv (s : Z)                            (* p.llh / p.trs *)
  | Read (s : Z) (qt : Z)
  | WriteRes (c : Z)                        (* result[...] = c on the last returned result *)
  | SetRow (s : Z) (v : list Z)             (* item assignment of the first position *)
  | SetOther (s : Z) (s' : option Z)        (* p.other = q / None *)
  | Slice (s : Z) (kind : Z) (s' : Z)
  | Flood (fn : Z) (n : nat)                (* n calls with fresh arguments *)
  | Aug (sgn : Z) (s : Z) (d : arr).        (* p += delta (sgn 1) / p -= delta (sgn 2) with a PositionDelta of the same
                                               system: the name is re-bound to the NEW object p + delta / p - delta (values
                                               = pf 21 / 22 of the contents and the delta, attributes of p), p itself stays *)

  Definition with_slot (w : world) (s : Z) (f : nat -> world * obs) : world * obs :=
    match slot w s with
    | Some p => f p
    | None => (w, invalid_obs)
    end.

  Definition step (w : world) (o : op) : world * obs :=
    match o with
    | NewArr s a => (new_obj w s 0 a, ok_obs)
    | NewPos s sys a => (new_obj w s sys a, ok_obs)
    | Raw fn ext s =>
        with_slot w s (fun p =>
          if okind (get_obj w p) =? 0 then do_raw w p fn ext [(false, contents w (get_obj w p))] true
          else (w, invalid_obs))
    | Rot fn s =>
        with_slot w s (fun p =>
          if okind (get_obj w p) =? 0 then do_raw w p fn 0 (rot_args_raw (contents w (get_obj w p))) false
          else (w, invalid_obs))
    | Conv s =>
        with_slot w s (fun p => if 1 <=? okind (get_obj w p) then do_conv w p else (w, invalid_obs))
    | Read s qt =>
        with_slot w s (fun p => if 1 <=? okind (get_obj w p) then do_read w p qt else (w, invalid_obs))
    | WriteRes c =>
        match reg w with
        | None => (w, ok_obs)
        | Some id => (set_fired (set_poll w ((id, c) :: poll w)) true, ok_obs)
        end
    | SetRow s v => with_slot w s (fun p => do_setrow w p v)
    | SetOther s None =>
        with_slot w s (fun p =>
          if 1 <=? okind (get_obj w p) then (upd_obj w p (fun o' => o_set_other o' None), ok_obs)
          else (w, invalid_obs))
    | SetOther s (Some s') =>
        with_slot w s (fun p => with_slot w s' (fun y =>
          if Nat.eqb p y || negb (1 <=? okind (get_obj w p)) || negb (1 <=? okind (get_obj w y)) then (w, invalid_obs)
          else (upd_obj w p (fun o' => o_set_other o' (Some y)), ok_obs)))
    | Slice s kind s' => with_slot w s (fun p => do_slice w p kind s')
    | Flood fn n => (set_lru w fn (flood n (lrus w fn)), ok_obs)
    | Aug sgn s d =>
        with_slot w s (fun p =>
          let o := get_obj w p in
          if okind o =? 1 then
            match pf (20 + sgn) 0 [(false, contents w o); (false, d)] with
            | None => (w, None)
            | Some v => (aug_obj w s v (oother o), Some (v, 0))
            end
          else (w, invalid_obs))
    end.

  Fixpoint run (w : world) (ops : list op) : list obs * world :=
    match ops with
    | [] => ([], w)
    | o :: r => let (w1, x) := step w o in
                let (xs, w2) := run w1 r in (x :: xs, w2)
    end.

  (* ---------------------------------------------------------------------------------- the cache-free machine *)
  (* forget every memo: the LRU tables, every per-object cache, the bookkeeping of shared memory *)
  Definition wipe (w : world) : world :=
    mkW (bufs w) (map o_clear (objs w)) (slots w) (fun _ => []) [] 0%nat None false.

  Fixpoint run_uncached (w : world) (ops : list op) : list obs * world :=
    match ops with
    | [] => ([], w)
    | o :: r => let (w1, x) := step (wipe w) o in
                let (xs, w2) := run_uncached w1 r in (x :: xs, w2)
    end.
End Machine.

(* equality of observation lists *)
Definition obs_eqb (a b : option (arr * Z)) : bool :=
  match a, b with
  | None, None => true
  | Some (x, i), Some (y, j) => arr_eqb x y && (i =? j)
  | _, _ => false
  end.

Fixpoint forallb2_obs (a b : list (option (arr * Z))) : bool :=
  match a, b with
  | [], [] => true
  | x :: r, y :: t => obs_eqb x y && forallb2_obs r t
  | _, _ => false
  end.

(* ------------------------------------------------------------------------------------ correspondence *)
(* table of reference results of one run: (fn, ext, args, result) *)
Definition table : Type := list (Z * Z * list karg * arr).

Fixpoint pf_of_table (t : table) (fn ext : Z) (args : list karg) : option arr :=
  match t with
  | [] => None
  | (f, e, a, r) :: t' =>
      if (f =? fn) && (e =? ext) && kargs_eqb all_off a args then Some r else pf_of_table t' fn ext args
  end.

Definition obs_match (wild : bool) (predicted : option (arr * Z)) (seen : arr * Z) : bool :=
  match predicted with
  | None => wild
  | Some (a, x) => arr_eqb a (fst seen) && (x =? snd seen)
  end.

(* run machine q on the operations and compare with what the implementation showed.  An unknown
   prediction is accepted only after a quirk has fired in that machine. *)
Fixpoint agrees (pf : Z -> Z -> list karg -> option arr) (q : quirks) (w : world)
         (ops : list op) (seen : list (arr * Z)) : bool :=
  match ops, seen with
  | [], [] => true
  | o :: r, x :: xs =>
      let (w1, p) := step pf q w o in
      obs_match (fired w1) p x && agrees pf q w1 r xs
  | _, _ => false
  end.

Definition q_of_bits (n : Z) : quirks :=
  mkQ (Z.testbit n 0) (Z.testbit n 1) (Z.testbit n 2) (Z.testbit n 3) (Z.testbit n 4) (Z.testbit n 5).

(* candidate machines, fewest quirks first *)
Definition candidates : list Z :=
  [1; 2; 4; 8; 16;
   3; 5; 6; 9; 10; 12; 17; 18; 20; 24;
   7; 11; 13; 14; 19; 21; 22; 25; 26; 28;
   15; 23; 27; 29; 30; 31; 32; 48; 40; 56; 63].

Fixpoint first_agreeing (pf : Z -> Z -> list karg -> option arr) (ops : list op) (seen : list (arr * Z))
         (cs : list Z) : Z :=
  match cs with
  | [] => 1
  | n :: r => if agrees pf (q_of_bits n) empty_world ops seen then 32 + n else first_agreeing pf ops seen r
  end.

(* verdict: 0 = the implementation equals the specification machine; 32 + bits = equals the machine with
   that set of quirks (bit 0 shape, 1 alias, 2 read-only, 3 view, 4 hand-out, 5 scalar keys by value); 1 = unexplained *)
Definition check_hist_with (cs : list Z) (c : table * list op * list (arr * Z)) : Z :=
  let '(t, ops, seen) := c in
  let pf := pf_of_table t in
  if agrees pf all_off empty_world ops seen then 0
  else first_agreeing pf ops seen cs.

Definition check_hist := check_hist_with candidates.

(* ------------------------------------------------------------------------------------ time scales *)
(* TimeBase.to_scale is an lru_cache'd method: key = (self, scale) with self compared by class and
   jd1/jd2.  A time object is (scale, fmt, jd words); `tf from to jd` is the (unmodelled) conversion.
   The result carries the format of the receiver. *)
Definition tkey : Type := (Z * Z * Z * arr)%type.     (* from scale, to scale, fmt, jd *)

Definition tkey_eqb (ignore_fmt : bool) (a b : tkey) : bool :=
  let '(f1, t1, m1, j1) := a in
  let '(f2, t2, m2, j2) := b in
  (f1 =? f2) && (t1 =? t2) && (ignore_fmt || (m1 =? m2)) && arr_eqb j1 j2.

Section TimeMachine.
  Variable tf : Z -> Z -> arr -> option arr.
  Variable ignore_fmt : bool.    (* c08_time_cache_ignores_fmt *)

  Definition tobj : Type := (Z * Z * arr)%type.       (* scale, fmt, jd *)
  Definition tworld : Type := (list (Z * tobj) * list (option tkey * (Z * arr)))%type.
  (* entries of a flood have the key None, which never compares equal *)
  Definition tokey_eqb (a b : option tkey) : bool :=
    match a, b with Some x, Some y => tkey_eqb ignore_fmt x y | _, _ => false end.

  Inductive top : Type :=
  | TNew (s : Z) (scale fmt : Z) (jd : arr)
  | TScale (s : Z) (scale : Z)
  | TFlood (n : nat).

  Fixpoint tflood (n : nat) (l : list (option tkey * (Z * arr))) : list (option tkey * (Z * arr)) :=
    match n with
    | O => l
    | S m => tflood m (lru_insert cap (None : option tkey) ((0, nothing) : Z * arr) l)
    end.

  (* observation: (16 * format of the result + its scale, jd of the result) *)
  Definition tstep (w : tworld) (o : top) : tworld * option (Z * arr) :=
    match o with
    | TNew s scale fmt jd => (((s, (scale, fmt, jd)) :: fst w, snd w), Some (fmt * 16 + scale, jd))
    | TScale s scale =>
        match assoc_z s (fst w) with
        | None => (w, None)
        | Some (sc, fmt, jd) =>
            (* to_scale(own scale) returns self, and that call is memoised like any other *)
            let k := (sc, scale, fmt, jd) in
            match lru_lookup tokey_eqb (Some k) (snd w) with
            | Some (v, l') => ((fst w, l'), Some (fst v * 16 + scale, snd v))
            | None =>
                match (if sc =? scale then Some jd else tf sc scale jd) with
                | None => (w, None)
                | Some r => ((fst w, lru_insert cap (Some k) (fmt, r) (snd w)), Some (fmt * 16 + scale, r))
                end
            end
        end
    | TFlood n => ((fst w, tflood n (snd w)), Some (0, nothing))
    end.

  Fixpoint trun (w : tworld) (ops : list top) : list (option (Z * arr)) :=
    match ops with
    | [] => []
    | o :: r => let (w1, x) := tstep w o in x :: trun w1 r
    end.

  Definition twipe (w : tworld) : tworld := (fst w, []).

  Fixpoint trun_uncached (w : tworld) (ops : list top) : list (option (Z * arr)) :=
    match ops with
    | [] => []
    | o :: r => let (w1, x) := tstep (twipe w) o in x :: trun_uncached w1 r
    end.
End TimeMachine.

Definition ttable : Type := list (Z * Z * arr * arr).
Fixpoint tf_of_table (t : ttable) (a b : Z) (jd : arr) : option arr :=
  match t with
  | [] => None
  | (x, y, j, r) :: t' => if (x =? a) && (y =? b) && arr_eqb j jd then Some r else tf_of_table t' a b jd
  end.

Definition tobs_eqb (p : option (Z * arr)) (s : Z * arr) : bool :=
  match p with
  | None => false
  | Some (f, a) => (f =? fst s) && arr_eqb a (snd s)
  end.

Fixpoint tall_eqb (ps : list (option (Z * arr))) (ss : list (Z * arr)) : bool :=
  match ps, ss with
  | [], [] => true
  | p :: r, s :: t => tobs_eqb p s && tall_eqb r t
  | _, _ => false
  end.

(* verdict: 0 = specification, 2 = machine whose key ignores the format, 1 = unexplained *)
Definition check_time (c : ttable * list top * list (Z * arr)) : Z :=
  let '(t, ops, seen) := c in
  if tall_eqb (trun (tf_of_table t) false ([], []) ops) seen then 0
  else if tall_eqb (trun (tf_of_table t) true ([], []) ops) seen then 2
  else 1.

(* ------------------------------------------------------------------------------------ PosVel / PositionDelta objects *)
(* Objects that hold other memoised parts (PosVelArray.pos/.vel/.trs2acr, conversions trs <-> kepler,
   PositionDelta.enu which depends on ref_pos).  The specification is the cache-free meaning: every read is the
   (unmodelled) function `pvf` of the *current* contents of the object and of the object it is linked to (`other`
   of a PosVel, `ref_pos` of a delta); raw calls of trs2kepler / kepler2trs return private arrays and leave their
   argument alone; writing into a result changes nothing.  Two switches:
     stale_ref  c08_refpos_mutation_stale  a delta keeps its converted value until it is assigned to itself
     hand       c08_object_cache_handout   every read is memoised in the object (emptied by item assignment to it or
                                           to the object it is linked to, and by attaching another `other`) and
                                           p.kepler / p.trs hand out the memo entry itself
   kinds: 3 TrsPosVel, 4 KeplerPosVel, 5 TrsPositionDelta, 6 TrsPosition (used as ref_pos),
          7 EnuPosVelDelta, 8 AcrPosVelDelta (ref_pos = a TrsPosVel; enu <-> acr goes over trs: two hops).
   reads: 1 pos, 2 vel, 3 the other system, 4 trs2acr, 5 distance, 6 elevation (5, 6 need `other`), 8 delta.enu,
          11 / 12 / 13 = .trs / .acr / .enu of a PosVelDelta (reads >= 11 and 8 need ref_pos) *)
(* reads that are functions of the object AND the object it is linked to *)
Definition pv_linked (what : Z) : bool := (what =? 5) || (what =? 6) || (what =? 8) || (11 <=? what).
(* reads of a delta (they depend on ref_pos) *)
Definition pv_delta_read (what : Z) : bool := (what =? 8) || (11 <=? what).
Definition pv_is_delta (kind : Z) : bool := (kind =? 5) || (7 <=? kind).
Definition pvobj : Type := (Z * arr * option Z * list (Z * arr))%type.    (* kind, contents, linked slot, memo *)
Definition pvworld : Type := (list (Z * pvobj) * option Z)%type.          (* objects; slot whose conversion memo the last result is *)

Inductive pvop : Type :=
| PNew (s : Z) (kind : Z) (a : arr) (link : option Z)
| PRead (s : Z) (what : Z)
| PRaw (s : Z)                                  (* transformation.trs2kepler(p) / kepler2trs(p) *)
| PWrite (c : Z)                                (* result[...] = c on the last conversion / raw result *)
| PSet (s : Z) (mode : Z) (v : list Z)          (* mode 2: every row := v, otherwise the first row := v *)
| POther (s : Z) (t : option Z).

Fixpoint repeat_rows (v : list Z) (n : nat) : list Z :=
  match n with O => [] | S m => v ++ repeat_rows v m end.

Definition set_rows (mode : Z) (v : list Z) (a : arr) : arr :=
  if mode =? 2 then (fst a, repeat_rows v (Nat.div (length (snd a)) (length v)))
  else (fst a, v ++ skipn (length v) (snd a)).

Section PVMachine.
  Variable pvf : Z -> list arr -> option arr.
  Variable stale_ref : bool.
  Variable hand : bool.

  Fixpoint pv_map (f : Z -> pvobj -> pvobj) (w : list (Z * pvobj)) : list (Z * pvobj) :=
    match w with
    | [] => []
    | (k, o) :: t => (k, f k o) :: pv_map f t
    end.

  Definition pv_update (s : Z) (f : pvobj -> pvobj) (w : list (Z * pvobj)) : list (Z * pvobj) :=
    pv_map (fun k o => if k =? s then f o else o) w.

  Definition memo_put (s : Z) (what : Z) (v : arr) (w : list (Z * pvobj)) : list (Z * pvobj) :=
    pv_update s (fun x => let '(k, a, l, m) := x in (k, a, l, (what, v) :: m)) w.

  Definition use_memo (what : Z) : bool := hand || (stale_ref && pv_delta_read what).

  (* item assignment to s: its own memo goes, and the memo of everything that has s as other / ref_pos *)
  Definition pv_assign (s : Z) (mode : Z) (v : list Z) (w : list (Z * pvobj)) : list (Z * pvobj) :=
    pv_map (fun k o =>
              let '(kd, a, l, m) := o in
              if k =? s then (kd, set_rows mode v a, l, [])
              else match l with
                   | Some t => if (t =? s) && negb (stale_ref && pv_is_delta kd) then (kd, a, l, []) else o
                   | None => o
                   end) w.

  (* the last result stays "the memo entry of slot t" as long as that entry is still there *)
  Definition keep_reg (w : list (Z * pvobj)) (r : option Z) : option Z :=
    match r with
    | Some t => match assoc_z t w with
                | Some (_, _, _, m) => match assoc_z 3 m with Some _ => r | None => None end
                | None => None
                end
    | None => None
    end.

  Definition pvstep (wr : pvworld) (o : pvop) : pvworld * option (arr * Z) :=
    let (w, r) := wr in
    match o with
    | PNew s kind a link => (((s, (kind, a, link, [])) :: w, r), Some (([], []), 0))
    | PSet s mode v => let w1 := pv_assign s mode v w in ((w1, keep_reg w1 r), Some (([], []), 0))
    | POther s t =>
        let w1 := pv_update s (fun x => let '(k, a, _, _) := x in (k, a, t, [])) w in
        ((w1, keep_reg w1 r), Some (([], []), 0))
    | PWrite c =>
        match r with
        | Some s =>
            if hand then
              ((pv_update s (fun x => let '(k, a, l, m) := x in
                                      (k, a, l, map (fun e => if fst e =? 3 then (3, fill (snd e) c) else e) m)) w, r),
               Some (([], []), 0))
            else (wr, Some (([], []), 0))
        | None => (wr, Some (([], []), 0))
        end
    | PRaw s =>
        match assoc_z s w with
        | None => ((w, None), Some (([], []), -9))
        | Some (k, a, l, m) =>
            match pvf (300 + k * 10) [a] with
            | None => ((w, None), None)
            | Some v => ((w, None), Some (v, 1))
            end
        end
    | PRead s what =>
        match assoc_z s w with
        | None => ((w, None), Some (([], []), -9))
        | Some (k, a, l, m) =>
            let r1 := if what =? 3 then Some s else None in
            match (if use_memo what then assoc_z what m else None) with
            | Some v => ((w, r1), Some (v, 0))
            | None =>
                if pv_linked what then
                  match l with
                  | None => ((w, None), Some (([], []), -2))
                  | Some t =>
                      match assoc_z t w with
                      | None => ((w, None), Some (([], []), -9))
                      | Some (k2, a2, _, _) =>
                          match pvf (what * 100 + k * 10 + k2) [a; a2] with
                          | None => ((w, None), None)
                          | Some v => ((memo_put s what v w, r1), Some (v, 0))
                          end
                      end
                  end
                else if (what =? 4) && (k =? 4) then
                  (* trs2acr of a kepler object is made from its memoised trs conversion *)
                  match (match (if hand then assoc_z 3 m else None) with
                         | Some c => Some c
                         | None => pvf 340 [a]
                         end) with
                  | None => ((w, None), None)
                  | Some child =>
                      match pvf 430 [child] with
                      | None => ((w, None), None)
                      | Some v =>
                          let w1 := match assoc_z 3 m with Some _ => w | None => memo_put s 3 child w end in
                          ((memo_put s 4 v w1, r1), Some (v, 0))
                      end
                  end
                else
                  match pvf (what * 100 + k * 10) [a] with
                  | None => ((w, None), None)
                  | Some v => ((memo_put s what v w, r1), Some (v, 0))
                  end
            end
        end
    end.

  (* predictions, each with "a write through a handed-out memo entry has happened before" (only then may a
     machine with the hand-out quirk answer `unknown`) *)
  Fixpoint pvrun (w : pvworld) (fired : bool) (ops : list pvop) : list (option (arr * Z) * bool) :=
    match ops with
    | [] => []
    | o :: r =>
        let (w1, x) := pvstep w o in
        let f1 := fired || (hand && match o, snd w with PWrite _, Some _ => true | _, _ => false end) in
        (x, f1) :: pvrun w1 f1 r
    end.
End PVMachine.

Definition pvtable : Type := list (Z * list arr * arr).
Fixpoint pvf_of_table (t : pvtable) (fn : Z) (args : list arr) : option arr :=
  match t with
  | [] => None
  | (f, a, r) :: t' =>
      if (f =? fn) && kargs_eqb all_off (map (fun x => (false, x)) a) (map (fun x => (false, x)) args)
      then Some r else pvf_of_table t' fn args
  end.

Fixpoint pv_all_eqb (ps : list (option (arr * Z) * bool)) (ss : list (arr * Z)) : bool :=
  match ps, ss with
  | [], [] => true
  | p :: r, s :: t => obs_match (snd p) (fst p) s && pv_all_eqb r t
  | _, _ => false
  end.

(* verdict: 0 = specification, 2 = stale delta conversions, 3 = memo entries handed out, 4 = both, 1 = unexplained *)
Definition check_pv (c : pvtable * list pvop * list (arr * Z)) : Z :=
  let '(t, ops, seen) := c in
  let go := fun sr h => pv_all_eqb (pvrun (pvf_of_table t) sr h ([], None) false ops) seen in
  if go false false then 0
  else if go true false then 2
  else if go false true then 3
  else if go true true then 4
  else 1.

(* the cache-free PosVel machine: the specification with every memo (and the result register) wiped before each
   operation *)
Definition pv_strip1 (o : pvobj) : pvobj := let '(k, a, l, _) := o in (k, a, l, []).
Definition pv_strip (w : list (Z * pvobj)) : list (Z * pvobj) := pv_map (fun _ o => pv_strip1 o) w.
Definition pv_wipe (wr : pvworld) : pvworld := (pv_strip (fst wr), None).

Fixpoint pvrun_uncached (pvf : Z -> list arr -> option arr) (w : pvworld) (ops : list pvop) : list (option (arr * Z)) :=
  match ops with
  | [] => []
  | o :: r => let (w1, x) := pvstep pvf false false (pv_wipe w) o in x :: pvrun_uncached pvf w1 r
  end.
