(* C09 - a Dataset as a rectangular, row-aligned table.  Executable model only (no proofs here).

   Anchors: midgard/data/dataset.py   Dataset.subset / extend / merge_with / difference / filter / unique
            midgard/data/collection.py Collection._extend / _difference / __delitem__
            midgard/data/fieldtypes/*.py  subset / extend / prepend_empty / append_empty of the field types
            midgard/data/_position.py, _time.py, sigma.py   subset / insert with the `memo`

   A dataset is {num_obs; rowids; store; fields}.  The store maps object identities (Python `id`) to
   objects: a column of cells plus named references (`other`, `time`, `ref_pos`) to other objects.
   Fields (dotted paths for fields nested in collections) name objects of the store.  Because a
   reference is an identity, an object shared by several fields exists once: the role of the `memo`
   dictionaries of the code (transform every object exactly once, keep sharing) is the specification
   "map over the store".  Every cell carries a ghost observation id (None = fill value); `rowids` is
   the ghost id of every row of the table. *)
From Coq Require Import String Ascii ZArith QArith Bool Arith Lia List.
From Verif Require Import Lib.Dyadic Lib.C09_Table.
Import ListNotations.
Open Scope nat_scope.
Open Scope string_scope.
Open Scope list_scope.

(* ------------------------------------------------------------------ small utilities *)
Fixpoint lookup {A} (k : nat) (l : list (nat * A)) : option A :=
  match l with [] => None | (k', v) :: r => if Nat.eqb k k' then Some v else lookup k r end.
Fixpoint slookup {A} (k : string) (l : list (string * A)) : option A :=
  match l with [] => None | (k', v) :: r => if String.eqb k k' then Some v else slookup k r end.
Fixpoint sequence {A} (l : list (option A)) : option (list A) :=
  match l with
  | [] => Some []
  | None :: _ => None
  | Some x :: r => match sequence r with Some xs => Some (x :: xs) | None => None end
  end.
Fixpoint map2 {A B C} (f : A -> B -> C) (a : list A) (b : list B) : list C :=
  match a, b with x :: a', y :: b' => f x y :: map2 f a' b' | _, _ => [] end.
Fixpoint list_eqb {A} (e : A -> A -> bool) (a b : list A) : bool :=
  match a, b with
  | [], [] => true
  | x :: a', y :: b' => e x y && list_eqb e a' b'
  | _, _ => false
  end.
Definition opt_eqb {A} (e : A -> A -> bool) (a b : option A) : bool :=
  match a, b with None, None => true | Some x, Some y => e x y | _, _ => false end.

(* ------------------------------------------------------------------ cells *)
Inductive kind := KFloat | KText | KBool | KTime | KTimeDelta | KPos | KPosDelta | KPosVel | KPosVelDelta | KSigma.
Definition kind_code (k : kind) : nat :=
  match k with KFloat => 0 | KText => 1 | KBool => 2 | KTime => 3 | KTimeDelta => 4 | KPos => 5
             | KPosDelta => 6 | KPosVel => 7 | KPosVelDelta => 8 | KSigma => 9 end.
Definition kind_eqb (a b : kind) : bool := Nat.eqb (kind_code a) (kind_code b).

(* one row of a field: float 1-d [x], float 2-d [x1..xw], text, bool, time [value; jd1; jd2],
   time delta [value; jd1; jd2], position [x;y;z], posvel [x;y;z;vx;vy;vz], sigma [value; sigma] *)
Inductive payload := PNum (v : list dy) | PTxt (s : list string) | PBool (b : list bool).
Definition payload_eqb (a b : payload) : bool :=
  match a, b with
  | PNum x, PNum y => list_eqb dy_eqb x y
  | PTxt x, PTxt y => list_eqb String.eqb x y
  | PBool x, PBool y => list_eqb Bool.eqb x y
  | _, _ => false
  end.

Record cell := mkCell { cgid : option Z; cval : payload }.
Definition fillcell_d : cell := mkCell None (PNum []).

(* number of columns of a row (w only matters for 2-d float/text fields) *)
Definition kwidth (k : kind) (two : bool) (w : nat) : nat :=
  match k with
  | KFloat | KText | KBool => if two then w else 1
  | KTime | KTimeDelta | KPos | KPosDelta => 3
  | KPosVel | KPosVelDelta => 6
  | KSigma => 2
  end.

(* the "empty" value each field type appends / prepends (fieldtypes/*.py _append_empty):
   NaN, "", False, datetime.min (utc: mjd -678575, jd 1721425.5 + 0.0), zero days *)
Definition fill_payload (k : kind) (two : bool) (w : nat) : payload :=
  match k with
  | KText => PTxt (repeat "" (kwidth k two w))
  | KBool => PBool (repeat false (kwidth k two w))
  | KTime => PNum [Dy (-678575) 0; Dy 3442851 (-1); DZero false]
  | KTimeDelta => PNum [DZero false; DZero false; DZero false]
  | _ => PNum (repeat DNaN (kwidth k two w))
  end.

Definition payload_ok (k : kind) (two : bool) (w : nat) (p : payload) : bool :=
  match k, p with
  | KText, PTxt s => Nat.eqb (length s) (kwidth k two w)
  | KBool, PBool b => Nat.eqb (length b) (kwidth k two w)
  | KText, _ | KBool, _ => false
  | _, PNum v => Nat.eqb (length v) (kwidth k two w)
  | _, _ => false
  end.

(* ------------------------------------------------------------------ exact double arithmetic *)
Fixpoint pos_twos (p : positive) : positive * Z :=
  match p with xO p' => let (m, k) := pos_twos p' in (m, (k + 1)%Z) | _ => (p, 0%Z) end.
Definition dy_norm (m e : Z) : dy :=
  match m with
  | Z0 => DZero false
  | Zpos p => let (m', k) := pos_twos p in Dy (Zpos m') (e + k)
  | Zneg p => let (m', k) := pos_twos p in Dy (Zneg m') (e + k)
  end.
(* x * f for an integer factor f >= 1 (unit conversion factors of the model are integers) *)
Definition dy_mulZ (f : Z) (d : dy) : dy :=
  match d with Dy m e => dy_norm (m * f) e | _ => d end.
Definition dy_neg (d : dy) : dy :=
  match d with Dy m e => Dy (- m) e | DZero s => DZero (negb s) | DInf s => DInf (negb s) | DNaN => DNaN end.
(* a - b when the exact difference is a double (the generator only produces such values) *)
Definition dy_sub (a b : dy) : dy :=
  match a, b with
  | DNaN, _ | _, DNaN => DNaN
  | DInf s, DInf s' => if Bool.eqb s s' then DNaN else a
  | DInf _, _ => a
  | _, DInf s => DInf (negb s)
  | DZero s, DZero s' => DZero (s && negb s')
  | _, DZero _ => a
  | DZero _, _ => dy_neg b
  | Dy m e, Dy m' e' =>
      let e0 := Z.min e e' in dy_norm (m * 2 ^ (e - e0) - m' * 2 ^ (e' - e0))%Z e0
  end.

(* numpy sort order of doubles: -inf < finite < +inf < nan *)
Definition dy_rank (d : dy) : Z * Q :=
  match d with
  | DNaN => (2%Z, 0%Q)
  | DInf false => (1%Z, 0%Q)
  | DInf true => ((-1)%Z, 0%Q)
  | _ => (0%Z, match dy_toQ d with Some q => q | None => 0%Q end)
  end.
Definition dy_leb (a b : dy) : bool :=
  let (ca, qa) := dy_rank a in let (cb, qb) := dy_rank b in
  (ca <? cb)%Z || ((ca =? cb)%Z && Qle_bool qa qb).

(* ------------------------------------------------------------------ units (midgard.math.unit.Unit(from, to)) *)
Definition unit_scale (u : string) : option (nat * Z) :=
  if String.eqb u "meter" then Some (0, 1%Z)
  else if String.eqb u "kilometer" then Some (0, 1000%Z)
  else if String.eqb u "second" then Some (1, 1%Z)
  else if String.eqb u "minute" then Some (1, 60%Z)
  else if String.eqb u "hour" then Some (1, 3600%Z)
  else None.
(* factor that converts a value in `from` into `to`; None = not convertible, or not an integer
   (outside the model: the product would have to be rounded) *)
Definition unit_factor (from to : string) : option Z :=
  if String.eqb from to then Some 1%Z
  else match unit_scale from, unit_scale to with
       | Some (d1, s1), Some (d2, s2) =>
           if Nat.eqb d1 d2 && (s1 mod s2 =? 0)%Z then Some (s1 / s2)%Z else None
       | _, _ => None
       end.

(* ------------------------------------------------------------------ objects, datasets *)
Record obj := mkObj {
  okind : kind; otwo : bool; owidth : nat;
  ounit : option (list string);
  orows : list cell;
  orefs : list (string * nat) }.

Record dset := mkD {
  num_obs : nat;
  rowids : list Z;
  store : list (nat * obj);
  fields : list (string * nat);
  next : nat;
  colls : list string }.      (* the collections that exist, also the ones that hold no field (any more) *)

Definition empty_dset : dset := mkD 0 [] [] [] 0 [].

(* "a.b.c" lies in the collections "a" and "a.b" *)
Fixpoint prefixes_aux (acc s : string) : list string :=
  match s with
  | EmptyString => []
  | String c r => if Ascii.eqb c "."%char then acc :: prefixes_aux (acc ++ ".")%string r
                  else prefixes_aux (acc ++ String c EmptyString)%string r
  end.
Definition prefixes (p : string) : list string := prefixes_aux EmptyString p.
Definition is_under (c p : string) : bool := existsb (String.eqb c) (prefixes p).
Definition add_colls (cs new : list string) : list string :=
  fold_left (fun acc c => if existsb (String.eqb c) acc then acc else acc ++ [c]) new cs.

Definition set_rows (ob : obj) (rows : list cell) : obj :=
  mkObj (okind ob) (otwo ob) (owidth ob) (ounit ob) rows (orefs ob).

Definition field_obj (d : dset) (p : string) : option obj :=
  match slookup p (fields d) with Some o => lookup o (store d) | None => None end.

(* rows of every object at positions ix (numpy a[ix]); every object exactly once *)
Definition take_obj (ix : list nat) (ob : obj) : obj := set_rows ob (take fillcell_d ix (orows ob)).
Definition take_all (ix : list nat) (d : dset) : dset :=
  mkD (length ix) (take 0%Z ix (rowids d))
      (map (fun x => (fst x, take_obj ix (snd x))) (store d)) (fields d) (next d) (colls d).

(* ------------------------------------------------------------------ the memo walk of subset / sort
   Dataset.subset and the sort of merge_with call field.subset(idx, memo) for every field; PositionArray.subset /
   PositionDeltaArray.subset / TimeBase.subset first look the object up in the memo (old id -> new object), otherwise
   transform the objects it refers to (recursively, through the same memo), build the new object and enter it
   into the memo.  Here: new objects get fresh identities, `wmemo` is the memo, `path` the objects being visited
   (a reference cycle never terminates in the code; here it gives None). *)
Record wst := mkW { wmemo : list (nat * nat); wnew : list (nat * obj); wnext : nat }.

Definition set_refs (ob : obj) (rs : list (string * nat)) : obj :=
  mkObj (okind ob) (otwo ob) (owidth ob) (ounit ob) (orows ob) rs.

Fixpoint walk_list (rec : wst -> nat -> option (wst * nat)) (rl : list (string * nat)) (w : wst)
  : option (wst * list (string * nat)) :=
  match rl with
  | [] => Some (w, [])
  | ar :: r =>
      match rec w (snd ar) with
      | Some (w1, n) => match walk_list rec r w1 with
                        | Some (w2, rs) => Some (w2, (fst ar, n) :: rs)
                        | None => None end
      | None => None
      end
  end.

Fixpoint walk (fuel : nat) (f : nat -> obj -> obj) (old : list (nat * obj)) (path : list nat) (w : wst) (o : nat)
  : option (wst * nat) :=
  match fuel with
  | 0 => None
  | S fu =>
      match lookup o (wmemo w) with
      | Some n => Some (w, n)                                   (* `if old_id in memo: return memo[old_id]` *)
      | None =>
          if existsb (Nat.eqb o) path then None else
          match lookup o old with
          | None => None
          | Some ob =>
              match walk_list (walk fu f old (o :: path)) (orefs ob) w with
              | Some (w1, rs) =>
                  let n := wnext w1 in
                  Some (mkW ((o, n) :: wmemo w1) ((n, set_refs (f o ob) rs) :: wnew w1) (S n), n)
              | None => None
              end
          end
      end
  end.

(* all fields, one memo *)
Definition walk_fields (fuel : nat) (f : nat -> obj -> obj) (old : list (nat * obj)) (fl : list (string * nat)) (w : wst)
  : option (wst * list (string * nat)) := walk_list (walk fuel f old []) fl w.

(* Dataset.subset(idx) / the sort of merge_with as the code performs it *)
Definition subset_walk (d : dset) (ix : list nat) : option dset :=
  match walk_fields (S (length (store d))) (fun _ => take_obj ix) (store d) (fields d) (mkW [] [] (next d)) with
  | Some (w, fs) => Some (mkD (length ix) (take 0%Z ix (rowids d)) (wnew w) fs (wnext w) (colls d))
  | None => None
  end.

(* extend / merge_with with a ZERO-ROW other dataset as the code performs it: no rows are added, so every object
   keeps its rows (f = identity); the fields both datasets have go through insert() - the walk with the memo -,
   the fields only self has go through append_empty(0).  With `early_return` (the code: `if num_obs == 0: return`)
   those fields keep their old object; without it they are looked up in / walked with the same memo. *)
Definition extend_empty_walk (early_return : bool) (d : dset) (both : list string) : option dset :=
  let in_both := fun pf : string * nat => existsb (String.eqb (fst pf)) both in
  let fb := filter in_both (fields d) in
  let fs := filter (fun pf => negb (in_both pf)) (fields d) in
  let fuel := S (length (store d)) in
  match walk_fields fuel (fun _ ob => ob) (store d) fb (mkW [] [] (next d)) with
  | Some (w1, fb') =>
      if early_return then
        Some (mkD (num_obs d) (rowids d) (wnew w1 ++ store d) (fb' ++ fs) (wnext w1) (colls d))
      else
        match walk_fields fuel (fun _ ob => ob) (store d) fs w1 with
        | Some (w2, fs') => Some (mkD (num_obs d) (rowids d) (wnew w2) (fb' ++ fs') (wnext w2) (colls d))
        | None => None
        end
  | None => None
  end.

(* do field p's attribute `attr` and field q name the same object? *)
Definition ref_is_field (d : dset) (p attr q : string) : bool :=
  match field_obj d p, slookup q (fields d) with
  | Some ob, Some oq => match slookup attr (orefs ob) with Some r => Nat.eqb r oq | None => false end
  | _, _ => false
  end.

(* ------------------------------------------------------------------ operations *)
Inductive rtarget :=
| TField (p : string)                         (* the object of another field *)
| TNew (k : kind) (vals : list payload)       (* a fresh object that is not a field itself *)
| TSame (p : string) (attr : string).         (* the object field p refers to as `attr` *)

Inductive op :=
| New (n : nat) (base : Z)                    (* Dataset(num_obs=n); rows are observations base, base+1, ... *)
| Add (path : string) (k : kind) (two : bool) (w : nat) (unit : option (list string))
      (vals : list payload) (refs : list (string * rtarget))
| SubsetMask (m : list bool)
| SubsetIdx (ix : list nat)
| Extend (o : dset)
| Merge (os : list dset) (sort_by : option string)
| Difference (o : dset) (index_by : list string)
| Del (path : string)
| AddColl (path : string)                     (* add_collection: an empty collection holds no rows; the table is unchanged *)
| Filter (conds : list (string * payload))    (* query, state unchanged *)
| FilterIdx (idx : list bool) (conds : list (string * payload))   (* filter(idx=mask, ...): query that starts from the caller's mask *)
| Unique (path : string).                     (* query, state unchanged *)

Record quirks := mkQ {
  q_subset_sum : bool;    (* Dataset.subset: num_obs = sum(idx) *)
  q_attr_fill : bool }.   (* append_empty of a position whose `other` is not in the memo: empty_from(a) has len(a) rows *)
Definition all_off : quirks := mkQ false false.

Definition mk_rows (ids : list Z) (vals : list payload) : list cell :=
  map2 (fun i v => mkCell (Some i) v) ids vals.

Definition zseq (base : Z) (n : nat) : list Z := map (fun i => (base + Z.of_nat i)%Z) (seq 0 n).

(* -- add_<type> *)
Definition resolve (d : dset) (acc : option (list (nat * obj) * nat * list (string * nat)))
           (ar : string * rtarget) : option (list (nat * obj) * nat * list (string * nat)) :=
  match acc with
  | None => None
  | Some (news, nx, refs) =>
      match snd ar with
      | TField p => match slookup p (fields d) with Some o => Some (news, nx, refs ++ [(fst ar, o)]) | None => None end
      | TNew k vals =>
          if Nat.eqb (length vals) (num_obs d) && forallb (payload_ok k false 0) vals
          then Some (news ++ [(nx, mkObj k false 0
                                          (if kind_eqb k KTime || kind_eqb k KTimeDelta then Some ["utc"] else None)
                                          (mk_rows (rowids d) vals) [])], S nx, refs ++ [(fst ar, nx)])
          else None
      | TSame p a => match field_obj d p with
                     | Some ob => match slookup a (orefs ob) with
                                  | Some o => Some (news, nx, refs ++ [(fst ar, o)])
                                  | None => None end
                     | None => None end
      end
  end.

Definition add_field (d : dset) path k two w unit vals refs : option dset :=
  match slookup path (fields d) with
  | Some _ => None                                           (* FieldExistsError *)
  | None =>
      if Nat.eqb (length vals) (num_obs d) && forallb (payload_ok k two w) vals then
        match fold_left (resolve d) refs (Some ([], S (next d), [])) with
        | Some (news, nx, rs) =>
            Some (mkD (num_obs d) (rowids d)
                      (store d ++ [(next d, mkObj k two w unit (mk_rows (rowids d) vals) rs)] ++ news)
                      (fields d ++ [(path, next d)]) nx (add_colls (colls d) (prefixes path)))
        | None => None
        end
      else None                                              (* ValueError: wrong number of values *)
  end.

(* -- extend *)
Definition field_pairs (d o : dset) : list (nat * nat) :=
  flat_map (fun pf => match slookup (fst pf) (fields o) with Some b => [(snd pf, b)] | None => [] end) (fields d).
Definition ref_pairs (d o : dset) (pr : list (nat * nat)) : list (nat * nat) :=
  flat_map (fun ab =>
    match lookup (fst ab) (store d), lookup (snd ab) (store o) with
    | Some oa, Some ob =>
        flat_map (fun ar => match slookup (fst ar) (orefs ob) with Some b' => [(snd ar, b')] | None => [] end) (orefs oa)
    | _, _ => []
    end) pr.
Definition pair_eqb (x y : nat * nat) : bool := Nat.eqb (fst x) (fst y) && Nat.eqb (snd x) (snd y).
Fixpoint dedup (seen l : list (nat * nat)) : list (nat * nat) :=
  match l with
  | [] => []
  | x :: r => if existsb (pair_eqb x) seen then dedup seen r else x :: dedup (x :: seen) r
  end.
(* objects of self and other that are extended together: same field name, or same attribute of
   objects extended together (references nest at most 4 deep) *)
Definition all_pairs (d o : dset) : list (nat * nat) :=
  let p0 := field_pairs d o in
  if Nat.eqb (num_obs d) 0 then dedup [] p0     (* len(self) == 0: fields are taken over, nothing is inserted *)
  else
  let p1 := p0 ++ ref_pairs d o p0 in
  let p2 := p1 ++ ref_pairs d o p1 in
  let p3 := p2 ++ ref_pairs d o p2 in
  let p4 := p3 ++ ref_pairs d o p3 in
  dedup [] p4.
(* the sharing structures agree: the pairing is one-to-one *)
Definition one_to_one (pr : list (nat * nat)) : bool :=
  forallb (fun x => forallb (fun y => Bool.eqb (Nat.eqb (fst x) (fst y)) (Nat.eqb (snd x) (snd y))) pr) pr.

Definition fill_rows (n : nat) (ob : obj) : list cell :=
  repeat (mkCell None (fill_payload (okind ob) (otwo ob) (owidth ob))) n.
Definition append_fill (n : nat) (ob : obj) : obj := set_rows ob (orows ob ++ fill_rows n ob).
Definition prepend_fill (n : nat) (ob : obj) : obj := set_rows ob (fill_rows n ob ++ orows ob).
Definition remap (f : nat -> nat) (ob : obj) : obj :=
  mkObj (okind ob) (otwo ob) (owidth ob) (ounit ob) (orows ob) (map (fun ar => (fst ar, f (snd ar))) (orefs ob)).

Definition factors (oa ob : obj) : option (list Z) :=
  match okind oa with
  | KFloat | KSigma =>
      match ounit oa, ounit ob with
      | None, None => Some (repeat 1%Z (kwidth (okind oa) (otwo oa) (owidth oa)))
      | Some ua, Some ub =>
          if Nat.eqb (length ua) (length ub) then sequence (map2 unit_factor ub ua) else None
      | _, _ => None                                          (* UnitError *)
      end
  | _ => Some []
  end.
Definition conv (k : kind) (fs : list Z) (c : cell) : cell :=
  match k, cval c with
  | KFloat, PNum v => mkCell (cgid c) (PNum (map2 dy_mulZ fs v))
  | KSigma, PNum v => mkCell (cgid c) (PNum (map (dy_mulZ (hd 1%Z fs)) v))
  | _, _ => c
  end.

Definition merge_obj (n1 : nat) (oa ob : obj) (bmap : nat -> nat) : option obj :=
  if Nat.eqb n1 0 then Some (remap bmap ob)                  (* len(self) == 0: the other field is taken over *)
  else if kind_eqb (okind oa) (okind ob) && Bool.eqb (otwo oa) (otwo ob)
          && Nat.eqb (kwidth (okind oa) (otwo oa) (owidth oa)) (kwidth (okind ob) (otwo ob) (owidth ob)) then
    match factors oa ob with
    | Some fs =>
        Some (mkObj (okind oa) (otwo oa) (owidth oa) (ounit oa)
                    (orows oa ++ map (conv (okind oa) fs) (orows ob))
                    (orefs oa ++ flat_map (fun ar => match slookup (fst ar) (orefs oa) with
                                                     | Some _ => [] | None => [(fst ar, bmap (snd ar))] end) (orefs ob)))
    | None => None
    end
  else None.                                                  (* ValueError: different field types / dimensions *)

Definition is_field_obj (d : dset) (a : nat) : bool := existsb (fun pf => Nat.eqb (snd pf) a) (fields d).

Definition extend (q : quirks) (d o : dset) : option dset :=
  let n1 := num_obs d in let n2 := num_obs o in
  let pr := all_pairs d o in
  if negb (one_to_one pr) then None else
  let unp := filter (fun x => negb (existsb (fun ab => Nat.eqb (snd ab) (fst x)) pr)) (store o) in
  let fresh := combine (map fst unp) (seq (next d) (length unp)) in
  let bmap := fun b => match find (fun ab => Nat.eqb (snd ab) b) pr with
                       | Some ab => fst ab
                       | None => match lookup b fresh with Some n => n | None => 0 end
                       end in
  let merged := map (fun x =>
      match find (fun ab => Nat.eqb (fst ab) (fst x)) pr with
      | Some ab => match lookup (snd ab) (store o) with
                   | Some ob => option_map (pair (fst x)) (merge_obj n1 (snd x) ob bmap)
                   | None => None end
      | None => Some (fst x, append_fill (if q_attr_fill q && negb (is_field_obj d (fst x)) then n1 else n2) (snd x))
      end) (store d) in
  match sequence merged with
  | None => None
  | Some st1 =>
      Some (mkD (n1 + n2) (rowids d ++ rowids o)
                (st1 ++ map (fun x => (bmap (fst x), prepend_fill n1 (remap bmap (snd x)))) unp)
                (fields d ++ flat_map (fun pf => match slookup (fst pf) (fields d) with
                                                 | Some _ => [] | None => [(fst pf, bmap (snd pf))] end) (fields o))
                (next d + length unp) (add_colls (colls d) (colls o)))
  end.

(* -- extend as the code performs it: the memo walk over the objects that are extended together.
   `ext_graph` is the situation before any row is moved: the objects of self (references of a paired object:
   its own and the ones only the other object has) and copies of the objects only other has, all with their
   rows untouched.  `xrows id ob` is what insert() / append_empty / prepend_empty build for object `id` when the
   walk reaches it: rows of self ++ converted rows of the partner, rows ++ fill, fill ++ rows.  `extend_walk`
   walks the fields with one memo (walk_fields), exactly like subset. *)
Definition ext_graph (d o : dset)
  : option (list (nat * obj) * (nat -> obj -> obj) * list (string * nat) * nat) :=
  match extend all_off d o with
  | None => None
  | Some _ =>
      let n1 := num_obs d in let n2 := num_obs o in
      let pr := all_pairs d o in
      let unp := filter (fun x => negb (existsb (fun ab => Nat.eqb (snd ab) (fst x)) pr)) (store o) in
      let fresh := combine (map fst unp) (seq (next d) (length unp)) in
      let bmap := fun b => match find (fun ab => Nat.eqb (snd ab) b) pr with
                           | Some ab => fst ab
                           | None => match lookup b fresh with Some n => n | None => 0 end
                           end in
      let partner := fun id => match find (fun ab => Nat.eqb (fst ab) id) pr with
                               | Some ab => lookup (snd ab) (store o)
                               | None => None end in
      let g_self := map (fun x =>
          match partner (fst x) with
          | Some ob =>
              if Nat.eqb n1 0 then (fst x, set_rows (remap bmap ob) (orows (snd x)))
              else (fst x, set_refs (snd x)
                     (orefs (snd x) ++ flat_map (fun ar => match slookup (fst ar) (orefs (snd x)) with
                                                          | Some _ => [] | None => [(fst ar, bmap (snd ar))] end) (orefs ob)))
          | None => x
          end) (store d) in
      let g_other := map (fun x => (bmap (fst x), remap bmap (snd x))) unp in
      let xrows := fun id ob =>
          match partner id with
          | Some ob2 =>
              if Nat.eqb n1 0 then set_rows ob (orows ob2)
              else match lookup id (store d) with
                   | Some oa => match factors oa ob2 with
                                | Some fs => set_rows ob (orows ob ++ map (conv (okind oa) fs) (orows ob2))
                                | None => ob end
                   | None => ob end
          | None => if existsb (fun x => Nat.eqb (fst x) id) (store d) then append_fill n2 ob else prepend_fill n1 ob
          end in
      Some (g_self ++ g_other, xrows,
            fields d ++ flat_map (fun pf => match slookup (fst pf) (fields d) with
                                            | Some _ => [] | None => [(fst pf, bmap (snd pf))] end) (fields o),
            next d + length unp)
  end.

Definition extend_walk (d o : dset) : option dset :=
  match ext_graph d o with
  | Some (g, xrows, fl, nx) =>
      match walk_fields (S (length g)) xrows g fl (mkW [] [] nx) with
      | Some (w, fs) => Some (mkD (num_obs d + num_obs o) (rowids d ++ rowids o) (wnew w) fs (wnext w)
                                  (add_colls (colls d) (colls o)))
      | None => None
      end
  | None => None
  end.

(* -- merge_with(..., sort_by) *)
Definition sort_keys (d : dset) (p : string) : option (list dy) :=
  match field_obj d p with
  | Some ob =>
      match okind ob, otwo ob with
      | KFloat, false | KTime, _ =>
          sequence (map (fun c => match cval c with PNum (x :: _) => Some x | _ => None end) (orows ob))
      | _, _ => None
      end
  | None => None
  end.
Fixpoint extend_all (q : quirks) (d : dset) (os : list dset) : option dset :=
  match os with
  | [] => Some d
  | o :: r => match extend q d o with Some d' => extend_all q d' r | None => None end
  end.
Definition sort_by (d : dset) (p : string) : option dset :=
  match sort_keys d p with
  | Some keys => Some (take_all (stable_argsort dy_leb keys) d)
  | None => None
  end.
Definition merge (q : quirks) (d : dset) (os : list dset) (s : option string) : option dset :=
  match extend_all q d os with
  | Some d' => match s with Some p => sort_by d' p | None => Some d' end
  | None => None
  end.

(* -- difference(other, index_by) *)
Fixpoint ascii_list (s : string) : list nat :=
  match s with EmptyString => [] | String a r => nat_of_ascii a :: ascii_list r end.
Fixpoint natlist_leb (a b : list nat) : bool :=
  match a, b with
  | [], _ => true
  | _, [] => false
  | x :: a', y :: b' => Nat.ltb x y || (Nat.eqb x y && natlist_leb a' b')
  end.
Definition dy_keyeqb (a b : dy) : bool := dy_leb a b && dy_leb b a.
(* one index value: a finite number or a text *)
Definition key_eqb (a b : payload) : bool :=
  match a, b with
  | PNum [x], PNum [y] => dy_keyeqb x y
  | _, _ => payload_eqb a b
  end.
Definition key_leb (a b : payload) : bool :=
  match a, b with
  | PNum [x], PNum [y] => dy_leb x y
  | PTxt [x], PTxt [y] => natlist_leb (ascii_list x) (ascii_list y)
  | _, _ => true
  end.
Fixpoint tuple_leb (a b : list payload) : bool :=
  match a, b with
  | [], _ => true
  | _, [] => false
  | x :: a', y :: b' => if key_eqb x y then tuple_leb a' b' else key_leb x y
  end.
(* index tuples are equal when their cells are: doubles by bit pattern, texts literally (keys -0.0 / NaN, which
   numpy compares numerically, are outside the model) *)
Definition tuple_eqb (a b : list payload) : bool := list_eqb payload_eqb a b.

Fixpoint transpose_keys (cols : list (list payload)) (n : nat) : list (list payload) :=
  match n with
  | 0 => []
  | S n' => map (fun c => hd (PNum []) c) cols :: transpose_keys (map (@tl payload) cols) n'
  end.
Definition index_keys (d : dset) (ps : list string) : option (list (list payload)) :=
  match sequence (map (fun p => match field_obj d p with
                                | Some ob => if negb (otwo ob) && (kind_eqb (okind ob) KFloat || kind_eqb (okind ob) KText)
                                             then Some (map cval (orows ob)) else None
                                | None => None end) ps) with
  | Some cols => Some (transpose_keys cols (num_obs d))
  | None => None
  end.

Definition sub_cells (fs : list Z) (a b : cell) : cell :=
  match cval a, cval b with
  | PNum x, PNum y => mkCell (cgid a) (PNum (map2 dy_sub x (map2 dy_mulZ fs y)))
  | _, _ => a
  end.
Definition diff_factors (oa ob : obj) : option (list Z) :=
  match ounit oa, ounit ob with
  | Some ua, Some ub => sequence (map2 unit_factor ub ua)
  | _, _ => Some (repeat 1%Z (kwidth (okind oa) (otwo oa) (owidth oa)))
  end.
Definition simple_kind (k : kind) : bool :=
  match k with KFloat | KText | KBool | KSigma => true | _ => false end.

(* the fields of the result, in order: differences of the common float fields, then the index fields *)
Definition diff_field (d o : dset) (sidx oidx : list nat) (ps : list string) (pf : string * nat)
  : option (list (string * obj)) :=
  if existsb (String.eqb (fst pf)) ps then Some [] else
  match lookup (snd pf) (store d), field_obj o (fst pf) with
  | Some oa, Some ob =>
      if negb (simple_kind (okind oa) && simple_kind (okind ob)) then None      (* outside the model *)
      else if kind_eqb (okind oa) KFloat && kind_eqb (okind ob) KFloat then
        if Bool.eqb (otwo oa) (otwo ob) && Nat.eqb (kwidth KFloat (otwo oa) (owidth oa)) (kwidth KFloat (otwo ob) (owidth ob)) then
          match diff_factors oa ob with
          | Some fs => Some [(fst pf, mkObj KFloat (otwo oa) (owidth oa) (ounit oa)
                                        (map2 (sub_cells fs) (take fillcell_d sidx (orows oa)) (take fillcell_d oidx (orows ob))) [])]
          | None => None
          end
        else None
      else if kind_eqb (okind oa) (okind ob) then Some []                        (* no "-" for text / bool / sigma *)
      else None
  | Some _, None => Some []
  | None, _ => None
  end.

(* which row of self is paired with which row of other *)
Definition diff_sel (d o : dset) (ps : list string) : option (list nat * list nat) :=
  match ps with
  | [] => if Nat.eqb (num_obs d) (num_obs o) then Some (seq 0 (num_obs d), seq 0 (num_obs d)) else None
  | _ => match index_keys d ps, index_keys o ps with
         | Some ks, Some ko =>
             let cm := map fst (isort tuple_leb (enumerate (common tuple_eqb ks ko))) in
             Some (map (fun t => first_index tuple_eqb t ks) cm, map (fun t => first_index tuple_eqb t ko) cm)
         | _, _ => None
         end
  end.

Definition difference (d o : dset) (ps : list string) : option dset :=
  match diff_sel d o ps with
  | None => None
  | Some (sidx, oidx) =>
      if Nat.eqb (length sidx) 0 then None else                 (* ValueError: nothing to differentiate *)
      match sequence (map (diff_field d o sidx oidx ps) (fields d)),
            sequence (map (fun p => match field_obj d p with
                                    | Some ob => Some (p, mkObj (okind ob) (otwo ob) (owidth ob) (ounit ob)
                                                                (take fillcell_d sidx (orows ob)) [])
                                    | None => None end) ps) with
      | Some fl, Some il =>
          let objs := concat fl ++ il in
          let ids := seq 0 (length objs) in
          Some (mkD (length sidx) (take 0%Z sidx (rowids d))
                    (combine ids (map snd objs)) (combine (map fst objs) ids) (length objs)
                    (filter (fun c => existsb (String.eqb c) (colls o)) (colls d)))
      | _, _ => None
      end
  end.

(* -- filter / unique (queries) *)
Definition value_eqb (a b : payload) : bool :=
  match a, b with
  | PNum [x], PNum [y] => dy_numeqb x y
  | _, _ => payload_eqb a b
  end.
Definition filter_mask_from (d : dset) (start : list bool) (conds : list (string * payload)) : option (list bool) :=
  if negb (Nat.eqb (length start) (num_obs d)) then None else
  fold_left (fun acc c =>
    match acc, field_obj d (fst c) with
    | Some m, Some ob => if otwo ob then None else Some (map2 andb m (map (fun r => value_eqb (cval r) (snd c)) (orows ob)))
    | _, _ => None
    end) conds (Some start).
Definition filter_mask (d : dset) (conds : list (string * payload)) : option (list bool) :=
  filter_mask_from d (repeat true (num_obs d)) conds.
(* numpy.unique: NaNs collapse into one *)
Definition unique_eqb (a b : payload) : bool :=
  match a, b with
  | PNum [DNaN], PNum [DNaN] => true
  | _, _ => value_eqb a b
  end.
Definition unique_vals (d : dset) (p : string) : option (list payload) :=
  match field_obj d p with
  | Some ob => if otwo ob then None else Some (uniq_first unique_eqb [] (map cval (orows ob)))
  | None => None
  end.

(* ------------------------------------------------------------------ one step, histories *)
Definition step0 (q : quirks) (d : dset) (o : op) : option dset :=
  match o with
  | New n base => match fields d with
                  | [] => match colls d with
                          | [] => Some (mkD n (zseq base n) [] [] (next d) [])      (* no fields: nothing is reachable *)
                          | _ => None end
                  | _ => None end
  | Add path k two w unit vals refs => add_field d path k two w unit vals refs
  | SubsetMask m => if Nat.eqb (length m) (num_obs d) then Some (take_all (mask_idx m) d) else None
  | SubsetIdx ix =>
      if forallb (fun i => Nat.ltb i (num_obs d)) ix then
        let d' := take_all ix d in
        Some (if q_subset_sum q then mkD (list_sum ix) (rowids d') (store d') (fields d') (next d') (colls d') else d')
      else None
  | Extend o => extend q d o
  | Merge os s => merge q d os s
  | Difference o ps => difference d o ps
  | Del p => match slookup p (fields d) with
             | Some _ => Some (mkD (num_obs d) (rowids d) (store d)
                                   (filter (fun pf => negb (String.eqb (fst pf) p)) (fields d)) (next d) (colls d))
             | None => None end
  | AddColl p =>
      if existsb (String.eqb p) (colls d) || match slookup p (fields d) with Some _ => true | None => false end
      then None                                               (* FieldExistsError *)
      else Some (mkD (num_obs d) (rowids d) (store d) (fields d) (next d) (add_colls (colls d) (prefixes p ++ [p])))
  | Filter _ | FilterIdx _ _ | Unique _ => Some d
  end.

(* well-formed reference structure: identities are unique, every reference (and every field) names an object of
   the store, and there is no reference cycle - `depth` is the length of the longest reference chain below an
   object, None when a reference dangles or the chain is longer than the store (a cycle) *)
Fixpoint depth (fuel : nat) (st : list (nat * obj)) (o : nat) : option nat :=
  match fuel with
  | 0 => None
  | S f =>
      match lookup o st with
      | None => None
      | Some ob =>
          fold_left (fun acc ar => match acc, depth f st (snd ar) with
                                   | Some m, Some k => Some (Nat.max m (S k))
                                   | _, _ => None end) (orefs ob) (Some 0)
      end
  end.
Fixpoint nodup_b (l : list nat) : bool :=
  match l with [] => true | x :: r => negb (existsb (Nat.eqb x) r) && nodup_b r end.
Definition wf_store (st : list (nat * obj)) : bool :=
  nodup_b (map fst st)
  && forallb (fun x => match depth (S (length st)) st (fst x) with Some _ => true | None => false end) st.
Definition wf_dset (d : dset) : bool :=
  wf_store (store d)
  && forallb (fun pf => match lookup (snd pf) (store d) with Some _ => true | None => false end) (fields d).

(* one operation of the model: the operation proper, and the result has a well-formed reference structure (an
   operation that would create a dangling or cyclic reference is outside the model: None) *)
Definition step (q : quirks) (d : dset) (o : op) : option dset :=
  match step0 q d o with
  | Some d' => if wf_dset d' then Some d' else None
  | None => None
  end.

Fixpoint run (q : quirks) (d : dset) (ops : list op) : option dset :=
  match ops with
  | [] => Some d
  | o :: r => match step q d o with Some d' => run q d' r | None => None end
  end.

(* a dataset built by the harness: Dataset(num_obs=n) followed by add_<type> calls *)
Definition build (ops : list op) : dset :=
  match run all_off empty_dset ops with Some d => d | None => empty_dset end.

(* ------------------------------------------------------------------ correspondence *)
Record oobj := mkO {
  bkind : kind; btwo : bool; bwidth : nat; bunit : option (list string);
  brows : list payload; brefs : list (string * nat) }.

Inductive obs :=
| OState (n : nat) (flds : list (string * nat * nat)) (objs : list (nat * oobj))   (* field: (path, object, field.num_obs) *)
         (cs : list (string * nat))                                                 (* collection: (path, len(collection)) *)
| ORaise
| OSkip                                                                            (* step not observed *)
| OMask (m : list bool)
| OMask2 (m : list bool) (arg_after : list bool)   (* filter(idx=mask): the result, and the caller's mask after the call *)
| OVals (v : list payload).

Definition unit_eqb (a b : option (list string)) : bool := opt_eqb (list_eqb String.eqb) a b.

Definition obj_match (a : obj) (b : oobj) : bool :=
  kind_eqb (okind a) (bkind b) && Bool.eqb (otwo a) (btwo b)
  && Nat.eqb (kwidth (okind a) (otwo a) (owidth a)) (bwidth b)
  && unit_eqb (ounit a) (bunit b)
  && list_eqb payload_eqb (map cval (orows a)) (brows b)
  && Nat.eqb (length (orefs a)) (length (brefs b)).

(* walk the model's and the observed object graph together; the identity maps must be one-to-one *)
Fixpoint iso (fuel : nat) (ms : list (nat * obj)) (os : list (nat * oobj)) (pairs : list (nat * nat))
         (mo oo : nat) : option (list (nat * nat)) :=
  match fuel with
  | 0 => None
  | S f =>
      match find (fun p => Nat.eqb (fst p) mo) pairs with
      | Some p => if Nat.eqb (snd p) oo then Some pairs else None
      | None =>
          if existsb (fun p => Nat.eqb (snd p) oo) pairs then None else
          match lookup mo ms, lookup oo os with
          | Some a, Some b =>
              if obj_match a b then
                fold_left (fun acc ar =>
                  match acc with
                  | None => None
                  | Some ps => match slookup (fst ar) (brefs b) with
                               | Some oo' => iso f ms os ps (snd ar) oo'
                               | None => None end
                  end) (orefs a) (Some ((mo, oo) :: pairs))
              else None
          | _, _ => None
          end
      end
  end.

Definition match_state (d : dset) (n : nat) (flds : list (string * nat * nat)) (objs : list (nat * oobj)) : bool :=
  Nat.eqb (num_obs d) n
  && Nat.eqb (length (fields d)) (length flds)
  && forallb (fun f => Nat.eqb (snd f) n) flds
  && match fold_left (fun acc f =>
             match acc with
             | None => None
             | Some ps => match slookup (fst (fst f)) (fields d) with
                          | Some mo => iso 8 (store d) objs ps mo (snd (fst f))
                          | None => None end
             end) flds (Some []) with
     | Some _ => true
     | None => false
     end.

(* len(collection) (Collection.__len__): the number of rows of the first field in it (at any depth) that has
   rows; a collection that holds no fields has length 0 *)
Definition coll_len (d : dset) (c : string) : nat :=
  match find (fun pf => is_under c (fst pf)) (fields d) with
  | Some pf => match lookup (snd pf) (store d) with Some ob => length (orows ob) | None => 0 end
  | None => 0
  end.
Definition colls_match (d : dset) (cs : list (string * nat)) : bool :=
  Nat.eqb (length (colls d)) (length cs)
  && forallb (fun cl => existsb (String.eqb (fst cl)) (colls d) && Nat.eqb (coll_len d (fst cl)) (snd cl)) cs.

Definition set_num_obs (d : dset) (n : nat) : dset := mkD n (rowids d) (store d) (fields d) (next d) (colls d).

(* the walk model of extend agrees with the pairing specification (same table, same sharing), evaluated for every
   extend / merge_with of every history of the correspondence *)
Definition as_observed (d : dset) : list (string * nat * nat) * list (nat * oobj) :=
  (map (fun pf => (fst pf, snd pf, num_obs d)) (fields d),
   map (fun x => (fst x, mkO (okind (snd x)) (otwo (snd x)) (kwidth (okind (snd x)) (otwo (snd x)) (owidth (snd x)))
                             (ounit (snd x)) (map cval (orows (snd x))) (orefs (snd x)))) (store d)).
Definition walk_agrees (d o : dset) : bool :=
  match extend all_off d o, extend_walk d o with
  | Some ds, Some dw => let (flds, objs) := as_observed dw in match_state ds (num_obs dw) flds objs
  | None, None => true
  | _, _ => false
  end.
Fixpoint walk_agrees_all (d : dset) (os : list dset) : bool :=
  match os with
  | [] => true
  | o :: r => walk_agrees d o && match extend all_off d o with Some d' => walk_agrees_all d' r | None => true end
  end.

(* -- classes of the known deviations (only consulted when the specification does not match) *)
(* the same comparison without object identities: every field and reference equal by value *)
Fixpoint val_iso (fuel : nat) (ms : list (nat * obj)) (os : list (nat * oobj)) (mo oo : nat) : bool :=
  match fuel with
  | 0 => false
  | S f =>
      match lookup mo ms, lookup oo os with
      | Some a, Some b =>
          obj_match a b
          && forallb (fun ar => match slookup (fst ar) (brefs b) with
                                | Some oo' => val_iso f ms os (snd ar) oo'
                                | None => false end) (orefs a)
      | _, _ => false
      end
  end.
Definition match_values (d : dset) (n : nat) (flds : list (string * nat * nat)) (objs : list (nat * oobj)) : bool :=
  Nat.eqb (num_obs d) n
  && Nat.eqb (length (fields d)) (length flds)
  && forallb (fun f => Nat.eqb (snd f) n) flds
  && forallb (fun f => match slookup (fst (fst f)) (fields d) with
                       | Some mo => val_iso 8 (store d) objs mo (snd (fst f))
                       | None => false end) flds.

(* rows of the table as tuples over all fields, model and observed *)
Definition row_sigs (n : nat) (cols : list (list payload)) : list (list payload) := transpose_keys cols n.
Definition model_cols (d : dset) : list (list payload) :=
  map (fun pf => match lookup (snd pf) (store d) with Some ob => map cval (orows ob) | None => [] end) (fields d).
Definition obs_cols (d : dset) (flds : list (string * nat * nat)) (objs : list (nat * oobj)) : list (list payload) :=
  map (fun pf => match slookup (fst pf) (map (fun f => (fst (fst f), snd (fst f))) flds) with
                 | Some oo => match lookup oo objs with Some b => brows b | None => [] end
                 | None => [] end) (fields d).
Fixpoint find_row (ms : list (list payload)) (s : list payload) (used : list nat) (i : nat) : option nat :=
  match ms with
  | [] => None
  | m :: r => if list_eqb payload_eqb m s && negb (existsb (Nat.eqb i) used) then Some i
              else find_row r s used (S i)
  end.
Fixpoint match_rows (used : list nat) (ms os : list (list payload)) : option (list nat) :=
  match os with
  | [] => Some []
  | s :: r => match find_row ms s used 0 with
              | Some i => match match_rows (i :: used) ms r with Some p => Some (i :: p) | None => None end
              | None => None
              end
  end.
(* the permutation that turns the model's rows into the observed rows, if there is one *)
Definition obs_perm (d : dset) (n : nat) (flds : list (string * nat * nat)) (objs : list (nat * oobj)) : option (list nat) :=
  if Nat.eqb n (num_obs d) then
    match_rows [] (row_sigs n (model_cols d)) (row_sigs n (obs_cols d flds objs))
  else None.
Definition is_perm_of_seq (p : list nat) (n : nat) : bool :=
  Nat.eqb (length p) n && forallb (fun i => existsb (Nat.eqb i) p) (seq 0 n).
Fixpoint keys_sorted (ks : list dy) : bool :=
  match ks with
  | a :: ((b :: _) as r) => dy_leb a b && keys_sorted r
  | _ => true
  end.

(* an object that has references receives fill rows, or an attribute exists on one side only
   (append_empty / prepend_empty / insert() reach `empty_from`) *)
Definition attr_fill_class (d o : dset) : bool :=
  let pr := all_pairs d o in
  let has_refs := fun (x : nat * obj) => negb (Nat.eqb (length (orefs (snd x))) 0) in
  (negb (Nat.eqb (num_obs o) 0)
   && existsb (fun x => has_refs x && negb (existsb (fun ab => Nat.eqb (fst ab) (fst x)) pr)) (store d))
  || (negb (Nat.eqb (num_obs d) 0)
      && existsb (fun x => has_refs x && negb (existsb (fun ab => Nat.eqb (snd ab) (fst x)) pr)) (store o))
  || existsb (fun ab => match lookup (fst ab) (store d), lookup (snd ab) (store o) with
                        | Some oa, Some ob =>
                            negb (list_eqb String.eqb (map fst (orefs oa)) (map fst (orefs ob)))
                        | _, _ => false end) pr.
Fixpoint attr_fill_any (d : dset) (os : list dset) : bool :=
  match os with
  | [] => false
  | o :: r => attr_fill_class d o
              || match extend all_off d o with Some d' => attr_fill_any d' r | None => false end
  end.

(* a path "c.x" lies in collection "c" *)
Fixpoint before_dot (s : string) : option string :=
  match s with
  | EmptyString => None
  | String a r => if Ascii.eqb a "."%char then Some EmptyString
                  else match before_dot r with Some p => Some (String a p) | None => None end
  end.
Definition same_collection (p q : string) : bool :=
  match before_dot p, before_dot q with Some a, Some b => String.eqb a b | _, _ => false end.
Definition has_field (d : dset) (p : string) : bool := match slookup p (fields d) with Some _ => true | None => false end.
(* a nested field that only `other` has, in a collection self has as well: Collection._extend pads it
   with len(collection), which has already grown when another field of the collection came first *)
Definition nested_pad_class (d o : dset) : bool :=
  negb (Nat.eqb (num_obs d) 0) && negb (Nat.eqb (num_obs o) 0)
  && existsb (fun pf => negb (has_field d (fst pf))
                        && existsb (fun qf => same_collection (fst pf) (fst qf)) (fields d)) (fields o).
(* extend onto a zero-row dataset takes whole collections from other: nested fields only self has vanish *)
Definition nested_drop_class (d o : dset) : bool :=
  Nat.eqb (num_obs d) 0
  && existsb (fun pf => negb (has_field o (fst pf))
                        && existsb (fun qf => same_collection (fst pf) (fst qf)) (fields o)) (fields d).
(* a collection of self that holds no fields reports 0 rows: Collection._extend takes the fields other has in it
   over without padding (c09_collection_len_is_first_field) *)
Definition coll_len_class (d o : dset) : bool :=
  negb (Nat.eqb (num_obs d) 0)
  && existsb (fun c => negb (Nat.eqb (coll_len d c) (num_obs d))
                       && existsb (fun pf => is_under c (fst pf)) (fields o)) (colls d).
(* a time / time_delta object in another scale than utc (the scale is carried as the unit tag) gets fill rows: the
   empty value is built in utc and converted - datetime.min cannot be converted (c09_time_fill_not_utc) *)
Definition time_fill_class (d o : dset) : bool :=
  let pr := all_pairs d o in
  let not_utc := fun (x : nat * obj) =>
      (kind_eqb (okind (snd x)) KTime || kind_eqb (okind (snd x)) KTimeDelta)
      && match ounit (snd x) with Some [u] => negb (String.eqb u "utc") | _ => false end in
  (negb (Nat.eqb (num_obs o) 0)
   && existsb (fun x => not_utc x && negb (existsb (fun ab => Nat.eqb (fst ab) (fst x)) pr)) (store d))
  || (negb (Nat.eqb (num_obs d) 0)
      && existsb (fun x => not_utc x && negb (existsb (fun ab => Nat.eqb (snd ab) (fst x)) pr)) (store o)).
Fixpoint class_any (cls : dset -> dset -> bool) (d : dset) (os : list dset) : bool :=
  match os with
  | [] => false
  | o :: r => cls d o || match extend all_off d o with Some d' => class_any cls d' r | None => false end
  end.

(* extend / merge: 4 = fill rows for an object with references; 5 = all values as specified but an
   object that was shared is now two equal objects; 6 / 7 = nested collections (see above) *)
(* the fields that have nothing to do with references (no attributes, nobody's attribute) are as specified *)
Definition plain_fields_match (d : dset) (n : nat) (flds : list (string * nat * nat)) (objs : list (nat * oobj)) : bool :=
  let targets := flat_map (fun x => map snd (orefs (snd x))) (store d) in
  Nat.eqb (num_obs d) n
  && Nat.eqb (length (fields d)) (length flds)
  && forallb (fun f => match slookup (fst (fst f)) (fields d) with
                       | Some mo =>
                           match lookup mo (store d) with
                           | Some a => if Nat.eqb (length (orefs a)) 0 && negb (existsb (Nat.eqb mo) targets)
                                       then Nat.eqb (snd f) n && val_iso 8 (store d) objs mo (snd (fst f))
                                       else true
                           | None => false
                           end
                       | None => false end) flds.

Definition classify_extend (d : dset) (os : list dset) (s : option string) (b : obs) : Z :=
  let refs_class :=
    if attr_fill_any d os then
      match b, merge all_off d os s with
      | OState n flds objs _, Some d' => if plain_fields_match d' n flds objs then 4%Z else 1%Z
      | ORaise, _ => 4%Z
      | _, _ => 1%Z
      end
    else 1%Z in
  let other_classes :=
    if Z.eqb refs_class 4 then 4%Z        (* an exception where both classes apply is the reference class's *)
    else if class_any time_fill_class d os && match b with ORaise => true | _ => false end then 10%Z
    else if class_any coll_len_class d os then 8%Z
    else if class_any nested_pad_class d os then 6%Z
    else if class_any nested_drop_class d os then 7%Z
    else 1%Z in
  match b, merge all_off d os s with
  | OState n flds objs _, Some d' => if match_values d' n flds objs then 5%Z else other_classes
  | _, _ => other_classes
  end.

Definition classify (d : dset) (o : op) (b : obs) : Z :=
  match o, b with
  | SubsetIdx ix, OState n flds objs _ =>
      match step all_off d o with
      | Some d' => if Nat.eqb n (list_sum ix) && match_state (set_num_obs d' n) n (map (fun f => (fst f, n)) flds) objs
                      && forallb (fun f => Nat.eqb (snd f) (length ix)) flds
                   then 2%Z else 1%Z
      | None => 1%Z
      end
  | Merge os (Some p), OState n flds objs _ =>
      match extend_all all_off d os, merge all_off d os (Some p) with
      | Some d1, Some d' =>
          if match_values d' n flds objs then 5%Z else
          match obs_perm d1 n flds objs, sort_keys d1 p with
          | Some perm, Some keys =>
              if is_perm_of_seq perm (num_obs d1) && keys_sorted (take DNaN perm keys)
                 && match_values (take_all perm d1) n flds objs
              then 3%Z
              else classify_extend d os (Some p) b
          | _, _ => classify_extend d os (Some p) b
          end
      | _, _ => 1%Z
      end
  | Extend o', _ => classify_extend d [o'] None b
  | Merge os s, _ => classify_extend d os s b
  | _, _ => 1%Z
  end.

(* the precondition of extend / merge_with in the model: the two datasets share objects in the same way *)
Fixpoint congruent_all (d : dset) (os : list dset) : bool :=
  match os with
  | [] => true
  | o :: r => one_to_one (all_pairs d o)
              && match extend all_off d o with Some d' => congruent_all d' r | None => true end
  end.
Definition in_domain (d : dset) (o : op) : bool :=
  match o with
  | Extend x => congruent_all d [x]
  | Merge os _ => congruent_all d os
  | _ => true
  end.

(* verdict of one history: 0 = every step equals the specification; 15 + 16 * step = the history left
   the domain of the model at that step (incongruent sharing) and is not judged further; otherwise
   16 * (index of the first deviating step) + class   (1 unexplained, 2 subset-sum, 3 unstable sort,
   4 fill rows for an object with references, 5 sharing lost, 6/7 nested collections, 8 empty collection;
   9 = the model's own extend walk and extend specification disagree - a defect of the model) *)
Fixpoint check_from (d : dset) (k : Z) (l : list (op * obs)) : Z :=
  match l with
  | [] => 0%Z
  | (o, b) :: r =>
      let walk_ok := match o with
                     | Extend x => walk_agrees_all d [x]
                     | Merge os _ => walk_agrees_all d os
                     | _ => true end in
      if negb walk_ok then (16 * k + 9)%Z else
      let bad := (16 * k + (if in_domain d o then classify d o b else 15))%Z in
      match step all_off d o, b with
      | None, ORaise => 0%Z                                    (* both refuse; the history ends *)
      | None, _ => bad
      | Some _, ORaise => bad
      | Some d', OSkip => check_from d' (k + 1)%Z r
      | Some d', OState n flds objs cs =>
          if match_state d' n flds objs && colls_match d' cs then check_from d' (k + 1)%Z r else bad
      | Some d', OMask m =>
          match o with
          | Filter cs => if opt_eqb (list_eqb Bool.eqb) (filter_mask d cs) (Some m) then check_from d' (k + 1)%Z r else bad
          | _ => bad
          end
      | Some d', OMask2 m after =>
          match o with
          | FilterIdx idx cs =>
              if opt_eqb (list_eqb Bool.eqb) (filter_mask_from d idx cs) (Some m) && list_eqb Bool.eqb idx after
              then check_from d' (k + 1)%Z r else bad
          | _ => bad
          end
      | Some d', OVals v =>
          match o with
          | Unique p => if opt_eqb (list_eqb payload_eqb) (unique_vals d p) (Some v) then check_from d' (k + 1)%Z r else bad
          | _ => bad
          end
      end
  end.

Definition check_seq (l : list (op * obs)) : Z := check_from empty_dset 0%Z l.
