(* Model/C12_Nav.v - executable model of midgard.parsers.rinex2_nav / rinex212_nav / rinex3_nav (navigation records),
   of the format's record writer (the specification side), and the check functions of the correspondence.
   Definitions only; the lemmas are in Proofs/C12_Nav.v.

   Layers
     1. text:    cut / floats / parse_epoch / parse_record / group3 / chunk / parse_body   (ChainParser + data_parser tables)
     2. writer:  nrec, render_record, render_body (RINEX 2.11 table A4 / 3.03 table A6 record layout: the specification)
     3. post:    rename (SYSNAMES), offsets (BeiDou), week cross-over, columns  -> build_cols
     4. checks:  check_file (verdict codes, see the end of the file)
   `quirks` switches the behaviours of the code that differ from the specification; `spec_q` = all off. *)
From Coq Require Import Ascii String List Bool Arith ZArith QArith Qround Qabs Lia.
From Verif Require Import Lib.Text Lib.Dyadic Lib.C12_ExpFormat.
Import ListNotations.
Local Open Scope nat_scope.
Local Open Scope string_scope.

Record quirks := mkQ {
  q_lower_d : bool;    (* c12_lowercase_d      : only 'D' is turned into 'e'; a lower-case 'd' exponent raises ValueError *)
  q_blank_idx : bool;  (* c12_blank_clock_field: text[-1] / text[0] on a blank clock field raises IndexError *)
  q_elif : bool;       (* c12_crossover_elif   : one direction of week cross-over per file (if/elif over np.any) *)
  q_sow : bool;        (* c12_crossover_sow    : cross-over decided on seconds of week only, week numbers ignored *)
  q_ms : bool          (* c12_fraction_as_ms   : 7-digit fraction of the epoch second fed to timedelta(milliseconds=) *)
}.
Definition spec_q := mkQ false false false false false.
Definition code_q := mkQ true true true true true.

Inductive version := V2 | V212 | V3.
Definition is_v3 (v : version) : bool := match v with V3 => true | _ => false end.

(* ------------------------------------------------------------------------------------------ tables *)
Definition fielddef := (string * (nat * nat))%type.
Definition table := list (nat * list fielddef).

Fixpoint tlookup (n : nat) (t : table) : option (list fielddef) :=
  match t with
  | [] => None
  | (k, v) :: r => if Nat.eqb k n then Some v else tlookup n r
  end.

Fixpoint alookup {A : Type} (k : string) (l : list (string * A)) : option A :=
  match l with
  | [] => None
  | (k', v) :: r => if String.eqb k' k then Some v else alookup k r
  end.

Definition mem (s : string) (l : list string) : bool := existsb (String.eqb s) l.

(* ChainParser.parse_line: values[field] = line[a:b].strip() *)
Definition cut (line : string) (f : fielddef) : string * string :=
  (fst f, strip (slice (fst (snd f)) (snd (snd f)) line)).

Fixpoint floats (ok : bool) (kv : list (string * string)) : option (list (string * dec)) :=
  match kv with
  | [] => Some []
  | (k, v) :: r =>
      match nav_float ok v, floats ok r with
      | Some d, Some l => Some ((k, d) :: l)
      | _, _ => None
      end
  end.

Definition parse_int (s : string) : option Z :=
  if negb (len s =? 0)%nat && all_by is_digit s then Some (digits_val 0 s) else None.

Definition is_alpha (c : ascii) : bool :=
  let n := nat_of_ascii c in (((65 <=? n) && (n <=? 90)) || ((97 <=? n) && (n <=? 122)))%nat.

Fixpoint last_char (s : string) : option ascii :=
  match s with
  | EmptyString => None
  | String c EmptyString => Some c
  | String _ r => last_char r
  end.
Definition first_char (s : string) : option ascii :=
  match s with String c _ => Some c | EmptyString => None end.
Definition starts_alpha (s : string) : bool :=
  match s with String c _ => is_alpha c | EmptyString => false end.

(* one parsed record *)
Record prec := mkP {
  p_sys : string;
  p_sat : string;
  p_civil : Z * Z * Z * Z * Z;     (* year month day hour minute *)
  p_sec : dec;                      (* second of the epoch *)
  p_vals : list (string * dec)      (* the 29 values in record order, by table name *)
}.

Inductive rres := RSkip | RRec (p : prec) | RErr.

Definition bind {A B} (x : option A) (f : A -> option B) : option B :=
  match x with Some a => f a | None => None end.
Notation "x <- e ;; f" := (bind e (fun x => f)) (at level 61, e at next level, right associativity).

Definition ores (x : option rres) : rres := match x with Some r => r | None => RErr end.

Definition clock_names := ["sat_clock_bias"; "sat_clock_drift"; "sat_clock_drift_rate"].

Definition clock_floats (ok : bool) (kv : list (string * string)) : option (list (string * dec)) :=
  b <- alookup "sat_clock_bias" kv ;; d <- alookup "sat_clock_drift" kv ;; r <- alookup "sat_clock_drift_rate" kv ;;
  floats ok [("sat_clock_bias", b); ("sat_clock_drift", d); ("sat_clock_drift_rate", r)].

(* rinex2/rinex212: two-digit year -> 80..99 = 19yy, 00..79 = 20yy:  int("19" + text.zfill(2)) / int("20" + text.zfill(2)) *)
Definition year_v2 (ytxt : string) : option Z :=
  yy <- parse_int ytxt ;;
  parse_int ((if ((80 <=? yy) && (yy <=? 99))%Z then "19" else "20") ++ zfill 2 ytxt).

Definition epoch_fields (ok : bool) (sys sat : string) (oy : option Z) (kv : list (string * string)) : option rres :=
  y <- oy ;;
  mo <- bind (alookup "month" kv) parse_int ;;
  d <- bind (alookup "day" kv) parse_int ;;
  h <- bind (alookup "hour" kv) parse_int ;;
  mi <- bind (alookup "minute" kv) parse_int ;;
  s <- bind (alookup "second" kv) (parse_float false) ;;
  cl <- clock_floats ok kv ;;
  Some (RRec (mkP sys sat (y, mo, d, h, mi) s cl)).

(* the "header line in between" test text[-1].isalpha() / text[0].isalpha(); on a blank field it raises IndexError *)
Definition early_exit (q : quirks) (c : option ascii) : option rres :=
  match c with
  | None => if q_blank_idx q then Some RErr else None
  | Some c => if is_alpha c then Some RSkip else None
  end.

(* Rinex3NavParser._parse_observation_epoch *)
Definition parse_epoch3 (q : quirks) (kv : list (string * string)) : rres :=
  ores (
  drift <- alookup "sat_clock_drift" kv ;;
  match early_exit q (last_char drift) with
  | Some r => Some r
  | None =>
    sys <- alookup "system" kv ;;
    if mem sys ["S"; "R"] then Some RSkip else
    prn <- alookup "sat_num" kv ;;
    ytxt <- alookup "year" kv ;;
    epoch_fields (negb (q_lower_d q)) sys (sys ++ zfill 2 prn) (parse_int ytxt) kv
  end).

(* Rinex2NavParser / Rinex212NavParser._parse_observation_epoch; sys2 = system from the file extension *)
Definition parse_epoch2 (q : quirks) (sys2 : string) (kv : list (string * string)) : rres :=
  ores (
  rate <- alookup "sat_clock_drift_rate" kv ;;
  match early_exit q (first_char rate) with
  | Some r => Some r
  | None =>
    prn <- alookup "sat" kv ;;
    ytxt <- alookup "year" kv ;;
    let sat := sys2 ++ zfill 2 prn in
    epoch_fields (negb (q_lower_d q)) (take 1 sat) sat (year_v2 ytxt) kv
  end).

Definition parse_epoch (v : version) (q : quirks) (sys2 : string) kv : rres :=
  if is_v3 v then parse_epoch3 q kv else parse_epoch2 q sys2 kv.

(* the lines 2.. of a record: _parse_obs_float with label = line number *)
Fixpoint obs_lines (ok : bool) (t : table) (ln : nat) (ls : list string) (p : prec) : rres :=
  match ls with
  | [] => RRec p
  | l :: r =>
      match tlookup ln t with
      | None => obs_lines ok t (S ln) r p
      | Some fs =>
          match floats ok (map (cut (rstrip l)) fs) with
          | Some kv => obs_lines ok t (S ln) r
                         (mkP (p_sys p) (p_sat p) (p_civil p) (p_sec p) (p_vals p ++ kv)%list)
          | None => RErr
          end
      end
  end.

Definition parse_record (v : version) (q : quirks) (sys2 : string) (t : table) (lines : list string) : rres :=
  match lines with
  | [] => RSkip
  | l1 :: rest =>
      match tlookup 1 t with
      | None => RErr
      | Some fs1 =>
          match parse_epoch v q sys2 (map (cut (rstrip l1)) fs1) with
          | RRec p => obs_lines (negb (q_lower_d q)) t 2 rest p
          | r => r
          end
      end
  end.

(* grouping of the body lines into records.
   v3: end_marker = next_line[0:1].isalpha();   v2: end_marker = (line_num == 8) *)
Fixpoint group3 (ls : list string) : list (list string) :=
  match ls with
  | [] => []
  | l :: rest =>
      match group3 rest with
      | [] => [[l]]
      | g :: gs => if starts_alpha (hd "" rest) then [l] :: g :: gs else (l :: g) :: gs
      end
  end.

Fixpoint chunk (n fuel : nat) (ls : list string) : list (list string) :=
  match fuel, ls with
  | _, [] => []
  | O, _ => []
  | S f, _ => firstn n ls :: chunk n f (skipn n ls)
  end.

Definition groups (v : version) (ls : list string) : list (list string) :=
  if is_v3 v then group3 ls else chunk 8 (length ls) ls.

Fixpoint collect (rs : list rres) : option (list prec) :=
  match rs with
  | [] => Some []
  | RSkip :: r => collect r
  | RErr :: _ => None
  | RRec p :: r => match collect r with Some l => Some (p :: l) | None => None end
  end.

Definition parse_body (v : version) (q : quirks) (sys2 : string) (t : table) (ls : list string) : option (list prec) :=
  collect (map (parse_record v q sys2 t) (groups v ls)).

(* ------------------------------------------------------------------------------ the format's writer *)
(* names of the 29 values of a record in file order (RINEX 3.03 table A6 / 2.11 table A4 with midgard's field names) *)
Definition orbit_names : list (list string) :=
  [ ["iode"; "crs"; "delta_n"; "m0"];
    ["cuc"; "e"; "cus"; "sqrt_a"];
    ["toe"; "cic"; "Omega"; "cis"];
    ["i0"; "crc"; "omega"; "Omega_dot"];
    ["idot"; "gnss_data_info"; "gnss_week"; "gnss_l2p_flag"];
    ["sv_accuracy"; "sv_health"; "gnss_tgd_bgd"; "gnss_iodc_groupdelay"];
    ["transmission_time"; "gnss_interval"] ].
Definition value_names : list string := (clock_names ++ concat orbit_names)%list.

(* column at which the first 19-character field of a continuation line starts (3X / 4X), = width of the epoch part - 19 *)
Definition lead (v : version) : nat := if is_v3 v then 4 else 3.
Definition fw : nat := 19.

Fixpoint layout_fields (names : list string) (start : nat) (first : bool) : list fielddef :=
  match names with
  | [] => []
  | n :: r => (n, (if first then 0 else start, start + fw)) :: layout_fields r (start + fw) false
  end.

Definition epoch_defs (v : version) : list fielddef :=
  if is_v3 v then
    [("system", (0, 1)); ("sat_num", (1, 3)); ("year", (4, 8)); ("month", (9, 11)); ("day", (12, 14));
     ("hour", (15, 17)); ("minute", (18, 20)); ("second", (21, 23))]
  else
    [("sat", (0, 2)); ("year", (2, 5)); ("month", (5, 8)); ("day", (8, 11)); ("hour", (11, 14));
     ("minute", (14, 17)); ("second", (17, 22))].

Fixpoint layout_lines (ns : list (list string)) (ln : nat) (ld : nat) : table :=
  match ns with
  | [] => []
  | n :: r => (ln, layout_fields n ld true) :: layout_lines r (S ln) ld
  end.

(* the table the format defines *)
Definition layout (v : version) : table :=
  (1, (epoch_defs v ++ layout_fields clock_names (lead v + fw) false)%list) :: layout_lines orbit_names 2 (lead v).

(* same slices?  (names and slices compared; order of lines and of fields inside a line irrelevant) *)
Definition fielddef_eqb (a b : fielddef) : bool :=
  String.eqb (fst a) (fst b) && Nat.eqb (fst (snd a)) (fst (snd b)) && Nat.eqb (snd (snd a)) (snd (snd b)).
Definition fields_sub (a b : list fielddef) : bool := forallb (fun f => existsb (fielddef_eqb f) b) a.
Definition line_sub (t u : table) : bool :=
  forallb (fun kv => match tlookup (fst kv) u with Some fs => fields_sub (snd kv) fs && fields_sub fs (snd kv) | None => false end) t.
Definition table_equiv (t u : table) : bool := line_sub t u && line_sub u t && Nat.eqb (length t) (length u).

(* no field name twice in a line; then the order of the fields of a line (a Python dict) does not matter *)
Fixpoint nodupb (l : list string) : bool :=
  match l with [] => true | x :: r => negb (mem x r) && nodupb r end.
Definition table_ok (v : version) (t : table) : bool :=
  table_equiv (layout v) t && forallb (fun kv : nat * list fielddef => nodupb (map fst (snd kv))) t
  && forallb (fun kv : nat * list fielddef => nodupb (map fst (snd kv))) (layout v).

(* a record of the generating model *)
Record nrec := mkN {
  r_sys : string;                 (* one letter *)
  r_prn : nat;
  r_year : nat; r_month : nat; r_day : nat; r_hour : nat; r_min : nat;
  r_sec10 : nat;                  (* tenths of a second (v3: a multiple of 10) *)
  r_nums : list (option num);     (* 29 printed values; None = blank column *)
  r_extra : nat;                  (* number of continuation lines (7; GLONASS/SBAS: 3) *)
  r_yblank : bool                 (* v2: the two-digit year printed under I2 (" 5") instead of I2.2 ("05") *)
}.

Definition dchar (n : nat) : ascii := ascii_of_nat (48 + n).
Definition two (n : nat) : string := String (dchar (n / 10)) (String (dchar (n mod 10)) EmptyString).
Definition four (n : nat) : string := two (n / 100) ++ two (n mod 100).
(* I2 (blank padded) and F5.1 for values below 100 *)
Definition pad2 (n : nat) : string :=
  String (if (n <? 10)%nat then " "%char else dchar (n / 10)) (String (dchar (n mod 10)) EmptyString).
Definition f51 (t : nat) : string :=
  String " " (String (if (t <? 100)%nat then " "%char else dchar (t / 100))
    (String (dchar (t / 10 mod 10)) (String "." (String (dchar (t mod 10)) EmptyString)))).

Definition render_field (o : option num) : string :=
  match o with Some n => render_num fw n | None => spaces fw end.

Definition epoch_text (v : version) (r : nrec) : string :=
  if is_v3 v then
    r_sys r ++ two (r_prn r) ++ " " ++ four (r_year r) ++ " " ++ two (r_month r) ++ " " ++ two (r_day r) ++ " "
      ++ two (r_hour r) ++ " " ++ two (r_min r) ++ " " ++ two (r_sec10 r / 10)
  else
    pad2 (r_prn r) ++ " " ++ (if r_yblank r then pad2 (r_year r mod 100) else two (r_year r mod 100)) ++ " " ++ pad2 (r_month r) ++ " " ++ pad2 (r_day r) ++ " "
      ++ pad2 (r_hour r) ++ " " ++ pad2 (r_min r) ++ f51 (r_sec10 r).

Fixpoint cont_lines (ld : nat) (k : nat) (nums : list (option num)) : list string :=
  match k with
  | O => []
  | S k' => (spaces ld ++ cat (map render_field (firstn 4 nums))) :: cont_lines ld k' (skipn 4 nums)
  end.

Definition render_record (v : version) (r : nrec) : list string :=
  (epoch_text v r ++ cat (map render_field (firstn 3 (r_nums r))))
    :: cont_lines (lead v) (r_extra r) (skipn 3 (r_nums r)).

Definition render_body (v : version) (rs : list nrec) : list string := concat (map (render_record v) rs).

(* what the record means *)
Definition num_val (o : option num) : dec := match o with Some n => num_dec n | None => (0%Z, 0%Z) end.

Definition prec_of (v : version) (sys2 : string) (r : nrec) : prec :=
  let sys := if is_v3 v then r_sys r else sys2 in
  mkP sys (sys ++ two (r_prn r))
      (Z.of_nat (if is_v3 v then r_year r else r_year r), Z.of_nat (r_month r), Z.of_nat (r_day r), Z.of_nat (r_hour r), Z.of_nat (r_min r))
      (if is_v3 v then (Z.of_nat (r_sec10 r / 10), 0%Z) else (Z.of_nat (r_sec10 r), (-1)%Z))
      (combine value_names (map num_val (r_nums r))).

Definition skipped (r : nrec) : bool := mem (r_sys r) ["R"; "S"].

Definition nrec_wf (v : version) (ok : bool) (r : nrec) : bool :=
  (len (r_sys r) =? 1)%nat && starts_alpha (r_sys r)
  && (r_prn r <? 100)%nat && (r_month r <? 100)%nat && (r_day r <? 100)%nat && (r_hour r <? 100)%nat && (r_min r <? 100)%nat
  && (r_sec10 r <? 1000)%nat
  && (if is_v3 v then (r_year r <? 10000)%nat && (r_sec10 r mod 10 =? 0)%nat
      else (1980 <=? r_year r)%nat && (r_year r <? 2080)%nat)
  && (if skipped r then (r_extra r =? 3)%nat && (length (r_nums r) =? 15)%nat
      else (r_extra r =? 7)%nat && (length (r_nums r) =? 29)%nat)
  && forallb (fun o => match o with Some n => num_wf ok n && (len (core n) <=? fw)%nat | None => true end) (r_nums r)
  (* a blank last column of a v3 line may be cut; a non-blank clock drift (v3) / drift rate (v2) is what real files have *)
  && true.

(* ------------------------------------------------------------------------------------ post-processing *)
Definition sysnames := list (string * list (string * string)).

Definition name_of (sn : sysnames) (f s : string) : option string :=
  match alookup f sn with Some m => alookup s m | None => None end.

(* the format's meaning of the five system dependent columns (RINEX 3.03 table A6..A14) *)
Definition spec_sysnames : sysnames :=
  [ ("gnss_data_info", [("G", "codes_l2"); ("J", "codes_l2"); ("E", "data_source")]);
    ("gnss_interval", [("G", "fit_interval"); ("J", "fit_interval"); ("C", "age_of_clock_corr")]);
    ("gnss_iodc_groupdelay", [("G", "iodc"); ("J", "iodc"); ("E", "bgd_e1_e5b"); ("C", "tgd_b2_b3")]);
    ("gnss_l2p_flag", [("G", "l2p_flag"); ("J", "l2p_flag")]);
    ("gnss_tgd_bgd", [("G", "tgd"); ("J", "tgd"); ("E", "bgd_e1_e5a"); ("C", "tgd_b1_b3"); ("I", "tgd")]) ].

Definition general_names (sn : sysnames) : list string := map fst sn.

Fixpoint dedup (l : list string) : list string :=
  match l with
  | [] => []
  | x :: r => if mem x r then dedup r else x :: dedup r
  end.

Definition pval (name : string) (p : prec) : option Q :=
  match alookup name (p_vals p) with Some d => Some (dec_toQ d) | None => None end.

(* rinex3: every new name of a general field becomes a column; None where the record's system does not map to it *)
Definition rename3 (sn : sysnames) (ps : list prec) : list (string * list (option Q)) :=
  flat_map (fun fm : string * list (string * string) =>
              map (fun n => (n, map (fun p => match alookup (p_sys p) (snd fm) with
                                             | Some n' => if String.eqb n' n then pval (fst fm) p else None
                                             | None => None
                                             end) ps))
                  (dedup (map snd (snd fm)))) sn.

(* rinex2 / rinex212: the file has one system; a general field is renamed or dropped *)
Definition rename2 (sn : sysnames) (sys2 : string) (ps : list prec) : list (string * list (option Q)) :=
  flat_map (fun fm : string * list (string * string) =>
              match alookup sys2 (snd fm) with
              | Some n => [(n, map (pval (fst fm)) ps)]
              | None => []
              end) sn.

(* BeiDou time -> GPS time (seconds, weeks); the format's values *)
Definition spec_soff (s : string) : Z := if String.eqb s "C" then 14%Z else 0%Z.
Definition spec_woff (s : string) : Z := if String.eqb s "C" then 1356%Z else 0%Z.
Definition off_of (tbl : list (string * Z)) (s : string) : Z := match alookup s tbl with Some z => z | None => 0%Z end.

(* civil date -> days since 1970-01-01 (proleptic Gregorian) *)
Definition days_from_civil (y m d : Z) : Z :=
  let y' := if (m <=? 2)%Z then (y - 1)%Z else y in
  let era := (y' / 400)%Z in
  let yoe := (y' - era * 400)%Z in
  let mp := ((m + 9) mod 12)%Z in
  let doy := ((153 * mp + 2) / 5 + d - 1)%Z in
  let doe := (yoe * 365 + yoe / 4 - yoe / 100 + doy)%Z in
  (era * 146097 + doe - 719468)%Z.

Definition gps_epoch_day : Z := 3657%Z.     (* 1980-01-06 *)
Definition weekQ : Q := 604800.
Definition halfQ : Q := 302400.

Definition sec_value (ms : bool) (s : dec) : Q :=
  let x := dec_toQ s in
  let whole := Qfloor x in
  let frac7 := Qfloor ((x - inject_Z whole) * 10000000) in
  if ms then (inject_Z whole + inject_Z frac7 / 1000)%Q else x.

(* the code after fix d94f10c: "{second:010.7f}" split at the point; fraction = int(7 digits) / 10 microseconds *)
Definition sec_fixed (s : dec) : Q :=
  let x := dec_toQ s in
  let whole := Qfloor x in
  let frac7 := Qfloor ((x - inject_Z whole) * 10000000) in
  (inject_Z whole + inject_Z frac7 / 10000000)%Q.

(* record epoch in seconds since the GPS epoch, shifted to the GPS scale *)
Definition toc_abs (ms : bool) (p : prec) : Q :=
  let '(y, mo, d, h, mi) := p_civil p in
  (inject_Z ((days_from_civil y mo d - gps_epoch_day) * 86400 + h * 3600 + mi * 60 + spec_soff (p_sys p))
   + sec_value ms (p_sec p))%Q.

Definition qmod (x m : Q) : Q := (x - inject_Z (Qfloor (x / m)) * m)%Q.

(* the specification of the week cross-over, per record *)
Definition resolve (toc t : Q) : Q :=
  if Qlt_b halfQ (toc - t) then (t + weekQ)%Q
  else if Qlt_b (toc - t) (- halfQ) then (t - weekQ)%Q
  else t.

(* rows: (toc, start of the reported week, seconds in the week incl. the scale offset) *)
Definition cross (q : quirks) (rows : list (Q * Q * Q)) : list Q :=
  let d := fun r : Q * Q * Q => let '(toc, wb, s) := r in
             if q_sow q then (qmod toc weekQ - qmod s weekQ)%Q else (toc - (wb + s))%Q in
  let anyp := existsb (fun r => Qlt_b halfQ (d r)) rows in
  map (fun r : Q * Q * Q => let '(toc, wb, s) := r in
         let base := if q_sow q then (wb + qmod s weekQ)%Q else (wb + s)%Q in
         if Qlt_b halfQ (d r) then (base + weekQ)%Q
         else if Qlt_b (d r) (- halfQ) then (if q_elif q && anyp then base else (base - weekQ)%Q)
         else base) rows.

(* the arithmetic of the code after fix 414cbad: Time(week, seconds) normalised to (week', 0 <= seconds' < 604800);
   difference to the record epoch from both weeks and seconds of week; both directions, per record; Time(week', seconds'') *)
Definition cross_fixed (rows : list (Q * Q * Q)) : list Q :=
  map (fun r : Q * Q * Q => let '(toc, wb, s) := r in
         let lit := (wb + s)%Q in
         let wk := inject_Z (Qfloor (lit / weekQ)) in
         let sec := qmod lit weekQ in
         let diff := ((inject_Z (Qfloor (toc / weekQ)) - wk) * weekQ + qmod toc weekQ - sec)%Q in
         let sec' := if Qlt_b halfQ diff then (sec + weekQ)%Q else if Qlt_b diff (- halfQ) then (sec - weekQ)%Q else sec in
         (wk * weekQ + sec')%Q) rows.

Definition week_val (p : prec) : Q :=
  match pval "gnss_week" p with Some w => (w + inject_Z (spec_woff (p_sys p)))%Q | None => 0 end.

Definition time_rows (ms : bool) (name : string) (ps : list prec) : list (Q * Q * Q) :=
  map (fun p => (toc_abs ms p, (week_val p * weekQ)%Q,
                 (match pval name p with Some s => s | None => 0 end + inject_Z (spec_soff (p_sys p)))%Q)) ps.

Record cols := mkC {
  c_float : list (string * list (option Q));
  c_time : list (string * list Q);           (* seconds since the GPS epoch *)
  c_text : list (string * list string)
}.

Definition plain_names (sn : sysnames) : list string :=
  filter (fun n => negb (mem n (["toe"; "transmission_time"; "gnss_week"] ++ general_names sn)%list)) value_names.

Definition build_cols (v : version) (q : quirks) (hdr_sys sys2 : string) (ps : list prec) : cols :=
  let ms := q_ms q && (negb (is_v3 v) || negb (mem hdr_sys ["M"; "C"])) in
  mkC
    (map (fun n => (n, map (pval n) ps)) (plain_names spec_sysnames)
       ++ [("gnss_week", map (fun p => Some (week_val p)) ps)]
       ++ (if is_v3 v then rename3 spec_sysnames ps else rename2 spec_sysnames sys2 ps))%list
    [("time", map (toc_abs ms) ps);
     ("toe", cross q (time_rows ms "toe" ps));
     ("transmission_time", cross q (time_rows ms "transmission_time" ps))]
    [("system", map p_sys ps); ("satellite", map p_sat ps)].

(* ---------------------------------------------------------------------------------------- checks *)
Record obs := mkO {
  o_float : list (string * list (option dy));
  o_time : list (string * list (dy * dy));     (* jd1, jd2 *)
  o_text : list (string * list string)
}.

Fixpoint all2 {A B} (f : A -> B -> bool) (l : list A) (m : list B) : bool :=
  match l, m with
  | [], [] => true
  | a :: l', b :: m' => f a b && all2 f l' m'
  | _, _ => false
  end.

Definition float_ok (e : option Q) (o : option dy) : bool :=
  match e, o with
  | None, None => true
  | Some x, Some d => is_nearest_double x d
  | _, _ => false
  end.

(* 1 microsecond in days *)
Definition usec_days : Q := 1 # 86400000000.
Definition jd_gps_epoch : Q := 4888489 # 2.      (* 2444244.5 *)
Definition time_ok (e : Q) (o : dy * dy) : bool :=
  match dy_toQ (fst o), dy_toQ (snd o) with
  | Some a, Some b => Qle_bool (Qabs (a + b - (jd_gps_epoch + e / 86400))) usec_days
  | _, _ => false
  end.

Definition cols_match {E O} (f : E -> O -> bool) (es : list (string * list E)) (os : list (string * list O)) : bool :=
  Nat.eqb (length es) (length os)
  && forallb (fun e => match alookup (fst e) os with Some c => all2 f (snd e) c | None => false end) es.

Definition obs_match (c : cols) (o : obs) : bool :=
  cols_match float_ok (c_float c) (o_float o) && cols_match time_ok (c_time c) (o_time o)
  && cols_match String.eqb (c_text c) (o_text o).

(* all columns of equal length *)
Definition lens_equal (o : obs) : bool :=
  let ls := (map (fun c => length (snd c)) (o_float o) ++ map (fun c => length (snd c)) (o_time o)
            ++ map (fun c => length (snd c)) (o_text o))%list in
  match ls with [] => true | n :: r => forallb (Nat.eqb n) r end.

Fixpoint str_list_eqb (a b : list string) : bool :=
  match a, b with
  | [], [] => true
  | x :: a', y :: b' => String.eqb x y && str_list_eqb a' b'
  | _, _ => false
  end.

Definition dec_eqb (a b : dec) : bool := Z.eqb (fst a) (fst b) && Z.eqb (snd a) (snd b).
Definition prec_eqb (a b : prec) : bool :=
  String.eqb (p_sys a) (p_sys b) && String.eqb (p_sat a) (p_sat b)
  && (let '(y, mo, d, h, mi) := p_civil a in let '(y', mo', d', h', mi') := p_civil b in
      Z.eqb y y' && Z.eqb mo mo' && Z.eqb d d' && Z.eqb h h' && Z.eqb mi mi')
  && Qeq_bool (dec_toQ (p_sec a)) (dec_toQ (p_sec b))
  && Nat.eqb (length (p_vals a)) (length (p_vals b))
  && forallb (fun x => match alookup (fst x) (p_vals b) with Some d => dec_eqb (snd x) d | None => false end) (p_vals a).

Definition time_cols_eqb (a b : cols) : bool :=
  all2 (fun x y : string * list Q => String.eqb (fst x) (fst y) && all2 Qeq_bool (snd x) (snd y)) (c_time a) (c_time b).

Definition has_lower_d (r : nrec) : bool :=
  existsb (fun o => match o with Some n => (n_ec n =? "d")%char | None => false end) (r_nums r).
Definition blank_idx (v : version) (r : nrec) : bool :=
  negb (skipped r) &&
  match nth_error (r_nums r) (if is_v3 v then 1 else 2) with Some None => true | _ => false end.

(* ------------------------------------------------------------------------------ the system of a RINEX 2 file: its name *)
(* pathlib: PurePath.suffixes / .stem on the file name *)
Fixpoint split_dot (s : string) : list string :=
  match s with
  | EmptyString => [EmptyString]
  | String c r =>
      match split_dot r with
      | h :: t => if (c =? ".")%char then EmptyString :: h :: t else String c h :: t
      | [] => [String c EmptyString]
      end
  end.
Definition is_dot (c : ascii) : bool := (c =? ".")%char.
Definition suffixes (name : string) : list string :=
  match last_char name with
  | Some c => if is_dot c then [] else map (fun x => "." ++ x) (tl (split_dot (lstrip_by is_dot name)))
  | None => []
  end.
Definition py_stem (name : string) : string :=
  match rev (split_dot name) with
  | last :: (x :: r) =>
      let st := join "." (rev (x :: r)) in
      if String.eqb last "" || String.eqb st "" then name else st
  | _ => name
  end.
Definition lower (c : ascii) : ascii :=
  let n := nat_of_ascii c in if ((65 <=? n) && (n <=? 90))%nat then ascii_of_nat (n + 32) else c.
Definition upper (c : ascii) : ascii :=
  let n := nat_of_ascii c in if ((97 <=? n) && (n <=? 122))%nat then ascii_of_nat (n - 32) else c.
Fixpoint contains (sub s : string) : bool :=
  startswith sub s || match s with String _ r => contains sub r | EmptyString => false end.
Definition char_from_end (k : nat) (s : string) : option ascii :=     (* s[-k] *)
  if (len s <? k)%nat then None else first_char (drop (len s - k) s).

(* Rinex2NavParser / Rinex212NavParser._get_system_from_file_extension; ext = SYSTEM_FILE_EXTENSION (regenerated).
   None = the call raises (IndexError / log.fatal) *)
Definition sys_of_name (v : version) (ext : list (string * string)) (name : string) : option string :=
  match v with
  | V3 => Some ""
  | V2 =>
      match suffixes name with
      | s0 :: _ => match last_char s0 with Some c => alookup (String (lower c) EmptyString) ext | None => None end
      | [] => None
      end
  | V212 =>
      match suffixes name with
      | s0 :: _ as sf =>
          let fname := if mem ".gz" sf then py_stem name else name in
          if contains ".rnx" s0 then
            match char_from_end 6 fname with Some c => Some (String (upper c) EmptyString) | None => None end
          else match last_char s0 with Some c => alookup (String (lower c) EmptyString) ext | None => None end
      | [] => None
      end
  end.

(* the naming conventions: ssssdddf.yyt[.gz] (t = n GPS, g GLONASS, l Galileo) and, for 2.12 also, the long names
   ..._<S>N.rnx[.gz] with the system letter S *)
Definition spec_ext : list (string * string) := [("n", "G"); ("g", "R"); ("l", "E")].

Inductive observed := ObsCols (o : obs) | ObsError (e : string).

Record case := mkCase {
  k_ver : version;
  k_hdr : string;          (* satellite system of the header line (v3) *)
  k_sys2 : string;         (* system from the file extension (v2) *)
  k_name : string;         (* file name *)
  k_ext : list (string * string);   (* regenerated SYSTEM_FILE_EXTENSION of the parser (v2) *)
  k_table : table;         (* the regenerated table of the parser under test *)
  k_lines : list string;   (* body of the file as written by the independent writer *)
  k_recs : list nrec;      (* the generating model *)
  k_obs : observed;        (* as_dict() *)
  k_ds : option obs        (* as_dataset() of the same parse, when taken *)
}.

(* verdicts:
     0  the implementation's output is the specification's
     1  unexplained difference
     2  equals the model with q_elif (and the seconds-of-week arithmetic, harmless on this file)
     3  equals the model with q_sow            4  with q_elif + q_sow, both visible
     5  ValueError where the model with q_lower_d predicts it (a lower-case d exponent in the file)
     6  the independent writer's text differs from the format's render_body (harness defect)
     7  IndexError where the model with q_blank_idx predicts it (blank clock drift / drift rate)
     8  equals the model with q_ms (+ possibly cross-over quirks)
     9  output is the specification's, but the model run on the regenerated table does not reproduce it
    10  columns of unequal length
    12  (v2) the system the model derives from the file name with the regenerated extension table is not the file's system
    13  TypeError where the model with the v2 BeiDou quirk predicts it (rinex2/rinex212 file of system C) *)
Definition check_file (k : case) : Z :=
  let v := k_ver k in
  if negb (str_list_eqb (map rstrip (k_lines k)) (map rstrip (render_body v (k_recs k)))) then 6%Z else
  if negb (is_v3 v) && negb (match sys_of_name v (k_ext k) (k_name k) with Some s => String.eqb s (k_sys2 k) | None => false end)
  then 12%Z else
  let ps := map (prec_of v (k_sys2 k)) (filter (fun r => negb (skipped r)) (k_recs k)) in
  match k_obs k with
  | ObsError e =>
      if String.eqb e "ValueError" && existsb (fun r => negb (skipped r) && has_lower_d r) (k_recs k) then 5%Z
      else if String.eqb e "IndexError" && existsb (blank_idx v) (k_recs k) then 7%Z
      else if String.eqb e "TypeError" && negb (is_v3 v) && String.eqb (k_sys2 k) "C" then 13%Z
      else 1%Z
  | ObsCols o =>
      if negb (lens_equal o) then 10%Z else
      if negb (match k_ds k with Some o2 => lens_equal o2 | None => true end) then 10%Z else
      let m := fun q => let c := build_cols v q (k_hdr k) (k_sys2 k) ps in
                        obs_match c o && match k_ds k with Some o2 => obs_match c o2 | None => true end in
      let bc := fun q => build_cols v q (k_hdr k) (k_sys2 k) ps in
      if m spec_q then
        match parse_body v spec_q (k_sys2 k) (k_table k) (k_lines k) with
        | Some ps' => if all2 prec_eqb ps ps' then 0%Z else 9%Z
        | None => 9%Z
        end
      else if m (mkQ false false false true false) then 3%Z
      else if m (mkQ false false true true false) then
        (* the code's arithmetic on seconds of week is harmless on this file?  then it is the if/elif alone *)
        (if time_cols_eqb (bc (mkQ false false false true false)) (bc spec_q) then 2%Z else 4%Z)
      else if m (mkQ false false true false false) then 2%Z
      else if m (mkQ false false false false true) || m (mkQ false false true false true)
              || m (mkQ false false false true true) || m (mkQ false false true true true) then 8%Z
      else 1%Z
  end.
