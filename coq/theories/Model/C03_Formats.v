(* C03 - the duration formats as READ FROM THE SOURCE: program language for the bodies of
   TimeDelta{JD,Sec,Day,DateTime}._to_jds / _from_jds, its interpreter, and the decision procedure that
   compares a body with the specification `to_jds` / `from_jds` of Model/C03_TimeArith.v.

   A body is a straight-line program (every try/except alternative is one path) over two inputs
   (to: val, val2 in format units, a timedelta standing for its total seconds; from: jd1, jd2) built from
   + - unary minus, multiplication by a named unit constant `Unit.<name>`, `np.floor`, and
   `timedelta(days=e)`.  Executable definitions only. *)
From Coq Require Import ZArith QArith Qabs Qround List Bool String.
From Verif Require Import Lib.Dyadic Model.C03_TimeArith.
Import ListNotations.
Open Scope Q_scope.

Inductive fvar : Set := V1 | V2.
Inductive fexpr : Set :=
| FVar (v : fvar)
| FAdd (a b : fexpr)
| FSub (a b : fexpr)
| FNeg (a : fexpr)
| FScale (name : string) (d : dy) (a : fexpr)   (* a * Unit.<name>; d = the value the attribute has at run time *)
| FFloor (a : fexpr)                            (* np.floor(a) *)
| FTdDays (a : fexpr).                          (* datetime.timedelta(days=a), as total seconds (before the rounding to microseconds) *)

(* what the unit constants are meant to be (exact); the run-time doubles are checked against these *)
Definition unit_ideal (name : string) : option Q :=
  if String.eqb name "second2day" || String.eqb name "seconds2day" then Some (1 # 86400)
  else if String.eqb name "day2second" || String.eqb name "day2seconds" then Some 86400
  else if String.eqb name "minute2day" || String.eqb name "minutes2day" then Some (1 # 1440)
  else if String.eqb name "day2minute" || String.eqb name "day2minutes" then Some 1440
  else if String.eqb name "hour2day" || String.eqb name "hours2day" then Some (1 # 24)
  else if String.eqb name "day2hour" || String.eqb name "day2hours" then Some 24
  else None.
Definition unit_val (name : string) : Q := match unit_ideal name with Some k => k | None => 0 end.

Fixpoint feval (e : fexpr) (x y : Q) : Q :=
  match e with
  | FVar V1 => x
  | FVar V2 => y
  | FAdd a b => feval a x y + feval b x y
  | FSub a b => feval a x y - feval b x y
  | FNeg a => - feval a x y
  | FScale n _ a => feval a x y * unit_val n
  | FFloor a => inject_Z (Qfloor (feval a x y))
  | FTdDays a => feval a x y * 86400
  end.

(* every constant used is a known unit and its run-time value is the double nearest to the ideal value *)
Fixpoint consts_ok (e : fexpr) : bool :=
  match e with
  | FVar _ => true
  | FAdd a b | FSub a b => consts_ok a && consts_ok b
  | FNeg a | FFloor a | FTdDays a => consts_ok a
  | FScale n d a =>
      match unit_ideal n with Some k => is_nearest_double k d | None => false end && consts_ok a
  end.

(* normal form:  a*x + b*y + sum_i c_i * floor(a_i*x + b_i*y) *)
Definition lin2 : Set := (Q * Q)%type.
Record nf : Set := mkNf { nlin : lin2; nfl : list (Q * lin2) }.
Definition l2add (p q : lin2) : lin2 := (fst p + fst q, snd p + snd q).
Definition l2scale (k : Q) (p : lin2) : lin2 := (k * fst p, k * snd p).
Definition l2eval (p : lin2) (x y : Q) : Q := fst p * x + snd p * y.
Definition l2eqb (p q : lin2) : bool := Qeq_bool (fst p) (fst q) && Qeq_bool (snd p) (snd q).
Definition nf_scale (k : Q) (n : nf) : nf := mkNf (l2scale k (nlin n)) (map (fun t => (k * fst t, snd t)) (nfl n)).
Definition nf_add (m n : nf) : nf := mkNf (l2add (nlin m) (nlin n)) (nfl m ++ nfl n).
Definition floors_eval (l : list (Q * lin2)) (x y : Q) : Q :=
  fold_right (fun t acc => fst t * inject_Z (Qfloor (l2eval (snd t) x y)) + acc) 0 l.
Definition nf_eval (n : nf) (x y : Q) : Q := l2eval (nlin n) x y + floors_eval (nfl n) x y.

Fixpoint nf_of (e : fexpr) : option nf :=
  match e with
  | FVar V1 => Some (mkNf (1, 0) [])
  | FVar V2 => Some (mkNf (0, 1) [])
  | FAdd a b => match nf_of a, nf_of b with Some m, Some n => Some (nf_add m n) | _, _ => None end
  | FSub a b => match nf_of a, nf_of b with Some m, Some n => Some (nf_add m (nf_scale (-1) n)) | _, _ => None end
  | FNeg a => match nf_of a with Some m => Some (nf_scale (-1) m) | None => None end
  | FScale n _ a => match nf_of a with Some m => Some (nf_scale (unit_val n) m) | None => None end
  | FTdDays a => match nf_of a with Some m => Some (nf_scale 86400 m) | None => None end
  | FFloor a =>
      match nf_of a with
      | Some m => match nfl m with [] => Some (mkNf (0, 0) [(1, nlin m)]) | _ => None end   (* floor of a floor-free argument only *)
      | None => None
      end
  end.

(* n denotes  lin_s(x,y) + c_s * floor(atom_s(x,y)) : same linear part, every floor has the argument atom_s,
   and the floor coefficients sum to c_s *)
Definition nf_is (n : nf) (lin_s : lin2) (c_s : Q) (atom_s : lin2) : bool :=
  l2eqb (nlin n) lin_s
  && forallb (fun t => l2eqb (snd t) atom_s) (nfl n)
  && Qeq_bool (fold_right (fun t acc => fst t + acc) 0 (nfl n)) c_s.

Definition expr_is (e : fexpr) (lin_s : lin2) (c_s : Q) (atom_s : lin2) : bool :=
  consts_ok e && match nf_of e with Some n => nf_is n lin_s c_s atom_s | None => false end.

(* one format as read from the source: every path of _to_jds returns (e1, e2), every path of _from_jds returns e *)
Record fmt_src : Set := mkFmtSrc {
  fs_name : string;
  fs_val2_defaults_to_zero : bool;            (* the `if val2 is None:` prelude assigns zeros *)
  fs_to : list (fexpr * fexpr);
  fs_from : list fexpr
}.

Definition dfmt_of_name (s : string) : option dfmt :=
  if String.eqb s "days" then Some DDays else if String.eqb s "jd" then Some DJd
  else if String.eqb s "seconds" then Some DSeconds else if String.eqb s "timedelta" then Some DTimedelta else None.

Definition fmt_src_ok (fs : fmt_src) : bool :=
  match dfmt_of_name (fs_name fs) with
  | None => false
  | Some f =>
      let u := unit_days f in
      fs_val2_defaults_to_zero fs
      && negb (match fs_to fs with [] => true | _ => false end)
      && negb (match fs_from fs with [] => true | _ => false end)
      && forallb (fun p => expr_is (fst p) (0, 0) 1 (u, u) && expr_is (snd p) (u, u) (-1) (u, u)) (fs_to fs)
      && forallb (fun e => expr_is e (/ u, / u) 0 (0, 0)) (fs_from fs)
  end.

Definition fmt_srcs_ok (l : list fmt_src) : bool :=
  forallb fmt_src_ok l
  && forallb (fun name => existsb (fun fs => String.eqb (fs_name fs) name) l) ["days"; "jd"; "seconds"; "timedelta"]%string.
