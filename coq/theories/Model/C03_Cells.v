(* C03 - operand integrity: a state machine of constructor / arithmetic calls over CELLS.
   A cell is an ndarray the caller can see: identity (its index in the heap), contents, flags.writeable.
   Objects (Time / TimeDelta) own two cells (jd1, jd2).  `cstep q` is one call; `cstep cq_off` is the
   specification: it only ever allocates fresh cells (results, frozen) - it never writes to, freezes or
   aliases a cell that existed before the call.  The two quirks are the historical defects:
     cq_seconds_inplace  TimeDelta(fmt="seconds") scales the caller's val / val2 arrays in place (`val *= ...`)
     cq_val2_aliased     TimeDelta(fmt="days"|"jd", val2=array): `val2 += val - whole` overwrites the caller's array,
                         which then becomes the jd2 of the new object and is frozen (seeded change C03-b/2)
   Executable definitions only. *)
From Coq Require Import ZArith QArith Qabs Qround List Bool String.
From Verif Require Import Lib.Dyadic Model.C03_TimeArith.
Import ListNotations.
Open Scope Q_scope.

Record cell : Set := mkCell { c_data : list Q; c_writeable : bool }.
Definition heap : Set := list cell.
Inductive arg : Set := ACell (id : nat) | AScalar (x : Q) | ANone.
Record tobj : Set := mkTObj { t_kind : kind; t_scale : string; t_jd1 : nat; t_jd2 : nat }.
Record state : Set := mkState { st_heap : heap; st_objs : list tobj }.

Inductive call : Set :=
| NewDelta (f : dfmt) (scale : string) (val val2 : arg)      (* TimeDelta(val, scale, fmt, val2) *)
| NewTimeJd (scale : string) (val val2 : arg)                (* Time(val, scale, "jd", val2) *)
| Arith (op : opname) (a b : nat)                            (* objs[a] + objs[b] / objs[a] - objs[b] *)
| NegD (a : nat)                                             (* -objs[a] *)
| ReadOut (f : dfmt) (a : nat).                              (* objs[a].days / .seconds / .jd / .timedelta *)

Record cquirks : Set := mkCQ { cq_seconds_inplace : bool; cq_val2_aliased : bool }.
Definition cq_off : cquirks := mkCQ false false.

Definition cell_at (h : heap) (id : nat) : cell := nth id h (mkCell [] false).
Definition arg_data (h : heap) (a : arg) : list Q :=
  match a with ACell id => c_data (cell_at h id) | AScalar x => [x] | ANone => [] end.

(* numpy broadcasting of a scalar / missing second argument against the first *)
Fixpoint zip_bcast (xs ys : list Q) : list (Q * Q) :=
  match xs with
  | [] => []
  | x :: xs' =>
      match ys with
      | [] => (x, 0) :: zip_bcast xs' []
      | [y] => (x, y) :: zip_bcast xs' (match xs' with [] => [] | _ => [y] end)
      | y :: ys' => (x, y) :: zip_bcast xs' ys'
      end
  end.

Fixpoint set_cell (h : heap) (id : nat) (c : cell) : heap :=
  match h, id with
  | [], _ => []
  | _ :: r, O => c :: r
  | x :: r, S n => x :: set_cell r n c
  end.

Definition jd_time_split (v v2 : Q) : jds :=        (* TimeJD._to_jds: jd1 = floor(v + v2 - 1/2) + 1/2 *)
  let w := inject_Z (Qfloor (v + v2 - (1 # 2))) + (1 # 2) in mkJ w (v + v2 - w).

(* in-place scaling of an argument cell (quirk): only possible on a writeable array *)
Definition scale_arg_inplace (h : heap) (a : arg) : heap :=
  match a with
  | ACell id =>
      let c := cell_at h id in
      if c_writeable c then set_cell h id (mkCell (map (fun x => x * (1 # 86400)) (c_data c)) true) else h
  | _ => h
  end.

Definition alloc2 (st : state) (k : kind) (sc : string) (ps : list jds) : state :=
  let n := List.length (st_heap st) in
  mkState (st_heap st ++ [mkCell (map jd1 ps) false; mkCell (map jd2 ps) false])
          (st_objs st ++ [mkTObj k sc n (S n)]).

Definition obj_parts (st : state) (o : tobj) : list (Q * Q) :=
  zip_bcast (c_data (cell_at (st_heap st) (t_jd1 o))) (c_data (cell_at (st_heap st) (t_jd2 o))).

Definition cstep (q : cquirks) (st : state) (c : call) : state :=
  match c with
  | NewDelta f sc val val2 =>
      let h := st_heap st in
      let seconds_q := cq_seconds_inplace q && match f with DSeconds => true | _ => false end in
      let alias_q := cq_val2_aliased q && match f with DDays | DJd => true | _ => false end in
      let ps := map (fun p => to_jds f (fst p) (snd p)) (zip_bcast (arg_data h val) (arg_data h val2)) in
      if seconds_q then
        alloc2 (mkState (scale_arg_inplace (scale_arg_inplace h val) val2) (st_objs st)) KDelta sc ps
      else if alias_q then
        match val2 with
        | ACell id =>
            if c_writeable (cell_at h id) then
              (* the caller's val2 array is overwritten with the fractions, frozen, and IS the object's jd2 *)
              let h' := set_cell h id (mkCell (map jd2 ps) false) in
              mkState (h' ++ [mkCell (map jd1 ps) false]) (st_objs st ++ [mkTObj KDelta sc (List.length h') id])
            else st                                    (* in-place add on a read-only array raises *)
        | _ => alloc2 st KDelta sc ps
        end
      else alloc2 st KDelta sc ps
  | NewTimeJd sc val val2 =>
      let h := st_heap st in
      alloc2 st KTime sc (map (fun p => jd_time_split (fst p) (snd p)) (zip_bcast (arg_data h val) (arg_data h val2)))
  | Arith op a b =>
      match nth_error (st_objs st) a, nth_error (st_objs st) b with
      | Some oa, Some ob =>
          if negb (kind_eqb (t_kind oa) (self_kind op)) then st else
          let pa := obj_parts st oa in
          let pb := obj_parts st ob in
          let rs := map (fun pq => spec op (mkObj (t_kind oa) (t_scale oa) "jd" (mkJ (fst (fst pq)) (snd (fst pq))))
                                           (mkObj (t_kind ob) (t_scale ob) "jd" (mkJ (fst (snd pq)) (snd (snd pq)))))
                        (combine pa pb) in
          match rs with
          | Some r :: _ =>
              alloc2 st (okind r) (oscale r) (map (fun x => match x with Some o => ojd o | None => mkJ 0 0 end) rs)
          | _ => st                                    (* refused: nothing happens *)
          end
      | _, _ => st
      end
  | NegD a =>
      match nth_error (st_objs st) a with
      | Some oa => alloc2 st (t_kind oa) (t_scale oa) (map (fun p => jneg (mkJ (fst p) (snd p))) (obj_parts st oa))
      | None => st
      end
  | ReadOut f a =>
      match nth_error (st_objs st) a with
      | Some oa =>
          mkState (st_heap st ++ [mkCell (map (fun p => from_jds f (mkJ (fst p) (snd p))) (obj_parts st oa)) true]) (st_objs st)
      | None => st
      end
  end.

Definition crun (q : cquirks) (st : state) (cs : list call) : state := fold_left (cstep q) cs st.

(* ------------------------------------------------------------------ correspondence: observed cells against the machine *)
Definition ocell : Set := (list dy * bool)%type.            (* contents as exact doubles, flags.writeable *)
Definition cell_of (o : ocell) : cell :=
  mkCell (map (fun d => match dy_toQ d with Some x => x | None => 0 end) (fst o)) (snd o).

Fixpoint forall2b {A B : Type} (p : A -> B -> bool) (xs : list A) (ys : list B) : bool :=
  match xs, ys with
  | [], [] => true
  | x :: xs', y :: ys' => p x y && forall2b p xs' ys'
  | _, _ => false
  end.

Definition cell_obs (strict : bool) (m : cell) (o : ocell) : bool :=
  Bool.eqb (c_writeable m) (snd o)
  && forall2b (fun x d => if strict then match dy_toQ d with Some v => Qeq_bool v x | None => false end
                          else within_ulps 2 x d) (c_data m) (fst o).

Definition heap_obs (strict : bool) (h : heap) (os : list ocell) : bool :=
  forall2b (cell_obs strict) (firstn (List.length os) h) os.

(* constructor call on caller arrays: cells before, the call (arguments refer to those cells), cells after.
   0 = as the specification (untouched), 5 = cq_seconds_inplace, 7 = cq_val2_aliased, 1 = some other change *)
Definition check_cells_ctor (c : list ocell * call * list ocell) : Z :=
  let '(before, cl, after) := c in
  let st := mkState (map cell_of before) [] in
  if heap_obs true (st_heap (cstep cq_off st cl)) after then 0%Z
  else if heap_obs false (st_heap (cstep (mkCQ true false) st cl)) after then 5%Z
  else if heap_obs false (st_heap (cstep (mkCQ false true) st cl)) after then 7%Z
  else 1%Z.

(* arithmetic / unary minus / read-out on two objects owning cells 0,1 and 2,3 *)
Definition check_cells_op (c : list ocell * (kind * kind) * call * list ocell) : Z :=
  let '(before, ks, cl, after) := c in
  let st := mkState (map cell_of before) [mkTObj (fst ks) "s" 0 1; mkTObj (snd ks) "s" 2 3] in
  if heap_obs true (st_heap (cstep cq_off st cl)) after then 0%Z else 1%Z.
