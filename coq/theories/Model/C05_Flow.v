(* C05 - a position keeps the ellipsoid it was created with (DESIGN 4.5): the flow model.

   An object is (kind, tag): a Position or a PosVel array and the index of its reference ellipsoid.  Every operation that
   derives a new object from it builds the result through one or more *constructor call sites* of midgard/data/_position.py;
   the result carries the tag iff every one of these sites hands the ellipsoid over, otherwise the constructor's default.
   Which sites do is not written here: it is the regenerated table Gen/C05_EllipsoidFlow.forwarding_table (parameter `tbl`).
   Specification = the model with a table that forwards everywhere (`spec_step`: the tag never changes). *)
From Coq Require Import ZArith List Bool String.
From Verif Require Import Gen.C05_EllipsoidFlow.
Import ListNotations.
Open Scope string_scope.

Inductive kind := KPos | KPosVel.

Inductive op :=
| OConvert      (* .llh / .trs / .kepler       : PosBase.to_system -> <Class>.convert_to *)
| OGetitem      (* obj[i], obj[a:b]            : PositionArray.__getitem__ (PosVelArray inherits it) *)
| OSubset       (* obj.subset(idx, memo)       : PositionArray.subset (inherited) *)
| ODeepcopy     (* copy.deepcopy(obj)          : <Class>.__deepcopy__ -> <Class>.create *)
| OAddDelta     (* obj + delta                 : self.from_position -> PositionArray.from_position *)
| OSubDelta     (* obj - delta                 : the same *)
| ODiffRef      (* (obj - other).ref_pos       : PositionDeltaArray.from_position(ref_pos = obj) *)
| OInsert       (* Class.insert(obj, i, other) : PositionArray.insert (inherited); keeps obj's ellipsoid *)
| OPos          (* posvel.pos                  : PosVelArray.pos; the identity on a Position *)
| OView         (* obj[[i, j]], obj.copy()     : plain ndarray derivation -> __array_finalize__ *)
| OCreate       (* Position(obj.val, obj.system, ellipsoid = obj.ellipsoid) : the factory <Class>.create *)
| OEmptyFrom    (* PositionArray.empty_from(obj): NaN array "of the same type" (used by insert for missing attributes) *)
| OFromPosvel.  (* PosVelArray.from_posvel(val, obj); the identity on a Position *)

Definition op_eqb (a b : op) : bool :=
  match a, b with
  | OConvert, OConvert | OGetitem, OGetitem | OSubset, OSubset | ODeepcopy, ODeepcopy | OAddDelta, OAddDelta
  | OSubDelta, OSubDelta | ODiffRef, ODiffRef | OInsert, OInsert | OPos, OPos | OView, OView | OCreate, OCreate
  | OEmptyFrom, OEmptyFrom | OFromPosvel, OFromPosvel => true
  | _, _ => false
  end.

Definition all_ops : list op :=
  [OConvert; OGetitem; OSubset; ODeepcopy; OAddDelta; OSubDelta; ODiffRef; OInsert; OPos; OView; OCreate; OEmptyFrom; OFromPosvel].

(* the constructor call sites the result of an operation is built through *)
Definition sites (k : kind) (o : op) : list string :=
  match o, k with
  | OConvert, KPos => ["PositionArray.convert_to#0"]
  | OConvert, KPosVel => ["PosVelArray.convert_to#0"]
  | OGetitem, _ => ["PositionArray.__getitem__#0"]
  | OSubset, _ => ["PositionArray.subset#0"]
  | ODeepcopy, KPos => ["PositionArray.__deepcopy__#0"; "PositionArray.create#0"]
  | ODeepcopy, KPosVel => ["PosVelArray.__deepcopy__#0"; "PosVelArray.create#0"]
  | OAddDelta, _ | OSubDelta, _ => ["PositionArray.from_position#0"]
  | ODiffRef, _ => ["PositionDeltaArray.from_position#0"]
  | OInsert, _ => ["PositionArray.insert#0"]
  | OPos, KPos => []
  | OPos, KPosVel => ["PosVelArray.pos#0"]
  | OView, _ => ["PositionArray.__array_finalize__#0"]
  | OCreate, KPos => ["PositionArray.create#0"]
  | OCreate, KPosVel => ["PosVelArray.create#0"]
  | OEmptyFrom, _ => ["PositionArray.empty_from#0"]
  | OFromPosvel, KPos => []
  | OFromPosvel, KPosVel => ["PosVelArray.from_posvel#0"]
  end.

Definition kind_after (k : kind) (o : op) : kind := match o with OPos => KPos | _ => k end.

Definition table := list (string * bool).

Fixpoint forwards (tbl : table) (s : string) : bool :=
  match tbl with
  | [] => false                                   (* a site the table does not know: fail closed *)
  | (n, b) :: t => if String.eqb n s then b else forwards t s
  end.

Definition op_forwards (tbl : table) (k : kind) (o : op) : bool := forallb (forwards tbl) (sites k o).

Definition state := (kind * nat)%type.

Definition step (tbl : table) (dflt : nat) (s : state) (o : op) : state :=
  let '(k, t) := s in (kind_after k o, if op_forwards tbl k o then t else dflt).

Definition run (tbl : table) (dflt : nat) (ops : list op) (s : state) : state := fold_left (step tbl dflt) ops s.

(* the specification: the ellipsoid never changes *)
Definition spec_step (s : state) (o : op) : state := let '(k, t) := s in (kind_after k o, t).
Definition spec_run (ops : list op) (s : state) : state := fold_left spec_step ops s.

(* every site of the table forwards, and the table knows every site the model uses *)
Definition model_sites : list string :=
  flat_map (fun o => (sites KPos o ++ sites KPosVel o)%list) all_ops.
Fixpoint knows (tbl : table) (s : string) : bool :=
  match tbl with [] => false | (n, _) :: t => String.eqb n s || knows t s end.
Definition table_all_true (tbl : table) : bool :=
  forallb (fun e => snd e) tbl && forallb (knows tbl) model_sites.

(* an operation list all of whose steps go through forwarding sites only (kinds tracked along the way) *)
Fixpoint ops_forward (tbl : table) (k : kind) (ops : list op) : bool :=
  match ops with
  | [] => true
  | o :: t => op_forwards tbl k o && ops_forward tbl (kind_after k o) t
  end.

(* the sites that dropped the ellipsoid on the tree as it was when this check was written (quirk c05_ellipsoid_dropped);
   only used for the `_refuted` witness: the run itself always uses the regenerated table *)
Definition dropping_table_2026 : table :=
  map (fun s => (s, negb (existsb (String.eqb s)
     ["PositionArray.from_position#0"; "PositionArray.empty_from#0"; "PositionArray.convert_to#0"; "PositionArray.subset#0";
      "PositionArray.__deepcopy__#0"; "PosVelArray.from_posvel#0"; "PosVelArray.convert_to#0"; "PosVelArray.pos#0";
      "PosVelArray.__deepcopy__#0"]))) model_sites.

(* ---------------------------------------------------------------- correspondence *)
(* observed history: the tags of the results of the operations, in order.
   0 = every tag is the initial one (specification); 2 = the tags are those of the model run over the regenerated table
   (some site drops the ellipsoid: quirk c05_ellipsoid_dropped); 1 = neither *)
Fixpoint tags_along (stepf : state -> op -> state) (s : state) (ops : list op) : list nat :=
  match ops with
  | [] => []
  | o :: t => let s' := stepf s o in snd s' :: tags_along stepf s' t
  end.

Fixpoint nats_eqb (a b : list nat) : bool :=
  match a, b with
  | [], [] => true
  | x :: a', y :: b' => Nat.eqb x y && nats_eqb a' b'
  | _, _ => false
  end.

Definition check_flow (c : nat * bool * nat * list op * list nat) : Z :=
  let '(dflt, posvel, tag, ops, observed) := c in
  let s0 : state := (if posvel then KPosVel else KPos, tag) in
  if nats_eqb observed (tags_along spec_step s0 ops) then 0%Z
  else if nats_eqb observed (tags_along (step forwarding_table dflt) s0 ops) then 2%Z
  else 1%Z.

(* which sites of the regenerated table drop the ellipsoid (for the report) *)
Definition dropping_sites (tbl : table) : list string :=
  map fst (filter (fun e => negb (snd e)) tbl).
