(* C05 - a position keeps the ellipsoid it was created with (DESIGN 4.5): the flow model.

   An object is (kind, tag): a Position or a PosVel array and the index of its reference ellipsoid.  Every operation that
   derives a new object from it builds the result through one or more *constructor call sites* of midgard/data/_position.py;
   the result carries the tag iff every one of these sites hands the ellipsoid over, otherwise the constructor's default.
   Which sites do is not written here: it is the regenerated table Gen/C05_EllipsoidFlow.forwarding_table (parameter `tbl`).
   Specification = the model with a table that forwards everywhere (`spec_step`: the tag never changes). *)
From Coq Require Import ZArith List Bool String.
From Verif Require Import Gen.C05_EllipsoidFlow.
Import ListNotations.
Open Scope string_scope.

(* Position, PosVel, PositionDelta, PosVelDelta, Velocity (posvel.vel), VelocityDelta (posveldelta.vel).  The tag of a
   delta / velocity is the ellipsoid of its reference position (it has none of its own). *)
Inductive kind := KPos | KPosVel | KDelta | KPvDelta | KVel | KVelDelta.

Inductive op :=
| OConvert      (* .llh / .trs / .kepler / delta.enu / .acr : PosBase.to_system -> <Class>.convert_to; for a velocity (no
                   conversion is registered) the classmethod <Velocity class>.convert_to(vel, identity) called directly *)
| OGetitem      (* obj[i], obj[a:b]            : <Class>.__getitem__ (a delta slices its ref_pos too) *)
| OSubset       (* obj.subset(idx, memo)       : <Class>.subset (a delta subsets its ref_pos too) *)
| ODeepcopy     (* copy.deepcopy(obj)          : <Class>.__deepcopy__ -> <Class>.create (a delta copies its ref_pos too) *)
| OAddDelta     (* pos + delta : self.from_position;  delta + delta : from_position_delta *)
| OSubDelta     (* the same with - *)
| ODiffRef      (* (obj - other).ref_pos       : PositionDeltaArray.from_position(ref_pos = obj); back on obj *)
| OInsert       (* Class.insert(obj, i, other) : <Class>.insert; keeps obj's ellipsoid (a delta inserts into its ref_pos too) *)
| OPos          (* posvel.pos / posveldelta.pos; the identity on a Position / PositionDelta *)
| OView         (* obj[[i, j]], obj.copy()     : plain ndarray derivation -> __array_finalize__ *)
| OCreate       (* Position(obj.val, obj.system, ellipsoid = obj.ellipsoid) / PositionDelta(val, system, ref_pos) : <Class>.create *)
| OEmptyFrom    (* PositionArray.empty_from(obj); PositionDeltaArray.empty_from(stub with .ref_pos/.system/.shape/.ellipsoid) *)
| OFromPosvel   (* PosVelArray.from_posvel(val, obj) *)
| ODiff         (* obj - other                 : PositionDeltaArray.from_position; the result is the delta *)
| ORefPos       (* delta.ref_pos / vel.ref_pos : attribute access *)
| OVel          (* posvel.vel (ref_pos = self.pos) / posveldelta.vel *)
| OWriteRead.   (* Dataset.add_<type>(obj); write; Dataset.read(...).<field> : <Class>._read -> <Class>.create *)

Definition op_eqb (a b : op) : bool :=
  match a, b with
  | OConvert, OConvert | OGetitem, OGetitem | OSubset, OSubset | ODeepcopy, ODeepcopy | OAddDelta, OAddDelta
  | OSubDelta, OSubDelta | ODiffRef, ODiffRef | OInsert, OInsert | OPos, OPos | OView, OView | OCreate, OCreate
  | OEmptyFrom, OEmptyFrom | OFromPosvel, OFromPosvel | ODiff, ODiff | ORefPos, ORefPos | OVel, OVel
  | OWriteRead, OWriteRead => true
  | _, _ => false
  end.

Definition all_ops : list op :=
  [OConvert; OGetitem; OSubset; ODeepcopy; OAddDelta; OSubDelta; ODiffRef; OInsert; OPos; OView; OCreate; OEmptyFrom; OFromPosvel;
   ODiff; ORefPos; OVel; OWriteRead].
Definition all_kinds : list kind := [KPos; KPosVel; KDelta; KPvDelta; KVel; KVelDelta].

(* the constructor call sites the result of an operation is built through ([] = not applicable / no constructor involved) *)
Definition sites (k : kind) (o : op) : list string :=
  match o, k with
  | OConvert, KPos => ["PositionArray.convert_to#0"]
  | OConvert, KPosVel => ["PosVelArray.convert_to#0"]
  | OConvert, (KDelta | KPvDelta) => ["PositionDeltaArray.convert_to#0"]
  | OConvert, KVel => ["VelocityArray.convert_to#0"]
  | OConvert, KVelDelta => ["VelocityDeltaArray.convert_to#0"]
  | OGetitem, (KPos | KPosVel) => ["PositionArray.__getitem__#0"]
  | OGetitem, (KDelta | KPvDelta) => ["PositionDeltaArray.__getitem__#0"; "PositionArray.__getitem__#0"]
  | OSubset, (KPos | KPosVel) => ["PositionArray.subset#0"]
  | OSubset, (KDelta | KPvDelta) => ["PositionDeltaArray.subset#0"; "PositionArray.subset#0"]
  | ODeepcopy, KPos => ["PositionArray.__deepcopy__#0"; "PositionArray.create#0"]
  | ODeepcopy, KPosVel => ["PosVelArray.__deepcopy__#0"; "PosVelArray.create#0"]
  | ODeepcopy, KDelta => ["PositionDeltaArray.__deepcopy__#0"; "PositionDeltaArray.create#0";
                          "PositionArray.__deepcopy__#0"; "PositionArray.create#0"]
  | ODeepcopy, KPvDelta => ["PosVelDeltaArray.__deepcopy__#0"; "PosVelDeltaArray.create#0";
                            "PosVelArray.__deepcopy__#0"; "PosVelArray.create#0"]
  | (OAddDelta | OSubDelta), (KPos | KPosVel) => ["PositionArray.from_position#0"]
  | (OAddDelta | OSubDelta), (KDelta | KPvDelta) => ["PositionDeltaArray.from_position_delta#0"]
  | (ODiffRef | ODiff), (KPos | KPosVel) => ["PositionDeltaArray.from_position#0"]
  | OInsert, (KPos | KPosVel) => ["PositionArray.insert#0"]
  | OInsert, (KDelta | KPvDelta) => ["PositionDeltaArray.insert#0"; "PositionArray.insert#0"]
  | OPos, KPosVel => ["PosVelArray.pos#0"]
  | OPos, KPvDelta => ["PosVelDeltaArray.pos#0"]
  | OVel, KPosVel => ["PosVelArray.vel#0"; "PosVelArray.pos#0"]
  | OVel, KPvDelta => ["PosVelDeltaArray.vel#0"]
  | OView, (KPos | KPosVel) => ["PositionArray.__array_finalize__#0"]
  | OCreate, KPos => ["PositionArray.create#0"]
  | OCreate, KPosVel => ["PosVelArray.create#0"]
  | OCreate, KDelta => ["PositionDeltaArray.create#0"]
  | OCreate, KPvDelta => ["PosVelDeltaArray.create#0"]
  | OEmptyFrom, KPos => ["PositionArray.empty_from#0"]
  | OEmptyFrom, KDelta => ["PositionDeltaArray.empty_from#0"; "PositionDeltaArray.empty_from#1"]
  | OFromPosvel, KPosVel => ["PosVelArray.from_posvel#0"]
  | OWriteRead, KPos => ["PositionArray._read#0"; "PositionArray.create#0"]
  | OWriteRead, KPosVel => ["PosVelArray._read#0"; "PosVelArray.create#0"]
  | OWriteRead, KDelta => ["PositionDeltaArray._read#0"; "PositionDeltaArray.create#0";
                           "PositionArray._read#0"; "PositionArray.create#0"]
  | OWriteRead, KPvDelta => ["PosVelDeltaArray._read#0"; "PosVelDeltaArray.create#0";
                             "PosVelArray._read#0"; "PosVelArray.create#0"]
  | _, _ => []
  end.

Definition kind_after (k : kind) (o : op) : kind :=
  match o, k with
  | OPos, KPosVel => KPos
  | OPos, KPvDelta => KDelta
  | ODiff, KPos => KDelta
  | ODiff, KPosVel => KPvDelta
  | ORefPos, (KDelta | KVel) => KPos
  | ORefPos, (KPvDelta | KVelDelta) => KPosVel
  | OVel, KPosVel => KVel
  | OVel, KPvDelta => KVelDelta
  | _, _ => k
  end.

Definition table := list (string * bool).

Fixpoint forwards (tbl : table) (s : string) : bool :=
  match tbl with
  | [] => false                                   (* a site the table does not know: fail closed *)
  | (n, b) :: t => if String.eqb n s then b else forwards t s
  end.

Definition op_forwards (tbl : table) (k : kind) (o : op) : bool := forallb (forwards tbl) (sites k o).

Definition state := (kind * nat)%type.

Definition step (tbl : table) (dflt : nat) (s : state) (o : op) : state :=
  let '(k, t) := s in (kind_after k o, if op_forwards tbl k o then t else dflt).

Definition run (tbl : table) (dflt : nat) (ops : list op) (s : state) : state := fold_left (step tbl dflt) ops s.

(* the specification: the ellipsoid never changes *)
Definition spec_step (s : state) (o : op) : state := let '(k, t) := s in (kind_after k o, t).
Definition spec_run (ops : list op) (s : state) : state := fold_left spec_step ops s.

(* every site of the table forwards, and the table knows every site the model uses *)
Definition model_sites : list string :=
  flat_map (fun o => flat_map (fun k => sites k o) all_kinds) all_ops.
Fixpoint knows (tbl : table) (s : string) : bool :=
  match tbl with [] => false | (n, _) :: t => String.eqb n s || knows t s end.
Definition table_all_true (tbl : table) : bool :=
  forallb (fun e => snd e) tbl && forallb (knows tbl) model_sites.

(* an operation list all of whose steps go through forwarding sites only (kinds tracked along the way) *)
Fixpoint ops_forward (tbl : table) (k : kind) (ops : list op) : bool :=
  match ops with
  | [] => true
  | o :: t => op_forwards tbl k o && ops_forward tbl (kind_after k o) t
  end.

(* the sites that dropped the ellipsoid on the tree as it was when this check was written (quirk c05_ellipsoid_dropped);
   only used for the `_refuted` witness: the run itself always uses the regenerated table *)
Definition dropping_table_2026 : table :=
  map (fun s => (s, negb (existsb (String.eqb s)
     ["PositionArray.from_position#0"; "PositionArray.empty_from#0"; "PositionArray.convert_to#0"; "PositionArray.subset#0";
      "PositionArray.__deepcopy__#0"; "PosVelArray.from_posvel#0"; "PosVelArray.convert_to#0"; "PosVelArray.pos#0";
      "PosVelArray.__deepcopy__#0"]))) model_sites.

(* ---------------------------------------------------------------- correspondence *)
(* observed history: the tags of the results of the operations, in order.
   0 = every tag is the initial one (specification); 2 = the tags are those of the model run over the regenerated table
   (some site drops the ellipsoid: quirk c05_ellipsoid_dropped); 1 = neither *)
Fixpoint tags_along (stepf : state -> op -> state) (s : state) (ops : list op) : list nat :=
  match ops with
  | [] => []
  | o :: t => let s' := stepf s o in snd s' :: tags_along stepf s' t
  end.

Fixpoint nats_eqb (a b : list nat) : bool :=
  match a, b with
  | [], [] => true
  | x :: a', y :: b' => Nat.eqb x y && nats_eqb a' b'
  | _, _ => false
  end.

Definition kind_of_nat (n : nat) : kind :=
  match n with 0 => KPos | 1 => KPosVel | 2 => KDelta | 3 => KPvDelta | 4 => KVel | _ => KVelDelta end.

Definition check_flow (c : nat * nat * nat * list op * list nat) : Z :=
  let '(dflt, k, tag, ops, observed) := c in
  let s0 : state := (kind_of_nat k, tag) in
  if nats_eqb observed (tags_along spec_step s0 ops) then 0%Z
  else if nats_eqb observed (tags_along (step forwarding_table dflt) s0 ops) then 2%Z
  else 1%Z.

(* which sites of the regenerated table drop the ellipsoid (for the report) *)
Definition dropping_sites (tbl : table) : list string :=
  map fst (filter (fun e => negb (snd e)) tbl).

(* the driver's own copy of `sites` (used for the per-site coverage report and to name the culprit site) must be this one *)
Fixpoint strs_eqb (a b : list string) : bool :=
  match a, b with
  | [], [] => true
  | x :: a', y :: b' => String.eqb x y && strs_eqb a' b'
  | _, _ => false
  end.
Definition check_sites (c : nat * op * list string * nat) : Z :=
  let '(k, o, claimed, k') := c in
  if strs_eqb claimed (sites (kind_of_nat k) o) && Nat.eqb k'
       (match kind_after (kind_of_nat k) o with KPos => 0 | KPosVel => 1 | KDelta => 2 | KPvDelta => 3 | KVel => 4 | KVelDelta => 5 end)
  then 0%Z else 1%Z.
