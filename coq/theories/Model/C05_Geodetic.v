(* C05 - geocentric <-> geodetic conversion (DESIGN 4.5): the model.

   Part 1: the two conversions of midgard/math/transformation.py (`_trs2llh`: one Halley step, SOFA GC2GDE; `_llh2trs`:
           SOFA GD2GCE) and the derived ellipsoid parameters of midgard/math/ellipsoid.py, over R, statement for
           statement as the code writes them (`trs2llh_R`, `llh2trs_R`).
   Part 2: the same computations as straight-line programs over `Ival.rexpr` (Lib/C05_Prog), so that they have an
           interval semantics too; Proofs/C05_Geodetic.v shows `prog_R` of these programs *is* part 1.
   Part 3: the published ellipsoid constants and the check_* functions of the correspondence.  Verdicts:
           0 = the implementation's doubles satisfy the specification; 2 = they do not, but they are what the code gives when
           the object forgot its ellipsoid and fell back to the default one (quirk c05_ellipsoid_dropped);
           11/12/13 = latitude/longitude/height differ from the exact-arithmetic result of the algorithm by more than the
           tolerance; 14 = the geometric certificate fails (the normal through (lat, lon) at distance h misses the input);
           15 = malformed case / undecided branch; 16 = round trip; 17 = ellipsoid parameter. *)
From Coq Require Import Reals ZArith QArith Qabs List Bool String.
From Verif Require Import Lib.Dyadic Lib.Atan2 Lib.Ival Lib.C05_Prog.
Import ListNotations.

(* ================================================================= Part 1: over R *)
Section RealModel.
Open Scope R_scope.

Definition sign_R (z : R) : R := if Rlt_dec 0 z then 1 else if Rlt_dec z 0 then -1 else 0.

(* ellipsoid.py: f = 1 / f_inv (0 for the sphere), b = a * (1 - f), e2 = 1 - b**2 / a**2 *)
Definition ell_b (a f : R) : R := a * (1 - f).
Definition ell_e2 (a f : R) : R := 1 - (ell_b a f)² / a².

Definition q_three_halves : Q := 3 # 2.
Definition q_pole : Q := 1 # 100000000000000000000000000000000.      (* 1e-32 *)

(* one Halley step on Fukushima's latitude equation, from the approximation (s, c) ~ (sin, cos) of the reduced latitude:
   the Newton numerators d0, f0 and the Halley correction b0 of _trs2llh; result (S, C), new tangent S / C *)
Definition halley_d0 (e2 ec pn zc s c : R) : R := let a0 := sqrt (c² + s²) in zc * (a0² * a0) + e2 * (s² * s).
Definition halley_f0 (e2 ec pn zc s c : R) : R := let a0 := sqrt (c² + s²) in pn * (a0² * a0) - e2 * (c² * c).
Definition halley_b0 (e2 ec pn zc s c : R) : R :=
  let a0 := sqrt (c² + s²) in (e2² * Q2R q_three_halves) * s² * c² * pn * (a0 - ec).
Definition halley_S (e2 ec pn zc s c : R) : R :=
  halley_d0 e2 ec pn zc s c * halley_f0 e2 ec pn zc s c - halley_b0 e2 ec pn zc s c * s.
Definition halley_C (e2 ec pn zc s c : R) : R :=
  (halley_f0 e2 ec pn zc s c)² - halley_b0 e2 ec pn zc s c * c.

Definition is_pole (a x y : R) : Prop := x² + y² <= a² * Q2R q_pole.

(* _trs2llh *)
Definition trs2llh_R (a f x y z : R) : R * R * R :=
  let b := ell_b a f in
  let e2 := ell_e2 a f in
  let ec2 := 1 - e2 in
  let ec := sqrt ec2 in
  let p2 := x² + y² in
  let absz := Rabs z in
  let p := sqrt p2 in
  let s0 := absz / a in
  let pn := p / a in
  let zc := ec * s0 in
  let c0 := ec * pn in
  let s1 := halley_S e2 ec pn zc s0 c0 in
  let cc := ec * halley_C e2 ec pn zc s0 c0 in
  let lat := atan (s1 / cc) in
  let h := (p * cc + absz * s1 - a * sqrt (ec2 * s1² + cc²)) / sqrt (s1² + cc²) in
  if Rle_dec p2 (a² * Q2R q_pole)
  then (PI / 2 * sign_R z, atan2 y x, absz - b)
  else (lat * sign_R z, atan2 y x, h).

(* _llh2trs *)
Definition llh2trs_R (a f lat lon h : R) : R * R * R :=
  let w := (1 - f)² in
  let ac := a / sqrt ((cos lat)² + w * (sin lat)²) in
  let r := (ac + h) * cos lat in
  (r * cos lon, r * sin lon, (w * ac + h) * sin lat).

End RealModel.

(* ================================================================= Part 2: the same as programs *)
Notation v_ n := (EVar n).
Definition one_ : rexpr := EZ 1.
Definition cube_ (e : rexpr) : rexpr := EMul (ESqr e) e.

(* inputs 0:a 1:f 2:x 3:y 4:z *)
Definition trs2llh_prog : list rexpr :=
  [ EMul (v_ 0) (ESub one_ (v_ 1))                                   (*  5 b    *)
  ; ESub one_ (EDiv (ESqr (v_ 5)) (ESqr (v_ 0)))                     (*  6 e2   *)
  ; EMul (ESqr (v_ 6)) (EQ q_three_halves)                           (*  7 e4t  *)
  ; ESub one_ (v_ 6)                                                 (*  8 ec2  *)
  ; ESqrt (v_ 8)                                                     (*  9 ec   *)
  ; EAdd (ESqr (v_ 2)) (ESqr (v_ 3))                                 (* 10 p2   *)
  ; EAbs (v_ 4)                                                      (* 11 absz *)
  ; ESqrt (v_ 10)                                                    (* 12 p    *)
  ; EDiv (v_ 11) (v_ 0)                                              (* 13 s0   *)
  ; EDiv (v_ 12) (v_ 0)                                              (* 14 pn   *)
  ; EMul (v_ 9) (v_ 13)                                              (* 15 zc   *)
  ; EMul (v_ 9) (v_ 14)                                              (* 16 c0   *)
  ; ESqrt (EAdd (ESqr (v_ 16)) (ESqr (v_ 13)))                       (* 17 a0   *)
  ; cube_ (v_ 17)                                                    (* 18 a0^3 *)
  ; EAdd (EMul (v_ 15) (v_ 18)) (EMul (v_ 6) (cube_ (v_ 13)))        (* 19 d0   *)
  ; ESub (EMul (v_ 14) (v_ 18)) (EMul (v_ 6) (cube_ (v_ 16)))        (* 20 f0   *)
  ; EMul (EMul (EMul (EMul (v_ 7) (ESqr (v_ 13))) (ESqr (v_ 16))) (v_ 14)) (ESub (v_ 17) (v_ 9))   (* 21 b0 *)
  ; ESub (EMul (v_ 19) (v_ 20)) (EMul (v_ 21) (v_ 13))               (* 22 s1   *)
  ; EMul (v_ 9) (ESub (ESqr (v_ 20)) (EMul (v_ 21) (v_ 16)))         (* 23 cc   *)
  ; EAtan (EDiv (v_ 22) (v_ 23))                                     (* 24 lat  *)
  ; ESqrt (EAdd (ESqr (v_ 22)) (ESqr (v_ 23)))                       (* 25 |(s1,cc)| *)
  ; EDiv (ESub (EAdd (EMul (v_ 12) (v_ 23)) (EMul (v_ 11) (v_ 22)))
               (EMul (v_ 0) (ESqrt (EAdd (EMul (v_ 8) (ESqr (v_ 22))) (ESqr (v_ 23))))))
         (v_ 25)                                                     (* 26 h    *)
  ; EAtan2 (v_ 3) (v_ 2)                                             (* 27 lon  *)
  ; ESub (v_ 11) (v_ 5)                                              (* 28 h at the pole *)
  ; ESqrt (EAdd (v_ 10) (ESqr (v_ 4)))                               (* 29 |xyz| *)
  ; EMul (ESqr (v_ 0)) (EQ q_pole)                                   (* 30 pole threshold *)
  ].

(* inputs 0:a 1:f 2:lat 3:lon 4:h *)
Definition llh2trs_prog : list rexpr :=
  [ ECos (v_ 2)                                                      (*  5 coslat *)
  ; ESin (v_ 2)                                                      (*  6 sinlat *)
  ; ECos (v_ 3)                                                      (*  7 coslon *)
  ; ESin (v_ 3)                                                      (*  8 sinlon *)
  ; ESqr (ESub one_ (v_ 1))                                          (*  9 w      *)
  ; EDiv (v_ 0) (ESqrt (EAdd (ESqr (v_ 5)) (EMul (v_ 9) (ESqr (v_ 6)))))   (* 10 ac *)
  ; EMul (EAdd (v_ 10) (v_ 4)) (v_ 5)                                (* 11 r      *)
  ; EMul (v_ 11) (v_ 7)                                              (* 12 x      *)
  ; EMul (v_ 11) (v_ 8)                                              (* 13 y      *)
  ; EMul (EAdd (EMul (v_ 9) (v_ 10)) (v_ 4)) (v_ 6)                  (* 14 z      *)
  ].

(* ================================================================= Part 3: correspondence *)
(* published constants (https://en.wikipedia.org/wiki/Earth_ellipsoid, IERS conventions 2003/2010, DORIS): name, a, 1/f *)
Definition published_ellipsoids : list (string * Q * option Q) :=
  [ ("sphere"%string,   63710088 # 10, None)
  ; ("WGS72"%string,    6378135 # 1,   Some (29826 # 100))
  ; ("GRS80"%string,    6378137 # 1,   Some (298257222101 # 1000000000))
  ; ("WGS84"%string,    6378137 # 1,   Some (298257223563 # 1000000000))
  ; ("IERS2003"%string, 63781366 # 10, Some (29825642 # 100000))
  ; ("IERS2010"%string, 63781366 # 10, Some (29825642 # 100000))
  ; ("DORIS"%string,    6378136 # 1,   Some (298257810 # 1000000)) ].

Definition ell_eqb (x y : string * Q * option Q) : bool :=
  let '(n, a, fi) := x in
  let '(n', a', fi') := y in
  String.eqb n n' && Qeq_bool a a' &&
  match fi, fi' with Some u, Some w => Qeq_bool u w | None, None => true | _, _ => false end.
Fixpoint ells_eqb (l l' : list (string * Q * option Q)) : bool :=
  match l, l' with
  | [], [] => true
  | x :: t, y :: t' => ell_eqb x y && ells_eqb t t'
  | _, _ => false
  end.

Definition ell_af (e : string * Q * option Q) : Q * Q :=
  let '(_, a, fi) := e in (a, match fi with Some q => Qinv q | None => 0%Q end).
Definition ell_params (i : nat) : option (Q * Q) := option_map ell_af (nth_error published_ellipsoids i).
Fixpoint ell_index_from (n : string) (l : list (string * Q * option Q)) (k : nat) : option nat :=
  match l with
  | [] => None
  | (m, _, _) :: t => if String.eqb n m then Some k else ell_index_from n t (S k)
  end.
Definition ell_index (n : string) : option nat := ell_index_from n published_ellipsoids 0.

Definition P : prec := p128.
Definition q_1em8 : Q := 1 # 100000000.
Definition q_1em6 : Q := 1 # 1000000.
Definition q_2mm : Q := 2 # 1000.
Definition q_100km : Q := 100000 # 1.
Definition q_ulps : Q := pow2Q (-50).            (* 4 units in the last place of a double, relative *)
Definition two_pi_ : rexpr := EMul (EZ 2) EPi.

(* tolerance of "equal to the exact-arithmetic result": 1e-8 m + 4 ulp of the distance from the geocentre (a double cannot
   resolve 1e-8 m at 56 000 km) *)
Definition tol_model (r : rexpr) : rexpr := EAdd (EQ q_1em8) (EMul (EQ q_ulps) r).
(* accuracy of the published algorithm: 1e-6 m below 100 km, 2 mm above *)
Definition tol_geo (h : dy) : option Q :=
  match dy_toQ h with
  | Some q => Some (if Qle_bool q q_100km then q_1em6 else q_2mm)
  | None => None
  end.

Definition all_finite (l : list dy) : bool := forallb is_finite l.

Definition dy_sign (z : dy) : option Z :=
  match z with
  | Dy m _ => if (0 <? m)%Z then Some 1%Z else if (m <? 0)%Z then Some (-1)%Z else None
  | DZero _ => Some 0%Z
  | _ => None
  end.

Definition signed_ (s : Z) (e : rexpr) : rexpr :=
  match s with Z0 => EZ 0 | Zpos _ => e | Zneg _ => ENeg e end.

(* environment of the trs -> llh direction: 0..4 inputs, 5..30 the program *)
Definition trs_env (a f : Q) (x y z : dy) : list I.type :=
  prog_I P (map (I_ofQ P) [a; f] ++ map (I_ofdy P) [x; y; z]) trs2llh_prog.
Definition llh_env (a f : Q) (lat lon h : dy) : list I.type :=
  prog_I P (map (I_ofQ P) [a; f] ++ map (I_ofdy P) [lat; lon; h]) llh2trs_prog.

(* which branch does the exact algorithm take?  Some true = pole branch *)
Definition pole_branch (env : list I.type) : option bool :=
  if chk_le P env (v_ 10) (v_ 30) then Some true
  else if chk_lt P env (v_ 30) (v_ 10) then Some false else None.

(* |e - d| * r <= tol_model r    (angles are compared as arc length at distance r) *)
Definition arc_close (env : list I.type) (e : rexpr) (d : dy) (r : rexpr) : bool :=
  chk_le P env (EMul (EAbs (ESub e (EDy d))) r) (tol_model r).
Definition arc_close_mod2pi (env : list I.type) (e : rexpr) (d : dy) (r : rexpr) : bool :=
  arc_close env e d r || arc_close env (EAdd e two_pi_) d r || arc_close env (ESub e two_pi_) d r.
Definition len_close (env : list I.type) (e : rexpr) (d : dy) (r : rexpr) : bool :=
  chk_le P env (EAbs (ESub e (EDy d))) (tol_model r).

Definition is_zero_dy (d : dy) : bool := match d with DZero _ => true | _ => false end.

(* (i) the implementation's (lat, lon, h) against the exact-arithmetic result of the same algorithm *)
Definition model_trs2llh_env (env : list I.type) (x y z lat lon h : dy) : Z :=
  match pole_branch env, dy_sign z with
  | Some pole, Some s =>
      let lat_e := signed_ s (if pole then EDiv EPi (EZ 2) else v_ 24) in
      let h_e := if pole then v_ 28 else v_ 26 in
      if negb (arc_close env lat_e lat (v_ 29)) then 11%Z
      else if negb ((is_zero_dy x && is_zero_dy y) || arc_close_mod2pi env (v_ 27) lon (v_ 29)) then 12%Z
      else if negb (len_close env h_e h (v_ 29)) then 13%Z
      else 0%Z
  | _, _ => 15%Z
  end.
Definition model_trs2llh (a f : Q) (x y z lat lon h : dy) : Z :=
  model_trs2llh_env (trs_env a f x y z) x y z lat lon h.

(* (ii) geometric certificate: the point at distance h on the ellipsoid normal through (lat, lon) is the input *)
Definition dist_ (x y z : rexpr) (x' y' z' : dy) : rexpr :=
  ESqrt (EAdd (EAdd (ESqr (ESub x (EDy x'))) (ESqr (ESub y (EDy y')))) (ESqr (ESub z (EDy z')))).
Definition geo_cert_env (env : list I.type) (x y z h : dy) : bool :=
  match tol_geo h with
  | Some tol => chk_le P env (dist_ (v_ 12) (v_ 13) (v_ 14) x y z) (EQ tol)
  | None => false
  end.
Definition geo_cert (a f : Q) (x y z lat lon h : dy) : bool := geo_cert_env (llh_env a f lat lon h) x y z h.

Definition half_pi_up : Q := 15707963267948967 # 10000000000000000.   (* a little above PI/2 *)
Definition pi_up : Q := 31415926535897933 # 10000000000000000.
Definition dy_abs_leQ (d : dy) (q : Q) : bool :=
  match dy_toQ d with Some v => Qle_bool (Qabs v) q | None => false end.

Definition check_trs2llh (c : nat * list dy * list dy) : Z :=
  let '(i, xyz, llh) := c in
  match ell_params i, xyz, llh with
  | Some (a, f), [x; y; z], [lat; lon; h] =>
      if negb (all_finite xyz && all_finite llh && dy_abs_leQ lat half_pi_up && dy_abs_leQ lon pi_up) then 15%Z
      else match model_trs2llh a f x y z lat lon h with
           | 0%Z => if geo_cert a f x y z lat lon h then 0%Z else 14%Z
           | k => k
           end
  | _, _, _ => 15%Z
  end.

(* llh -> trs: every coordinate against the exact-arithmetic result *)
Definition model_llh2trs_env (env : list I.type) (x y z : dy) : bool :=
  let r := EAdd (v_ 10) (EAbs (v_ 4)) in
  len_close env (v_ 12) x r && len_close env (v_ 13) y r && len_close env (v_ 14) z r.
Definition check_llh2trs (c : nat * list dy * list dy) : Z :=
  let '(i, llh, xyz) := c in
  match ell_params i, llh, xyz with
  | Some (a, f), [lat; lon; h], [x; y; z] =>
      if negb (all_finite xyz && all_finite llh) then 15%Z
      else if model_llh2trs_env (llh_env a f lat lon h) x y z then 0%Z else 13%Z
  | _, _, _ => 15%Z
  end.

(* (iii) round trips, decided exactly on the doubles.  trs -> llh -> trs: |back - start| <= accuracy of the algorithm *)
Definition q_of3 (l : list dy) : option (Q * Q * Q) :=
  match l with
  | [x; y; z] => match dy_toQ x, dy_toQ y, dy_toQ z with
                 | Some a, Some b, Some c => Some (a, b, c)
                 | _, _, _ => None
                 end
  | _ => None
  end.
Definition dist2Q (u w : Q * Q * Q) : Q :=
  let '(a, b, c) := u in let '(a', b', c') := w in
  ((a - a') * (a - a') + (b - b') * (b - b') + (c - c') * (c - c'))%Q.

Definition trs_close (tol : Q) (u w : list dy) : bool :=
  match q_of3 u, q_of3 w with
  | Some a, Some b => Qle_bool (dist2Q a b) (tol * tol)%Q
  | _, _ => false
  end.

(* start xyz, the height found for it, back xyz *)
Definition check_rt_trs (c : list dy * dy * list dy) : Z :=
  let '(xyz, h, back) := c in
  match tol_geo h with
  | Some tol => if trs_close tol xyz back then 0%Z else 16%Z
  | None => 15%Z
  end.

(* llh -> trs -> llh: arc lengths.  inputs 0:a 1..3 start 4..6 back *)
Definition check_rt_llh (c : nat * list dy * list dy) : Z :=
  let '(i, llh, back) := c in
  match ell_params i, llh, back with
  | Some (a, _), [lat; lon; h], [lat'; lon'; h'] =>
      match tol_geo h with
      | Some tol =>
          let env := map (I_ofQ P) [a] ++ map (I_ofdy P) [lat; lon; h; lat'; lon'; h'] in
          let rad := EAdd (v_ 0) (EAbs (v_ 3)) in
          let dl k := EAbs (EAdd (ESub (v_ 5) (v_ 2)) (EMul (EZ k) two_pi_)) in
          let par := EMul rad (EAbs (ECos (v_ 1))) in
          if all_finite llh && all_finite back
             && chk_le P env (EMul (EAbs (ESub (v_ 4) (v_ 1))) rad) (EQ tol)
             && (chk_le P env (EMul (dl 0%Z) par) (EQ tol) || chk_le P env (EMul (dl 1%Z) par) (EQ tol)
                 || chk_le P env (EMul (dl (-1)%Z) par) (EQ tol))
             && chk_le P env (EAbs (ESub (v_ 6) (v_ 3))) (EQ tol)
          then 0%Z else 16%Z
      | None => 15%Z
      end
  | _, _, _ => 15%Z
  end.

(* objects: Position(xyz, "trs", ellipsoid = E).llh.trs must come back to xyz.  2 = it comes back to the point that the default
   ellipsoid gives for the object's llh values (the object forgot E on the way) *)
Definition check_obj_rt (c : nat * nat * list dy * list dy * list dy) : Z :=
  let '(i, idef, xyz, llh, back) := c in
  match ell_params idef, llh, back with
  | Some (a, f), [lat; lon; h], [x; y; z] =>
      match check_rt_trs (xyz, h, back) with
      | 0%Z => 0%Z
      | _ =>
          if negb (Nat.eqb i idef) && all_finite llh && all_finite back
             && model_llh2trs_env (llh_env a f lat lon h) x y z
          then 2%Z else 16%Z
      end
  | _, _, _ => 15%Z
  end.

(* the derived parameters of ellipsoid.py (doubles) against the exact ones: a, f, b, e2 *)
Definition check_params (c : nat * list dy) : Z :=
  let '(i, ds) := c in
  match ell_params i, ds with
  | Some (a, f), [da; df; db; de2] =>
      if is_nearest_double a da
         && within_rel (pow2Q (-52)) 0 f df
         && within_rel (pow2Q (-51)) 0 (a * (1 - f))%Q db
         && within (pow2Q (-51)) (2 * f - f * f)%Q de2
      then 0%Z else 17%Z
  | _, _ => 15%Z
  end.
