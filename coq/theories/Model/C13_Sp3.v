(* Model/C13_Sp3.v - executable model of midgard.parsers.sp3 (Sp3dParser on top of ChainParser.read_data /
   parse_line) at the level of exact rationals, parameterised by the column tables and by the quirks seen in
   the code.  Specification = [parse_file spec_tables all_off].  The correspondence check functions
   ([check_file]) evaluate the SPECIFICATION on the literal text of a file and compare it with what midgard
   returned (doubles shipped exactly as Lib/Dyadic.dy). *)
From Coq Require Import Ascii String List Bool Arith ZArith QArith Qabs Lia.
From Coq Require Uint63 Floats.
From Verif Require Import Lib.Text Lib.Decimal Lib.Fixed Lib.Dyadic Lib.Pack Spec.C13_Sp3Format.
Import ListNotations.
Local Open Scope string_scope.

(* ------------------------------------------------------------------------------------------ tables *)
Inductive hkind := KString | KFloat.          (* self._parse_string / self._parse_float *)
Record tables := mkT {
  t_header : list (string * (hkind * list fieldspec));   (* header_parser.parser_def, label = line[0:2] *)
  t_P : list fieldspec;                                   (* data_parser.parser_def["P"]["fields"] *)
  t_V : list fieldspec;
  t_epoch : list (option string);                         (* data_parser.parser_def["*"]["fields"] *)
}.
Definition spec_tables : tables :=
  mkT [("#c", (KString, spec_line1)); ("#d", (KString, spec_line1)); ("##", (KString, spec_line2));
       ("%c", (KString, spec_pc)); ("%f", (KFloat, spec_pf))]
      spec_P spec_V spec_epoch_names.

Record quirks := mkQ {
  q_sigma_mul : bool;     (* accuracy = code * base instead of base ^ code *)
  q_frac_ms : bool;       (* as_dataset: the 1e-7 s fraction digits are taken as milliseconds *)
}.
Definition all_off := mkQ false false.

(* --------------------------------------------------------------------------------------- values *)
Inductive fv := FNaN | FNum (q : Q).                       (* a Python float: nan or the exact value *)
Inductive mval := MStr (s : string) | MNum (q : Q).        (* a meta entry *)
Definition meta := list (string * mval).

Fixpoint meta_set (k : string) (v : mval) (m : meta) : meta :=
  match m with
  | [] => [(k, v)]
  | (k', v') :: r => if String.eqb k' k then (k, v) :: r else (k', v') :: meta_set k v r
  end.
Fixpoint meta_get (k : string) (m : meta) : option mval :=
  match m with
  | [] => None
  | (k', v) :: r => if String.eqb k' k then Some v else meta_get k r
  end.
Definition meta_has k m := match meta_get k m with Some _ => true | None => false end.
Definition meta_num k m : option Q := match meta_get k m with Some (MNum q) => Some q | _ => None end.

Record rec := mkR {
  r_time : string;          (* "YYYY-MM-DDTHH:MM:SS.sssssss" *)
  r_sat : string;
  r_pos : list fv;          (* x y z in metres *)
  r_clk : fv;               (* metres of light travel *)
  r_spos : list fv;         (* sigma x y z in metres *)
  r_sclk : fv;              (* metres *)
  r_sys : string;
  r_codes : list Z;         (* the four accuracy exponents as read (0 when blank); the comparison with doubles needs them:
                               float(base) ** n carries the rounding error of the base n times *)
}.

Record state := mkS {
  st_hdr : bool;                (* the header ParserDef is still the current parser *)
  st_time : option string;      (* cache["time"] *)
  st_lnum : nat;                (* cache["line_num"] *)
  st_meta : meta;               (* self.meta *)
  st_recs : list rec;           (* self.data, newest first *)
}.
Definition init_state := mkS true None 0 [] [].

(* --------------------------------------------------------------------------------- header parsers *)
Fixpoint parse_string_loop (vals : list (string * string)) (m : meta) : meta :=
  match vals with
  | [] => m
  | (k, v) :: r => if String.eqb k "file_type" && String.eqb v "cc" then m
                   else parse_string_loop r (meta_set k (MStr v) m)
  end.
Fixpoint parse_float_loop (vals : list (string * string)) (m : meta) : option meta :=
  match vals with
  | [] => Some m
  | (k, v) :: r => if String.eqb k "base_posvel" && meta_has "base_posvel" m then Some m
                   else match parse_float v with
                        | Some q => parse_float_loop r (meta_set k (MNum q) m)
                        | None => None
                        end
  end.

Fixpoint assoc {A} (k : string) (l : list (string * A)) : option A :=
  match l with
  | [] => None
  | (k', v) :: r => if String.eqb k' k then Some v else assoc k r
  end.

Definition header_step (T : tables) (st : state) (line : string) : option state :=
  match assoc (slice 0 2 line) (t_header T) with
  | None => Some st
  | Some (KString, fields) =>
      Some (mkS (st_hdr st) (st_time st) (st_lnum st) (parse_string_loop (parse_record fields line) (st_meta st)) (st_recs st))
  | Some (KFloat, fields) =>
      match parse_float_loop (parse_record fields line) (st_meta st) with
      | Some m => Some (mkS (st_hdr st) (st_time st) (st_lnum st) m (st_recs st))
      | None => None
      end
  end.

(* ----------------------------------------------------------------------------------- epoch line *)
Definition two (z : Z) : option string :=          (* "{:02d}" for z >= 0: two digits, more when z >= 100 *)
  if (z <? 0)%Z then None else Some (if (z <? 100)%Z then digits_fixed 2 z else render_nat z).

(* "{second:010.7f}" of the exact value q: defined when q*10^8 is an integer whose last digit is not 5
   (a tie at the 7th decimal depends on the binary representation) *)
Definition sec_string (q : Q) : option string :=
  let m8 := (Qnum q * 100000000)%Z in
  let d := Zpos (Qden q) in
  if negb (m8 mod d =? 0)%Z || (Qnum q <? 0)%Z then None else
  let n8 := (m8 / d)%Z in
  let r := (n8 mod 10)%Z in
  if (r =? 5)%Z then None else
  let n7 := (if (r <? 5)%Z then n8 / 10 else n8 / 10 + 1)%Z in
  (* width 10 = two integer digits, the point, seven decimals; wider when the value is >= 100 *)
  Some (if (n7 <? 1000000000)%Z then digits_fixed 2 (n7 / 10000000) ++ "." ++ digits_fixed 7 n7 else render_F_raw 7 n7).

Definition date_step (T : tables) (st : state) (line : string) : option state :=
  let vals := parse_tokens (t_epoch T) line in
  match lookup_opt "year" vals, lookup_opt "month" vals, lookup_opt "day" vals,
        lookup_opt "hour" vals, lookup_opt "minute" vals, lookup_opt "second" vals with
  | Some ys, Some mos, Some ds, Some hs, Some mis, Some ss =>
      match parse_int ys, parse_int mos, parse_int ds, parse_int hs, parse_int mis, parse_float ss with
      | Some y, Some mo, Some d, Some h, Some mi, Some s =>
          match two mo, two d, two h, two mi, sec_string s with
          | Some mo', Some d', Some h', Some mi', Some s' =>
              let t := (if (y <? 0)%Z then "-" else "") ++ render_nat (Z.abs y) ++ "-" ++ mo' ++ "-" ++ d' ++ "T" ++ h' ++ ":" ++ mi' ++ ":" ++ s' in
              Some (mkS (st_hdr st) (Some t) (st_lnum st) (st_meta st) (st_recs st))
          | _, _, _, _, _ => None
          end
      | _, _, _, _, _, _ => None
      end
  | _, _, _, _, _, _ => None
  end.

(* ------------------------------------------------------------------------------ position record *)
Definition pos_value (text : string) : option fv :=
  match parse_float text with
  | None => None
  | Some q => Some (if Qeq_bool q bad_position then FNaN else FNum (q * km_in_m))
  end.
Definition clk_value (text : string) : option fv :=
  match parse_float text with
  | None => None
  | Some q => Some (if Qeq_bool q bad_clock then FNaN else FNum (q * us_in_s * c_light))
  end.
Definition is_int (q : Q) : bool := (Qnum q mod Zpos (Qden q) =? 0)%Z.
(* accuracy code -> metres; [unit] = mm_in_m resp. ps_in_s * c_light *)
Definition sigma_value (Qk : quirks) (base : Q) (unit : Q) (text : string) : option fv :=
  match text with
  | "" => Some FNaN
  | _ => match parse_float text with
         | None => None
         | Some code =>
             if q_sigma_mul Qk then Some (FNum (code * base * unit))
             else if is_int code then Some (FNum (Qpower (Qred base) (Qnum code / Zpos (Qden code)) * unit))
             else None
         end
  end.

Definition code_of (text : string) : Z :=
  match text with
  | "" => 0%Z
  | _ => match parse_float text with Some c => (Qnum c / Zpos (Qden c))%Z | None => 0%Z end
  end.

Definition opt_list {A} (l : list (option A)) : option (list A) :=
  fold_right (fun x acc => match x, acc with Some a, Some r => Some (a :: r) | _, _ => None end) (Some []) l.

Definition position_record (Qk : quirks) (m : meta) (time : string) (vals : list (string * string)) : option rec :=
  let get k := lookup k vals in
  let sat := match meta_get "version" m with
             | Some (MStr "a") => "G" ++ zfill 2 (get "sat")
             | _ => get "sat"
             end in
  match opt_list [pos_value (get "pos_x"); pos_value (get "pos_y"); pos_value (get "pos_z")],
        clk_value (get "clk_bias"), meta_num "base_posvel" m, meta_num "base_clkrate" m with
  | Some pos, Some clk, Some bp, Some bc =>
      match opt_list [sigma_value Qk bp mm_in_m (get "sig_pos_x"); sigma_value Qk bp mm_in_m (get "sig_pos_y");
                      sigma_value Qk bp mm_in_m (get "sig_pos_z")],
            sigma_value Qk bc (ps_in_s * c_light) (get "sig_clk_bias") with
      | Some sp, Some sc =>
          match sat with
          | "" => None
          | String c _ => Some (mkR time sat pos clk sp sc (String c "")
                                    [code_of (get "sig_pos_x"); code_of (get "sig_pos_y"); code_of (get "sig_pos_z");
                                     code_of (get "sig_clk_bias")])
          end
      | _, _ => None
      end
  | _, _, _, _ => None
  end.

Definition position_step (T : tables) (Qk : quirks) (st : state) (line : string) : option state :=
  match st_time st with
  | None => None                                   (* KeyError: cache["time"] *)
  | Some time =>
      if (if (st_lnum st =? 2)%nat then existsb (fun r => String.eqb (r_time r) time) (st_recs st) else false)
      then Some st                                 (* "Identical epoch ... given in the SP3 files": first record dropped *)
      else
        match meta_get "version" (st_meta st) with
        | None => None
        | Some _ =>
            match position_record Qk (st_meta st) time (parse_record (t_P T) line) with
            | Some r => Some (mkS (st_hdr st) (st_time st) (st_lnum st) (st_meta st) (r :: st_recs st))
            | None => None
            end
        end
  end.

Definition data_step (T : tables) (Qk : quirks) (st : state) (line : string) : option state :=
  match line with
  | "" => None                                     (* IndexError: line[0] *)
  | String c _ =>
      if Ascii.eqb c "*" then date_step T st line
      else if Ascii.eqb c "P" then position_step T Qk st line
      else Some st                                 (* "V": _parse_velocity returns at once; EP, EV, EOF, ...: no parser *)
  end.

(* ---------------------------------------------------------------------- ChainParser.read_data *)
Definition step (T : tables) (Qk : quirks) (st : state) (line : string) : option state :=
  let st' := mkS (st_hdr st) (st_time st) (S (st_lnum st)) (st_meta st) (st_recs st) in
  if st_hdr st then header_step T st' line else data_step T Qk st' line.

(* a line that starts with "*" (other than the first line of the file) ends the current group: the next
   ParserDef of the chain (always the data parser) takes over and the cache is renewed *)
Definition boundary (st : state) : state := mkS false None 0 (st_meta st) (st_recs st).

Fixpoint run (T : tables) (Qk : quirks) (st : state) (first : bool) (lines : list string) : option state :=
  match lines with
  | [] => Some st
  | l :: rest =>
      let st1 := if negb first && startswith "*" l then boundary st else st in
      match step T Qk st1 (rstrip l) with
      | None => None
      | Some st2 => run T Qk st2 false rest
      end
  end.

Definition parse_file (T : tables) (Qk : quirks) (lines : list string) : option (meta * list rec) :=
  match run T Qk init_state true lines with
  | Some st => Some (st_meta st, rev (st_recs st))
  | None => None
  end.

(* -------------------------------------------------------------------------------- as_dataset *)
(* Julian day number (at noon) of a proleptic Gregorian date *)
Definition jdn (y m d : Z) : Z :=
  let a := ((14 - m) / 12)%Z in
  let y' := (y + 4800 - a)%Z in
  let m' := (m + 12 * a - 3)%Z in
  (d + (153 * m' + 2) / 5 + 365 * y' + y' / 4 - y' / 100 + y' / 400 - 32045)%Z.

(* the time string of a record -> (JD at 0h as Q, seconds of day as Q); fraction handling per quirk *)
Definition epoch_of_time (Qk : quirks) (t : string) : option (Q * Q) :=
  (* t = Y-MM-DDTHH:MM:SS.fffffff ; the year has 4 digits in the domain of strptime("%Y") *)
  let y := parse_int (slice 0 4 t) in
  let mo := parse_int (slice 5 7 t) in
  let d := parse_int (slice 8 10 t) in
  let h := parse_int (slice 11 13 t) in
  let mi := parse_int (slice 14 16 t) in
  let s := parse_int (slice 17 19 t) in
  let f := parse_int (slice 20 27 t) in
  if negb ((len t =? 27)%nat && String.eqb (slice 4 5 t) "-" && String.eqb (slice 7 8 t) "-" &&
           String.eqb (slice 10 11 t) "T" && String.eqb (slice 13 14 t) ":" && String.eqb (slice 16 17 t) ":" &&
           String.eqb (slice 19 20 t) ".") then None else
  match y, mo, d, h, mi, s, f with
  | Some y, Some mo, Some d, Some h, Some mi, Some s, Some f =>
      if ((1 <=? mo) && (mo <=? 12) && (1 <=? d) && (d <=? 31) && (h <=? 23) && (mi <=? 59) && (s <=? 59))%Z then
        let frac := if q_frac_ms Qk then (inject_Z f / 1000)%Q else (inject_Z f / 10000000)%Q in
        Some ((inject_Z (jdn y mo d) - (1 # 2))%Q, (inject_Z (h * 3600 + mi * 60 + s) + frac)%Q)
      else None
  | _, _, _, _, _, _, _ => None
  end.

(* ---------------------------------------------------------------------------- correspondence *)
(* observed record: time, satellite, pos x y z, clock, sigma x y z, sigma clock, system
   (constructors instead of tuples/lists: the case files are large and elaborate faster this way) *)
Inductive orec := OR (t sat : string) (x y z clk sx sy sz sc : dy) (sys : string).
Inductive oval := OStr (s : string) | ONum (d : dy).
Inductive jdpair := JD (jd1 jd2 : dy).
Inductive p3 := P3 (x y z : dy).

Definition fv_close (k : Z) (e : fv) (o : dy) : bool :=
  match e with
  | FNaN => is_nan o
  | FNum q => if Qeq_bool q 0 then dy_numeqb o (DZero false) else within_ulps k q o
  end.
Fixpoint all2 {A B} (f : A -> B -> bool) (a : list A) (b : list B) : bool :=
  match a, b with
  | [], [] => true
  | x :: a', y :: b' => f x y && all2 f a' b'
  | _, _ => false
  end.

Definition rec_main_ok (e : rec) (o : orec) : bool :=
  let '(OR t sat x y z clk _ _ _ _ sys) := o in
  String.eqb (r_time e) t && String.eqb (r_sat e) sat && String.eqb (r_sys e) sys &&
  all2 (fv_close 2) (r_pos e) [x; y; z] && fv_close 3 (r_clk e) clk.
(* accuracies: float(base) ** n is within about n/2 + 2 ulps of base^n (the base is rounded once, the power multiplies
   that relative error by n; then two more roundings); the check allows |n| + 4 ulps *)
Fixpoint all3 {A B C} (f : A -> B -> C -> bool) (a : list A) (b : list B) (c : list C) : bool :=
  match a, b, c with
  | [], [], [] => true
  | x :: a', y :: b', z :: c' => f x y z && all3 f a' b' c'
  | _, _, _ => false
  end.
Definition rec_sigma_ok (e : rec) (o : orec) : bool :=
  let '(OR _ _ _ _ _ _ sx sy sz sc _) := o in
  all3 (fun n v d => fv_close (Z.abs n + 4) v d) (r_codes e) (r_spos e ++ [r_sclk e])%list [sx; sy; sz; sc].

Definition mval_ok (e : mval) (o : oval) : bool :=
  match e, o with
  | MStr s, OStr s' => String.eqb s s'
  | MNum q, ONum d => is_nearest_double q d || (Qeq_bool q 0 && dy_numeqb d (DZero false))
  | _, _ => false
  end.
Definition meta_ok (e : meta) (o : list (string * oval)) : bool :=
  (List.length e =? List.length o)%nat &&
  forallb (fun kv => match meta_get (fst kv) e with Some v => mval_ok v (snd kv) | None => false end) o.

(* dataset: (jd1, jd2) per observation, sat_pos rows, sat_clock_bias; tolerance 1e-7 s *)
Definition epoch_ok (Qk : quirks) (t : string) (jd : jdpair) : bool :=
  let '(JD a b) := jd in
  match epoch_of_time Qk t, dy_toQ a, dy_toQ b with
  | Some (day0, sod), Some j1, Some j2 =>
      Qle_bool (Qabs (((j1 - day0) + j2) * 86400 - sod)) (1 # 10000000)
  | _, _, _ => false
  end.

Record observation := mkO {
  o_recs : list orec;
  o_meta : list (string * oval);
  o_jds : option (list jdpair);        (* as_dataset().time as (jd1, jd2) per observation; None when not called *)
}.
Inductive fcase := FCase (lines : list string) (o : observation).

(* verdicts: [main; sigma; meta; dataset]   0 = equals the specification, 1 = unexplained,
   2 = sigma equals the model with q_sigma_mul, 3 = dataset epochs equal the model with q_frac_ms,
   9 = the file is outside the model (the specification raises) *)
Definition check_file (c : fcase) : list Z :=
  let '(FCase lines o) := c in
  match parse_file spec_tables all_off lines with
  | None => [9; 9; 9; 9]%Z
  | Some (m, recs) =>
      let v_main := if all2 rec_main_ok recs (o_recs o) then 0%Z else 1%Z in
      let v_sigma :=
        if all2 rec_sigma_ok recs (o_recs o) then 0%Z else
        match parse_file spec_tables (mkQ true false) lines with
        | Some (_, recs') => if all2 rec_sigma_ok recs' (o_recs o) then 2%Z else 1%Z
        | None => 1%Z
        end in
      let v_meta := if meta_ok m (o_meta o) then 0%Z else 1%Z in
      let v_dset :=
        match o_jds o with
        | None => 0%Z
        | Some jds =>
            if all2 (fun (r : rec) jd => epoch_ok all_off (r_time r) jd) recs jds then 0%Z
            else if all2 (fun (r : rec) jd => epoch_ok (mkQ false true) (r_time r) jd) recs jds then 3%Z
            else 1%Z
        end in
      [v_main; v_sigma; v_meta; v_dset]
  end.

(* packed transport (Lib/Pack.v): the file text, the time/satellite/system strings of the records (one per line),
   the eight doubles of every record (pos x y z, clock, sigma x y z, sigma clock) as one flat list, the meta
   entries, and jd1 jd2 of every dataset epoch as one flat list *)
Inductive pcase :=
  PCase (text times sats syss : list Uint63.int) (vals : list PrimFloat.float) (meta : list (string * oval))
        (jds : option (list PrimFloat.float)).

Fixpoint group_recs (ts ss ys : list string) (v : list PrimFloat.float) : option (list orec) :=
  match ts, ss, ys, v with
  | [], [], [], [] => Some []
  | t :: ts', s :: ss', y :: ys', x :: yv :: z :: clk :: sx :: sy :: sz :: sc :: v' =>
      match group_recs ts' ss' ys' v' with
      | Some r => Some (OR t s (dy_of_float x) (dy_of_float yv) (dy_of_float z) (dy_of_float clk) (dy_of_float sx)
                           (dy_of_float sy) (dy_of_float sz) (dy_of_float sc) y :: r)
      | None => None
      end
  | _, _, _, _ => None
  end.
Fixpoint group_jds (v : list PrimFloat.float) : option (list jdpair) :=
  match v with
  | [] => Some []
  | a :: b :: v' => match group_jds v' with Some r => Some (JD (dy_of_float a) (dy_of_float b) :: r) | None => None end
  | _ => None
  end.
Definition ONumF (f : PrimFloat.float) : oval := ONum (dy_of_float f).

Definition check_pfile (c : pcase) : list Z :=
  let '(PCase text times sats syss vals meta jds) := c in
  match group_recs (lines_of (unpack times)) (lines_of (unpack sats)) (lines_of (unpack syss)) vals,
        match jds with None => Some None | Some v => option_map Some (group_jds v) end with
  | Some recs, Some j => check_file (FCase (lines_of (unpack text)) (mkO recs meta j))
  | _, _ => [1; 1; 1; 1]%Z
  end.
