(* Model/C12_Header.v - the header part of rinex2_nav / rinex212_nav / rinex3_nav.
   header_parser: label = line[60:].strip(), end marker line[60:73] == "END OF HEADER", fields per label (regenerated table),
   parser method per label (regenerated); the methods _parse_string, _parse_string_list, _parse_leap_seconds,
   _parse_ionospheric_corr, _parse_ion_alpha/_parse_ion_beta, _parse_time_system_corr are modelled on the field texts.
   Definitions only. *)
From Coq Require Import Ascii String List Bool Arith ZArith QArith Lia.
From Verif Require Import Lib.Text Lib.Dyadic Lib.Fixed Lib.C12_ExpFormat Model.C12_Nav.
Import ListNotations.
Local Open Scope nat_scope.
Local Open Scope string_scope.

Infix "++l" := (@List.app _) (at level 60, right associativity, only parsing).

Definition htable := list (string * list fielddef).
Definition hparsers := list (string * string).

Definition hdr_label (line : string) : string := strip (drop 60 line).
Definition is_end (line : string) : bool := String.eqb (slice 60 73 line) "END OF HEADER".

(* ChainParser.parse_line on the rstripped line *)
Definition hdr_fields (t : htable) (line : string) : option (string * list (string * string)) :=
  let l := rstrip line in
  match alookup (hdr_label l) t with
  | Some fs => Some (hdr_label l, map (cut l) fs)
  | None => None
  end.

(* dict[key] = value *)
Fixpoint aset {A} (k : string) (v : A) (l : list (string * A)) : list (string * A) :=
  match l with
  | [] => [(k, v)]
  | (k', w) :: r => if String.eqb k' k then (k, v) :: r else (k', w) :: aset k v r
  end.

Record meta := mkM {
  m_str : list (string * string);                              (* version, file_type, sat_sys, program, run_by, file_created *)
  m_comment : list string;
  m_leap : list (string * string);                             (* meta["leap_seconds"] *)
  m_iono : list (string * (list dec * string * string));      (* meta["iono_para"][id] = para, sv_id, time_mark *)
  m_tsc : list (string * (dec * dec * Z * Z))                  (* meta["time_sys_corr"][type] = a0, a1, t, w *)
}.
Definition meta0 := mkM [] [] [] [] [].

Definition get (k : string) (kv : list (string * string)) : string :=
  match alookup k kv with Some v => v | None => "" end.

Definition prefixed (p : string) (kv : list (string * string)) : list (string * string) :=
  filter (fun e => startswith p (fst e)) kv.

(* int(text): blank or non-digits raise *)
Definition py_int (s : string) : option Z :=
  let t := strip s in
  match t with
  | String c r => if (c =? "-")%char then option_map Z.opp (parse_int r) else parse_int t
  | EmptyString => None
  end.

Definition apply_method (ok : bool) (v : version) (meth : string) (kv : list (string * string)) (m : meta) : option meta :=
  if String.eqb meth "_parse_string" then
    Some (mkM (fold_left (fun acc e => aset (fst e) (snd e) acc) kv (m_str m)) (m_comment m) (m_leap m) (m_iono m) (m_tsc m))
  else if String.eqb meth "_parse_string_list" then
    Some (mkM (m_str m) (m_comment m ++ map snd kv)%list (m_leap m) (m_iono m) (m_tsc m))
  else if String.eqb meth "_parse_leap_seconds" then
    let kv' := match v with
               | V2 => (kv ++ [("future_past_leap_seconds", ""); ("week", ""); ("week_day", ""); ("time_sys", "")])%list
               | _ => kv end in
    Some (mkM (m_str m) (m_comment m) (fold_left (fun acc e => aset (fst e) (snd e) acc) kv' (m_leap m)) (m_iono m) (m_tsc m))
  else if String.eqb meth "_parse_ionospheric_corr" then
    match floats ok (prefixed "para_" kv) with
    | Some ps => Some (mkM (m_str m) (m_comment m) (m_leap m)
                           (aset (get "gnss_id" kv) (map snd ps, get "sv_id" kv, get "time_mark" kv) (m_iono m)) (m_tsc m))
    | None => None
    end
  else if String.eqb meth "_parse_ion_alpha" then
    match floats ok (prefixed "ion_a" kv) with
    | Some ps => Some (mkM (m_str m) (m_comment m) (m_leap m) (aset "GPSA" (map snd ps, "", "") (m_iono m)) (m_tsc m))
    | None => None
    end
  else if String.eqb meth "_parse_ion_beta" then
    match floats ok (prefixed "ion_b" kv) with
    | Some ps => Some (mkM (m_str m) (m_comment m) (m_leap m) (aset "GPSB" (map snd ps, "", "") (m_iono m)) (m_tsc m))
    | None => None
    end
  else if String.eqb meth "_parse_time_system_corr" then
    match nav_float ok (get "a0" kv), nav_float ok (get "a1" kv), py_int (get "t" kv), py_int (get "w" kv) with
    | Some a0, Some a1, Some t, Some w =>
        let key := match v with V2 => "GPUT" | _ => get "corr_type" kv end in
        Some (mkM (m_str m) (m_comment m) (m_leap m) (m_iono m) (aset key (a0, a1, t, w) (m_tsc m)))
    | _, _, _, _ => None
    end
  else None.

(* one header line: labelled lines run their method, other labels are ignored *)
Definition header_step (ok : bool) (v : version) (t : htable) (ps : hparsers) (line : string) (m : meta) : option meta :=
  match hdr_fields t line with
  | Some (lab, kv) => match alookup lab ps with Some meth => apply_method ok v meth kv m | None => None end
  | None => Some m
  end.

(* the header: lines up to and including END OF HEADER; returns the meta data and the remaining (data) lines *)
Fixpoint parse_header (ok : bool) (v : version) (t : htable) (ps : hparsers) (lines : list string) (m : meta)
  : option (meta * list string) :=
  match lines with
  | [] => Some (m, [])
  | l :: r =>
      match header_step ok v t ps l m with
      | None => None
      | Some m1 => if is_end (rstrip l) then Some (m1, r) else parse_header ok v t ps r m1
      end
  end.

(* ------------------------------------------------------------------------------ the format's header layout *)
Definition hdr_layout (v : version) : htable :=
  [ ("RINEX VERSION / TYPE",
       if is_v3 v then [("version", (0, 20)); ("file_type", (20, 21)); ("sat_sys", (40, 41))]
       else [("version", (0, 20)); ("file_type", (20, 21))]);
    ("PGM / RUN BY / DATE", [("program", (0, 20)); ("run_by", (20, 40)); ("file_created", (40, 60))]);
    ("COMMENT", [("comment", (0, 60))]) ]
  ++l match v with
     | V2 => [ ("ION ALPHA", [("ion_a0", (0, 14)); ("ion_a1", (14, 26)); ("ion_a2", (26, 38)); ("ion_a3", (38, 50))]);
               ("ION BETA", [("ion_b0", (0, 14)); ("ion_b1", (14, 26)); ("ion_b2", (26, 38)); ("ion_b3", (38, 50))]);
               ("DELTA-UTC: A0,A1,T,W", [("a0", (0, 22)); ("a1", (22, 41)); ("t", (41, 50)); ("w", (50, 59))]);
               ("LEAP SECONDS", [("leap_seconds", (0, 6))]) ]
     | _ => [ ("IONOSPHERIC CORR", [("gnss_id", (0, 4)); ("para_1", (5, 17)); ("para_2", (17, 29)); ("para_3", (29, 41));
                                    ("para_4", (41, 53)); ("time_mark", (54, 55)); ("sv_id", (56, 58))]);
              ("TIME SYSTEM CORR", [("corr_type", (0, 4)); ("a0", (5, 22)); ("a1", (22, 38)); ("t", (38, 45)); ("w", (45, 50))]);
              ("LEAP SECONDS", [("leap_seconds", (0, 6)); ("future_past_leap_seconds", (6, 12)); ("week", (12, 18));
                                ("week_day", (18, 24)); ("time_sys", (24, 27))]) ]
     end.

Definition hdr_methods (v : version) : hparsers :=
  [ ("RINEX VERSION / TYPE", "_parse_string"); ("PGM / RUN BY / DATE", "_parse_string"); ("COMMENT", "_parse_string_list") ]
  ++l match v with
     | V2 => [ ("ION ALPHA", "_parse_ion_alpha"); ("ION BETA", "_parse_ion_beta");
               ("DELTA-UTC: A0,A1,T,W", "_parse_time_system_corr"); ("LEAP SECONDS", "_parse_leap_seconds") ]
     | _ => [ ("IONOSPHERIC CORR", "_parse_ionospheric_corr"); ("TIME SYSTEM CORR", "_parse_time_system_corr");
              ("LEAP SECONDS", "_parse_leap_seconds") ]
     end.

Definition specs_of (fs : list fielddef) : list fieldspec := map (fun f => mkf (fst f) (fst (snd f)) (snd (snd f))) fs.

(* same labels, same (name, start, stop) per label (any order), names unique per label, same method per label *)
Definition htable_ok (v : version) (t : htable) (ps : hparsers) : bool :=
  Nat.eqb (length t) (length (hdr_layout v)) && nodupb (map fst t)
  && forallb (fun e : string * list fielddef =>
                match alookup (fst e) t with
                | Some fs => fields_sub (snd e) fs && fields_sub fs (snd e) && nodupb (map fst fs) && nodupb (map fst (snd e))
                | None => false end) (hdr_layout v)
  && Nat.eqb (length ps) (length (hdr_methods v)) && nodupb (map fst ps)
  && forallb (fun e : string * string => match alookup (fst e) ps with Some m => String.eqb m (snd e) | None => false end)
             (hdr_methods v).

(* the layout itself: per label the fields are ordered, disjoint and inside the 60 data columns; labels fit in 60..80,
   are distinct and none of them looks like the end marker *)
Definition hdr_layout_wf (v : version) : bool :=
  forallb (fun e : string * list fielddef =>
             table_wf 60 (specs_of (snd e)) && trimmed (fst e) && (len (fst e) <=? 20)%nat
             && negb (String.eqb (take 13 (fst e)) "END OF HEADER") && negb (String.eqb (fst e) "")) (hdr_layout v)
  && nodupb (map fst (hdr_layout v)).

(* ------------------------------------------------------------------------------ the format's writer of one header line *)
Definition end_line : string := spaces 60 ++ "END OF HEADER".

(* a header line of the generating model: label, the text of every field as printed (exactly the width of the field:
   any justification / padding), and the 60 data columns underneath (descriptive text outside the fields, normally blank) *)
Record hline := mkH { h_label : string; h_cells : list (string * string); h_bg : string }.

Definition h_vals (h : hline) : list (string * string) := map (fun nc => (fst nc, strip (snd nc))) (h_cells h).

Definition render_h (v : version) (h : hline) : string :=
  match alookup (h_label h) (hdr_layout v) with
  | Some fs => render_cells (h_bg h ++ h_label h) (specs_of fs) (map snd (h_cells h))
  | None => h_bg h ++ h_label h
  end.

Definition cells_okb (specs : list fieldspec) (cells : list (string * string)) : bool :=
  Nat.eqb (length specs) (length cells)
  && forallb (fun fc : fieldspec * (string * string) =>
                String.eqb (fst (snd fc)) (fname (fst fc)) && Nat.eqb (len (snd (snd fc))) (fstop (fst fc) - fstart (fst fc)))
             (combine specs cells).

Definition hline_ok (v : version) (h : hline) : bool :=
  Nat.eqb (len (h_bg h)) 60 &&
  match alookup (h_label h) (hdr_layout v) with
  | Some fs => cells_okb (specs_of fs) (h_cells h)
  | None => false
  end.

(* what the header means: the methods applied to the values directly *)
Fixpoint meta_of (ok : bool) (v : version) (hs : list hline) (m : meta) : option meta :=
  match hs with
  | [] => Some m
  | h :: r =>
      match alookup (h_label h) (hdr_methods v) with
      | Some meth => match apply_method ok v meth (h_vals h) m with Some m1 => meta_of ok v r m1 | None => None end
      | None => None
      end
  end.

(* ------------------------------------------------------------------------------ check of the correspondence *)
Record ometa := mkOM {
  o_str : list (string * string);
  o_comment : list string;
  o_leap : list (string * string);
  o_iono : list (string * (list dy * string * string));
  o_tsc : list (string * (dy * dy * Z * Z))
}.

Definition amatch {E O} (f : E -> O -> bool) (es : list (string * E)) (os : list (string * O)) : bool :=
  Nat.eqb (length es) (length os)
  && forallb (fun e => match alookup (fst e) os with Some o => f (snd e) o | None => false end) es.

Definition dec_ok (d : dec) (o : dy) : bool := is_nearest_double (dec_toQ d) o.

Definition meta_match (m : meta) (o : ometa) : bool :=
  amatch String.eqb (m_str m) (o_str o)
  && str_list_eqb (m_comment m) (o_comment o)
  && amatch String.eqb (m_leap m) (o_leap o)
  && amatch (fun e x => all2 dec_ok (fst (fst e)) (fst (fst x)) && String.eqb (snd (fst e)) (snd (fst x))
                        && String.eqb (snd e) (snd x)) (m_iono m) (o_iono o)
  && amatch (fun e x => let '(a0, a1, t, w) := e in let '(b0, b1, t', w') := x in
                        dec_ok a0 b0 && dec_ok a1 b1 && Z.eqb t t' && Z.eqb w w') (m_tsc m) (o_tsc o).

Record hcase := mkHC {
  hk_ver : version;
  hk_table : htable; hk_methods : hparsers;      (* regenerated *)
  hk_lines : list string;                        (* the header as written by the independent writer, incl. END OF HEADER *)
  hk_model : list hline;                         (* the generating model *)
  hk_obs : option ometa                          (* None: the parser raised *)
}.

(* verdicts: 0 ok; 1 meta differs from the specification; 6 writer text <> format's render; 9 model on the regenerated
   tables does not reproduce the specification's meta; 11 parser raised *)
Definition check_header (k : hcase) : Z :=
  let v := hk_ver k in
  let want := (map (render_h v) (hk_model k) ++ [end_line])%list in
  if negb (str_list_eqb (map rstrip (hk_lines k)) (map rstrip want)) then 6%Z else
  match hk_obs k with
  | None => 11%Z
  | Some o =>
      match meta_of true v (hk_model k) meta0 with
      | None => 1%Z
      | Some m =>
          if negb (meta_match m o) then 1%Z else
          match parse_header true v (hk_table k) (hk_methods k) (hk_lines k) meta0 with
          | Some (m', []) => if meta_match m' o then 0%Z else 9%Z
          | _ => 9%Z
          end
      end
  end.
