(* C03 - which member of the model family are the four methods regenerated from the source?
   (executable; read by the driver with vm_compute, proved correct in Proofs/C03_Gen.v) *)
From Coq Require Import ZArith QArith List Bool String.
From Verif Require Import Model.C03_TimeArith Model.C03_Formats Gen.C03_TimeArith.
Import ListNotations.

Definition gen_quirks : option quirks := classify_methods gen_method.
(* -1 = no member of the family; else bit 0 = q_sub_drops_days, bit 1 = q_add_collapses *)
Definition gen_quirks_code : Z := quirks_code gen_quirks.

(* unary minus of a duration as read from the source: 0 = specification, 4 = inherited ndarray.__neg__, -1 = neither *)
Definition gen_neg_code : Z := classify_neg gen_neg.

Definition gen_plus (a b : obj) : option obj :=
  run_method (gen_method (match okind a with KTime => TimeAdd | KDelta => DeltaAdd end)) a b.
Definition gen_minus (a b : obj) : option obj :=
  run_method (gen_method (match okind a with KTime => TimeSub | KDelta => DeltaSub end)) a b.

(* every time scale has a duration class of the same scale (time - time looks it up) *)
Definition delta_class_for_every_scale : bool :=
  forallb (fun s => existsb (String.eqb s) gen_delta_scales) gen_time_scales.
(* the four duration formats named by the property exist *)
Definition four_delta_formats : bool :=
  forallb (fun s => existsb (String.eqb s) gen_delta_formats) ["days"; "seconds"; "jd"; "timedelta"]%string.

(* the bodies of the four TimeDelta*._to_jds/_from_jds read from the source are to_jds / from_jds (1 = yes) *)
Definition gen_formats_ok : bool := fmt_srcs_ok gen_delta_fmt_srcs.
Definition gen_formats_code : Z := if gen_formats_ok then 0%Z else (-1)%Z.
