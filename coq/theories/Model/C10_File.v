(* C10 (b) - Dataset.write / Dataset.read over an abstract HDF5 tree.

   A dataset is the depth-first list of its fields with dotted paths (g.h.sat = [g; h; sat]);
   collections are entries of their own.  A field's data object consists of an opaque payload
   (class name, string attributes such as system/ellipsoid/scale/fmt, a main array named like
   the field, further named arrays such as sigma/jd1/jd2) and reference attributes
   (other, ref_pos, ...) that point to ANOTHER FIELD's data object or to a private object.
   Object identity: a field's object is identified by the field's path while writing (the memo
   id(obj) -> name of dataset.py / _position.py) and by a fresh number per created object
   while reading (the memo name -> obj).

   Simplifications (see design/C10.md): private (owned) objects carry no references of their
   own and are not shared; only field groups can be looked up by name; every field kind
   registers itself in the read memo.

   quirks (all false = specification):
     q_regex          the nan/inf regex of _h5utils (Model/C10_Attr.v)
     q_memo_all       _construct_memo registers fields below the write level (dangling names)
     q_memo_shallow   _construct_memo registers only top-level fields and direct children of
                      top-level collections (deeper ones when they are written)
     q_parent_lookup  a not-yet-read referenced field is looked up as  parent_group[dotted name]
     q_np_string      np.string_ does not exist: writing a text field raises *)
From Coq Require Import ZArith List Bool String Ascii.
From Verif Require Import Lib.Dyadic Model.C10_Attr.
Import ListNotations.
Open Scope Z_scope.

Record quirks := { q_regex : bool; q_memo_all : bool; q_memo_shallow : bool; q_parent_lookup : bool; q_np_string : bool }.
Definition all_off : quirks := {| q_regex := false; q_memo_all := false; q_memo_shallow := false; q_parent_lookup := false; q_np_string := false |}.

Definition path := list string.
Definition dotted (p : path) : string := String.concat "." p.

Fixpoint path_eqb (a b : path) : bool :=
  match a, b with
  | [], [] => true
  | x :: a', y :: b' => String.eqb x y && path_eqb a' b'
  | _, _ => false
  end.

Definition parent (p : path) : path := removelast p.

(* ------------------------------------------------------------------ payloads *)
Inductive scalar := SF (d : dy) | SB (b : bool) | ST (s : string).
Record arr := { a_dtype : string; a_shape : list Z; a_vals : list scalar }.

Record payload := {
  p_class : string;                         (* module.qualname of the data object *)
  p_sattrs : list (string * string);        (* system, ellipsoid, scale, fmt *)
  p_main : option arr;                      (* the array named like the field *)
  p_extra : list (string * arr) }.          (* sigma, jd1, jd2 *)

Inductive ref := RField (p : path) | ROwn (pl : payload).

Record leaf := {
  l_kind : string;                          (* plug-in name: float, text, position, ... *)
  l_level : Z;                              (* 1 detail, 2 analysis, 3 operational *)
  l_unit : option (list string);
  l_mult : Z;
  l_pl : payload;
  l_refs : list (string * ref) }.

Inductive entry := ELeaf (l : leaf) | EColl.

Record dataset := {
  d_fields : list (path * entry);
  d_meta : list (string * tree);
  d_vars : list (tree * tree);
  d_numobs : Z;
  d_version : string }.

(* ------------------------------------------------------------------ the file *)
Inductive aval := AStr (s : string) | AInt (z : Z) | AEnc (e : enc).

Record h5obj := {                           (* what an array class _write puts into a group *)
  o_class : string;
  o_fieldname : string;
  o_sattrs : list (string * string);
  o_data : list (string * arr) }.

Record h5leaf := {
  g_kind : string;                          (* from the parent's "fields" dictionary *)
  g_unit : aval;
  g_level : string;
  g_mult : Z;
  g_obj : h5obj;
  g_refattrs : list (string * string);      (* other = 'sat' *)
  g_subs : list (string * h5obj) }.         (* other/ as a sub group *)

Inductive h5entry := HLeaf (g : h5leaf) | HColl (fieldname : string) (fields : aval).

Record h5file := {
  f_fields : aval;
  f_numobs : Z;
  f_vars : aval;
  f_version : string;
  f_groups : list (path * h5entry);         (* creation order = depth first *)
  f_meta : list (string * aval) }.

(* ------------------------------------------------------------------ helpers *)
Definition level_name (l : Z) : string :=
  if l =? 1 then "detail" else if l =? 2 then "analysis" else "operational".
Definition level_of_name (s : string) : option Z :=
  if String.eqb s "detail" then Some 1 else if String.eqb s "analysis" then Some 2
  else if String.eqb s "operational" then Some 3 else None.

Definition kept (lvl : Z) (e : entry) : bool :=
  match e with ELeaf l => lvl <=? l_level l | EColl => true end.

Fixpoint lookup {A} (k : string) (l : list (string * A)) : option A :=
  match l with
  | [] => None
  | (k', v) :: r => if String.eqb k k' then Some v else lookup k r
  end.

Fixpoint plookup {A} (k : path) (l : list (path * A)) : option A :=
  match l with
  | [] => None
  | (k', v) :: r => if path_eqb k k' then Some v else plookup k r
  end.

Definition enc_attr (qs : quirks) (t : tree) : option aval :=
  match encode (q_regex qs) t with Ok e => Some (AEnc e) | Raise _ => None end.

Definition sstr (s : string) : tree := Str (la s).

Definition is_prefix_child (p c : path) : bool := path_eqb (parent c) p.

(* the "fields" dictionary of the group at path p: its direct children that are written *)
Definition fields_dict (lvl : Z) (fs : list (path * entry)) (p : path) : tree :=
  Dict (flat_map (fun pe => match pe with (c, e) =>
          if is_prefix_child p c && kept lvl e
          then [(sstr (last c ""%string), sstr (match e with ELeaf l => l_kind l | EColl => "collection" end))]
          else [] end) fs).

Definition obj_data (nm : string) (pl : payload) : list (string * arr) :=
  (match p_main pl with Some a => [(nm, a)] | None => [] end) ++ p_extra pl.

Definition write_obj (nm : string) (pl : payload) : h5obj :=
  {| o_class := p_class pl; o_fieldname := nm; o_sattrs := p_sattrs pl; o_data := obj_data nm pl |}.

(* ------------------------------------------------------------------ write *)
(* memo: object (= path of the field it is the data of) -> name under which it can be referenced *)
Definition wmemo := list (path * string).

Definition init_memo (qs : quirks) (lvl : Z) (fs : list (path * entry)) : wmemo :=
  flat_map (fun pe => match pe with
    | (p, ELeaf l) =>
        if (q_memo_all qs || (lvl <=? l_level l)) && (negb (q_memo_shallow qs) || (List.length p <=? 2)%nat)
        then [(p, dotted p)] else []
    | _ => [] end) fs.

(* references of one field: threads the memo (a private copy registers the object under owner.attr) *)
Fixpoint write_refs (fs : list (path * entry)) (fname : string) (m : wmemo) (rs : list (string * ref))
  : wmemo * list (string * string) * list (string * h5obj) :=
  match rs with
  | [] => (m, [], [])
  | (a, r) :: rest =>
      match r with
      | RField q =>
          match plookup q m with
          | Some nm => match write_refs fs fname m rest with (m', ra, su) => (m', (a, nm) :: ra, su) end
          | None =>
              match plookup q fs with
              | Some (ELeaf l) =>
                  match write_refs fs fname ((q, (fname ++ "." ++ a)%string) :: m) rest with
                  | (m', ra, su) => (m', ra, (a, write_obj a (l_pl l)) :: su) end
              | _ => write_refs fs fname m rest          (* not a field of the dataset: outside the domain *)
              end
          end
      | ROwn pl => match write_refs fs fname m rest with (m', ra, su) => (m', ra, (a, write_obj a pl) :: su) end
      end
  end.

Definition unit_attr (qs : quirks) (u : option (list string)) : option aval :=
  match u with
  | None => Some (AStr "")
  | Some us => enc_attr qs (Tuple (map sstr us))
  end.

Fixpoint write_fields (qs : quirks) (lvl : Z) (all : list (path * entry)) (m : wmemo) (fs : list (path * entry))
  : option (list (path * h5entry)) :=
  match fs with
  | [] => Some []
  | (p, e) :: rest =>
      if negb (kept lvl e) then write_fields qs lvl all m rest
      else match e with
      | EColl =>
          match enc_attr qs (fields_dict lvl all p), write_fields qs lvl all m rest with
          | Some fd, Some gs => Some ((p, HColl (last p ""%string) fd) :: gs)
          | _, _ => None
          end
      | ELeaf l =>
          if q_np_string qs && String.eqb (l_kind l) "text" then None else
          match write_refs all (dotted p) m (l_refs l) with
          | (m1, ra, su) =>
              let m2 := match plookup p m1 with Some _ => m1 | None => (p, dotted p) :: m1 end in
              match unit_attr qs (l_unit l), write_fields qs lvl all m2 rest with
              | Some ua, Some gs =>
                  Some ((p, HLeaf {| g_kind := l_kind l; g_unit := ua; g_level := level_name (l_level l);
                                     g_mult := l_mult l; g_obj := write_obj (dotted p) (l_pl l);
                                     g_refattrs := ra; g_subs := su |}) :: gs)
              | _, _ => None
              end
          end
      end
  end.

Fixpoint write_meta (qs : quirks) (m : list (string * tree)) : option (list (string * aval)) :=
  match m with
  | [] => Some []
  | (k, t) :: r => match enc_attr qs t, write_meta qs r with
                   | Some a, Some l => Some ((k, a) :: l)
                   | _, _ => None
                   end
  end.

Definition write (qs : quirks) (d : dataset) (lvl : Z) : option h5file :=
  match write_fields qs lvl (d_fields d) (init_memo qs lvl (d_fields d)) (d_fields d),
        write_meta qs (d_meta d),
        enc_attr qs (fields_dict lvl (d_fields d) []),
        enc_attr qs (Dict (d_vars d)) with
  | Some gs, Some me, Some fd, Some va =>
      Some {| f_fields := fd; f_numobs := d_numobs d; f_vars := va; f_version := d_version d;
              f_groups := gs; f_meta := me |}
  | _, _, _, _ => None
  end.

(* ------------------------------------------------------------------ read *)
Record robj := { r_pl : payload; r_refs : list (string * nat) }.
Record rstate := { memo : list (string * nat); heap : list (nat * robj); next : nat }.
Definition st0 : rstate := {| memo := []; heap := []; next := O |}.

Inductive rentry := RLeaf (kind : string) (lvl : Z) (unit : option (list string)) (mult : Z) (id : nat) | RColl.

Fixpoint nlookup {A} (k : nat) (l : list (nat * A)) : option A :=
  match l with
  | [] => None
  | (k', v) :: r => if Nat.eqb k k' then Some v else nlookup k r
  end.

(* payload of an object group: the main array is the one named like the group's fieldname *)
Definition read_payload (o : h5obj) : payload :=
  {| p_class := o_class o; p_sattrs := o_sattrs o;
     p_main := lookup (o_fieldname o) (o_data o);
     p_extra := filter (fun na => negb (String.eqb (fst na) (o_fieldname o))) (o_data o) |}.

Definition leaf_of (e : h5entry) : option h5leaf := match e with HLeaf g => Some g | _ => None end.

(* group meant by the reference name nm, seen from the field group at path `from` *)
Definition find_group (qs : quirks) (f : h5file) (from : path) (nm : string) : option (path * h5leaf) :=
  let hit := fun (pe : path * h5entry) =>
    if q_parent_lookup qs then path_eqb (fst pe) (parent from ++ [nm]) else String.eqb (dotted (fst pe)) nm in
  match find hit (f_groups f) with
  | Some (p, HLeaf g) => Some (p, g)
  | _ => None
  end.

Definition add_memo (k : string) (id : nat) (st : rstate) : rstate :=
  {| memo := (k, id) :: memo st; heap := heap st; next := next st |}.

Definition new_obj (o : robj) (st : rstate) : rstate * nat :=
  ({| memo := memo st; heap := (next st, o) :: heap st; next := S (next st) |}, next st).

(* private sub groups: a new object each, registered as <attr> (by the array's _read) and <field>.<attr> *)
Fixpoint read_subs (fname : string) (st : rstate) (su : list (string * h5obj)) : rstate * list (string * nat) :=
  match su with
  | [] => (st, [])
  | (a, o) :: rest =>
      match new_obj {| r_pl := read_payload o; r_refs := [] |} st with
      | (st1, id) =>
          let st2 := add_memo (fname ++ "." ++ a)%string id (add_memo (o_fieldname o) id st1) in
          match read_subs fname st2 rest with (st3, ids) => (st3, (a, id) :: ids) end
      end
  end.

Fixpoint read_group (fuel : nat) (qs : quirks) (f : h5file) (st : rstate) (p : path) (g : h5leaf) {struct fuel}
  : option (rstate * nat) :=
  match fuel with
  | O => None                                   (* cyclic references: RecursionError *)
  | S fuel' =>
      let fix refs (st : rstate) (ra : list (string * string)) {struct ra} : option (rstate * list (string * nat)) :=
          match ra with
          | [] => Some (st, [])
          | (a, nm) :: rest =>
              match (match lookup nm (memo st) with
                     | Some id => Some (st, id)
                     | None => match find_group qs f p nm with
                               | None => None           (* KeyError *)
                               | Some (p', g') =>
                                   match read_group fuel' qs f st p' g' with
                                   | Some (st', id) => Some (add_memo nm id st', id)
                                   | None => None
                                   end
                               end
                     end) with
              | None => None
              | Some (st1, id) => match refs st1 rest with
                                  | Some (st2, ids) => Some (st2, (a, id) :: ids)
                                  | None => None
                                  end
              end
          end in
      match refs st (g_refattrs g) with
      | None => None
      | Some (st1, ids1) =>
          match read_subs (o_fieldname (g_obj g)) st1 (g_subs g) with
          | (st2, ids2) =>
              match new_obj {| r_pl := read_payload (g_obj g); r_refs := ids1 ++ ids2 |} st2 with
              | (st3, id) => Some (add_memo (o_fieldname (g_obj g)) id st3, id)
              end
          end
      end
  end.

Definition read_unit (qs : quirks) (a : aval) : option (option (list string)) :=
  match a with
  | AStr _ => Some None
  | AEnc e => match decode (q_regex qs) e with
              | Some (Tuple l) =>
                  let strs := flat_map (fun t => match t with Str s => [string_of_list_ascii s] | _ => [] end) l in
                  if Nat.eqb (List.length strs) (List.length l) then Some (Some strs) else None
              | _ => None
              end
  | AInt _ => None
  end.

Fixpoint read_fields (qs : quirks) (f : h5file) (st : rstate) (gs : list (path * h5entry))
  : option (rstate * list (path * rentry)) :=
  match gs with
  | [] => Some (st, [])
  | (p, HColl _ _) :: rest =>
      match read_fields qs f st rest with
      | Some (st', l) => Some (st', (p, RColl) :: l)
      | None => None
      end
  | (p, HLeaf g) :: rest =>
      let nm := o_fieldname (g_obj g) in
      match (match lookup nm (memo st) with
             | Some id => Some (st, id)
             | None => read_group (S (List.length (f_groups f))) qs f st p g
             end) with
      | None => None
      | Some (st1, id) =>
          let st2 := match p with [top] => add_memo top id st1 | _ => st1 end in
          match read_unit qs (g_unit g), level_of_name (g_level g), read_fields qs f st2 rest with
          | Some u, Some lv, Some (st3, l) => Some (st3, (p, RLeaf (g_kind g) lv u (g_mult g) id) :: l)
          | _, _, _ => None
          end
      end
  end.

(* abstraction of the objects read: a reference to the object of a field is that field *)
Definition field_of_id (fl : list (path * rentry)) (id : nat) : option path :=
  match find (fun pe => match snd pe with RLeaf _ _ _ _ id' => Nat.eqb id id' | RColl => false end) fl with
  | Some (p, _) => Some p
  | None => None
  end.

Definition dummy_payload : payload := {| p_class := ""; p_sattrs := []; p_main := None; p_extra := [] |}.

Definition abs_ref (hp : list (nat * robj)) (fl : list (path * rentry)) (ar : string * nat) : string * ref :=
  match field_of_id fl (snd ar) with
  | Some p => (fst ar, RField p)
  | None => (fst ar, ROwn (match nlookup (snd ar) hp with Some o => r_pl o | None => dummy_payload end))
  end.

Definition abs_entry (hp : list (nat * robj)) (fl : list (path * rentry)) (e : rentry) : entry :=
  match e with
  | RColl => EColl
  | RLeaf k lv u m id =>
      match nlookup id hp with
      | Some o => ELeaf {| l_kind := k; l_level := lv; l_unit := u; l_mult := m; l_pl := r_pl o;
                           l_refs := map (abs_ref hp fl) (r_refs o) |}
      | None => EColl
      end
  end.

Fixpoint read_meta (qs : quirks) (m : list (string * aval)) : option (list (string * tree)) :=
  match m with
  | [] => Some []
  | (k, AEnc e) :: r => match decode (q_regex qs) e, read_meta qs r with
                        | Some t, Some l => Some ((k, t) :: l)
                        | _, _ => None
                        end
  | _ => None
  end.

Definition read_state (qs : quirks) (f : h5file) : option (rstate * list (path * rentry)) :=
  read_fields qs f st0 (f_groups f).

Definition read (qs : quirks) (f : h5file) : option dataset :=
  match read_state qs f, read_meta qs (f_meta f),
        (match f_vars f with AEnc e => decode (q_regex qs) e | _ => None end) with
  | Some (st, fl), Some me, Some (Dict va) =>
      Some {| d_fields := map (fun pe => (fst pe, abs_entry (heap st) fl (snd pe))) fl;
              d_meta := me; d_vars := va; d_numobs := f_numobs f; d_version := f_version f |}
  | _, _, _ => None
  end.

(* ------------------------------------------------------------------ what the round trip must give *)
Definition restrict_ref (lvl : Z) (fs : list (path * entry)) (ar : string * ref) : string * ref :=
  match ar with
  | (a, RField q) => match plookup q fs with
                     | Some (ELeaf l) => if lvl <=? l_level l then ar else (a, ROwn (l_pl l))
                     | _ => ar
                     end
  | _ => ar
  end.

Definition restrict (lvl : Z) (d : dataset) : dataset :=
  {| d_fields := flat_map (fun pe => match pe with
        | (p, ELeaf l) => if lvl <=? l_level l
                          then [(p, ELeaf {| l_kind := l_kind l; l_level := l_level l; l_unit := l_unit l; l_mult := l_mult l;
                                             l_pl := l_pl l; l_refs := map (restrict_ref lvl (d_fields d)) (l_refs l) |})]
                          else []
        | (p, EColl) => [(p, EColl)] end) (d_fields d);
     d_meta := d_meta d; d_vars := d_vars d; d_numobs := d_numobs d; d_version := d_version d |}.

(* ---- well-formedness of a dataset *)
Definition is_leaf (e : entry) : bool := match e with ELeaf _ => true | _ => false end.

(* distinct paths *)
Fixpoint nodup_paths (l : list path) : bool :=
  match l with
  | [] => true
  | p :: r => negb (existsb (path_eqb p) r) && nodup_paths r
  end.

(* every reference to a field names a leaf of the dataset that is written at level lvl *)
Definition closed (lvl : Z) (d : dataset) : bool :=
  forallb (fun pe => match pe with
    | (_, ELeaf l) => negb (lvl <=? l_level l) ||
        forallb (fun ar => match snd ar with
                           | RField q => match plookup q (d_fields d) with
                                         | Some (ELeaf l') => lvl <=? l_level l'
                                         | _ => false end
                           | ROwn _ => true end) (l_refs l)
    | _ => true end) (d_fields d).

(* acyclic: rank strictly decreases along references *)
Definition ranked (rank : path -> nat) (d : dataset) : Prop :=
  forall p l a q, In (p, ELeaf l) (d_fields d) -> In (a, RField q) (l_refs l) -> (rank q < rank p)%nat.

(* names: components are non-empty and free of '.', a leaf is not named like a reference attribute that
   is stored privately somewhere (the array classes register private objects under the bare attribute name),
   payload array names differ from each other and from the main array's name *)
Definition comp_ok (s : string) : bool :=
  negb (String.eqb s "") && negb (existsb (Ascii.eqb "."%char) (list_ascii_of_string s)).

Definition attr_names (d : dataset) : list string :=
  flat_map (fun pe => match pe with (_, ELeaf l) => map fst (l_refs l) | _ => [] end) (d_fields d).

Fixpoint nodup_str (l : list string) : bool :=
  match l with [] => true | s :: r => negb (existsb (String.eqb s) r) && nodup_str r end.

Definition payload_ok (nm : string) (pl : payload) : bool :=
  nodup_str (map fst (p_extra pl)) && negb (existsb (String.eqb nm) (map fst (p_extra pl))).

Definition wf (d : dataset) : bool :=
  nodup_paths (map fst (d_fields d)) &&
  forallb (fun pe => match pe with (p, e) =>
     negb (match p with [] => true | _ => false end) && forallb comp_ok p &&
     match e with
     | ELeaf l =>
         ((1 <=? l_level l) && (l_level l <=? 3)) &&
         negb (existsb (String.eqb (dotted p)) (attr_names d)) &&
         nodup_str (map fst (l_refs l)) &&
         forallb comp_ok (map fst (l_refs l)) &&
         payload_ok (dotted p) (l_pl l) &&
         forallb (fun ar => match snd ar with ROwn pl => payload_ok (fst ar) pl | _ => true end) (l_refs l) &&
         match l_unit l with Some us => negb (match us with [] => true | _ => false end) | None => true end
     | EColl => true
     end end) (d_fields d) &&
  forallb (fun kt => encodable (snd kt)) (d_meta d).

(* ------------------------------------------------------------------ correspondence *)
Definition scalar_eqb (a b : scalar) : bool :=
  match a, b with
  | SF x, SF y => dy_eqb x y
  | SB x, SB y => Bool.eqb x y
  | ST x, ST y => String.eqb x y
  | _, _ => false
  end.

Fixpoint list_eqb {A} (eq : A -> A -> bool) (a b : list A) : bool :=
  match a, b with
  | [], [] => true
  | x :: a', y :: b' => eq x y && list_eqb eq a' b'
  | _, _ => false
  end.

Definition arr_eqb (a b : arr) : bool :=
  String.eqb (a_dtype a) (a_dtype b) && list_eqb Z.eqb (a_shape a) (a_shape b) && list_eqb scalar_eqb (a_vals a) (a_vals b).

(* association lists compared as finite maps (HDF5 iterates names alphabetically) *)
Definition map_eqb {A} (eq : A -> A -> bool) (a b : list (string * A)) : bool :=
  Nat.eqb (List.length a) (List.length b) &&
  forallb (fun kv => match lookup (fst kv) b with Some v => eq (snd kv) v | None => false end) a.

Definition opt_eqb {A} (eq : A -> A -> bool) (a b : option A) : bool :=
  match a, b with Some x, Some y => eq x y | None, None => true | _, _ => false end.

Definition payload_eqb (a b : payload) : bool :=
  String.eqb (p_class a) (p_class b) && map_eqb String.eqb (p_sattrs a) (p_sattrs b) &&
  opt_eqb arr_eqb (p_main a) (p_main b) && map_eqb arr_eqb (p_extra a) (p_extra b).

Definition ref_eqb (a b : ref) : bool :=
  match a, b with
  | RField p, RField q => path_eqb p q
  | ROwn x, ROwn y => payload_eqb x y
  | _, _ => false
  end.

Definition entry_eqb (a b : entry) : bool :=
  match a, b with
  | EColl, EColl => true
  | ELeaf x, ELeaf y =>
      String.eqb (l_kind x) (l_kind y) && (l_level x =? l_level y) &&
      opt_eqb (list_eqb String.eqb) (l_unit x) (l_unit y) && (l_mult x =? l_mult y) &&
      payload_eqb (l_pl x) (l_pl y) && map_eqb ref_eqb (l_refs x) (l_refs y)
  | _, _ => false
  end.

Definition kv_eqb (a b : tree * tree) : bool := tree_eqb (fst a) (fst b) && tree_eqb (snd a) (snd b).

(* fields in order (the order of Dataset._fields is observable), meta as a map *)
Definition dataset_eqb (a b : dataset) : bool :=
  list_eqb (fun x y => path_eqb (fst x) (fst y) && entry_eqb (snd x) (snd y)) (d_fields a) (d_fields b) &&
  map_eqb tree_eqb (d_meta a) (d_meta b) && list_eqb kv_eqb (d_vars a) (d_vars b) &&
  (d_numobs a =? d_numobs b).

(* attribute values as observed with h5py: text or integer *)
Inductive oaval := OAText (s : string) | OAInt (z : Z) | OAFlt (f : fl) | OABool (b : bool).

Definition aval_matches (a : aval) (o : oaval) : bool :=
  match a, o with
  | AStr s, OAText x => String.eqb s x
  | AInt z, OAInt z' => z =? z'
  | AEnc e, OAText x => enc_matches (Ok e) (OText x)
  | AEnc e, OAInt z => enc_matches (Ok e) (OInt z)
  | AEnc e, OAFlt x => enc_matches (Ok e) (OFlt x)
  | AEnc e, OABool x => enc_matches (Ok e) (OBool x)
  | _, _ => false
  end.

Record oobj := { oo_class : string; oo_fieldname : string; oo_sattrs : list (string * string); oo_data : list (string * arr) }.
Record oleaf := { og_kind : string; og_unit : oaval; og_level : string; og_mult : Z; og_obj : oobj;
                  og_refattrs : list (string * string); og_subs : list (string * oobj) }.
Inductive oentry := OLeaf (g : oleaf) | OColl (fieldname : string) (fields : oaval).
Record ofile := { of_fields : oaval; of_numobs : Z; of_vars : oaval; of_version : string;
                  of_groups : list (path * oentry); of_meta : list (string * oaval) }.

Definition obj_matches (a : h5obj) (o : oobj) : bool :=
  String.eqb (o_class a) (oo_class o) && String.eqb (o_fieldname a) (oo_fieldname o) &&
  map_eqb String.eqb (o_sattrs a) (oo_sattrs o) && map_eqb arr_eqb (o_data a) (oo_data o).

Definition map_matches {A B} (m : A -> B -> bool) (a : list (string * A)) (b : list (string * B)) : bool :=
  Nat.eqb (List.length a) (List.length b) &&
  forallb (fun kv => match lookup (fst kv) b with Some v => m (snd kv) v | None => false end) a.

Definition entry_matches (a : h5entry) (o : oentry) : bool :=
  match a, o with
  | HColl fn fd, OColl fn' fd' => String.eqb fn fn' && aval_matches fd fd'
  | HLeaf g, OLeaf g' =>
      String.eqb (g_kind g) (og_kind g') && aval_matches (g_unit g) (og_unit g') &&
      String.eqb (g_level g) (og_level g') && (g_mult g =? og_mult g') && obj_matches (g_obj g) (og_obj g') &&
      map_eqb String.eqb (g_refattrs g) (og_refattrs g') && map_matches obj_matches (g_subs g) (og_subs g')
  | _, _ => false
  end.

(* the file as seen with plain h5py equals the model's file (groups in the order of the "fields" dictionaries) *)
Definition file_matches (f : h5file) (o : ofile) : bool :=
  aval_matches (f_fields f) (of_fields o) && (f_numobs f =? of_numobs o) && aval_matches (f_vars f) (of_vars o) &&
  String.eqb (f_version f) (of_version o) &&
  list_eqb path_eqb (map fst (f_groups f)) (map fst (of_groups o)) &&
  forallb (fun pe => match plookup (fst pe) (of_groups o) with Some oe => entry_matches (snd pe) oe | None => false end) (f_groups f) &&
  map_matches aval_matches (f_meta f) (of_meta o).

(* observation of one write + read:
     d, lvl          the dataset described before writing, and the level
     ow              None: write raised (with the exception name); Some o: the file seen by h5py
     ord             None: read raised; Some d': the dataset described after Dataset.read *)
Inductive owrite := OWRaise (e : string) | OWFile (o : ofile).
Inductive oread := ORRaise (e : string) | ORData (d : dataset) | ORNotRun.

Definition run_matches (qs : quirks) (d : dataset) (lvl : Z) (ow : owrite) (ord : oread) : bool :=
  match write qs d lvl, ow with
  | None, OWRaise _ => match ord with ORNotRun => true | _ => false end
  | Some f, OWFile o =>
      file_matches f o &&
      match read qs f, ord with
      | Some d', ORData d'' => dataset_eqb d' d''
      | None, ORRaise _ => true
      | _, _ => false
      end
  | _, _ => false
  end.

Definition current : quirks := {| q_regex := true; q_memo_all := true; q_memo_shallow := true; q_parent_lookup := true; q_np_string := true |}.

Definition set_q (k : Z) (qs : quirks) : quirks :=
  {| q_regex := if k =? 2 then true else q_regex qs;
     q_memo_all := if k =? 3 then true else q_memo_all qs;
     q_memo_shallow := if k =? 4 then true else q_memo_shallow qs;
     q_parent_lookup := if k =? 5 then true else q_parent_lookup qs;
     q_np_string := if k =? 6 then true else q_np_string qs |}.

Definition mk_q (b2 b3 b4 b5 : bool) : quirks :=
  {| q_regex := b2; q_memo_all := b3; q_memo_shallow := b4; q_parent_lookup := b5; q_np_string := false |}.

(* candidate explanations, smallest first: the specification, one quirk, then sets of quirks 2..5
   coded 100 + 1*[regex] + 2*[memo_all] + 4*[memo_shallow] + 8*[parent_lookup] *)
Definition candidates : list (Z * quirks) :=
  [ (0, all_off); (2, set_q 2 all_off); (3, set_q 3 all_off); (4, set_q 4 all_off); (5, set_q 5 all_off); (6, set_q 6 all_off);
    (103, mk_q true true false false); (105, mk_q true false true false); (109, mk_q true false false true);
    (106, mk_q false true true false); (110, mk_q false true false true); (112, mk_q false false true true);
    (107, mk_q true true true false); (111, mk_q true true false true); (113, mk_q true false true true);
    (114, mk_q false true true true); (115, mk_q true true true true) ].

(* verdict: 0 = specification; 2..6 = specification with that single quirk; 100+mask = that set of quirks; 1 = unexplained *)
Definition check_run (c : dataset * Z * owrite * oread) : Z :=
  match c with (d, lvl, ow, ord) =>
    match find (fun kq => run_matches (snd kq) d lvl ow ord) candidates with
    | Some (k, _) => k
    | None => 1
    end
  end.

(* the property itself on observables: what was read is the restriction of what was written *)
Definition roundtrip_run (c : dataset * Z * oread) : Z :=
  match c with
  | (d, lvl, ORData d') => if dataset_eqb (restrict lvl d) d' then 0 else 1
  | _ => 1
  end.
