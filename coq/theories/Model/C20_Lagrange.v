(* C20 / interpolation - midgard.math.interpolation.lagrange over Q, as coded:
     argsort of the samples (unless assume_sorted), strict monotonicity check, bounds check,
     window start = argmin |x - x_new| - window // 2 clamped to [0, n - window],
     optional rescaling of the abscissae ((x - mean) / std), Lagrange basis on the window, r.T @ y_wd.
   Values are generic (`V`) where only the abscissae matter; rows of y are `list Q` (1-d data = rows of
   length 1).  Definitions only; proofs in Proofs/C20_Lagrange.v. *)
From Coq Require Import ZArith QArith Qabs Bool List Lia.
From Verif Require Import Lib.Dyadic.
Import ListNotations.
Open Scope Q_scope.

Definition pt (V : Type) := (Q * V)%type.

(* x[sort_idxs], y[sort_idxs]: insertion sort on the abscissa *)
Fixpoint insert {V : Type} (p : Q * V) (l : list (Q * V)) : list (Q * V) :=
  match l with
  | [] => [p]
  | h :: r => if Qle_bool (fst p) (fst h) then p :: l else h :: insert p r
  end.
Fixpoint sort_pts {V : Type} (l : list (Q * V)) : list (Q * V) :=
  match l with [] => [] | h :: r => insert h (sort_pts r) end.

(* all(np.diff(x) > 0) *)
Fixpoint strictly_increasing (xs : list Q) : bool :=
  match xs with
  | a :: r => match r with b :: _ => Qlt_b a b && strictly_increasing r | [] => true end
  | [] => true
  end.

(* np.abs(x - x_new).argmin(): first index of the minimum *)
Fixpoint argmin_from (xs : list Q) (t : Q) (i best : nat) (bestv : Q) : nat :=
  match xs with
  | [] => best
  | x :: r => let d := Qabs (x - t) in
              if Qlt_b d bestv then argmin_from r t (S i) i d else argmin_from r t (S i) best bestv
  end.
Definition argmin_abs (xs : list Q) (t : Q) : nat :=
  match xs with [] => 0%nat | x :: r => argmin_from r t 1 0 (Qabs (x - t)) end.

(* start index of the window: argmin - window // 2, clamped to [0, n - window] *)
Definition start_idx (n w am : nat) : nat := Nat.min (am - w / 2) (n - w).

Record options := mkOpt {
  assume_sorted : bool;          (* skip the argsort *)
  bounds_error : bool;           (* raise outside [x.min(), x.max()] *)
  scaling : option (Q * Q)       (* Some (m, s): abscissae replaced by (x - m) / s as the code does; None: not *)
}.
Definition default_opts : options := mkOpt false true None.

(* the window of samples used for x_new = t, or None where the code raises ValueError *)
Definition lagrange_sel {V : Type} (o : options) (w : nat) (pts : list (Q * V)) (t : Q) : option (list (Q * V)) :=
  let sp := if assume_sorted o then pts else sort_pts pts in
  let xs := map fst sp in
  let n := length xs in
  if (w <? 3)%nat || (n <? w)%nat || negb (strictly_increasing xs) then None
  else if bounds_error o && (Qlt_b t (hd 0 xs) || Qlt_b (last xs 0) t) then None
  else Some (firstn w (skipn (start_idx n w (argmin_abs xs t)) sp)).

(* prod_{j != i} (t - x_j) / (x_i - x_j); the nodes of a window are pairwise different, so "j != i" is
   "x_j != x_i" *)
Definition basis (xs : list Q) (xi t : Q) : Q :=
  fold_right (fun xj acc => if Qeq_bool xj xi then acc else (t - xj) / (xi - xj) * acc) 1 xs.

Definition rescale {V : Type} (o : options) (win : list (Q * V)) (t : Q) : list (Q * V) * Q :=
  match scaling o with
  | Some (m, s) => (map (fun p => ((fst p - m) / s, snd p)) win, (t - m) / s)
  | None => (win, t)
  end.

(* 1-d data *)
Definition lag_1d (win : list (Q * Q)) (t : Q) : Q :=
  let xs := map fst win in
  fold_right (fun p acc => snd p * basis xs (fst p) t + acc) 0 win.

(* n-d data: y_new = r.T @ y_wd, a linear combination of the rows *)
Fixpoint vadd (a b : list Q) : list Q :=
  match a, b with x :: a', y :: b' => (x + y) :: vadd a' b' | _, _ => [] end.
Definition vscale (k : Q) (a : list Q) : list Q := map (Qmult k) a.
Definition lag_nd (ncols : nat) (win : list (Q * list Q)) (t : Q) : list Q :=
  let xs := map fst win in
  fold_right (fun p acc => vadd (vscale (basis xs (fst p) t) (snd p)) acc) (repeat 0 ncols) win.

Definition lagrange1 (o : options) (w : nat) (pts : list (Q * Q)) (t : Q) : option Q :=
  match lagrange_sel o w pts t with
  | Some win => let '(win', t') := rescale o win t in Some (lag_1d win' t')
  | None => None
  end.

Definition lagrange (o : options) (ncols : nat) (w : nat) (pts : list (Q * list Q)) (t : Q) : option (list Q) :=
  match lagrange_sel o w pts t with
  | Some win => let '(win', t') := rescale o win t in Some (lag_nd ncols win' t')
  | None => None
  end.

(* polynomials as coefficient lists, lowest degree first (for lagrange_reproduces_poly) *)
Definition peval (p : list Q) (t : Q) : Q := fold_right (fun c acc => c + t * acc) 0 p.

Definition column {V W : Type} (f : V -> W) (l : list (Q * V)) : list (Q * W) :=
  map (fun p => (fst p, f (snd p))) l.

(* ------------------------------------------------------------------ correspondence *)
(* conditioning sum_i |y_i L_i(t)| of column c on the window *)
Definition lag_cond (win : list (Q * list Q)) (c : nat) (t : Q) : Q :=
  let xs := map fst win in
  fold_right (fun p acc => Qabs (nth c (snd p) 0 * basis xs (fst p) t) + acc) 0 win.

Fixpoint all_some {A : Type} (l : list (option A)) : option (list A) :=
  match l with
  | [] => Some []
  | Some x :: r => match all_some r with Some r' => Some (x :: r') | None => None end
  | None :: _ => None
  end.

Definition pts_toQ (pts : list (dy * list dy)) : option (list (Q * list Q)) :=
  all_some (map (fun p => match dy_toQ (fst p), all_some (map dy_toQ (snd p)) with
                          | Some x, Some ys => Some (x, ys) | _, _ => None end) pts).

Definition lag_rel : Q := 1 # 1000000000.
Definition lag_abs : Q := 1 # 2 ^ 1000.

(* case: ((window, assume_sorted, bounds_error), ncols, samples (x, row), x_new, what midgard returned:
          Some row | None = ValueError)
   0 = both raise, or every column agrees with the exact model within 1e-9 * sum_i |y_i L_i(t)|;
   1 = values differ; 5 = one raises and the other does not *)
Definition check_lagrange (c : (nat * bool * bool) * nat * list (dy * list dy) * dy * option (list dy)) : Z :=
  let '((w, srt, bnd), ncols, pts, t, res) := c in
  match pts_toQ pts, dy_toQ t with
  | Some qpts, Some tq =>
      let o := mkOpt srt bnd None in
      match lagrange o ncols w qpts tq, lagrange_sel o w qpts tq, res with
      | None, _, None => 0%Z
      | Some m, Some win, Some r =>
          if negb (length m =? length r)%nat then 1%Z else
          let oks := map (fun k =>
             let mv := Qred (nth k m 0) in
             within_rel 0 (lag_rel * lag_cond win k tq + lag_abs) mv (nth k r DNaN)) (seq 0 ncols) in
          if forallb (fun b => b) oks then 0%Z else 1%Z
      | _, _, _ => 5%Z
      end
  | _, _ => 1%Z
  end.

(* laws checked on the implementation alone (the SciPy-backed interpolators): two rows of doubles that must
   agree within rel * scale + tiny, scale = a magnitude shipped with the case (max |y|) *)
Definition check_rows (c : Q * dy * list dy * list dy) : Z :=
  let '(rel, scale, a, b) := c in
  match dy_toQ scale with
  | Some sc =>
      if (length a =? length b)%nat &&
         forallb (fun p => match dy_toQ (fst p) with
                           | Some x => within (rel * Qabs sc + lag_abs) x (snd p)
                           | None => false end) (combine a b)
      then 0%Z else 1%Z
  | None => 1%Z
  end.

(* linearity on the implementation: f(a y + b z) against a f(y) + b f(z), the combination formed exactly *)
Definition check_lin (c : Q * dy * (dy * dy) * (list dy * list dy * list dy)) : Z :=
  let '(rel, scale, (a, b), (fy, fz, fyz)) := c in
  match dy_toQ scale, dy_toQ a, dy_toQ b with
  | Some sc, Some aq, Some bq =>
      if (length fy =? length fyz)%nat && (length fz =? length fyz)%nat &&
         forallb (fun p => match dy_toQ (fst (fst p)), dy_toQ (snd (fst p)) with
                           | Some u, Some v => within (rel * Qabs sc + lag_abs) (aq * u + bq * v) (snd p)
                           | _, _ => false end) (combine (combine fy fz) fyz)
      then 0%Z else 1%Z
  | _, _, _ => 1%Z
  end.
