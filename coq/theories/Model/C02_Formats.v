(* C02 - time formats.  Executable model only (no proofs here).

   Anchors: midgard/data/_time.py   TimeFormat subclasses (_to_jds / _from_jds), TimeBase.jd_int/jd_frac/_jd_delta,
                                     TimeStr._str2dt / _dt2str
            midgard/math/unit.py     day2seconds, week2days, julian_year2day (constants compared in Props via Gen)

   An instant is either an integer number of microseconds since 2000-01-01T00:00:00 (`us`, the grid of
   datetime) or an exact rational Julian date (`Q`).  The specification is exact arithmetic; the one place
   where the current code deviates by construction (the day is found from the *rounded* float sum jd1+jd2)
   is the quirk `q_rounded_sum`, modelled with correctly rounded binary64 arithmetic (`rn53`). *)
From Coq Require Import ZArith QArith Qround Qabs Bool List String Ascii.
From Verif Require Import Lib.Dyadic.
Import ListNotations.
Open Scope Z_scope.

(* ------------------------------------------------------------------ bounded universal quantifier *)
(* all_below p f lo  <->  f holds on [lo, lo + p) ; structural on the binary numeral, no big nat *)
Fixpoint all_below (p : positive) (f : Z -> bool) (lo : Z) : bool :=
  match p with
  | xH => f lo
  | xO q => all_below q f lo && all_below q f (lo + Zpos q)
  | xI q => all_below q f lo && all_below q f (lo + Zpos q) && f (lo + 2 * Zpos q)
  end.

(* ------------------------------------------------------------------ civil calendar (proleptic Gregorian) *)
(* day-of-era <-> (year-of-era, month counted from March, day); era = 400 years = 146097 days, starting 0000-03-01 *)
Definition doe_of (yoe mp d : Z) : Z := yoe * 365 + yoe / 4 - yoe / 100 + (153 * mp + 2) / 5 + d - 1.

Definition ymd_of_doe (doe : Z) : Z * Z * Z :=
  let yoe := (doe - doe / 1460 + doe / 36524 - doe / 146096) / 365 in
  let doy := doe - (365 * yoe + yoe / 4 - yoe / 100) in
  let mp := (5 * doy + 2) / 153 in
  (yoe, mp, doy - (153 * mp + 2) / 5 + 1).

(* days since 1970-01-01 *)
Definition days_from_civil (y m d : Z) : Z :=
  let y' := if m <=? 2 then y - 1 else y in
  let mp := if m <=? 2 then m + 9 else m - 3 in
  (y' / 400) * 146097 + doe_of (y' mod 400) mp d - 719468.

Definition civil_from_days (z : Z) : Z * Z * Z :=
  let z' := z + 719468 in
  let '(yoe, mp, d) := ymd_of_doe (z' mod 146097) in
  let m := if mp <? 10 then mp + 3 else mp - 9 in
  (yoe + (z' / 146097) * 400 + (if m <=? 2 then 1 else 0), m, d).

Definition is_leap (y : Z) : bool := (y mod 4 =? 0) && (negb (y mod 100 =? 0) || (y mod 400 =? 0)).

Definition days_in_month (y m : Z) : Z :=
  if m =? 2 then (if is_leap y then 29 else 28)
  else if (m =? 4) || (m =? 6) || (m =? 9) || (m =? 11) then 30 else 31.

Definition valid_date (y m d : Z) : bool :=
  (1 <=? m) && (m <=? 12) && (1 <=? d) && (d <=? days_in_month y m).

(* length of the month counted from March of year-of-era yoe (Jan/Feb belong to civil year yoe+1) *)
Definition mlen' (yoe mp : Z) : Z :=
  if mp =? 11 then (if is_leap (yoe + 1) then 29 else 28)
  else if (mp =? 1) || (mp =? 3) || (mp =? 6) || (mp =? 8) then 30 else 31.

Definition chkA (doe : Z) : bool :=
  let '(yoe, mp, d) := ymd_of_doe doe in
  (doe_of yoe mp d =? doe) && (0 <=? yoe) && (yoe <? 400) && (0 <=? mp) && (mp <? 12) && (1 <=? d) && (d <=? mlen' yoe mp).

Definition chkB (yoe mp d : Z) : bool :=
  if d <=? mlen' yoe mp then
    let doe := doe_of yoe mp d in
    (0 <=? doe) && (doe <? 146097) &&
    (let '(a, b, c) := ymd_of_doe doe in (a =? yoe) && (b =? mp) && (c =? d))
  else true.

Definition year_len (y : Z) : Z := if is_leap y then 366 else 365.
Definition day_of_year (y m d : Z) : Z := days_from_civil y m d - days_from_civil y 1 1 + 1.
Definition date_of_yday (y doy : Z) : Z * Z * Z := civil_from_days (days_from_civil y 1 1 + doy - 1).

(* ------------------------------------------------------------------ datetime <-> microseconds since 2000-01-01 *)
Definition US_S : Z := 1000000.
Definition US_DAY : Z := 86400000000.
Definition D2000 : Z := 10957.            (* days_from_civil 2000 1 1 *)

Record dt : Set := Dt { dY : Z; dMo : Z; dD : Z; dH : Z; dMi : Z; dS : Z; dUs : Z }.

Definition dt_eqb (a b : dt) : bool :=
  (dY a =? dY b) && (dMo a =? dMo b) && (dD a =? dD b) && (dH a =? dH b) && (dMi a =? dMi b) && (dS a =? dS b) && (dUs a =? dUs b).

Definition valid_tod (h mi s us : Z) : bool :=
  (0 <=? h) && (h <? 24) && (0 <=? mi) && (mi <? 60) && (0 <=? s) && (s <? 60) && (0 <=? us) && (us <? 1000000).

Definition valid_dt (x : dt) : bool := valid_date (dY x) (dMo x) (dD x) && valid_tod (dH x) (dMi x) (dS x) (dUs x).

(* microsecond of day <-> h:m:s.us *)
Definition sod_join (h mi s us : Z) : Z := ((h * 60 + mi) * 60 + s) * US_S + us.
Definition sod_split (r : Z) : Z * Z * Z * Z :=
  let s := r / US_S in (s / 3600, (s / 60) mod 60, s mod 60, r mod US_S).

Definition us_of_dt (x : dt) : Z :=
  (days_from_civil (dY x) (dMo x) (dD x) - D2000) * US_DAY + sod_join (dH x) (dMi x) (dS x) (dUs x).

Definition dt_of_us (u : Z) : dt :=
  let '(y, m, d) := civil_from_days (u / US_DAY + D2000) in
  let '(h, mi, s, us) := sod_split (u mod US_DAY) in
  Dt y m d h mi s us.

(* ------------------------------------------------------------------ Julian dates as exact rationals *)
Definition Qz (z : Z) : Q := inject_Z z.
Definition JD2000 : Q := 4903089 # 2.      (* 2451544.5  = 2000-01-01T00:00 *)
Definition JD1970 : Q := 4881175 # 2.      (* 2440587.5 *)
Definition JD1980 : Q := 4888489 # 2.      (* 2444244.5  = 1980-01-06T00:00, GPS epoch *)
Definition JDJ2000 : Q := 2451545 # 1.     (* J2000.0 *)
Definition MJD0 : Q := 4800001 # 2.        (* 2400000.5 *)
Definition JYEAR : Q := 1461 # 4.          (* 365.25 d *)

Definition jd_of_us (u : Z) : Q := (JD2000 + Qz u / Qz US_DAY)%Q.
Definition usq_of_jd (T : Q) : Q := ((T - JD2000) * Qz US_DAY)%Q.
Definition jd_of_date (y m d : Z) : Q := (JD1970 + Qz (days_from_civil y m d))%Q.

(* the split of Time.jd_int / jd_frac (specification: exact) *)
Definition jd_int_q (v : Q) : Q := (Qz (Qfloor (v - (1 # 2))) + (1 # 2))%Q.
Definition jd_frac_q (v : Q) : Q := (v - jd_int_q v)%Q.

(* mjd *)
Definition mjd_of_jd (T : Q) : Q := (T - MJD0)%Q.
Definition jd_of_mjd (v : Q) : Q := (v + MJD0)%Q.

(* gps week / seconds of week / day of week *)
Definition gpsws_of_jd (T : Q) : Z * Q * Z :=
  let D := (T - JD1980)%Q in
  let w := Qfloor (D / 7) in
  let s := ((D - 7 * Qz w) * 86400)%Q in
  (w, s, Qfloor (s / 86400)).
Definition jd_of_gpsws (w : Q) (s : Q) : Q := (JD1980 + 7 * w + s / 86400)%Q.

(* gps seconds *)
Definition gpssec_of_jd (T : Q) : Q := ((T - JD1980) * 86400)%Q.
Definition jd_of_gpssec (v : Q) : Q := (JD1980 + v / 86400)%Q.

(* Julian year *)
Definition jyear_of_jd (T : Q) : Q := (2000 + (T - JDJ2000) / JYEAR)%Q.
Definition jd_of_jyear (v : Q) : Q := (JDJ2000 + (v - 2000) * JYEAR)%Q.

(* decimal year: year + elapsed days / length of the year; `ylen y` is the length the code uses
   (calendar length, plus the leap seconds of that year for utc) *)
Definition year_of_jd (T : Q) : Z := fst (fst (civil_from_days (Qfloor (T - JD1970)))).
Definition decyear_of_jd (ylen : Z -> Q) (T : Q) : Q :=
  let y := year_of_jd T in (Qz y + (T - jd_of_date y 1 1) / ylen y)%Q.
Definition jd_of_decyear (ylen : Z -> Q) (v : Q) : Q :=
  let y := Qfloor v in (jd_of_date y 1 1 + (v - Qz y) * ylen y)%Q.

(* TAI-UTC table rows as in _taiutc.txt: (start jd, end jd, offset s, ref mjd, factor s/day) *)
Definition taiutc_row : Set := (Q * Q * Q * Q * Q)%type.
Fixpoint find_row (rows : list taiutc_row) (jd : Q) : option taiutc_row :=
  match rows with
  | [] => None
  | ((st, en, o, r, f) as row) :: rest => if Qle_bool st jd && Qlt_b jd en then Some row else find_row rest jd
  end.
(* np.argmax of an all-False mask is 0: outside the table the first row is used *)
Definition tai_minus_utc (rows : list taiutc_row) (jd : Q) : Q :=
  match (match find_row rows jd with Some r => Some r | None => hd_error rows end) with
  | Some (st, en, o, r, f) => (o + (jd - MJD0 - r) * f)%Q
  | None => 0%Q
  end.
Definition cal_len (y : Z) : Q := Qz (days_from_civil (y + 1) 1 1 - days_from_civil y 1 1).
Definition ylen_utc (rows : list taiutc_row) (y : Z) : Q :=
  Qred (cal_len y + (tai_minus_utc rows (jd_of_date (y + 1) 1 1) - tai_minus_utc rows (jd_of_date y 1 1)) / 86400)%Q.

(* ------------------------------------------------------------------ fixed-width decimal text *)
Definition digit_char (d : Z) : ascii := ascii_of_nat (48 + Z.to_nat d).
Definition digit_val (c : ascii) : option Z :=
  let n := Z.of_nat (nat_of_ascii c) in if (48 <=? n) && (n <=? 57) then Some (n - 48) else None.

Fixpoint digits (w : nat) (n : Z) : string :=
  match w with
  | O => EmptyString
  | S w' => String (digit_char (n / 10 ^ Z.of_nat w')) (digits w' (n mod 10 ^ Z.of_nat w'))
  end.

Fixpoint take_num (w : nat) (s : string) (acc : Z) : option (Z * string) :=
  match w with
  | O => Some (acc, s)
  | S w' => match s with
            | String c r => match digit_val c with Some d => take_num w' r (acc * 10 + d) | None => None end
            | EmptyString => None
            end
  end.

Inductive tok : Set := Num (w : nat) | Lit (c : ascii).

Fixpoint render (p : list tok) (vs : list Z) : string :=
  match p with
  | [] => EmptyString
  | Lit c :: p' => String c (render p' vs)
  | Num w :: p' => match vs with
                   | v :: vs' => (digits w v ++ render p' vs')%string
                   | [] => EmptyString
                   end
  end.

Fixpoint parse (p : list tok) (s : string) : option (list Z) :=
  match p with
  | [] => match s with EmptyString => Some [] | _ => None end
  | Lit c :: p' => match s with
                   | String c' r => if Ascii.eqb c c' then parse p' r else None
                   | EmptyString => None
                   end
  | Num w :: p' => match take_num w s 0 with
                   | Some (v, r) => match parse p' r with Some vs => Some (v :: vs) | None => None end
                   | None => None
                   end
  end.

(* values fit the numeric tokens of the pattern *)
Fixpoint fits (p : list tok) (vs : list Z) : Prop :=
  match p with
  | [] => vs = []
  | Lit _ :: p' => fits p' vs
  | Num w :: p' => match vs with v :: vs' => 0 <= v < 10 ^ Z.of_nat w /\ fits p' vs' | [] => False end
  end.

(* ------------------------------------------------------------------ the text formats *)
Inductive tfmt : Set := Tisot | Tiso | Tyday | Tdate | Tyy | Tyyyy.

Definition c_dash : ascii := "-"%char.
Definition c_colon : ascii := ":"%char.
Definition c_dot : ascii := "."%char.
Definition c_T : ascii := "T"%char.
Definition c_sp : ascii := " "%char.

(* the strftime patterns of the specification, as (directive letter | literal) lists; compared with the
   patterns of the source (Gen) in Props *)
Definition pattern (f : tfmt) : list tok :=
  match f with
  | Tisot => [Num 4; Lit c_dash; Num 2; Lit c_dash; Num 2; Lit c_T; Num 2; Lit c_colon; Num 2; Lit c_colon; Num 2; Lit c_dot; Num 6]
  | Tiso => [Num 4; Lit c_dash; Num 2; Lit c_dash; Num 2; Lit c_sp; Num 2; Lit c_colon; Num 2; Lit c_colon; Num 2; Lit c_dot; Num 6]
  | Tyday => [Num 4; Lit c_colon; Num 3; Lit c_colon; Num 2; Lit c_colon; Num 2; Lit c_colon; Num 2; Lit c_dot; Num 6]
  | Tdate => [Num 4; Lit c_dash; Num 2; Lit c_dash; Num 2]
  | Tyy => [Num 2; Lit c_colon; Num 3; Lit c_colon; Num 5]
  | Tyyyy => [Num 4; Lit c_colon; Num 3; Lit c_colon; Num 5]
  end.

(* the same as strftime directive strings (what the source declares) *)
Definition spec_strftime (f : tfmt) : string :=
  match f with
  | Tisot => "%Y-%m-%dT%H:%M:%S.%f"
  | Tiso => "%Y-%m-%d %H:%M:%S.%f"
  | Tyday => "%Y:%j:%H:%M:%S.%f"
  | Tdate => "%Y-%m-%d"
  | Tyy => "%y:%j:"
  | Tyyyy => "%Y:%j:"
  end.

(* strptime's %y pivot (POSIX): 69..99 -> 19xx, 00..68 -> 20xx *)
Definition yy_to_year (yy : Z) : Z := if 69 <=? yy then 1900 + yy else 2000 + yy.

Definition fields_of_dt (f : tfmt) (x : dt) : list Z :=
  let doy := day_of_year (dY x) (dMo x) (dD x) in
  let sod := (dH x * 60 + dMi x) * 60 + dS x in
  match f with
  | Tisot | Tiso => [dY x; dMo x; dD x; dH x; dMi x; dS x; dUs x]
  | Tyday => [dY x; doy; dH x; dMi x; dS x; dUs x]
  | Tdate => [dY x; dMo x; dD x]
  | Tyy => [dY x mod 100; doy; sod]
  | Tyyyy => [dY x; doy; sod]
  end.

Definition dt_of_yday (y doy h mi s us : Z) : option dt :=
  if (1 <=? doy) && (doy <=? year_len y) then
    let '(y', m, d) := date_of_yday y doy in Some (Dt y' m d h mi s us)
  else None.

Definition dt_of_fields (f : tfmt) (vs : list Z) : option dt :=
  match f, vs with
  | Tisot, [y; m; d; h; mi; s; us] | Tiso, [y; m; d; h; mi; s; us] => Some (Dt y m d h mi s us)
  | Tyday, [y; doy; h; mi; s; us] => dt_of_yday y doy h mi s us
  | Tdate, [y; m; d] => Some (Dt y m d 0 0 0 0)
  | Tyy, [yy; doy; sod] => if sod <? 86400 then dt_of_yday (yy_to_year yy) doy (sod / 3600) ((sod / 60) mod 60) (sod mod 60) 0 else None
  | Tyyyy, [y; doy; sod] => if sod <? 86400 then dt_of_yday y doy (sod / 3600) ((sod / 60) mod 60) (sod mod 60) 0 else None
  | _, _ => None
  end.

(* the grid of the format: what survives *)
Definition trunc_us (f : tfmt) (u : Z) : Z :=
  match f with
  | Tisot | Tiso | Tyday => u
  | Tdate => u - u mod US_DAY
  | Tyy | Tyyyy => u - u mod US_S
  end.

Definition year_ok (f : tfmt) (y : Z) : bool :=
  match f with Tyy => (1969 <=? y) && (y <=? 2068) | _ => (1 <=? y) && (y <=? 9999) end.

Definition text_of_us (f : tfmt) (u : Z) : string := render (pattern f) (fields_of_dt f (dt_of_us u)).

Definition us_of_text (f : tfmt) (s : string) : option Z :=
  match parse (pattern f) s with
  | Some vs => match dt_of_fields f vs with
               | Some x => if valid_dt x && year_ok f (dY x) then Some (us_of_dt x) else None
               | None => None
               end
  | None => None
  end.

(* ------------------------------------------------------------------ binary64 arithmetic (for the quirk model) *)
Definition log2_floor_Q (a : Q) : Z :=     (* floor(log2 a) for a > 0 *)
  let n := Qnum a in let d := Zpos (Qden a) in
  let e := Z.log2 n - Z.log2 d in
  if Qle_bool (pow2Q e) a then (if Qle_bool (pow2Q (e + 1)) a then e + 1 else e) else e - 1.

Definition round_half_even (x : Q) : Z :=
  let lo := Qfloor x in
  let fr := (x - Qz lo)%Q in
  match Qcompare fr (1 # 2) with
  | Lt => lo
  | Gt => lo + 1
  | Eq => if Z.even lo then lo else lo + 1
  end.

(* nearest binary64 (normal range), ties to even; `rn53` first reduces the fraction so that equal rationals
   (==) give identical results *)
Definition rn53_raw (q : Q) : Q :=
  match Qcompare q 0 with
  | Eq => 0%Q
  | c =>
      let a := Qabs q in
      let e := log2_floor_Q a - 52 in
      let m := round_half_even (a / pow2Q e)%Q in
      let r := Qred (Qz m * pow2Q e)%Q in
      match c with Lt => Qred (- r)%Q | _ => r end
  end.

Definition rn53 (q : Q) : Q := rn53_raw (Qred q).

Record quirks : Set := Quirks { q_rounded_sum : bool }.
Definition all_off : quirks := Quirks false.
Definition quirk_rounded_sum : quirks := Quirks true.

(* _jd_delta / jd_int / jd_frac as coded: jd1 - (floor(jd - 0.5) + 0.5) with jd = jd1 + jd2.
   Specification (quirk off): exact arithmetic.  Quirk on: every operation rounded to binary64. *)
Definition fl (q : quirks) (x : Q) : Q := if q_rounded_sum q then rn53 x else Qred x.
Definition split_model (q : quirks) (jd1 jd2 : Q) : Q * Q :=
  let jd := fl q (jd1 + jd2) in
  let day := fl q (Qz (Qfloor (fl q (jd - (1 # 2)))) + (1 # 2)) in
  let delta := fl q (jd1 - day) in
  (fl q (jd1 - delta), fl q (jd2 + delta)).

(* ------------------------------------------------------------------ correspondence checks *)
Inductive fmt : Set := Fjd | Fmjd | Fdatetime | Fgps_ws | Fgps_seconds | Fjyear | Fdecimalyear
                     | Fyy | Fyyyy | Fisot | Fiso | Fyday | Fdate.
Inductive scale : Set := Sutc | Stai | Stcg | Sgps | Stt.

Definition tfmt_of (f : fmt) : option tfmt :=
  match f with
  | Fyy => Some Tyy | Fyyyy => Some Tyyyy | Fisot => Some Tisot | Fiso => Some Tiso
  | Fyday => Some Tyday | Fdate => Some Tdate | _ => None
  end.

Definition is_gps (s : scale) : bool := match s with Sgps => true | _ => false end.
Definition fmt_valid (s : scale) (f : fmt) : bool :=
  match f with Fgps_ws | Fgps_seconds => is_gps s | _ => true end.

Inductive value : Set :=
| VNum (a : dy)                      (* one float *)
| VNum2 (a b : dy)                   (* val, val2 *)
| VWs (w s d : dy)                   (* WeekSec(week, seconds, day) *)
| VDt (x : dt)                       (* datetime *)
| VDt2 (x : dt) (delta_us : Z)       (* datetime + timedelta as val, val2 *)
| VStr (s : string).

Definition dq (d : dy) : Q := match dy_toQ d with Some q => q | None => 0%Q end.
Definition fin2 (a b : dy) : bool := is_finite a && is_finite b.

(* length of year used by decimalyear *)
Definition ylen_of (rows : list taiutc_row) (s : scale) (y : Z) : Q :=
  match s with Sutc => ylen_utc rows y | _ => cal_len y end.

(* exact Julian date denoted by a value of format f *)
Definition to_T (rows : list taiutc_row) (s : scale) (f : fmt) (v : value) : option Q :=
  if negb (fmt_valid s f) then None else
  match f, v with
  | Fjd, VNum a => if is_finite a then Some (dq a) else None
  | Fjd, VNum2 a b => if fin2 a b then Some (dq a + dq b)%Q else None
  | Fmjd, VNum a => if is_finite a then Some (jd_of_mjd (dq a)) else None
  | Fmjd, VNum2 a b => if fin2 a b then Some (jd_of_mjd (dq a + dq b)) else None
  | Fdatetime, VDt x => if valid_dt x then Some (jd_of_us (us_of_dt x)) else None
  | Fdatetime, VDt2 x du => if valid_dt x then Some (jd_of_us (us_of_dt x + du)) else None
  | Fgps_ws, VWs w sec _ => if fin2 w sec then Some (jd_of_gpsws (dq w) (dq sec)) else None
  | Fgps_ws, VNum2 w sec => if fin2 w sec then Some (jd_of_gpsws (dq w) (dq sec)) else None
  | Fgps_seconds, VNum a => if is_finite a then Some (jd_of_gpssec (dq a)) else None
  | Fjyear, VNum a => if is_finite a then Some (jd_of_jyear (dq a)) else None
  | Fdecimalyear, VNum a => if is_finite a then Some (jd_of_decyear (ylen_of rows s) (dq a)) else None
  | _, VStr str => match tfmt_of f with
                   | Some tf => match us_of_text tf str with Some u => Some (jd_of_us u) | None => None end
                   | None => None
                   end
  | _, _ => None
  end.

Definition DAY_S : Q := 86400 # 1.
Definition tol_1ns : Q := 1 # 86400000000000.          (* in days *)
Definition tol_1us : Q := 1 # 86400000000.
Definition tol_100us : Q := 1 # 864000000.
Definition tol_1s : Q := 1 # 86400.

Definition Qwithin (tol a b : Q) : bool := Qle_bool (Qabs (a - b)) tol.

(* tolerance of to_jds: two-part / grid forms 1 ns, one float 100 us (property text) *)
Definition tol_in (f : fmt) (v : value) : Q :=
  match v with
  | VNum _ => tol_100us
  | _ => tol_1ns
  end.

(* A. construction: Time(v, fmt=f).jd1 + jd2 is the instant the value denotes *)
Definition check_to_jds (rows : list taiutc_row) (c : scale * fmt * value * dy * dy) : Z :=
  let '(s, f, v, j1, j2) := c in
  if negb (fin2 j1 j2) then 1 else
  match to_T rows s f v with
  | Some T => if Qwithin (tol_in f v) T (dq j1 + dq j2) then 0 else
              match v with
              | VDt2 x du => if Qwithin tol_1ns (jd_of_us (us_of_dt x + 2 * du)) (dq j1 + dq j2) then 3 else 1
              | _ => 1
              end
  | None => 1
  end.

(* A'. text with an arbitrary number of fraction digits: `main` is the text up to the seconds rendered with
   ".000000", the fraction is num/den seconds.  0 = within 1 us of the exact value (truncation and rounding of
   the 7th digit both allowed), 4 = the fraction was dropped although it rounds to a full second, 1 = wrong *)
Definition check_text_frac (c : fmt * string * Z * positive * dy * dy) : Z :=
  let '(f, main, num, den, j1, j2) := c in
  if negb (fin2 j1 j2) then 1 else
  match tfmt_of f with
  | Some tf => match us_of_text tf main with
               | Some u =>
                   let T := (jd_of_us u + (num # den) / DAY_S)%Q in
                   if Qwithin (tol_1us + tol_1ns) T (dq j1 + dq j2) then 0
                   else if Qle_bool (9999995 # 10000000) (num # den) && Qwithin tol_1ns (jd_of_us u) (dq j1 + dq j2) then 4
                   else 1
               | None => 1
               end
  | None => 1
  end.

(* candidates for timedelta(days=x) in whole microseconds: nearest, both neighbours within 2^-10 us of a tie *)
Definition eps_tie : Q := 1 # 1024.
Definition us_cands (x : Q) : list Z :=
  let lo := Qfloor x in
  let fr := (x - Qz lo)%Q in
  (if Qle_bool fr ((1 # 2) + eps_tie) then [lo] else []) ++
  (if Qle_bool ((1 # 2) - eps_tie) fr then [lo + 1] else []).

(* TimeDateTime._jd2dt: dt2000 + timedelta(days=jd1 - 2451544.5) + timedelta(days=jd2) *)
Definition dt_cands (j1 j2 : Q) : list Z :=
  flat_map (fun a => map (fun b => a + b) (us_cands (j2 * Qz US_DAY))) (us_cands ((j1 - JD2000) * Qz US_DAY)).

Definition mem_Z (x : Z) (l : list Z) : bool := existsb (Z.eqb x) l.

Definition is_integer_dy (d : dy) : bool := let q := dq d in Qeq_bool q (Qz (Qfloor q)).

(* the class of instants on which the rounded-sum quirk can show: the last 25 us of a day *)
Definition near_midnight (T : Q) : bool := Qlt_b (1 - 25 * tol_1us) (jd_frac_q T).

(* B. reading a format from (jd1, jd2).  0 = specification, 2 = instant right but week/second/day not
   canonical (the day was taken from the rounded sum), 1 = wrong *)
Definition check_from_jds (rows : list taiutc_row) (c : scale * fmt * dy * dy * value) : Z :=
  let '(s, f, j1, j2, v) := c in
  if negb (fin2 j1 j2) then 1 else
  let T := (dq j1 + dq j2)%Q in
  match f, v with
  | Fdatetime, VDt x => if valid_dt x && mem_Z (us_of_dt x) (dt_cands (dq j1) (dq j2)) then 0 else 1
  | Fgps_ws, VWs w sec d =>
      if negb (fin2 w sec && is_finite d && is_gps s) then 1 else
      if negb (Qwithin tol_1ns (jd_of_gpsws (dq w) (dq sec)) T) then 1 else
      let '(w0, s0, d0) := gpsws_of_jd T in
      if Qeq_bool (dq w) (Qz w0) && Qeq_bool (dq d) (Qz d0) && Qle_bool 0 (dq sec) && Qlt_b (dq sec) 604800 then 0
      else if near_midnight T then 2 else 1
  | _, VNum a => match to_T rows s f v with
                 | Some T' => if Qwithin tol_100us T' T then 0 else 1
                 | None => 1
                 end
  | _, VStr str =>
      match tfmt_of f with
      | Some tf => if existsb (fun c => String.eqb (text_of_us tf c) str) (dt_cands (dq j1) (dq j2)) then 0 else 1
      | None => 1
      end
  | _, _ => 1
  end.

(* C. jd_int / jd_frac / mjd_int / mjd_frac on the implementation's doubles.
   0 = specification (half-integer day, fraction in [0,1), sum preserved to 1 ns, mjd parts consistent),
   2 = exactly what binary64 evaluation of the coded expression gives (rounded sum), 1 = neither *)
Definition check_split (c : dy * dy * dy * dy * dy * dy) : Z :=
  let '(j1, j2, ji, jf, mi, mf) := c in
  if negb (fin2 j1 j2 && fin2 ji jf && fin2 mi mf) then 1 else
  let T := (dq j1 + dq j2)%Q in
  let spec_ok :=
    Qeq_bool (dq ji) (jd_int_q T) && Qle_bool 0 (dq jf) && Qlt_b (dq jf) 1 &&
    Qwithin tol_1ns (dq jf) (jd_frac_q T) &&
    Qeq_bool (dq mi) (dq ji - MJD0) && Qeq_bool (dq mf) (dq jf) in
  if spec_ok then 0 else
  let '(qi, qf) := split_model quirk_rounded_sum (dq j1) (dq j2) in
  if near_midnight T && Qeq_bool (dq ji) qi && Qeq_bool (dq jf) qf && Qeq_bool (dq mi) (rn53 (qi - MJD0)) && Qeq_bool (dq mf) qf then 2 else 1.

(* D. the property itself: fmt value read from (jd1, jd2), new Time from it gives (jd1', jd2') *)
Definition resolution (f : fmt) : Q :=
  match f with
  | Fdatetime | Fisot | Fiso | Fyday => tol_1us
  | Fyy | Fyyyy => (tol_1s + tol_1us)%Q
  | Fdate => (1 + tol_1us)%Q
  | Fgps_ws => tol_1ns
  | _ => tol_100us
  end.
Definition check_roundtrip (c : fmt * dy * dy * dy * dy) : Z :=
  let '(f, j1, j2, k1, k2) := c in
  if negb (fin2 j1 j2 && fin2 k1 k2) then 1 else
  if Qwithin (resolution f + eps_tie * tol_1us) (dq j1 + dq j2) (dq k1 + dq k2) then 0 else 1.

(* E. scalar / length-1 / length-n: element-wise the same doubles *)
Fixpoint same_dys (a b : list dy) : bool :=
  match a, b with
  | [], [] => true
  | x :: a', y :: b' => dy_numeqb x y && same_dys a' b'
  | _, _ => false
  end.
Definition check_same (c : list dy * list dy) : Z := if same_dys (fst c) (snd c) then 0 else 1.

(* strftime pattern string -> token list (the directives the six formats use); None = unknown directive *)
Fixpoint toks_of_strftime (s : string) : option (list tok) :=
  match s with
  | EmptyString => Some []
  | String "%"%char (String c r) =>
      let w := if Ascii.eqb c "Y"%char then Some 4%nat
               else if Ascii.eqb c "f"%char then Some 6%nat
               else if Ascii.eqb c "j"%char then Some 3%nat
               else if Ascii.eqb c "m"%char || Ascii.eqb c "d"%char || Ascii.eqb c "H"%char ||
                       Ascii.eqb c "M"%char || Ascii.eqb c "S"%char || Ascii.eqb c "y"%char then Some 2%nat
               else None in
      match w, toks_of_strftime r with
      | Some w, Some l => Some (Num w :: l)
      | _, _ => None
      end
  | String c r => match toks_of_strftime r with Some l => Some (Lit c :: l) | None => None end
  end.
