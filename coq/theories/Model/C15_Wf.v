(* C15 - semantic well-formedness of a file model (tokens are numerals, dates exist, keys are distinct): the
   hypotheses of the file-level theorems. Executable, so that examples and the correspondence can evaluate it. *)
From Coq Require Import ZArith QArith List Bool String Ascii.
From Verif Require Import Lib.Text Model.C15_Antex.
Import ListNotations.
Local Open Scope string_scope.

Definition isdec (s : string) : bool := match dec_q s with Some _ => true | None => false end.
Definition isint (s : string) : bool := match dec_z s with Some _ => true | None => false end.

Definition sem_valid (t : option (list string)) : bool :=
  match t with
  | None => true
  | Some [y; m; d; h; mi; s] =>
      isint y && isint m && isint d && isint h && isint mi && isdec s
      && valid_civil (tokz y) (tokz m) (tokz d) (tokz h) (tokz mi)
  | Some _ => false
  end.

Definition sem_freq (f : freq_m) : bool :=
  isdec (fm_north f) && isdec (fm_east f) && isdec (fm_up f)
  && forallb isdec (fm_noazi f)
  && forallb (fun r => forallb isdec (snd r)) (fm_rows f)
  && same_lengths (map snd (fm_rows f)).

Fixpoint nodupb (l : list string) : bool :=
  match l with
  | [] => true
  | x :: r => negb (existsb (String.eqb x) r) && nodupb r
  end.

Definition has_date (t : option (list string)) : bool := match t with Some _ => true | None => false end.

Definition sem_ant (a : ant_m) : bool :=
  isdec (am_dazi a) && isdec (am_zen1 a) && isdec (am_zen2 a) && isdec (am_dzen a)
  && sem_valid (am_from a) && sem_valid (am_until a)
  && forallb sem_freq (am_freqs a) && forallb sem_freq (am_rms a)
  && nodupb (map fm_code (am_freqs a))                            (* frequency codes of one antenna are distinct *)
  && match am_freqs a with [] => false | _ => true end.           (* at least one frequency section *)

Definition good_ant (a : ant_m) : bool := wf_ant a && sem_ant a.

(* antenna / validity keys pairwise different *)
Fixpoint keys_distinct (ks : list akey) : bool :=
  match ks with
  | [] => true
  | k :: r => negb (existsb (akey_eqb k) r) && keys_distinct r
  end.

Definition good_file (m : file_m) : bool :=
  forallb good_ant m && keys_distinct (map expected_key m).
