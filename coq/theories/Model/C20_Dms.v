(* C20 / degree-minute-second conversion (midgard.math.unit.Unit.rad_to_dms / dms_to_rad / deg_to_dms /
   dms_to_deg / hms_to_rad).  The degree component of the implementation is a float whose *sign bit*
   carries the sign of the angle (so that -0 deg 19' is representable): modelled as (dneg, ddeg). *)
From Coq Require Import ZArith QArith Qabs Qround Bool List.
From Verif Require Import Lib.Dyadic Model.C20_Units.
Import ListNotations.
Open Scope Q_scope.

Record dms := mkDms { dneg : bool; ddeg : Z; dmin : Z; dsec : Q }.

Definition qfrac (q : Q) : Q := q - inject_Z (Qfloor q).

(* rad_to_dms after the exact conversion to degrees:
     sign = np.sign(x); degrees = |x|; minutes = (degrees % 1) * 60; seconds = (minutes % 1) * 60
     return sign * floor(degrees), floor(minutes), seconds *)
Definition to_dms (x : Q) : dms :=
  let a := Qabs x in
  let m := qfrac a * 60 in
  mkDms (Qlt_b x 0) (Qfloor a) (Qfloor m) (qfrac m * 60).

(* dms_to_rad before the exact conversion to radians:
     sign = np.copysign(1, degrees); sign * (|degrees| + minutes * minutes2hours + seconds * seconds2hours)
   quirk sign_of_value: the sign is taken from the numeric value of `degrees` (np.sign), which loses
   the sign of angles in (-1 deg, 0). *)
Definition from_dms (sign_of_value : bool) (d : dms) : Q :=
  let mag := inject_Z (Z.abs (ddeg d)) + inject_Z (dmin d) * (1 # 60) + dsec d * (1 # 3600) in
  let sign : Q :=
    if sign_of_value then (if (ddeg d =? 0)%Z then 0 else if dneg d then -1 else 1)
    else if dneg d then -1 else 1 in
  sign * mag.

Definition dms_wf (d : dms) : Prop :=
  (0 <= ddeg d)%Z /\ (0 <= dmin d < 60)%Z /\ 0 <= dsec d /\ dsec d < 60.

(* ------------------------------------------------------------------ correspondence *)
(* a double that is an integer: its sign bit and magnitude *)
Definition dy_int (d : dy) : option (bool * Z) :=
  match d with
  | DZero s => Some (s, 0%Z)
  | Dy m e => if (0 <=? e)%Z then Some ((m <? 0)%Z, (Z.abs m * 2 ^ e)%Z) else None
  | _ => None
  end.

Definition tol_deg (x : Q) : Q := (Qabs x + 1) * (1 # 2 ^ 49).   (* about 8 ulp of max(|x|,1) *)

(* case: (api, x, (d, m, s), back)
     api 0: (d,m,s) = Unit.deg_to_dms(x), back = Unit.dms_to_deg(d,m,s)            [x in degrees]
     api 1: (d,m,s) = Unit.rad_to_dms(x), back = Unit.dms_to_rad(d,m,s)            [x in radians]
   verdict 0: components well formed (integer degree and minute, 0<=min<60, 0<=sec<60), the sign bit of
              the degree component is the sign of x, the value of (d,m,s) equals x and back equals x
              (tolerance tol_deg; for api 1 through the bracket of pi);
           2: as 0 except that the sign is lost on the way back (the sign_of_value quirk);
           1: anything else. *)
Definition in_pi_band (v x : Q) (tol : Q) : bool :=
  (* |v| * pi / 180 = |x| within tol, v and x in degrees resp. radians *)
  let a := Qabs v in
  Qle_bool (a * pi_lo / 180 - tol) (Qabs x) && Qle_bool (Qabs x) (a * pi_hi / 180 + tol).

Definition check_dms (c : Z * dy * (dy * dy * dy) * dy) : Z :=
  let '(api, x, (d, m, s), back) := c in
  match dy_toQ x, dy_int d, dy_int m, dy_toQ s, dy_toQ back with
  | Some xq, Some (neg, deg), Some (mneg, mi), Some sq, Some bq =>
      let wf := (0 <=? mi)%Z && (mi <? 60)%Z && negb (mneg && negb (mi =? 0)%Z) && Qle_bool 0 sq && Qlt_b sq 60 in
      let v := from_dms false (mkDms neg deg mi sq) in
      let sign_ok := Bool.eqb neg (Qlt_b xq 0) || Qeq_bool v 0 in
      let tol := tol_deg xq in
      let val_ok := if (api =? 0)%Z then Qle_bool (Qabs (v - xq)) tol
                    else in_pi_band v xq tol && (Qeq_bool v 0 || Bool.eqb (Qlt_b v 0) (Qlt_b xq 0)) in
      if wf && sign_ok && val_ok then
        if Qle_bool (Qabs (bq - xq)) tol then 0%Z
        else if Qle_bool (Qabs (Qabs bq - Qabs xq)) tol || Qeq_bool bq 0 then 2%Z else 1%Z
      else 1%Z
  | _, _, _, _, _ => 1%Z
  end.

(* the structural comparison with the model: does (d, m, s) equal to_dms x exactly in the degree and
   minute components and within tolerance in the seconds?  (used for statistics; a value that sits on a
   cell boundary may legitimately land in the neighbouring cell after rounding) *)
Definition same_cell (c : Z * dy * (dy * dy * dy) * dy) : Z :=
  let '(api, x, (d, m, s), back) := c in
  match dy_toQ x, dy_int d, dy_int m, dy_toQ s with
  | Some xq, Some (neg, deg), Some (_, mi), Some sq =>
      let t := to_dms xq in
      if (deg =? ddeg t)%Z && (mi =? dmin t)%Z && Qle_bool (Qabs (sq - dsec t)) (3600 * tol_deg xq) then 0%Z else 1%Z
  | _, _, _, _ => 1%Z
  end.

(* hms_to_rad(h, m, s) = 15 * dms_to_rad(h, m, s): value (h + m/60 + s/3600) * 15 degrees, in radians *)
Definition check_hms (c : dy * dy * dy * dy) : Z :=
  let '(h, m, s, r) := c in
  match dy_toQ h, dy_toQ m, dy_toQ s, dy_toQ r with
  | Some hq, Some mq, Some sq, Some rq =>
      let v := 15 * (hq + mq / 60 + sq / 3600) in
      if in_pi_band v rq (tol_deg rq) && Qle_bool 0 rq then 0%Z else 1%Z
  | _, _, _, _ => 1%Z
  end.

(* ------------------------------------------------------------------ the radian API over R
   rad_to_dms: degrees = |radians| * radians2degrees (= 180 / PI), then as above; dms_to_rad multiplies by
   degrees2radians (= PI / 180).  Not executable (floor of a real); tied to the code through the
   correspondence with the bracket of pi (check_dms, api 1). *)
From Coq Require Import Reals.
Open Scope R_scope.
Record dmsR := mkDmsR { rneg : bool; rdeg : Z; rmin : Z; rsec : R }.

Definition rad_to_dmsR (r : R) : dmsR :=
  let d := Rabs r * (180 / PI) in
  let m := frac_part d * 60 in
  mkDmsR (if Rlt_dec r 0 then true else false) (Int_part d) (Int_part m) (frac_part m * 60).

Definition dms_to_radR (d : dmsR) : R :=
  (if rneg d then -1 else 1) * (IZR (Z.abs (rdeg d)) + IZR (rmin d) * (1 / 60) + rsec d * (1 / 3600)) * (PI / 180).
