(* C10 (a) - the attribute codec of midgard/data/_h5utils.py: encode_h5attr / decode_h5attr.

   JSON-like trees are written as   "<type name> " ++ repr(value)   and read back with
   ast.literal_eval after a regex substitution of the words nan / inf on the RAW TEXT
   (re.sub(r"\bnan\b", "'nan'"), re.sub(r"\binf\b", "'inf'"), re.sub(r"-'\binf\b'", "'-inf'"))
   followed by _recursive_replace (strings "nan"/"inf"/"-inf" -> floats, dict keys excepted).

   Level of the model: Python's repr / tokenizer are modelled at TOKEN level; string-literal
   tokens keep quote character and raw body (character level: quote selection and escapes of
   repr for printable ASCII, the regex acts on these characters).  A finite float is
   represented by its repr text (shortest round-trip decimal; repr is injective on doubles, so
   equality of texts is bit equality).

   quirk switch  q : bool   true  = the code as it is (regex + _recursive_replace)
                             false = specification: literal_eval that knows the names nan / inf. *)
From Coq Require Import ZArith List Bool String Ascii DecimalString.
Import ListNotations.
Open Scope Z_scope.

Definition text := list ascii.
Notation la := list_ascii_of_string.

Fixpoint text_eqb (a b : text) : bool :=
  match a, b with
  | [], [] => true
  | x :: a', y :: b' => Ascii.eqb x y && text_eqb a' b'
  | _, _ => false
  end.

(* ------------------------------------------------------------------ values *)
Inductive fl := FFin (txt : text) | FNan | FInf (neg : bool).

Inductive tree :=
| Str (s : text)
| Int (z : Z)
| Flt (f : fl)
| Bool (b : bool)
| NoneT
| List (l : list tree)
| Tuple (l : list tree)
| SetT (l : list tree)               (* elements in iteration order *)
| Dict (l : list (tree * tree)).     (* items in insertion order *)

(* ------------------------------------------------------------------ tokens *)
Inductive tok :=
| TLBr | TRBr | TLPar | TRPar | TLBrace | TRBrace | TComma | TColon
| TSetEmpty                          (* the text  set()  *)
| TStr (dq : bool) (body : text)     (* string literal: dq = true: double-quoted, false: single-quoted; raw body *)
| TInt (z : Z)
| TFlt (txt : text)
| TTrue | TFalse | TNone
| TNan | TInf                        (* the bare names nan / inf printed by repr(float) *)
| TMinus.

(* ------------------------------------------------------------------ repr of str (printable ASCII) *)
Definition bslash : ascii := "\"%char.
Definition squote : ascii := "'"%char.
Definition dquote : ascii := """"%char.

Definition has (c : ascii) (s : text) : bool := existsb (Ascii.eqb c) s.

(* repr uses double quotes iff the text has a single quote and no double quote *)
Definition use_dq (s : text) : bool := has squote s && negb (has dquote s).
Definition qchar (dq : bool) : ascii := if dq then dquote else squote.

Fixpoint escape (q : ascii) (s : text) : text :=
  match s with
  | [] => []
  | c :: r => if Ascii.eqb c bslash then bslash :: bslash :: escape q r
              else if Ascii.eqb c q then bslash :: q :: escape q r
              else c :: escape q r
  end.

(* value of a string literal body; escapes other than backslash + backslash/quote are outside the model *)
Fixpoint unescape (b : text) : option text :=
  match b with
  | [] => Some []
  | c :: r =>
      if Ascii.eqb c bslash then
        match r with
        | d :: r' => if Ascii.eqb d bslash || Ascii.eqb d squote || Ascii.eqb d dquote
                     then option_map (cons d) (unescape r') else None
        | [] => None
        end
      else option_map (cons c) (unescape r)
  end.

(* ------------------------------------------------------------------ repr of a tree, as tokens *)
Fixpoint sepc (ps : list (list tok)) : list tok :=
  match ps with
  | [] => []
  | p :: r => match r with [] => p | _ => p ++ TComma :: sepc r end
  end.

Fixpoint print (t : tree) : list tok :=
  match t with
  | Str s => [TStr (use_dq s) (escape (qchar (use_dq s)) s)]
  | Int z => [TInt z]
  | Flt (FFin x) => [TFlt x]
  | Flt FNan => [TNan]
  | Flt (FInf false) => [TInf]
  | Flt (FInf true) => [TMinus; TInf]
  | Bool true => [TTrue]
  | Bool false => [TFalse]
  | NoneT => [TNone]
  | List l => TLBr :: sepc (map print l) ++ [TRBr]
  | Tuple l => match l with
               | [x] => TLPar :: print x ++ [TComma; TRPar]
               | _ => TLPar :: sepc (map print l) ++ [TRPar]
               end
  | SetT l => match l with
              | [] => [TSetEmpty]
              | _ => TLBrace :: sepc (map print l) ++ [TRBrace]
              end
  | Dict l => TLBrace :: sepc (map (fun kv => match kv with (k, v) => print k ++ TColon :: print v end) l) ++ [TRBrace]
  end.

(* ------------------------------------------------------------------ literal_eval on tokens (canonical repr layout) *)
Fixpoint pval (n : nat) (ts : list tok) {struct n} : option (tree * list tok) :=
  match n with
  | O => None
  | S n =>
    match ts with
    | TStr _ b :: r => match unescape b with Some s => Some (Str s, r) | None => None end
    | TInt z :: r => Some (Int z, r)
    | TFlt x :: r => Some (Flt (FFin x), r)
    | TTrue :: r => Some (Bool true, r)
    | TFalse :: r => Some (Bool false, r)
    | TNone :: r => Some (NoneT, r)
    | TNan :: r => Some (Flt FNan, r)
    | TInf :: r => Some (Flt (FInf false), r)
    | TMinus :: TInf :: r => Some (Flt (FInf true), r)
    | TSetEmpty :: r => Some (SetT [], r)
    | TLBr :: TRBr :: r => Some (List [], r)
    | TLBr :: r => match pseq n r with
                   | Some (l, TRBr :: r') => Some (List l, r')
                   | _ => None
                   end
    | TLPar :: TRPar :: r => Some (Tuple [], r)
    | TLPar :: r => match pval n r with
                    | Some (x, TComma :: TRPar :: r') => Some (Tuple [x], r')
                    | Some (x, TComma :: r') =>
                        match pseq n r' with
                        | Some (l, TRPar :: r'') => Some (Tuple (x :: l), r'')
                        | _ => None
                        end
                    | _ => None
                    end
    | TLBrace :: TRBrace :: r => Some (Dict [], r)
    | TLBrace :: r => match pval n r with
                      | Some (x, TRBrace :: r') => Some (SetT [x], r')
                      | Some (x, TComma :: r') =>
                          match pseq n r' with
                          | Some (l, TRBrace :: r'') => Some (SetT (x :: l), r'')
                          | _ => None
                          end
                      | Some (k, TColon :: r') =>
                          match pval n r' with
                          | Some (v, TRBrace :: r'') => Some (Dict [(k, v)], r'')
                          | Some (v, TComma :: r'') =>
                              match pkvs n r'' with
                              | Some (l, TRBrace :: r3) => Some (Dict ((k, v) :: l), r3)
                              | _ => None
                              end
                          | _ => None
                          end
                      | _ => None
                      end
    | _ => None
    end
  end
with pseq (n : nat) (ts : list tok) {struct n} : option (list tree * list tok) :=   (* v (, v)*  *)
  match n with
  | O => None
  | S n =>
    match pval n ts with
    | Some (x, TComma :: r) => match pseq n r with
                               | Some (l, r') => Some (x :: l, r')
                               | None => None
                               end
    | Some (x, r) => Some ([x], r)
    | None => None
    end
  end
with pkvs (n : nat) (ts : list tok) {struct n} : option (list (tree * tree) * list tok) :=  (* k: v (, k: v)* *)
  match n with
  | O => None
  | S n =>
    match pval n ts with
    | Some (k, TColon :: r) =>
        match pval n r with
        | Some (v, TComma :: r') => match pkvs n r' with
                                    | Some (l, r'') => Some ((k, v) :: l, r'')
                                    | None => None
                                    end
        | Some (v, r') => Some ([(k, v)], r')
        | None => None
        end
    | _ => None
    end
  end.

Definition fuel_of (ts : list tok) : nat := S (2 * List.length ts).

Definition literal_eval (ts : list tok) : option tree :=
  match pval (fuel_of ts) ts with
  | Some (t, []) => Some t
  | _ => None
  end.

(* ------------------------------------------------------------------ the regex substitution (quirk) *)
(* \w for printable ASCII *)
Definition is_word (c : ascii) : bool :=
  let n := nat_of_ascii c in
  ((48 <=? n) && (n <=? 57) || (65 <=? n) && (n <=? 90) || (97 <=? n) && (n <=? 122) || (n =? 95))%nat.

Definition w_nan : text := la "nan".
Definition w_inf : text := la "inf".
Definition minus : ascii := "-"%char.

(* The three substitutions in one left-to-right pass over the maximal runs of word characters:
   a match of \bnan\b / \binf\b is exactly a maximal run equal to nan / inf; after the first two
   substitutions  -'inf'  occurs exactly where such a run inf was directly preceded by '-'.
   pm = a '-' is pending (read, not yet written); w = the run read so far. *)
Definition flush (pm : bool) (w : text) : text :=
  if text_eqb w w_inf then (if pm then la "'-inf'" else la "'inf'")
  else (if pm then [minus] else []) ++ (if text_eqb w w_nan then la "'nan'" else w).

Fixpoint scan (pm : bool) (w : text) (s : text) : text :=
  match s with
  | [] => flush pm w
  | c :: r => if is_word c then scan pm (w ++ [c]) r
              else if Ascii.eqb c minus then flush pm w ++ scan true [] r
              else flush pm w ++ c :: scan false [] r
  end.

Definition resub (s : text) : text := scan false [] s.

(* maximal runs of word characters, for stating the precondition independently of scan *)
Fixpoint words_aux (w : text) (s : text) : list text :=
  match s with
  | [] => [w]
  | c :: r => if is_word c then words_aux (w ++ [c]) r else w :: words_aux [] r
  end.
Definition words (s : text) : list text := words_aux [] s.

Definition nan_inf_free (s : text) : bool :=
  forallb (fun w => negb (text_eqb w w_nan || text_eqb w w_inf)) (words s).

(* token level: a single-quoted literal whose body is changed is no longer one literal:
   'a nan b' -> 'a 'nan' b' = STRING NAME STRING = SyntaxError;  a double-quoted one stays a literal *)
Definition sub_tok (t : tok) : option (list tok) :=
  match t with
  | TStr dq b => let b' := resub b in
                 if dq then Some [TStr true b']
                 else if text_eqb b' b then Some [t] else None
  | TNan => Some [TStr false w_nan]
  | TInf => Some [TStr false w_inf]
  | _ => Some [t]
  end.

Fixpoint sub_toks (ts : list tok) : option (list tok) :=
  match ts with
  | [] => Some []
  | t :: r =>
      match t, r with
      | TMinus, TInf :: r' => option_map (cons (TStr false (la "-inf"))) (sub_toks r')
      | _, _ => match sub_tok t, sub_toks r with
                | Some a, Some b => Some (a ++ b)
                | _, _ => None
                end
      end
  end.

(* _recursive_replace: strings nan / inf / -inf become floats; dict keys are not visited *)
Fixpoint rrepl (t : tree) : tree :=
  match t with
  | Str s => if text_eqb s w_nan then Flt FNan
             else if text_eqb s w_inf then Flt (FInf false)
             else if text_eqb s (la "-inf") then Flt (FInf true)
             else t
  | List l => List (map rrepl l)
  | Tuple l => Tuple (map rrepl l)
  | SetT l => SetT (map rrepl l)
  | Dict l => Dict (map (fun kv => match kv with (k, v) => (k, rrepl v) end) l)
  | _ => t
  end.

(* ------------------------------------------------------------------ encode / decode *)
Inductive tagk := KList | KTuple | KSet | KDict.

Inductive enc :=
| ERawInt (z : Z) | ERawFlt (f : fl) | ERawBool (b : bool)   (* stored as an HDF5 scalar attribute *)
| EStr (s : text)                                             (* "str " ++ s  (no repr) *)
| ETag (k : tagk) (ts : list tok).                            (* "list " ++ repr(...) etc. *)

Inductive err := TypeErr | SyntaxErr.
Inductive result (A : Type) := Ok (a : A) | Raise (e : err).
Arguments Ok {A} a.
Arguments Raise {A} e.

Definition decode (q : bool) (e : enc) : option tree :=      (* None = literal_eval raises *)
  match e with
  | ERawInt z => Some (Int z)
  | ERawFlt f => Some (Flt f)
  | ERawBool b => Some (Bool b)
  | EStr s => Some (Str (if q then resub s else s))
  | ETag _ ts =>
      match (if q then sub_toks ts else Some ts) with
      | None => None
      | Some ts' => match literal_eval ts' with
                    | Some t => Some (if q then rrepl t else t)
                    | None => None
                    end
      end
  end.

Definition tag_of (t : tree) : option tagk :=
  match t with List _ => Some KList | Tuple _ => Some KTuple | SetT _ => Some KSet | Dict _ => Some KDict | _ => None end.

Definition encode (q : bool) (t : tree) : result enc :=
  match t with
  | Int z => Ok (ERawInt z)
  | Flt f => Ok (ERawFlt f)
  | Bool b => Ok (ERawBool b)
  | Str s => Ok (EStr s)
  | NoneT => Raise TypeErr                       (* np.asarray(None).dtype == object *)
  | _ => match tag_of t with
         | Some k => let e := ETag k (print t) in
                     match decode q e with       (* "verify that decoding works" *)
                     | Some _ => Ok e
                     | None => Raise SyntaxErr
                     end
         | None => Raise TypeErr
         end
  end.

(* ------------------------------------------------------------------ precondition of the partial theorem *)
Definition special (f : fl) : bool := match f with FFin _ => false | _ => true end.

(* no special float anywhere in t *)
Fixpoint no_special (t : tree) : bool :=
  match t with
  | Flt f => negb (special f)
  | List l | Tuple l | SetT l => forallb no_special l
  | Dict l => forallb (fun kv => match kv with (k, v) => no_special k && no_special v end) l
  | _ => true
  end.

(* every string free of the words nan / inf; dict keys free of NaN / Inf floats *)
Fixpoint clean (t : tree) : bool :=
  match t with
  | Str s => nan_inf_free s
  | List l | Tuple l | SetT l => forallb clean l
  | Dict l => forallb (fun kv => match kv with (k, v) => clean k && no_special k && clean v end) l
  | _ => true
  end.

Definition encodable (t : tree) : bool := match t with NoneT => false | _ => true end.

(* ------------------------------------------------------------------ rendering tokens as text (observation only) *)
Definition int_text (z : Z) : text := la (NilZero.string_of_int (Z.to_int z)).

Definition tok_text (t : tok) : text :=
  match t with
  | TLBr => la "[" | TRBr => la "]" | TLPar => la "(" | TRPar => la ")" | TLBrace => la "{" | TRBrace => la "}"
  | TComma => la ", " | TColon => la ": " | TSetEmpty => la "set()"
  | TStr dq b => qchar dq :: b ++ [qchar dq]
  | TInt z => int_text z
  | TFlt x => x
  | TTrue => la "True" | TFalse => la "False" | TNone => la "None"
  | TNan => la "nan" | TInf => la "inf" | TMinus => la "-"
  end.

Fixpoint render_toks (ts : list tok) : text :=
  match ts with
  | [] => []
  | TComma :: ((TRPar :: _) as r) => la "," ++ render_toks r      (* (x,) *)
  | t :: r => tok_text t ++ render_toks r
  end.

Definition tag_text (k : tagk) : text :=
  match k with KList => la "list" | KTuple => la "tuple" | KSet => la "set" | KDict => la "dict" end.

(* ------------------------------------------------------------------ correspondence *)
(* what the driver observed *)
Inductive oenc := OText (s : string) | OInt (z : Z) | OFlt (f : fl) | OBool (b : bool) | ORaise (e : string).
Inductive odec := ODec (t : tree) | ODRaise (e : string) | ONotRun.

Definition fl_eqb (a b : fl) : bool :=
  match a, b with
  | FFin x, FFin y => text_eqb x y
  | FNan, FNan => true
  | FInf s, FInf s' => Bool.eqb s s'
  | _, _ => false
  end.

(* structural equality; sets modulo order *)
Fixpoint tree_eqb (a b : tree) {struct a} : bool :=
  let fix all2 (l1 l2 : list tree) {struct l1} : bool :=
      match l1, l2 with
      | [], [] => true
      | x :: r1, y :: r2 => tree_eqb x y && all2 r1 r2
      | _, _ => false
      end in
  let fix sub (l1 l2 : list tree) {struct l1} : bool :=
      match l1 with
      | [] => true
      | x :: r1 => existsb (tree_eqb x) l2 && sub r1 l2
      end in
  let fix kvs (l1 l2 : list (tree * tree)) {struct l1} : bool :=
      match l1, l2 with
      | [], [] => true
      | (k, v) :: r1, (k', v') :: r2 => tree_eqb k k' && tree_eqb v v' && kvs r1 r2
      | _, _ => false
      end in
  match a, b with
  | Str s, Str s' => text_eqb s s'
  | Int z, Int z' => Z.eqb z z'
  | Flt f, Flt f' => fl_eqb f f'
  | Bool x, Bool y => Bool.eqb x y
  | NoneT, NoneT => true
  | List l, List l' => all2 l l'
  | Tuple l, Tuple l' => all2 l l'
  | SetT l, SetT l' => Nat.eqb (List.length l) (List.length l') && sub l l'
  | Dict l, Dict l' => kvs l l'
  | _, _ => false
  end.

Definition enc_matches (e : result enc) (o : oenc) : bool :=
  match e, o with
  | Ok (ERawInt z), OInt z' => Z.eqb z z'
  | Ok (ERawFlt f), OFlt f' => fl_eqb f f'
  | Ok (ERawBool b), OBool b' => Bool.eqb b b'
  | Ok (EStr s), OText x => text_eqb (la "str " ++ s) (la x)
  | Ok (ETag k ts), OText x => text_eqb (tag_text k ++ la " " ++ render_toks ts) (la x)
  | Raise TypeErr, ORaise x => String.eqb x "TypeError"
  | Raise SyntaxErr, ORaise x => String.eqb x "SyntaxError"
  | _, _ => false
  end.

Definition dec_matches (q : bool) (e : result enc) (o : odec) : bool :=
  match e, o with
  | Ok e', ODec t => match decode q e' with Some t' => tree_eqb t' t | None => false end
  | Ok e', ODRaise _ => match decode q e' with None => true | Some _ => false end
  | Raise _, ONotRun => true
  | _, _ => false
  end.

Definition matches (q : bool) (t : tree) (oe : oenc) (od : odec) : bool :=
  enc_matches (encode q t) oe && dec_matches q (encode q t) od.

(* verdict: 0 = the implementation is the specification codec on this tree;
            2 = it is the codec with the nan/inf regex (current code) and differs from the specification;
            1 = neither *)
Definition check_attr (c : tree * oenc * odec) : Z :=
  match c with (t, oe, od) =>
    if matches false t oe od then 0
    else if matches true t oe od then 2
    else 1
  end.

(* the round trip as the property states it, judged on observables only (used when an obligation breaks) *)
Definition roundtrip_ok (c : tree * odec) : Z :=
  match c with (t, ODec t') => if tree_eqb t t' then 0 else 1 | _ => 1 end.
