(* C15 - ANTEX antenna files are parsed into exactly the calibrations they contain (DESIGN 4.15).

   Executable model of midgard/parsers/antex.py on top of _parser_chain.ChainParser:

     text line --(rstrip, label lambda, regenerated label/field table, slicing, strip)--> (parser name, values)
               --(the parse_* / save_correction methods on a dict-like per-antenna cache)--> data

   [parse q tbl lines] is the faithful model F with the quirk switches [q]; the specification is
   [parse all_off tbl lines].  [tbl] is the label/field table (regenerated into Gen/C15_AntexFields.v on
   every run; [std_table] below is the table of the ANTEX 1.4 standard written by hand).
   Numbers are exact rationals: [dec_q] is the value of a printed decimal numeral (what Python's float()
   rounds to the nearest double), dates are microseconds since 1970-01-01 as rationals, grids are degrees.

   The second half contains: the independent ground-truth model of a file ([file_m], tokens as printed),
   its rendering per the ANTEX column layout ([render_file]), what a correct reader must deliver for it
   ([expected]), and the correspondence checks [check_file] / [check_truth]. *)
From Coq Require Import ZArith QArith Qabs List Bool String Ascii Lia.
From Verif Require Import Lib.Dyadic Lib.Text.
Import ListNotations.
Local Open Scope string_scope.

(* ====================================================================================== results *)
Inductive res (A : Type) : Type := Ok (a : A) | Err (e : string).
Arguments Ok {A} a.
Arguments Err {A} e.

Definition bind {A B} (r : res A) (f : A -> res B) : res B :=
  match r with Ok a => f a | Err e => Err e end.

Fixpoint mapM {A B} (f : A -> res B) (l : list A) : res (list B) :=
  match l with
  | [] => Ok []
  | x :: r => match f x with
              | Err e => Err e
              | Ok y => match mapM f r with Err e => Err e | Ok ys => Ok (y :: ys) end
              end
  end.

(* ====================================================================================== decimals *)
Definition digit_of (c : ascii) : option Z :=
  let n := nat_of_ascii c in
  if ((48 <=? n) && (n <=? 57))%nat then Some (Z.of_nat (n - 48)) else None.

(* leading digits of s: (value, how many, rest) *)
Fixpoint digits (acc : Z) (cnt : nat) (s : string) : Z * nat * string :=
  match s with
  | "" => (acc, cnt, "")
  | String c r => match digit_of c with
                  | Some d => digits (acc * 10 + d) (S cnt) r
                  | None => (acc, cnt, s)
                  end
  end.

Definition sign_of (s : string) : bool * string :=
  match s with
  | String c r => if Ascii.eqb c "-" then (true, r) else if Ascii.eqb c "+" then (false, r) else (false, s)
  | "" => (false, s)
  end.

Definition pow10pos (n : nat) : positive := Z.to_pos (10 ^ Z.of_nat n).

(* Python float(s) on  blanks [+-] digits [. digits] blanks  (at least one digit); exact value *)
Definition dec_q (s : string) : option Q :=
  let '(neg, r) := sign_of (strip s) in
  let '(ip, ni, r1) := digits 0 0 r in
  let sg := fun v : Z => if neg then (- v)%Z else v in
  match r1 with
  | "" => match ni with O => None | _ => Some (Qmake (sg ip) 1) end
  | String c r2 =>
      if Ascii.eqb c "." then
        let '(fp, nf, r3) := digits 0 0 r2 in
        match r3 with
        | "" => match (ni + nf)%nat with
                | O => None
                | _ => Some (Qmake (sg (ip * 10 ^ Z.of_nat nf + fp)%Z) (pow10pos nf))
                end
        | _ => None
        end
      else None
  end.

(* Python int(s) on  blanks [+-] digits blanks *)
Definition dec_z (s : string) : option Z :=
  let '(neg, r) := sign_of (strip s) in
  let '(v, n, r1) := digits 0 0 r in
  match n, r1 with
  | S _, "" => Some (if neg then (- v)%Z else v)
  | _, _ => None
  end.

(* ====================================================================================== calendar *)
Definition is_leap (y : Z) : bool :=
  ((y mod 4 =? 0) && negb (y mod 100 =? 0) || (y mod 400 =? 0))%Z.

Definition days_in_month (y m : Z) : Z :=
  if (m =? 2)%Z then (if is_leap y then 29 else 28)%Z
  else if ((m =? 4) || (m =? 6) || (m =? 9) || (m =? 11))%Z then 30%Z else 31%Z.

(* days since 1970-01-01 of the proleptic Gregorian date y-m-d *)
Definition days_from_civil (y m d : Z) : Z :=
  let y' := (if m <=? 2 then y - 1 else y)%Z in
  let era := (y' / 400)%Z in
  let yoe := (y' - era * 400)%Z in
  let mp := (if m <=? 2 then m + 9 else m - 3)%Z in
  let doy := ((153 * mp + 2) / 5 + d - 1)%Z in
  let doe := (yoe * 365 + yoe / 4 - yoe / 100 + doy)%Z in
  (era * 146097 + doe - 719468)%Z.

Definition valid_civil (y m d h mi : Z) : bool :=
  ((1 <=? y) && (y <=? 9999) && (1 <=? m) && (m <=? 12) && (1 <=? d) && (d <=? days_in_month y m)
   && (0 <=? h) && (h <? 24) && (0 <=? mi) && (mi <? 60))%Z.

(* microseconds since 1970-01-01T00:00 of datetime(y, m, d, h, mi) *)
Definition civil_us (y m d h mi : Z) : Z :=
  (((days_from_civil y m d * 24 + h) * 60 + mi) * 60000000)%Z.

(* datetime.min = 0001-01-01T00:00, the validity start of a satellite block without VALID FROM *)
Definition min_us : Q := inject_Z (civil_us 1 1 1 0 0).
(* datetime.max = 9999-12-31T23:59:59.999999, the validity end of a satellite block without VALID UNTIL ("still valid") *)
Definition max_us : Q := inject_Z (civil_us 9999 12 31 23 59 + 59999999).

(* ====================================================================================== doubles
   round-to-nearest-even to 53 significant bits (normal range), used only by the quirk
   [zen_count_float] to reproduce numpy.arange's length computation exactly. *)
Definition Zfloor_Q (q : Q) : Z := (Qnum q / Zpos (Qden q))%Z.
Definition Zceil_Q (q : Q) : Z := (- Zfloor_Q (- q))%Z.

Definition round_half_even (q : Q) : Z :=
  let f := Zfloor_Q q in
  let r := (q - inject_Z f)%Q in
  match Qcompare r (1 # 2) with
  | Lt => f
  | Gt => (f + 1)%Z
  | Eq => if Z.even f then f else (f + 1)%Z
  end.

Definition fl (q : Q) : Q :=
  if Qeq_bool q 0 then 0%Q else
  let a := Qabs q in
  let e0 := (Z.log2 (Qnum a) - Z.log2 (Zpos (Qden a)) - 52)%Z in
  (* a / 2^e0 is in [2^51, 2^53); make it [2^52, 2^53) *)
  let e := if Qle_bool (inject_Z (2 ^ 52)) (a * pow2Q (- e0))%Q then e0 else (e0 - 1)%Z in
  let e := if Qle_bool (inject_Z (2 ^ 53)) (a * pow2Q (- e))%Q then (e + 1)%Z else e in
  let m := round_half_even (a * pow2Q (- e))%Q in
  let v := Qred (inject_Z m * pow2Q e)%Q in
  if Qle_bool 0 q then v else (- v)%Q.

(* ====================================================================================== the table *)
(* label -> (name of the parse method, [(field name, (start, optional stop))]) *)
Definition fieldspec := (string * (nat * option nat))%type.
Definition table := list (string * (string * list fieldspec)).

Fixpoint assoc {A} (k : string) (l : list (string * A)) : option A :=
  match l with
  | [] => None
  | (k', v) :: r => if String.eqb k k' then Some v else assoc k r
  end.

(* the ANTEX 1.4 record layouts that carry calibration data (hand-written from the standard) *)
Local Open Scope nat_scope.
Definition std_table : table :=
  [ ("# OF FREQUENCIES", ("parse_num_of_frequencies", [("num_freq", (0, Some 6))]));
    ("CORRECTION", ("parse_correction", [("values", (0, None))]));
    ("DAZI", ("parse_section_float", [("dazi", (2, Some 8))]));
    ("END OF FREQUENCY", ("save_correction", [("frequency_code", (3, Some 6))]));
    ("NORTH / EAST / UP", ("parse_section_float", [("north", (0, Some 10)); ("east", (10, Some 20)); ("up", (20, Some 30))]));
    ("START OF FREQUENCY", ("parse_section_string", [("frequency_code", (3, Some 6))]));
    ("TYPE / SERIAL NO", ("parse_section_string",
        [("antenna_type", (0, Some 20)); ("antenna_code", (20, Some 40)); ("sat_code", (40, Some 50)); ("cospar_id", (50, Some 60))]));
    ("VALID FROM", ("parse_valid_from",
        [("year", (0, Some 6)); ("month", (6, Some 12)); ("day", (12, Some 18)); ("hour", (18, Some 24));
         ("minute", (24, Some 30)); ("second", (30, Some 43))]));
    ("VALID UNTIL", ("parse_valid_until",
        [("year", (0, Some 6)); ("month", (6, Some 12)); ("day", (12, Some 18)); ("hour", (18, Some 24));
         ("minute", (24, Some 30)); ("second", (30, Some 43))]));
    ("ZEN1 / ZEN2 / DZEN", ("parse_section_float", [("zen1", (2, Some 8)); ("zen2", (8, Some 14)); ("dzen", (14, Some 20))])) ].
Local Close Scope nat_scope.

(* ====================================================================================== lexing *)
Definition is_alpha (c : ascii) : bool :=
  let n := nat_of_ascii c in (((65 <=? n) && (n <=? 90)) || ((97 <=? n) && (n <=? 122)))%nat.

(* corr_parser.label:  line[60:].strip() if (line[60:61].isalpha() or line[60:61] == "#") else "CORRECTION" *)
Definition label_of (line : string) : string :=
  match slice 60 61 line with
  | String c _ => if is_alpha c || Ascii.eqb c "#" then strip (drop 60 line) else "CORRECTION"
  | "" => "CORRECTION"
  end.

Definition is_end_of_antenna (line : string) : bool := String.eqb (slice 60 74 line) "END OF ANTENNA".
Definition is_end_of_header (line : string) : bool := String.eqb (slice 60 73 line) "END OF HEADER".

Definition slice_field (line : string) (idx : nat * option nat) : string :=
  match idx with
  | (a, Some b) => strip (slice a b line)
  | (a, None) => strip (drop a line)
  end.

Definition values := list (string * string).

(* ChainParser.parse_line on an already rstripped line: None = nothing is called for this line *)
Definition lex (tbl : table) (line : string) : option (string * values) :=
  if String.eqb line "" then None                             (* skip_line *)
  else match assoc (label_of line) tbl with
       | None => None
       | Some (pname, fields) => Some (pname, map (fun f => (fst f, slice_field line (snd f))) fields)
       end.

(* ====================================================================================== the cache *)
Inductive cval :=
| CS (s : string)                    (* str *)
| CF (q : Q)                         (* float (exact value) *)
| CT (us : Q)                        (* datetime, microseconds since 1970 *)
| CN (n : Z)                         (* int *)
| CL (l : list Q)                    (* list of floats *)
| CR (rows : list (list string)).    (* list of lists of str *)

Definition cache := list (string * cval).
Definition cget (k : string) (c : cache) : option cval := assoc k c.
Definition cset (k : string) (v : cval) (c : cache) : cache := (k, v) :: c.       (* newest first, shadows *)
Fixpoint cdel (k : string) (c : cache) : cache :=
  match c with
  | [] => []
  | (k', v) :: r => if String.eqb k k' then cdel k r else (k', v) :: cdel k r
  end.

(* ====================================================================================== the data *)
Inductive azi := AziQ (rows : list (list Q)) | AziS (rows : list (list string)).

Record fentry := { fe_neu : list Q; fe_noazi : list Q; fe_azi : option azi }.

Record satinfo := { si_cospar : string; si_code : string; si_type : string; si_until : option Q (* None = the time of parsing (only with the quirk until_now) *) }.

Record entry := { en_sat : option satinfo; en_elev : option (list Q); en_azim : option (list Q);
                  en_freqs : list (string * fentry) }.

(* self.data flattened: key = (antenna key, valid_from for satellites) *)
Definition akey := (string * option Q)%type.
Definition data := list (akey * entry).

Definition optQ_eqb (a b : option Q) : bool :=
  match a, b with
  | Some x, Some y => Qeq_bool x y
  | None, None => true
  | _, _ => false
  end.
Definition akey_eqb (a b : akey) : bool := String.eqb (fst a) (fst b) && optQ_eqb (snd a) (snd b).

Fixpoint dget (k : akey) (d : data) : option entry :=
  match d with
  | [] => None
  | (k', e) :: r => if akey_eqb k k' then Some e else dget k r
  end.
Fixpoint dset (k : akey) (e : entry) (d : data) : data :=        (* keeps insertion order *)
  match d with
  | [] => [(k, e)]
  | (k', e') :: r => if akey_eqb k k' then (k', e) :: r else (k', e') :: dset k e r
  end.

(* ====================================================================================== quirks *)
Record quirks := {
  azi_accumulates : bool;     (* c15_azi_accumulates: cache["azi"] is never reset between frequencies *)
  azi_strings : bool;         (* c15_azi_strings: the rows are kept as the split strings *)
  seconds_as_days : bool;     (* c15_seconds_as_days: timedelta(float(second)) adds days *)
  zen_count_float : bool;     (* c15_grid_count_float: numpy.arange length computed in binary floating point *)
  sat_from_required : bool;   (* c15_sat_without_valid_from: a satellite block without VALID FROM fails (unbound local) *)
  until_now : bool            (* c15_valid_until_now: a missing VALID UNTIL becomes datetime.now() instead of datetime.max *)
}.
Definition all_off : quirks :=
  {| azi_accumulates := false; azi_strings := false; seconds_as_days := false; zen_count_float := false;
     sat_from_required := false; until_now := false |}.

(* ====================================================================================== grids (degrees) *)
Definition grid_count (q : quirks) (start stop step : Q) : Z :=
  (* numpy.arange(start, stop, step): ceil((stop - start) / step) *)
  if zen_count_float q then Zceil_Q (fl (fl (stop - start) / step))
  else Zceil_Q ((stop - start) / step).

Definition arange (q : quirks) (start stop step : Q) : list Q :=
  map (fun i => (start + inject_Z (Z.of_nat i) * step)%Q) (seq 0 (Z.to_nat (grid_count q start stop step))).

Definition flq (q : quirks) (x : Q) : Q := if zen_count_float q then fl x else x.

(* np.arange(90.0 - zen1, 90.0 - (zen2 + dzen), -dzen) *)
Definition elevation_grid (q : quirks) (zen1 zen2 dzen : Q) : list Q :=
  let z1 := flq q zen1 in let z2 := flq q zen2 in let dz := flq q dzen in
  arange q (flq q (90 - z1)) (flq q (90 - flq q (z2 + dz))) (- dz).

(* np.arange(0, 360 + dazi, dazi) *)
Definition azimuth_grid (q : quirks) (dazi : Q) : list Q :=
  let da := flq q dazi in arange q 0 (flq q (360 + da)) da.

(* ====================================================================================== parse methods *)
Definition vget (k : string) (v : values) : res string :=
  match assoc k v with Some s => Ok s | None => Err "KeyError" end.

Definition need_q (s : string) : res Q := match dec_q s with Some x => Ok x | None => Err "ValueError" end.
Definition need_z (s : string) : res Z := match dec_z s with Some x => Ok x | None => Err "ValueError" end.

Fixpoint upd_float (v : values) (c : cache) : res cache :=
  match v with
  | [] => Ok c
  | (k, s) :: r => bind (need_q s) (fun x => upd_float r (cset k (CF x) c))
  end.

Fixpoint upd_string (v : values) (c : cache) : cache :=
  match v with
  | [] => c
  | (k, s) :: r => upd_string r (cset k (CS s) c)
  end.

Definition parse_correction (v : values) (c : cache) : res cache :=
  bind (vget "values" v) (fun s =>
  match split_ws s with
  | [] => Err "IndexError"
  | h :: t =>
      if String.eqb h "NOAZI" then bind (mapM need_q t) (fun l => Ok (cset "noazi" (CL l) c))
      else let rows := match cget "azi" c with Some (CR r) => r | _ => [] end in
           Ok (cset "azi" (CR (rows ++ [t])) c)
  end).

Definition parse_num_of_frequencies (v : values) (c : cache) : res cache :=
  bind (vget "num_freq" v) (fun s => Ok (cset "num_freq_counter" (CN 0) (cset "num_freq" (CS s) c))).

Definition parse_valid (q : quirks) (key : string) (v : values) (c : cache) : res cache :=
  bind (vget "year" v) (fun ys => bind (need_z ys) (fun y =>
  bind (vget "month" v) (fun ms => bind (need_z ms) (fun m =>
  bind (vget "day" v) (fun ds => bind (need_z ds) (fun d =>
  bind (vget "hour" v) (fun hs => bind (need_z hs) (fun h =>
  bind (vget "minute" v) (fun mis => bind (need_z mis) (fun mi =>
  if valid_civil y m d h mi then
    bind (vget "second" v) (fun ss => bind (need_q ss) (fun s =>
    let unit := if seconds_as_days q then 86400000000%Z else 1000000%Z in
    Ok (cset key (CT (inject_Z (civil_us y m d h mi) + s * inject_Z unit)%Q) c)))
  else Err "ValueError")))))))))).

Definition need_f (k : string) (c : cache) : res Q :=
  match cget k c with Some (CF x) => Ok x | Some _ => Err "TypeError" | None => Err "KeyError" end.
Definition need_s (k : string) (c : cache) : res string :=
  match cget k c with Some (CS x) => Ok x | Some _ => Err "TypeError" | None => Err "KeyError" end.

Definition same_lengths {A} (rows : list (list A)) : bool :=
  match rows with
  | [] => true
  | r :: rs => forallb (fun r' => Nat.eqb (List.length r') (List.length r)) rs
  end.

Definition azi_of_cache (q : quirks) (c : cache) : res (option azi) :=
  match cget "azi" c with
  | Some (CR rows) =>
      if negb (same_lengths rows) then Err "ValueError"
      else if azi_strings q then Ok (Some (AziS rows))
      else bind (mapM (mapM need_q) rows) (fun r => Ok (Some (AziQ r)))
  | _ => Ok None
  end.

Definition empty_entry : entry := {| en_sat := None; en_elev := None; en_azim := None; en_freqs := [] |}.

Definition or_else {A} (a b : option A) : option A := match a with Some _ => a | None => b end.

Definition mm2m : Q := 1 # 1000.

(* AntexParser.save_correction *)
Definition save_correction (q : quirks) (c : cache) (d : data) : res (cache * data) :=
  bind (need_s "sat_code" c) (fun sat =>
  let is_sat := negb (String.eqb sat "") in
  bind (need_s (if is_sat then "antenna_code" else "antenna_type") c) (fun ant =>
  bind (need_s "frequency_code" c) (fun freq =>
  (* dt = cache.get("valid_from", datetime.min); with the quirk: unbound when the record is absent *)
  let dt := match cget "valid_from" c with
            | Some (CT t) => Some t
            | _ => if sat_from_required q then None else Some min_us
            end in
  match cget "num_freq_counter" c with
  | Some (CN counter) =>
    let first := (counter =? 0)%Z in
    let key : akey := (ant, if is_sat then dt else None) in
    (* general information, only with the first frequency *)
    bind (if first && is_sat then
            match dt with
            | None => Err "UnboundLocalError"
            | Some _ =>
              if match dget key d with Some _ => true | None => false end then Err "ParserError"
              else
                bind (need_s "cospar_id" c) (fun cospar =>
                bind (need_s "antenna_type" c) (fun atype =>
                Ok (Some {| si_cospar := cospar; si_code := sat; si_type := atype;
                            si_until := match cget "valid_until" c with
                                        | Some (CT t) => Some t
                                        | _ => if until_now q then None else Some max_us
                                        end |})))
            end
          else Ok None) (fun satinf =>
    bind (if first then
            bind (need_f "dzen" c) (fun dzen =>
            if Qeq_bool dzen 0 then Ok None
            else bind (need_f "zen1" c) (fun zen1 => bind (need_f "zen2" c) (fun zen2 =>
                 Ok (Some (elevation_grid q zen1 zen2 dzen)))))
          else Ok None) (fun elev =>
    bind (if first then
            bind (need_f "dazi" c) (fun dazi =>
            if Qeq_bool dazi 0 then Ok None else Ok (Some (azimuth_grid q dazi)))
          else Ok None) (fun azim =>
    bind (need_f "north" c) (fun n => bind (need_f "east" c) (fun e => bind (need_f "up" c) (fun u =>
    match cget "noazi" c with
    | Some (CL noazi) =>
      bind (azi_of_cache q c) (fun az =>
      let fe := {| fe_neu := [n * mm2m; e * mm2m; u * mm2m]%Q; fe_noazi := noazi; fe_azi := az |} in
      if is_sat && match dt with None => true | Some _ => false end then Err "UnboundLocalError" else
      let old := match dget key d with Some e0 => e0 | None => empty_entry end in
      if match assoc freq (en_freqs old) with Some _ => true | None => false end then Err "ParserError"
      else
        let new := {| en_sat := or_else satinf (en_sat old);
                      en_elev := or_else elev (en_elev old);
                      en_azim := or_else azim (en_azim old);
                      en_freqs := en_freqs old ++ [(freq, fe)] |} in
        let c1 := cset "num_freq_counter" (CN (counter + 1)) c in
        let c2 := if azi_accumulates q then c1 else cdel "azi" c1 in
        Ok (c2, dset key new d))
    | Some _ => Err "TypeError"
    | None => Err "KeyError"
    end))))))
  | _ => Err "KeyError"
  end))).

(* the method the table names, applied to the values of one line *)
Definition apply_parser (q : quirks) (pname : string) (v : values) (c : cache) (d : data) : res (cache * data) :=
  if String.eqb pname "parse_section_float" then bind (upd_float v c) (fun c' => Ok (c', d))
  else if String.eqb pname "parse_section_string" then Ok (upd_string v c, d)
  else if String.eqb pname "parse_correction" then bind (parse_correction v c) (fun c' => Ok (c', d))
  else if String.eqb pname "parse_num_of_frequencies" then bind (parse_num_of_frequencies v c) (fun c' => Ok (c', d))
  else if String.eqb pname "parse_valid_from" then bind (parse_valid q "valid_from" v c) (fun c' => Ok (c', d))
  else if String.eqb pname "parse_valid_until" then bind (parse_valid q "valid_until" v c) (fun c' => Ok (c', d))
  else if String.eqb pname "save_correction" then save_correction q c d
  else Err "UnmodelledParser".

(* ====================================================================================== the chain *)
(* one line of an antenna group (ChainParser.read_data): parse it, then reset the cache at the end marker.
   [prelex] is the part that does not depend on cache, data or quirks. *)
Definition lexed := (option (string * values) * bool)%type.

Definition prelex (tbl : table) (raw : string) : lexed :=
  let line := rstrip raw in (lex tbl line, is_end_of_antenna line).

Definition step_lexed (q : quirks) (st : cache * data) (lx : lexed) : res (cache * data) :=
  bind (match fst lx with
        | None => Ok st
        | Some (pname, v) => apply_parser q pname v (fst st) (snd st)
        end) (fun st' => if snd lx then Ok ([], snd st') else Ok st').

Fixpoint run_lexed (q : quirks) (st : cache * data) (l : list lexed) : res (cache * data) :=
  match l with
  | [] => Ok st
  | lx :: r => match step_lexed q st lx with Ok st' => run_lexed q st' r | Err e => Err e end
  end.

Definition step (q : quirks) (tbl : table) (st : cache * data) (raw : string) : res (cache * data) :=
  step_lexed q st (prelex tbl raw).

Definition run (q : quirks) (tbl : table) (st : cache * data) (lines : list string) : res (cache * data) :=
  run_lexed q st (map (prelex tbl) lines).

(* the header group ends with the first END OF HEADER line *)
Fixpoint after_header (lines : list string) : list string :=
  match lines with
  | [] => []
  | l :: r => if is_end_of_header (rstrip l) then r else after_header r
  end.

Definition parse_lexed (q : quirks) (l : list lexed) : res data :=
  match run_lexed q ([], []) l with Ok st => Ok (snd st) | Err e => Err e end.

Definition parse_body (q : quirks) (tbl : table) (lines : list string) : res data :=
  parse_lexed q (map (prelex tbl) lines).

Definition parse (q : quirks) (tbl : table) (lines : list string) : res data :=
  parse_body q tbl (after_header lines).

(* the second way into the same data, midgard.gnss.antenna_calibration.AntennaCalibration(path).data: the parser's
   dictionary as it is - every validity period keeps the start and end printed for it (no sorting, clipping, merging) *)
Definition calibration_data (q : quirks) (tbl : table) (lines : list string) : res data := parse q tbl lines.

(* lines that can be dropped without changing anything: no method is called and no group ends *)
Definition relevant (tbl : table) (raw : string) : bool :=
  match prelex tbl raw with (Some _, _) => true | (None, e) => e end.

(* ====================================================================================== ground truth
   What an ANTEX file contains, as printed (tokens), written down independently of any reader. *)
Record freq_m := {
  fm_code : string;                          (* "G01" *)
  fm_north : string; fm_east : string; fm_up : string;        (* millimetres, as printed *)
  fm_noazi : list string;                    (* the NOAZI values, as printed *)
  fm_rows : list (string * list string)      (* (azimuth as printed, values as printed) *)
}.

Record ant_m := {
  am_type : string; am_serial : string; am_sat : string; am_cospar : string;
  am_dazi : string; am_zen1 : string; am_zen2 : string; am_dzen : string;
  am_nfreq : string;
  am_from : option (list string);            (* year month day hour minute second, as printed *)
  am_until : option (list string);
  am_freqs : list freq_m;
  am_rms : list freq_m                       (* START OF FREQ RMS .. END OF FREQ RMS sections (never part of the result) *)
}.

Definition file_m := list ant_m.

Definition lbl (body label : string) : string := body ++ label.

Definition render_valid (t : list string) (label : string) : string :=
  match t with
  | [y; m; d; h; mi; s] =>
      rjust 6 y ++ rjust 6 m ++ rjust 6 d ++ rjust 6 h ++ rjust 6 mi ++ rjust 13 s ++ spaces 17 ++ label
  | _ => spaces 60 ++ label
  end.

Definition render_values (l : list string) : string := cat (map (rjust 8) l).

Definition render_freq (f : freq_m) : list string :=
  [ spaces 3 ++ ljust 3 (fm_code f) ++ spaces 54 ++ "START OF FREQUENCY";
    rjust 10 (fm_north f) ++ rjust 10 (fm_east f) ++ rjust 10 (fm_up f) ++ spaces 30 ++ "NORTH / EAST / UP";
    "   NOAZI" ++ render_values (fm_noazi f) ]
  ++ map (fun r => rjust 8 (fst r) ++ render_values (snd r)) (fm_rows f)
  ++ [ spaces 3 ++ ljust 3 (fm_code f) ++ spaces 54 ++ "END OF FREQUENCY" ].

Definition render_rms (f : freq_m) : list string :=
  [ spaces 3 ++ ljust 3 (fm_code f) ++ spaces 54 ++ "START OF FREQ RMS";
    rjust 10 (fm_north f) ++ rjust 10 (fm_east f) ++ rjust 10 (fm_up f) ++ spaces 30 ++ "NORTH / EAST / UP";
    "   NOAZI" ++ render_values (fm_noazi f) ]
  ++ map (fun r => rjust 8 (fst r) ++ render_values (snd r)) (fm_rows f)
  ++ [ spaces 3 ++ ljust 3 (fm_code f) ++ spaces 54 ++ "END OF FREQ RMS" ].

Definition render_opt_valid (t : option (list string)) (label : string) : list string :=
  match t with Some t => [render_valid t label] | None => [] end.

Definition render_ant_head (a : ant_m) : list string :=
  [ spaces 60 ++ "START OF ANTENNA";
    ljust 20 (am_type a) ++ ljust 20 (am_serial a) ++ ljust 10 (am_sat a) ++ ljust 10 (am_cospar a) ++ "TYPE / SERIAL NO";
    spaces 2 ++ rjust 6 (am_dazi a) ++ spaces 52 ++ "DAZI";
    spaces 2 ++ rjust 6 (am_zen1 a) ++ rjust 6 (am_zen2 a) ++ rjust 6 (am_dzen a) ++ spaces 40 ++ "ZEN1 / ZEN2 / DZEN";
    rjust 6 (am_nfreq a) ++ spaces 54 ++ "# OF FREQUENCIES" ]
  ++ render_opt_valid (am_from a) "VALID FROM"
  ++ render_opt_valid (am_until a) "VALID UNTIL".

Definition render_ant (a : ant_m) : list string :=
  render_ant_head a ++ List.concat (map render_freq (am_freqs a)) ++ List.concat (map render_rms (am_rms a))
  ++ [ spaces 60 ++ "END OF ANTENNA" ].

Definition render_body (m : file_m) : list string := List.concat (map render_ant m).

Definition std_header : list string :=
  [ "     1.4            M                                       ANTEX VERSION / SYST";
    "A                                                           PCV TYPE / REFANT";
    spaces 60 ++ "END OF HEADER" ].

Definition render_file (m : file_m) : list string := std_header ++ render_body m.

(* -------- what a correct reader delivers for it (the specification, stated without any parsing machinery) *)
Definition tokq (s : string) : Q := match dec_q s with Some x => x | None => 0%Q end.
Definition tokz (s : string) : Z := match dec_z s with Some x => x | None => 0%Z end.

Definition valid_us (t : list string) : Q :=
  match t with
  | [y; m; d; h; mi; s] =>
      (inject_Z (civil_us (tokz y) (tokz m) (tokz d) (tokz h) (tokz mi)) + tokq s * inject_Z 1000000)%Q
  | _ => 0%Q
  end.

Definition expected_freq (f : freq_m) : string * fentry :=
  (fm_code f,
   {| fe_neu := [tokq (fm_north f) * mm2m; tokq (fm_east f) * mm2m; tokq (fm_up f) * mm2m]%Q;
      fe_noazi := map tokq (fm_noazi f);
      fe_azi := match fm_rows f with
                | [] => None
                | rows => Some (AziQ (map (fun r => map tokq (snd r)) rows))
                end |}).

Definition expected_key (a : ant_m) : akey :=
  if String.eqb (am_sat a) "" then (am_type a, None)
  else (am_serial a, Some (match am_from a with Some t => valid_us t | None => min_us end)).

Definition expected_entry (a : ant_m) : entry :=
  {| en_sat := if String.eqb (am_sat a) "" then None
               else Some {| si_cospar := am_cospar a; si_code := am_sat a; si_type := am_type a;
                            si_until := Some (match am_until a with Some t => valid_us t | None => max_us end) |};
     en_elev := if Qeq_bool (tokq (am_dzen a)) 0 then None
                else Some (elevation_grid all_off (tokq (am_zen1 a)) (tokq (am_zen2 a)) (tokq (am_dzen a)));
     en_azim := if Qeq_bool (tokq (am_dazi a)) 0 then None else Some (azimuth_grid all_off (tokq (am_dazi a)));
     en_freqs := map expected_freq (am_freqs a) |}.

Definition expected (m : file_m) : data := map (fun a => (expected_key a, expected_entry a)) m.

(* ====================================================================================== comparison *)
Fixpoint list_eqb {A} (eq : A -> A -> bool) (a b : list A) : bool :=
  match a, b with
  | [], [] => true
  | x :: r, y :: s => if eq x y then list_eqb eq r s else false
  | _, _ => false
  end.

Fixpoint list_match {A B} (f : A -> B -> bool) (a : list A) (b : list B) : bool :=
  match a, b with
  | [], [] => true
  | x :: r, y :: s => if f x y then list_match f r s else false
  | _, _ => false
  end.

Definition opt_match {A B} (f : A -> B -> bool) (a : option A) (b : option B) : bool :=
  match a, b with Some x, Some y => f x y | None, None => true | _, _ => false end.

Definition opt_eqb {A} (eq : A -> A -> bool) (a b : option A) : bool :=
  match a, b with Some x, Some y => eq x y | None, None => true | _, _ => false end.

Definition azi_eqb (a b : azi) : bool :=
  match a, b with
  | AziQ x, AziQ y => list_eqb (list_eqb Qeq_bool) x y
  | AziS x, AziS y => list_eqb (list_eqb String.eqb) x y
  | _, _ => false
  end.

Definition fentry_eqb (a b : fentry) : bool :=
  list_eqb Qeq_bool (fe_neu a) (fe_neu b) && list_eqb Qeq_bool (fe_noazi a) (fe_noazi b)
  && opt_eqb azi_eqb (fe_azi a) (fe_azi b).

Definition satinfo_eqb (a b : satinfo) : bool :=
  String.eqb (si_cospar a) (si_cospar b) && String.eqb (si_code a) (si_code b) && String.eqb (si_type a) (si_type b)
  && opt_eqb Qeq_bool (si_until a) (si_until b).

Definition entry_eqb (a b : entry) : bool :=
  opt_eqb satinfo_eqb (en_sat a) (en_sat b) && opt_eqb (list_eqb Qeq_bool) (en_elev a) (en_elev b)
  && opt_eqb (list_eqb Qeq_bool) (en_azim a) (en_azim b)
  && list_eqb (fun x y => String.eqb (fst x) (fst y) && fentry_eqb (snd x) (snd y)) (en_freqs a) (en_freqs b).

Definition data_eqb (a b : data) : bool :=
  list_eqb (fun x y => akey_eqb (fst x) (fst y) && entry_eqb (snd x) (snd y)) a b.

Definition res_data_eqb (a b : res data) : bool :=
  match a, b with
  | Ok x, Ok y => data_eqb x y
  | Err e, Err f => String.eqb e f
  | _, _ => false
  end.

(* ====================================================================================== observations *)
Inductive obs_azi :=
| OAziNone
| OAziF (rows : list (list dy))         (* 2-d float array *)
| OAziS (rows : list (list string))     (* 2-d array of str *)
| OAziOther.                            (* anything else (wrong rank, object dtype, ...) *)

Record obs_freq := { of_code : string; of_neu : list dy; of_noazi : list dy; of_azi : obs_azi }.

Record obs_sat := { os_cospar : string; os_code : string; os_type : string; os_until : Z }.

Record obs_entry := { oe_ant : string; oe_from : option Z; oe_sat : option obs_sat;
                      oe_elev : option (list dy); oe_azim : option (list dy); oe_freqs : list obs_freq }.

Inductive obs := ObsOk (l : list obs_entry) | ObsErr (cls : string).

(* pi to 40 digits, bracketed (Proofs/C15_Antex.v: pi_bracket) *)
Definition pi_lo : Q := 31415926535897932384626433832795028841 # 10000000000000000000000000000000000000.
Definition pi_hi : Q := 31415926535897932384626433832795028842 # 10000000000000000000000000000000000000.

Definition grid_abs_tol : Q := pow2Q (-40).

(* d is the radian value of deg degrees: within 2 ulp, or 2^-40 rad absolute (non-dyadic steps near zero) *)
Definition rad_close (deg : Q) (d : dy) : bool :=
  let ok := fun x : Q => within_ulps 2 x d || within grid_abs_tol x d in
  ok (deg * pi_lo / 180)%Q && ok (deg * pi_hi / 180)%Q.

Definition us_close (t : Q) (o : Z) : bool := Qle_bool (Qabs (t - inject_Z o)) 1.

Definition match_azi (a : option azi) (o : obs_azi) : bool :=
  match a, o with
  | None, OAziNone => true
  | Some (AziQ x), OAziF y => list_match (list_match is_nearest_double) x y
  | Some (AziS x), OAziS y => list_eqb (list_eqb String.eqb) x y
  | _, _ => false
  end.

(* which components of the result a comparison looks at *)
Record parts := { p_rest : bool; p_dates : bool; p_grids : bool; p_azi : bool }.
Definition P_all := {| p_rest := true; p_dates := true; p_grids := true; p_azi := true |}.
Definition P_rest := {| p_rest := true; p_dates := false; p_grids := false; p_azi := false |}.
Definition P_dates := {| p_rest := false; p_dates := true; p_grids := false; p_azi := false |}.
Definition P_grids := {| p_rest := false; p_dates := false; p_grids := true; p_azi := false |}.
Definition P_azi := {| p_rest := false; p_dates := false; p_grids := false; p_azi := true |}.

Definition andl (l : list (unit -> bool)) : bool :=
  fold_right (fun (f : unit -> bool) acc => if f tt then acc else false) true l.

Definition match_freq (p : parts) (m : string * fentry) (o : obs_freq) : bool :=
  andl [ (fun _ => if p_rest p then String.eqb (fst m) (of_code o) else true);
         (fun _ => if p_rest p then list_match (within_ulps 2) (fe_neu (snd m)) (of_neu o) else true);
         (fun _ => if p_rest p then list_match is_nearest_double (fe_noazi (snd m)) (of_noazi o) else true);
         (fun _ => if p_azi p then match_azi (fe_azi (snd m)) (of_azi o) else true) ].

Definition match_sat (p : parts) (now_lo now_hi : Z) (m : satinfo) (o : obs_sat) : bool :=
  andl [ (fun _ => if p_rest p then
                   (String.eqb (si_cospar m) (os_cospar o) && String.eqb (si_code m) (os_code o)
                    && String.eqb (si_type m) (os_type o)) else true);
         (fun _ => if p_dates p then
                   match si_until m with
                   | Some t => us_close t (os_until o)
                   | None => (now_lo <=? os_until o)%Z && (os_until o <=? now_hi)%Z
                   end else true) ].

Definition match_entry (p : parts) (now_lo now_hi : Z) (m : akey * entry) (o : obs_entry) : bool :=
  andl [ (fun _ => String.eqb (fst (fst m)) (oe_ant o));
         (fun _ => match snd (fst m), oe_from o with
                   | Some t, Some u => if p_dates p then us_close t u else true
                   | None, None => true
                   | _, _ => false
                   end);
         (fun _ => match en_sat (snd m), oe_sat o with
                   | Some s, Some t => match_sat p now_lo now_hi s t
                   | None, None => true
                   | _, _ => false
                   end);
         (fun _ => if p_grids p then opt_match (list_match rad_close) (en_elev (snd m)) (oe_elev o) else true);
         (fun _ => if p_grids p then opt_match (list_match rad_close) (en_azim (snd m)) (oe_azim o) else true);
         (fun _ => if p_rest p || p_azi p then list_match (match_freq p) (en_freqs (snd m)) (oe_freqs o) else true) ].

(* as_dict() groups the validity periods of one PRN under its name: entries of one name together, names in the
   order of their first appearance *)
Fixpoint names_of (d : data) (seen : list string) : list string :=
  match d with
  | [] => []
  | (k, _) :: r => if existsb (String.eqb (fst k)) seen then names_of r seen else fst k :: names_of r (fst k :: seen)
  end.
Definition regroup (d : data) : data :=
  flat_map (fun a => filter (fun e => String.eqb (fst (fst e)) a) d) (names_of d []).

Definition match_data (p : parts) (now_lo now_hi : Z) (m : data) (o : list obs_entry) : bool :=
  list_match (match_entry p now_lo now_hi) (regroup m) o.

Definition match_res (p : parts) (now_lo now_hi : Z) (m : res data) (o : obs) : bool :=
  match m, o with
  | Ok d, ObsOk l => match_data p now_lo now_hi d l
  | Err e, ObsErr c => String.eqb e c
  | _, _ => false
  end.

(* ====================================================================================== checks *)
Definition quirks_of_mask (k : Z) : quirks :=
  {| azi_accumulates := Z.testbit k 0; azi_strings := Z.testbit k 1;
     seconds_as_days := Z.testbit k 2; zen_count_float := Z.testbit k 3; sat_from_required := Z.testbit k 4;
     until_now := Z.testbit k 5 |}.

Definition first_some (l : list (unit -> option Z)) : option Z :=
  fold_right (fun (f : unit -> option Z) acc => match f tt with Some k => Some k | None => acc end) None l.

(* 0: the observation is what the specification model computes from the file's text;
   16 + mask: it is what the model computes with exactly the quirks of [mask] (bit 0 azi_accumulates, 1 azi_strings,
   2 seconds_as_days, 3 zen_count_float, 4 sat_from_required - the failure hides all other components, 5 until_now), [mask] being the least explanation per component (dates, grids, patterns);
   1: neither *)
Definition check_with (tbl : table) (case : list string * (Z * Z) * obs) : Z :=
  let '(lines, (lo, hi), o) := case in
  let lx := map (prelex tbl) (after_header lines) in
  let r0 := parse_lexed all_off lx in
  if match_res P_all lo hi r0 o then 0%Z
  else if match o with ObsErr _ => match_res P_all lo hi (parse_lexed (quirks_of_mask 16) lx) o | _ => false end then 32%Z
  else if negb (match_res P_rest lo hi r0 o) then 1%Z
  else
    let r13 := parse_lexed (quirks_of_mask 13) lx in
    let try := fun (p : parts) (r : res data) (k : Z) (_ : unit) => if match_res p lo hi r o then Some k else None in
    match first_some [try P_dates r0 0%Z; try P_dates r13 4%Z;
                      (fun _ => try P_dates (parse_lexed (quirks_of_mask 32) lx) 32%Z tt);
                      (fun _ => try P_dates (parse_lexed (quirks_of_mask 36) lx) 36%Z tt)],
          first_some [try P_grids r0 0%Z; try P_grids r13 8%Z],
          first_some [try P_azi r0 0%Z; try P_azi r13 1%Z;
                      (fun _ => try P_azi (parse_lexed (quirks_of_mask 2) lx) 2%Z tt);
                      (fun _ => try P_azi (parse_lexed (quirks_of_mask 3) lx) 3%Z tt)] with
    | Some a, Some b, Some c =>
        let k := (a + b + c)%Z in
        if match_res P_all lo hi (parse_lexed (quirks_of_mask k) lx) o then (16 + k)%Z else 1%Z
    | _, _, _ => 1%Z
    end.

(* ground truth: 0 = the text is the rendering of m (comments etc. dropped) and the specification model
   with the given table reads exactly [expected m] from it;  3 = the independent writer and [render_body]
   disagree (harness defect);  2 = the table does not read the file into what it contains *)
Definition core_labels : list string :=
  ["START OF ANTENNA"; "END OF ANTENNA"; "TYPE / SERIAL NO"; "DAZI"; "ZEN1 / ZEN2 / DZEN"; "# OF FREQUENCIES";
   "VALID FROM"; "VALID UNTIL"; "START OF FREQUENCY"; "NORTH / EAST / UP"; "END OF FREQUENCY"; "CORRECTION";
   "START OF FREQ RMS"; "END OF FREQ RMS"].

Definition is_core (line : string) : bool :=
  negb (String.eqb line "") && existsb (String.eqb (label_of line)) core_labels.

Definition core_lines (lines : list string) : list string :=
  filter is_core (map rstrip (after_header lines)).

Definition truth_with (tbl : table) (case : file_m * list string) : Z :=
  let '(m, lines) := case in
  if negb (list_eqb String.eqb (core_lines lines) (render_body m)) then 3%Z
  else if res_data_eqb (parse all_off tbl lines) (Ok (expected m)) then 0%Z
  else 2%Z.

(* ====================================================================================== rendered files, lexed
   What [prelex std_table] makes of the lines of [render_ant] (Proofs/C15_Lines.v: prelex_render_ant), and the
   syntactic well-formedness of the printed tokens that this needs. *)
Definition ev (pname : string) (v : values) : lexed := (Some (pname, v), false).

Definition lex_valid (t : list string) (pname : string) : lexed :=
  match t with
  | [y; m; d; h; mi; s] =>
      ev pname [("year", y); ("month", m); ("day", d); ("hour", h); ("minute", mi); ("second", s)]
  | _ => ev pname [("year", ""); ("month", ""); ("day", ""); ("hour", ""); ("minute", ""); ("second", "")]
  end.

Definition lex_opt_valid (t : option (list string)) (pname : string) : list lexed :=
  match t with Some t => [lex_valid t pname] | None => [] end.

Definition lex_freq (f : freq_m) : list lexed :=
  [ ev "parse_section_string" [("frequency_code", fm_code f)];
    ev "parse_section_float" [("north", fm_north f); ("east", fm_east f); ("up", fm_up f)];
    ev "parse_correction" [("values", "NOAZI" ++ render_values (fm_noazi f))] ]
  ++ map (fun r => ev "parse_correction" [("values", fst r ++ render_values (snd r))]) (fm_rows f)
  ++ [ ev "save_correction" [("frequency_code", fm_code f)] ].

Definition lex_rms (f : freq_m) : list lexed :=
  [ (None, false);
    ev "parse_section_float" [("north", fm_north f); ("east", fm_east f); ("up", fm_up f)];
    ev "parse_correction" [("values", "NOAZI" ++ render_values (fm_noazi f))] ]
  ++ map (fun r => ev "parse_correction" [("values", fst r ++ render_values (snd r))]) (fm_rows f)
  ++ [ (None, false) ].

Definition lex_ant_head (a : ant_m) : list lexed :=
  [ (None, false);
    ev "parse_section_string" [("antenna_type", am_type a); ("antenna_code", am_serial a); ("sat_code", am_sat a);
                               ("cospar_id", am_cospar a)];
    ev "parse_section_float" [("dazi", am_dazi a)];
    ev "parse_section_float" [("zen1", am_zen1 a); ("zen2", am_zen2 a); ("dzen", am_dzen a)];
    ev "parse_num_of_frequencies" [("num_freq", am_nfreq a)] ]
  ++ lex_opt_valid (am_from a) "parse_valid_from"
  ++ lex_opt_valid (am_until a) "parse_valid_until".

Definition lex_ant (a : ant_m) : list lexed :=
  lex_ant_head a ++ List.concat (map lex_freq (am_freqs a)) ++ List.concat (map lex_rms (am_rms a)) ++ [ (None, true) ].

Definition numch (c : ascii) : bool :=
  match digit_of c with Some _ => true | None => Ascii.eqb c "+" || Ascii.eqb c "-" || Ascii.eqb c "." end.

(* a printed number: non-empty, only digits, signs and the point, at most w characters *)
Definition numtok (w : nat) (s : string) : bool :=
  negb (String.eqb s "") && all_by numch s && Nat.leb (len s) w.

(* a text field: no outer blanks, at most w characters *)
Definition fitsb (w : nat) (s : string) : bool := trimmed s && Nat.leb (len s) w.

Definition wf_valid (t : option (list string)) : bool :=
  match t with
  | None => true
  | Some [y; m; d; h; mi; s] => numtok 6 y && numtok 6 m && numtok 6 d && numtok 6 h && numtok 6 mi && numtok 13 s
  | Some _ => false
  end.

Definition wf_freq (f : freq_m) : bool :=
  fitsb 3 (fm_code f) && numtok 10 (fm_north f) && numtok 10 (fm_east f) && numtok 10 (fm_up f)
  && forallb (numtok 7) (fm_noazi f)
  && forallb (fun r => numtok 8 (fst r) && forallb (numtok 7) (snd r)) (fm_rows f).

Definition wf_ant (a : ant_m) : bool :=
  fitsb 20 (am_type a) && fitsb 20 (am_serial a) && fitsb 10 (am_sat a) && fitsb 10 (am_cospar a)
  && numtok 6 (am_dazi a) && numtok 6 (am_zen1 a) && numtok 6 (am_zen2 a) && numtok 6 (am_dzen a)
  && numtok 6 (am_nfreq a) && wf_valid (am_from a) && wf_valid (am_until a)
  && forallb wf_freq (am_freqs a) && forallb wf_freq (am_rms a).

(* ====================================================================================== table coverage
   When does another label/field table read rendered files like [std_table]?  (Proofs/C15_Covers.v) *)
Definition slot_contains (g s : nat * option nat) : bool :=
  Nat.leb (fst g) (fst s) &&
  match snd g, snd s with
  | None, None => true
  | Some b', Some b => Nat.leb b b' && Nat.leb b' 60
  | _, _ => false
  end.

Definition slot_disjoint (g s : nat * option nat) : bool :=
  match snd g, snd s with
  | Some b', Some b => Nat.leb b' (fst s) || Nat.leb b (fst g)
  | None, Some b => Nat.leb b (fst g)
  | Some b', None => Nat.leb b' (fst s)
  | None, None => false
  end.

(* same field name; the slot contains the standard's columns of the field, ends before the label column, and touches
   no other field of the record *)
Definition field_covers (others : list fieldspec) (g s : fieldspec) : bool :=
  String.eqb (fst g) (fst s) && slot_contains (snd g) (snd s)
  && forallb (fun o => String.eqb (fst o) (fst s) || slot_disjoint (snd g) (snd o)) others.

Definition fields_cover (gen std : list fieldspec) : bool := list_match (field_covers std) gen std.

(* the same labels, the same parse methods, fields covering field by field (in column order) *)
Definition table_covers (gen std : table) : bool :=
  forallb (fun g => match assoc (fst g) std with Some _ => true | None => false end) gen
  && forallb (fun s =>
       match assoc (fst s) gen with
       | None => false
       | Some (pname, fields) => String.eqb pname (fst (snd s)) && fields_cover fields (snd (snd s))
       end) std.
