(* C20 / dilution of precision (midgard.gnss.compute_dops.compute_dops).
   Part 1: the specification over R: design rows, normal matrix H^T H, "M is an inverse of N", the five
           DOP values as functions of the cofactor matrix M.
   Part 2: an executable counterpart over Q used by the correspondence check: the design rows are taken
           from 90-bit enclosures of cos/sin (coq-interval), the normal matrix is inverted exactly
           (Gauss-Jordan; the result is *checked* to be the inverse), traces are compared with the squares of
           the implementation's doubles. *)
From Coq Require Import ZArith QArith Qabs Bool List Reals.
From Interval Require Import Specific_bigint Specific_ops Float_full Interval Xreal Basic.
From Bignums Require Import BigZ.
From Verif Require Import Lib.Dyadic.
Import ListNotations.

(* ================================================================== part 1: specification *)
Open Scope R_scope.

Inductive I4 := i0 | i1 | i2 | i3.
Definition vec4 := I4 -> R.
Definition mat := I4 -> I4 -> R.

Definition I4_eqb (a b : I4) : bool :=
  match a, b with i0, i0 | i1, i1 | i2, i2 | i3, i3 => true | _, _ => false end.

Definition sum4 (f : I4 -> R) : R := f i0 + f i1 + f i2 + f i3.
Definition mmul (A B : mat) : mat := fun i j => sum4 (fun k => A i k * B k j).
Definition mT (A : mat) : mat := fun i j => A j i.
Definition mI : mat := fun i j => if I4_eqb i j then 1 else 0.
Definition meq (A B : mat) : Prop := forall i j, A i j = B i j.
Definition inverse_of (N M : mat) : Prop := meq (mmul N M) mI /\ meq (mmul M N) mI.

(* one row of H:  -cos(el) cos(az), -cos(el) sin(az), -sin(el), 1 *)
Definition row (s : R * R) : vec4 :=
  let '(az, el) := s in
  fun i => match i with
           | i0 => - cos el * cos az
           | i1 => - cos el * sin az
           | i2 => - sin el
           | i3 => 1
           end.

(* Q = H^T H = sum over the satellites of the outer products of the rows *)
Fixpoint normal (sats : list (R * R)) : mat :=
  match sats with
  | [] => fun _ _ => 0
  | s :: r => fun i j => row s i * row s j + normal r i j
  end.

(* GDOP, PDOP, TDOP, HDOP, VDOP from the cofactor matrix M = (H^T H)^-1:
   sqrt(trace M), sqrt(trace M[0:3]), sqrt(M33), sqrt(trace M[0:2]), sqrt(M22) *)
Definition gdop (M : mat) := sqrt (M i0 i0 + M i1 i1 + M i2 i2 + M i3 i3).
Definition pdop (M : mat) := sqrt (M i0 i0 + M i1 i1 + M i2 i2).
Definition tdop (M : mat) := sqrt (M i3 i3).
Definition hdop (M : mat) := sqrt (M i0 i0 + M i1 i1).
Definition vdop (M : mat) := sqrt (M i2 i2).

Definition rotate (theta : R) (sats : list (R * R)) : list (R * R) :=
  map (fun s => (fst s + theta, snd s)) sats.

(* rotation about the up axis, acting on rows from the right *)
Definition Rm (theta : R) : mat := fun i j =>
  match i, j with
  | i0, i0 => cos theta | i0, i1 => sin theta
  | i1, i0 => - sin theta | i1, i1 => cos theta
  | i2, i2 => 1 | i3, i3 => 1
  | _, _ => 0
  end.

(* ================================================================== part 2: executable *)
Open Scope Q_scope.

Module F := SpecificFloat BigIntRadix2.
Module I := FloatIntervalFull F.

Definition prec := F.PtoP 90.

Definition dy_toF (d : dy) : option F.type :=
  match d with
  | Dy m e => Some (Specific_ops.Float (BigZ.of_Z m) (BigZ.of_Z e))
  | DZero _ => Some (Specific_ops.Float (BigZ.of_Z 0) (BigZ.of_Z 0))
  | _ => None
  end.

Definition F_toQ (f : F.type) : option Q :=
  match F.toF f with
  | Basic.Fzero => Some 0
  | Basic.Float s m e => Some ((if s then -1 else 1) * inject_Z (Zpos m) * pow2Q e)
  | Basic.Fnan => None
  end.

(* enclosure [lo, hi] of fn(x) for the double x *)
Definition encl (fn : F.precision -> I.type -> I.type) (d : dy) : option (Q * Q) :=
  match dy_toF d with
  | Some x =>
      let r := fn prec (I.bnd x x) in
      match F_toQ (I.lower r), F_toQ (I.upper r) with
      | Some lo, Some hi => Some (lo, hi)
      | _, _ => None
      end
  | None => None
  end.

Definition mid (p : Q * Q) : Q := Qred ((fst p + snd p) * (1 # 2)).
Definition width (p : Q * Q) : Q := snd p - fst p.

(* the four entries of a design row from enclosures of width <= 2^-80 (checked), taken at the midpoints *)
Definition qrow := list Q.
Definition design_row (az el : dy) : option qrow :=
  match encl I.cos az, encl I.sin az, encl I.cos el, encl I.sin el with
  | Some ca, Some sa, Some ce, Some se =>
      let small p := Qle_bool (width p) (1 # 2 ^ 80) in
      if small ca && small sa && small ce && small se then
        Some [Qred (- mid ce * mid ca); Qred (- mid ce * mid sa); Qred (- mid se); 1]
      else None
  | _, _, _, _ => None
  end.

Fixpoint map2 (f : Q -> Q -> Q) (a b : qrow) : qrow :=
  match a, b with x :: a', y :: b' => f x y :: map2 f a' b' | _, _ => [] end.

Definition zero4 : list qrow := [[0;0;0;0];[0;0;0;0];[0;0;0;0];[0;0;0;0]].
Definition outer (r : qrow) : list qrow := map (fun x => map (fun y => x * y) r) r.
Definition madd (A B : list qrow) : list qrow :=
  (fix go A B := match A, B with a :: A', b :: B' => map Qred (map2 Qplus a b) :: go A' B' | _, _ => [] end) A B.
Definition normalQ (rows : list qrow) : list qrow := fold_right (fun r acc => madd (outer r) acc) zero4 rows.

(* Gauss-Jordan on [N | I] *)
Definition rsub (a p : qrow) (k : Q) : qrow := map Qred (map2 (fun x y => x - k * y) a p).
Definition elim (c : nat) (p r : qrow) : qrow := rsub r p (nth c r 0).
Fixpoint pick (c : nat) (rows : list qrow) : option (qrow * list qrow) :=
  match rows with
  | [] => None
  | r :: rs =>
      if Qeq_bool (nth c r 0) 0 then
        match pick c rs with Some (p, rest) => Some (p, r :: rest) | None => None end
      else Some (r, rs)
  end.
Fixpoint gj (n c : nat) (done todo : list qrow) : option (list qrow) :=
  match n with
  | O => Some done
  | S n' =>
      match pick c todo with
      | None => None
      | Some (p, rest) =>
          let p1 := map Qred (map (Qmult (/ nth c p 0)) p) in
          gj n' (S c) (map (elim c p1) done ++ [p1]) (map (elim c p1) rest)
      end
  end.
Definition ident4 : list qrow := [[1;0;0;0];[0;1;0;0];[0;0;1;0];[0;0;0;1]].
Definition inverse4 (N : list qrow) : option (list qrow) :=
  match gj 4 0 [] (map (fun p => fst p ++ snd p) (combine N ident4)) with
  | Some rows => Some (map (skipn 4) rows)
  | None => None
  end.

Definition mmulQ (A B : list qrow) : list qrow :=
  map (fun a => map (fun j => fold_right Qplus 0 (map2 Qmult a (map (fun b => nth j b 0) B))) [0%nat;1%nat;2%nat;3%nat]) A.
Definition meqQ (A B : list qrow) : bool :=
  (length A =? length B)%nat && forallb (fun p => (length (fst p) =? length (snd p))%nat && forallb (fun q => Qeq_bool (fst q) (snd q)) (combine (fst p) (snd p))) (combine A B).

Definition ent (M : list qrow) (i j : nat) : Q := nth j (nth i M []) 0.
Definition norm_inf (M : list qrow) : Q := fold_right (fun r acc => let s := fold_right (fun x a => Qabs x + a) 0 r in if Qle_bool acc s then s else acc) 0 M.

(* exact squares of the DOP values of a geometry: (g2, p2, t2, h2, v2) and the condition number estimate
   kappa = |N|_inf |N^-1|_inf; None when the normal matrix is singular *)
Definition dops2 (sats : list (dy * dy)) : option (Q * Q * Q * Q * Q * Q) :=
  let rows := map (fun s => design_row (fst s) (snd s)) sats in
  if existsb (fun r => match r with None => true | _ => false end) rows then None else
  let N := normalQ (map (fun r => match r with Some x => x | None => [] end) rows) in
  match inverse4 N with
  | Some M =>
      if meqQ (mmulQ N M) ident4 then
        let h2 := ent M 0 0 + ent M 1 1 in
        let p2 := h2 + ent M 2 2 in
        Some (Qred (p2 + ent M 3 3), Qred p2, ent M 3 3, Qred h2, ent M 2 2, Qred (norm_inf N * norm_inf M))
      else None
  | None => None
  end.

Definition dsq (d : dy) : option Q := match dy_toQ d with Some v => if Qle_bool 0 v then Some (v * v) else None | None => None end.

(* tolerance of the comparison of squared DOPs: relative 1e-9, widened to 64 u kappa for badly conditioned
   normal matrices (kappa > 1.4e5) *)
Definition dop_tol (kappa : Q) : Q :=
  let a := 2 # 1000000000 in let b := 128 * (1 # 2 ^ 53) * kappa in if Qle_bool a b then b else a.

Definition close_rel (tol a b : Q) : bool := Qle_bool (Qabs (a - b)) (tol * Qabs b).

(* case: (satellites [(az, el)], (gdop, pdop, tdop, hdop, vdop) as returned)
   0 = all five squared values equal the model's (tolerance dop_tol) and, on the doubles,
       g^2 = p^2 + t^2 and p^2 = h^2 + v^2 (relative 1e-9);
   1 = differs from the model; 3 = the model's normal matrix is singular / not evaluable;
   4 = agrees with the model but an identity on the doubles fails *)
Definition check_dop (c : list (dy * dy) * (dy * dy * dy * dy * dy)) : Z :=
  let '(sats, (g, p, t, h, v)) := c in
  match dops2 sats, dsq g, dsq p, dsq t, dsq h, dsq v with
  | Some (g2, p2, t2, h2, v2, kappa), Some gs, Some ps, Some ts, Some hs, Some vs =>
      let tol := dop_tol kappa in
      if close_rel tol gs g2 && close_rel tol ps p2 && close_rel tol ts t2 && close_rel tol hs h2 && close_rel tol vs v2 then
        if close_rel (2 # 1000000000) (ps + ts) gs && close_rel (2 # 1000000000) (hs + vs) ps then 0%Z else 4%Z
      else 1%Z
  | None, _, _, _, _, _ => 3%Z
  | _, _, _, _, _, _ => 1%Z
  end.

(* the laws on the implementation alone: two runs that must give the same DOPs (all azimuths rotated /
   satellites reordered); relative 1e-9 on the values, widened like dop_tol by the condition estimate *)
Definition check_same (c : list (dy * dy) * (dy * dy * dy * dy * dy) * (dy * dy * dy * dy * dy)) : Z :=
  let '(sats, (g, p, t, h, v), (g', p', t', h', v')) := c in
  let kappa := match dops2 sats with Some (_, _, _, _, _, k) => k | None => 0 end in
  let tol := dop_tol kappa in
  let cl a b := match dy_toQ a, dy_toQ b with Some x, Some y => close_rel tol x y | _, _ => false end in
  if cl g g' && cl p p' && cl t t' && cl h h' && cl v v' then 0%Z else 1%Z.
