(* C20 / dilution of precision (midgard.gnss.compute_dops.compute_dops).
   Part 1: the specification over R: design rows, normal matrix H^T H, "M is an inverse of N", the five
           DOP values as functions of the cofactor matrix M.
   Part 2: an executable counterpart over Q used by the correspondence check: the design rows are taken
           from 180-bit enclosures of cos/sin (coq-interval), the normal matrix is inverted exactly
           (integer adjugate / determinant on the grid 2^-64; N adj = det I is checked, not assumed), traces are compared with the squares of
           the implementation's doubles. *)
From Coq Require Import ZArith QArith Qabs Qround Bool List Reals.
From Interval Require Import Specific_bigint Specific_ops Float_full Interval Xreal Basic.
From Bignums Require Import BigZ.
From Verif Require Import Lib.Dyadic.
Import ListNotations.

(* ================================================================== part 1: specification *)
Open Scope R_scope.

Inductive I4 := i0 | i1 | i2 | i3.
Definition vec4 := I4 -> R.
Definition mat := I4 -> I4 -> R.

Definition I4_eqb (a b : I4) : bool :=
  match a, b with i0, i0 | i1, i1 | i2, i2 | i3, i3 => true | _, _ => false end.

Definition sum4 (f : I4 -> R) : R := f i0 + f i1 + f i2 + f i3.
Definition mmul (A B : mat) : mat := fun i j => sum4 (fun k => A i k * B k j).
Definition mT (A : mat) : mat := fun i j => A j i.
Definition mI : mat := fun i j => if I4_eqb i j then 1 else 0.
Definition meq (A B : mat) : Prop := forall i j, A i j = B i j.
Definition inverse_of (N M : mat) : Prop := meq (mmul N M) mI /\ meq (mmul M N) mI.

(* one row of H:  -cos(el) cos(az), -cos(el) sin(az), -sin(el), 1 *)
Definition row (s : R * R) : vec4 :=
  let '(az, el) := s in
  fun i => match i with
           | i0 => - cos el * cos az
           | i1 => - cos el * sin az
           | i2 => - sin el
           | i3 => 1
           end.

(* Q = H^T H = sum over the satellites of the outer products of the rows *)
Fixpoint normal (sats : list (R * R)) : mat :=
  match sats with
  | [] => fun _ _ => 0
  | s :: r => fun i j => row s i * row s j + normal r i j
  end.

(* GDOP, PDOP, TDOP, HDOP, VDOP from the cofactor matrix M = (H^T H)^-1:
   sqrt(trace M), sqrt(trace M[0:3]), sqrt(M33), sqrt(trace M[0:2]), sqrt(M22) *)
Definition gdop (M : mat) := sqrt (M i0 i0 + M i1 i1 + M i2 i2 + M i3 i3).
Definition pdop (M : mat) := sqrt (M i0 i0 + M i1 i1 + M i2 i2).
Definition tdop (M : mat) := sqrt (M i3 i3).
Definition hdop (M : mat) := sqrt (M i0 i0 + M i1 i1).
Definition vdop (M : mat) := sqrt (M i2 i2).

Definition rotate (theta : R) (sats : list (R * R)) : list (R * R) :=
  map (fun s => (fst s + theta, snd s)) sats.

(* rotation about the up axis, acting on rows from the right *)
Definition Rm (theta : R) : mat := fun i j =>
  match i, j with
  | i0, i0 => cos theta | i0, i1 => sin theta
  | i1, i0 => - sin theta | i1, i1 => cos theta
  | i2, i2 => 1 | i3, i3 => 1
  | _, _ => 0
  end.

(* ================================================================== part 2: executable *)
Open Scope Q_scope.

Module F := SpecificFloat BigIntRadix2.
Module I := FloatIntervalFull F.

Definition prec := F.PtoP 180.

Definition dy_toF (d : dy) : option F.type :=
  match d with
  | Dy m e => Some (Specific_ops.Float (BigZ.of_Z m) (BigZ.of_Z e))
  | DZero _ => Some (Specific_ops.Float (BigZ.of_Z 0) (BigZ.of_Z 0))
  | _ => None
  end.

Definition F_toQ (f : F.type) : option Q :=
  match F.toF f with
  | Basic.Fzero => Some 0
  | Basic.Float s m e => Some ((if s then -1 else 1) * inject_Z (Zpos m) * pow2Q e)
  | Basic.Fnan => None
  end.

(* enclosure [lo, hi] of fn(x) for the double x *)
Definition encl (fn : F.precision -> I.type -> I.type) (d : dy) : option (Q * Q) :=
  match dy_toF d with
  | Some x =>
      let r := fn prec (I.bnd x x) in
      match F_toQ (I.lower r), F_toQ (I.upper r) with
      | Some lo, Some hi => Some (lo, hi)
      | _, _ => None
      end
  | None => None
  end.

Definition width (p : Q * Q) : Q := snd p - fst p.

(* midpoint of an enclosure, rounded down to the grid 2^-64 and scaled by 2^64 (an integer) *)
Definition sc : Z := 2 ^ 64.
Definition midZ (p : Q * Q) : Z := Qfloor ((fst p + snd p) * (1 # 2) * inject_Z sc).

(* the four entries of a design row, scaled by 2^64, from enclosures of width <= 2^-80 (checked): the entries
   are within 2^-62 of -cos(el) cos(az), -cos(el) sin(az), -sin(el), 1 *)
Definition zrow := list Z.
Definition design_row (az el : dy) : option zrow :=
  match encl I.cos az, encl I.sin az, encl I.cos el, encl I.sin el with
  | Some ca, Some sa, Some ce, Some se =>
      let small p := Qle_bool (width p) (1 # 2 ^ 80) in
      if small ca && small sa && small ce && small se then
        Some [(- (midZ ce * midZ ca / sc))%Z; (- (midZ ce * midZ sa / sc))%Z; (- midZ se)%Z; sc]
      else None
  | _, _, _, _ => None
  end.

Definition all_rows (sats : list (dy * dy)) : list (option zrow) := map (fun s => design_row (fst s) (snd s)) sats.

Fixpoint zmap2 (f : Z -> Z -> Z) (a b : zrow) : zrow :=
  match a, b with x :: a', y :: b' => f x y :: zmap2 f a' b' | _, _ => [] end.
Definition zero4 : list zrow := [[0;0;0;0];[0;0;0;0];[0;0;0;0];[0;0;0;0]]%Z.
Definition outer (r : zrow) : list zrow := map (fun x => map (fun y => (x * y)%Z) r) r.
Fixpoint madd (A B : list zrow) : list zrow :=
  match A, B with a :: A', b :: B' => zmap2 Z.add a b :: madd A' B' | _, _ => [] end.
(* H^T H (scaled by 2^128) *)
Definition normalZ (rows : list zrow) : list zrow := fold_right (fun r acc => madd (outer r) acc) zero4 rows.

Definition zent (M : list zrow) (i j : nat) : Z := nth j (nth i M []) 0%Z.
Fixpoint drop_nth {A : Type} (n : nat) (l : list A) : list A :=
  match l, n with [] , _ => [] | _ :: r, O => r | x :: r, S n' => x :: drop_nth n' r end.
Definition minor (M : list zrow) (i j : nat) : list zrow := map (drop_nth j) (drop_nth i M).
Definition det3 (M : list zrow) : Z :=
  let e (i j : nat) := zent M i j in
  let a := e 0%nat 0%nat in let b := e 0%nat 1%nat in let c := e 0%nat 2%nat in
  let d := e 1%nat 0%nat in let f := e 1%nat 1%nat in let g := e 1%nat 2%nat in
  let h := e 2%nat 0%nat in let k := e 2%nat 1%nat in let l := e 2%nat 2%nat in
  (a * (f * l - g * k) - b * (d * l - g * h) + c * (d * k - f * h))%Z.
Definition cofactor (M : list zrow) (i j : nat) : Z :=
  ((if Nat.even (i + j) then 1 else -1) * det3 (minor M i j))%Z.
Definition idx4 : list nat := [0; 1; 2; 3]%nat.
(* adjugate: adj[i][j] = cofactor(j, i) *)
Definition adjugate (M : list zrow) : list zrow := map (fun i => map (fun j => cofactor M j i) idx4) idx4.
Definition det4 (M : list zrow) : Z := fold_right Z.add 0%Z (map (fun j => (zent M 0%nat j * cofactor M 0%nat j)%Z) idx4).
Definition mmulZ (A B : list zrow) : list zrow :=
  map (fun i => map (fun j => fold_right Z.add 0%Z (map (fun k => (zent A i k * zent B k j)%Z) idx4)) idx4) idx4.
Definition scalarI (d : Z) : list zrow := map (fun i => map (fun j => if Nat.eqb i j then d else 0%Z) idx4) idx4.
Definition meqZ (A B : list zrow) : bool :=
  forallb (fun i => forallb (fun j => Z.eqb (zent A i j) (zent B i j)) idx4) idx4.
Definition norm_infZ (M : list zrow) : Z := fold_right Z.max 0%Z (map (fun r => fold_right (fun x a => (Z.abs x + a)%Z) 0%Z r) M).

(* exact squares of the DOP values of a geometry: (g2, p2, t2, h2, v2) and the condition number estimate
   kappa = |N|_inf |N^-1|_inf; None when the normal matrix is singular.
   N = normalZ / 2^128, N^-1 = 2^128 adj / det; N adj = det I is checked, not assumed. *)
Definition dops2 (sats : list (dy * dy)) : option (Q * Q * Q * Q * Q * Q) :=
  let rows := all_rows sats in
  if existsb (fun r => match r with None => true | _ => false end) rows then None else
  let N := normalZ (map (fun r => match r with Some x => x | None => [] end) rows) in
  let A := adjugate N in
  let d := det4 N in
  if (d =? 0)%Z || negb (meqZ (mmulZ N A) (scalarI d)) then None else
  let f (z : Z) : Q := Qred (Qmake (z * sc * sc * Z.sgn d) (Z.to_pos (Z.abs d))) in
  let h2 := (zent A 0%nat 0%nat + zent A 1%nat 1%nat)%Z in
  let p2 := (h2 + zent A 2%nat 2%nat)%Z in
  Some (f (p2 + zent A 3%nat 3%nat)%Z, f p2, f (zent A 3%nat 3%nat), f h2, f (zent A 2%nat 2%nat),
        Qred (Qmake (norm_infZ N * norm_infZ A) (Z.to_pos (Z.abs d)))).

Definition dsq (d : dy) : option Q := match dy_toQ d with Some v => if Qle_bool 0 v then Some (v * v) else None | None => None end.

(* tolerance of the comparison of squared DOPs: relative 1e-9, widened to 64 u kappa for badly conditioned
   normal matrices (kappa > 1.4e5) *)
Definition dop_tol (kappa : Q) : Q :=
  let a := 2 # 1000000000 in let b := 128 * (1 # 2 ^ 53) * kappa in if Qle_bool a b then b else a.

Definition close_rel (tol a b : Q) : bool := Qle_bool (Qabs (a - b)) (tol * Qabs b).

Definition five : Type := (dy * dy * dy * dy * dy)%type.

Definition same_five (tol : Q) (a b : five) : bool :=
  let '(g, p, t, h, v) := a in let '(g', p', t', h', v') := b in
  let cl a b := match dy_toQ a, dy_toQ b with Some x, Some y => close_rel tol x y | _, _ => false end in
  cl g g' && cl p p' && cl t t' && cl h h' && cl v v'.

(* case: (satellites [(az, el)], (gdop, pdop, tdop, hdop, vdop) as returned,
          the same for (az + theta, el), the same for a reordering of the satellites)
   0 = all five squared values equal the model's (tolerance dop_tol), on the doubles
       g^2 = p^2 + t^2 and p^2 = h^2 + v^2 (relative 2e-9), and the rotated and the reordered run return the
       same values (relative dop_tol);
   1 = differs from the model; 3 = the model's normal matrix is singular / not evaluable;
   4 = an identity on the doubles fails; 6 = rotation changes the values; 7 = reordering changes the values *)
Definition check_dop3 (c : list (dy * dy) * five * five * five) : Z :=
  let '(sats, d0, d1, d2) := c in
  let '(g, p, t, h, v) := d0 in
  match dops2 sats, dsq g, dsq p, dsq t, dsq h, dsq v with
  | Some (g2, p2, t2, h2, v2, kappa), Some gs, Some ps, Some ts, Some hs, Some vs =>
      let tol := dop_tol kappa in
      if close_rel tol gs g2 && close_rel tol ps p2 && close_rel tol ts t2 && close_rel tol hs h2 && close_rel tol vs v2 then
        if close_rel (2 # 1000000000) (ps + ts) gs && close_rel (2 # 1000000000) (hs + vs) ps then
          if negb (same_five tol d0 d1) then 6%Z else if negb (same_five tol d0 d2) then 7%Z else 0%Z
        else 4%Z
      else 1%Z
  | None, _, _, _, _, _ => 3%Z
  | _, _, _, _, _, _ => 1%Z
  end.
