(* C06 - local-frame conversions (DESIGN 4.6): the model.

   Part 1 (over R): the matrices of midgard/math/rotation.py written entry for entry as the code writes them,
   the along/cross/radial triad of PosVelArray.trs2acr, azimuth/elevation/zenith distance of PositionArray.
   Part 2: the same entries as `Ival.rexpr` expressions (tied to part 1 by `*_expr_ok` lemmas in Proofs/C06_Rot.v,
   all by computation) and the check_* functions of the correspondence (verdict 0 = implementation agrees with the
   specification model, 1 = unexplained difference, 2 = agrees with quirk c06_acr_1d_transposed switched on, 3 = quirk
   c06_elevation_nan_at_zenith). *)
From Coq Require Import Reals ZArith QArith Qabs List Bool.
From Verif Require Import Lib.Dyadic Lib.Atan2 Lib.Ival Lib.Vec3 Lib.Mat3.
Import ListNotations.

(* ================================================================= Part 1: real-number model *)
Section RealModel.
Open Scope R_scope.

(* rotation.R1/R2/R3 *)
Definition R1 (a : R) : mat3 := M3 1 0 0   0 (cos a) (sin a)   0 (- sin a) (cos a).
Definition R2 (a : R) : mat3 := M3 (cos a) 0 (- sin a)   0 1 0   (sin a) 0 (cos a).
Definition R3 (a : R) : mat3 := M3 (cos a) (sin a) 0   (- sin a) (cos a) 0   0 0 1.
(* rotation.dR1/dR2/dR3 *)
Definition dR1 (a : R) : mat3 := M3 0 0 0   0 (- sin a) (cos a)   0 (- cos a) (- sin a).
Definition dR2 (a : R) : mat3 := M3 (- sin a) 0 (- cos a)   0 0 0   (cos a) 0 (- sin a).
Definition dR3 (a : R) : mat3 := M3 (- sin a) (cos a) 0   (- cos a) (- sin a) 0   0 0 0.

(* rotation.enu2trs / trs2enu *)
Definition enu2trs (lat lon : R) : mat3 :=
  M3 (- sin lon) (- cos lon * sin lat) (cos lon * cos lat)
     (cos lon)   (- sin lon * sin lat) (sin lon * cos lat)
     0           (cos lat)             (sin lat).
Definition trs2enu (lat lon : R) : mat3 :=
  M3 (- sin lon)           (cos lon)             0
     (- sin lat * cos lon) (- sin lat * sin lon) (cos lat)
     (cos lat * cos lon)   (cos lat * sin lon)   (sin lat).

(* PositionArray.enu_east/north/up = nputil.take(enu2trs, k): the k-th column *)
Definition enu_east (lat lon : R) : vec3 := col1 (enu2trs lat lon).
Definition enu_north (lat lon : R) : vec3 := col2 (enu2trs lat lon).
Definition enu_up (lat lon : R) : vec3 := col3 (enu2trs lat lon).

(* outward unit normal of an ellipsoid of revolution at geodetic latitude/longitude, and the geodetic point *)
Definition normal (lat lon : R) : vec3 := V3 (cos lat * cos lon) (cos lat * sin lon) (sin lat).
Definition geodetic_point (a e2 lat lon h : R) : vec3 :=
  let N := a / sqrt (1 - e2 * (sin lat * sin lat)) in
  V3 ((N + h) * cos lat * cos lon) ((N + h) * cos lat * sin lon) ((N * (1 - e2) + h) * sin lat).
Definition ellipsoid_F (a e2 : R) (x : vec3) : R :=
  (vx x * vx x + vy x * vy x) / (a * a) + vz x * vz x / (a * a * (1 - e2)).
Definition ellipsoid_grad (a e2 : R) (x : vec3) : vec3 :=
  V3 (2 * vx x / (a * a)) (2 * vy x / (a * a)) (2 * vz x / (a * a * (1 - e2))).

(* nputil.unit_vector: vector / norm *)
Definition unitv (a : vec3) : vec3 := V3 (vx a / norm a) (vy a / norm a) (vz a / norm a).

(* PosVelArray.trs2acr: rows along, cross, radial (what the (n,6) code builds; the specification) *)
Definition acr_r (r v : vec3) : vec3 := unitv r.
Definition acr_c (r v : vec3) : vec3 := unitv (cross (unitv r) (unitv v)).
Definition acr_a (r v : vec3) : vec3 := unitv (cross (acr_c r v) (unitv r)).
Definition trs2acr (r v : vec3) : mat3 := of_rows (acr_a r v) (acr_c r v) (acr_r r v).
Definition acr2trs (r v : vec3) : mat3 := mtrans (trs2acr r v).
(* quirk c06_acr_1d_transposed: for a single (6,) state np.stack(..., axis=1) puts the triad into the columns *)
Definition trs2acr_q (transposed : bool) (r v : vec3) : mat3 :=
  if transposed then of_cols (acr_a r v) (acr_c r v) (acr_r r v) else trs2acr r v.

(* azimuth/elevation/zenith distance of `o` seen from `p`, triad of (lat, lon) *)
Definition direction (p o : vec3) : vec3 := unitv (vsub o p).
Definition azimuth (lat lon : R) (p o : vec3) : R :=
  atan2 (dot (direction p o) (enu_east lat lon)) (dot (direction p o) (enu_north lat lon)).
(* elevation_to clips the projection to [-1, 1] before the arcsine (over R the projection of a unit vector on a unit vector is
   already in that range: Proofs elevation_clip_irrelevant) *)
Definition clip1 (x : R) : R := Rmax (-1) (Rmin 1 x).
Definition elevation (lat lon : R) (p o : vec3) : R := asin (clip1 (dot (direction p o) (enu_up lat lon))).
Definition zenith_distance (lat lon : R) (p o : vec3) : R := PI / 2 - elevation lat lon p o.

(* position/velocity differences: the 6x6 block-diagonal matrix acts on both halves independently *)
Definition block (M : mat3) (pv : vec3 * vec3) : vec3 * vec3 := (mvec M (fst pv), mvec M (snd pv)).

(* entrywise derivative of a matrix-valued function is stated in Proofs with Coquelicot's is_derive *)
Definition mat_entries (M : mat3) : list R :=
  [m11 M; m12 M; m13 M; m21 M; m22 M; m23 M; m31 M; m32 M; m33 M].
Definition vec_entries (v : vec3) : list R := [vx v; vy v; vz v].
End RealModel.

(* ================================================================= Part 2: expressions and checks *)
Definition c_ (n : nat) : rexpr := ECos (EVar n).
Definition s_ (n : nat) : rexpr := ESin (EVar n).
Definition v_ (n : nat) : rexpr := EVar n.
Definition zero_ : rexpr := EZ 0.
Definition one_ : rexpr := EZ 1.

(* variable 0 = angle *)
Definition R1e : list rexpr := [one_; zero_; zero_;  zero_; c_ 0; s_ 0;  zero_; ENeg (s_ 0); c_ 0].
Definition R2e : list rexpr := [c_ 0; zero_; ENeg (s_ 0);  zero_; one_; zero_;  s_ 0; zero_; c_ 0].
Definition R3e : list rexpr := [c_ 0; s_ 0; zero_;  ENeg (s_ 0); c_ 0; zero_;  zero_; zero_; one_].
Definition dR1e : list rexpr := [zero_; zero_; zero_;  zero_; ENeg (s_ 0); c_ 0;  zero_; ENeg (c_ 0); ENeg (s_ 0)].
Definition dR2e : list rexpr := [ENeg (s_ 0); zero_; ENeg (c_ 0);  zero_; zero_; zero_;  c_ 0; zero_; ENeg (s_ 0)].
Definition dR3e : list rexpr := [ENeg (s_ 0); c_ 0; zero_;  ENeg (c_ 0); ENeg (s_ 0); zero_;  zero_; zero_; zero_].

(* variable 0 = lat, 1 = lon *)
Definition enu2trs_e : list rexpr :=
  [ENeg (s_ 1); EMul (ENeg (c_ 1)) (s_ 0); EMul (c_ 1) (c_ 0);
   c_ 1;        EMul (ENeg (s_ 1)) (s_ 0); EMul (s_ 1) (c_ 0);
   zero_;       c_ 0;                      s_ 0].
Definition trs2enu_e : list rexpr :=
  [ENeg (s_ 1);               c_ 1;                      zero_;
   EMul (ENeg (s_ 0)) (c_ 1); EMul (ENeg (s_ 0)) (s_ 1); c_ 0;
   EMul (c_ 0) (c_ 1);        EMul (c_ 0) (s_ 1);        s_ 0].

Definition rot_expr (k : Z) (deriv : bool) : list rexpr :=
  match k, deriv with
  | 1%Z, false => R1e | 2%Z, false => R2e | 3%Z, false => R3e
  | 1%Z, true => dR1e | 2%Z, true => dR2e | 3%Z, true => dR3e
  | _, _ => []
  end.

(* matrix (9 expressions, row major) times vector (3 expressions) *)
Definition dot_e (a b : list rexpr) : rexpr :=
  match a, b with
  | [a1; a2; a3], [b1; b2; b3] => EAdd (EAdd (EMul a1 b1) (EMul a2 b2)) (EMul a3 b3)
  | _, _ => EDiv one_ zero_
  end.
Definition mvec_e (m v : list rexpr) : list rexpr :=
  match m with
  | [a; b; c; d; e; f; g; h; i] => [dot_e [a; b; c] v; dot_e [d; e; f] v; dot_e [g; h; i] v]
  | _ => []
  end.
Definition transpose9 {A} (m : list A) : list A :=
  match m with
  | [a; b; c; d; e; f; g; h; i] => [a; d; g; b; e; h; c; f; i]
  | _ => []
  end.
Definition cross_e (a b : list rexpr) : list rexpr :=
  match a, b with
  | [a1; a2; a3], [b1; b2; b3] =>
      [ESub (EMul a2 b3) (EMul a3 b2); ESub (EMul a3 b1) (EMul a1 b3); ESub (EMul a1 b2) (EMul a2 b1)]
  | _, _ => []
  end.
Definition norm_e (a : list rexpr) : rexpr := ESqrt (dot_e a a).
Definition unit_e (a : list rexpr) : list rexpr := map (fun x => EDiv x (norm_e a)) a.
Definition vars (from : nat) : list rexpr := [EVar from; EVar (S from); EVar (S (S from))].

(* ---------------------------------------------------------------- tolerances (DESIGN 4.6; the relative 1e-9 of the round
   trip is the one stated in the property; 1e-12 / ulp budgets are the harness' implementation-vs-model budget) *)
Definition rel12 : Q := 1 # 1000000000000.
Definition abs15 : Q := 1 # 10000000000000000000000.   (* 1e-22: floor below every non-zero sin/cos of a double *)
Definition rel9 : Q := 1 # 1000000000.
Definition ulp1 : Q := pow2Q (-52).
Definition tol_angle : Q := 1 # 100000000000.      (* 1e-11 rad *)

Fixpoint check_all (p : prec) (rel abs : Q) (rI : nat -> I.type) (es : list rexpr) (ds : list dy) : bool :=
  match es, ds with
  | [], [] => true
  | e :: es', d :: ds' => check_close_rel p rel abs e rI d && check_all p rel abs rI es' ds'
  | _, _ => false
  end.

Fixpoint check_all_abs (p : prec) (tol : Q) (rI : nat -> I.type) (es : list rexpr) (ds : list dy) : bool :=
  match es, ds with
  | [], [] => true
  | e :: es', d :: ds' => check_close p tol e rI d && check_all_abs p tol rI es' ds'
  | _, _ => false
  end.

(* ---------------------------------------------------------------- exact rational certificates on the doubles *)
Fixpoint qs_of (l : list dy) : option (list Q) :=
  match l with
  | [] => Some []
  | d :: l' => match dy_toQ d, qs_of l' with
               | Some q, Some qs => Some (q :: qs)
               | _, _ => None
               end
  end.

Definition qmax (l : list Q) : Q := fold_right (fun x acc => if Qle_bool acc (Qabs x) then Qabs x else acc) 0%Q l.
Definition qsum_abs (l : list Q) : Q := fold_right (fun x acc => (Qabs x + acc)%Q) 0%Q l.

(* M^T M - I, row major *)
Definition q_gram_defect (m : list Q) : list Q :=
  match m with
  | [a; b; c; d; e; f; g; h; i] =>
      [a*a + d*d + g*g - 1; a*b + d*e + g*h;     a*c + d*f + g*i;
       a*b + d*e + g*h;     b*b + e*e + h*h - 1; b*c + e*f + h*i;
       a*c + d*f + g*i;     b*c + e*f + h*i;     c*c + f*f + i*i - 1]%Q
  | _ => [1%Q]
  end.
Definition q_det (m : list Q) : Q :=
  match m with
  | [a; b; c; d; e; f; g; h; i] => (a * (e * i - f * h) - b * (d * i - f * g) + c * (d * h - e * g))%Q
  | _ => 0%Q
  end.

(* ||M^T M - I||_max <= k ulp  and  |det M - 1| <= k ulp,  ulp = 2^-52 *)
Definition proper_rotation_cert (k : Z) (m : list dy) : bool :=
  match qs_of m with
  | Some q =>
      (length q =? 9)%nat &&
      Qle_bool (qmax (q_gram_defect q)) (inject_Z k * ulp1)%Q &&
      Qle_bool (Qabs (q_det q - 1)%Q) (inject_Z k * ulp1)%Q
  | None => false
  end.

(* exact: B = A^T entry for entry (acr2trs is built by transposition; R(-a) vs R(a)^T is checked within 1 ulp by the driver
   through check_rot on both) *)
Fixpoint dys_eqb (a b : list dy) : bool :=
  match a, b with
  | [], [] => true
  | x :: a', y :: b' => dy_numeqb x y && dys_eqb a' b'
  | _, _ => false
  end.

(* max_i |b_i - a_i| <= rel * max_i |a_i| *)
Definition roundtrip_cert (rel : Q) (a b : list dy) : bool :=
  match qs_of a, qs_of b with
  | Some qa, Some qb =>
      (length qa =? length qb)%nat &&
      Qle_bool (qmax (map (fun xy => (fst xy - snd xy)%Q) (combine qb qa))) (rel * qmax qa)%Q
  | _, _ => false
  end.

(* | |b|^2 - |a|^2 | <= rel * |a|^2   (length preserved; exact arithmetic on the doubles) *)
Definition qnorm2 (l : list Q) : Q := fold_right (fun x acc => (x * x + acc)%Q) 0%Q l.
Definition norm_cert (rel : Q) (a b : list dy) : bool :=
  match qs_of a, qs_of b with
  | Some qa, Some qb => Qle_bool (Qabs (qnorm2 qb - qnorm2 qa)%Q) (rel * qnorm2 qa)%Q
  | _, _ => false
  end.

Definition verdict (ok : bool) : Z := if ok then 0%Z else 1%Z.

(* ---------------------------------------------------------------- A. rotation.R1/R2/R3/dR1/dR2/dR3 (a, 9 entries) *)
Definition check_rot (c : Z * bool * dy * list dy) : Z :=
  let '(k, deriv, a, m) := c in
  let es := rot_expr k deriv in
  verdict ((length es =? 9)%nat &&
           check_all p128 rel12 abs15 (env_dy p128 [a]) es m &&
           (deriv || proper_rotation_cert 8 m)).

(* R(a) R(b) against R(a+b), R(-a) against R(a)^T: on the implementation's doubles, entries of the product within 8 ulp;
   the sum a+b is the double the driver passed to the implementation *)
Definition q_mmul (x y : list Q) : list Q :=
  match x, y with
  | [a; b; c; d; e; f; g; h; i], [a'; b'; c'; d'; e'; f'; g'; h'; i'] =>
      [a*a' + b*d' + c*g'; a*b' + b*e' + c*h'; a*c' + b*f' + c*i';
       d*a' + e*d' + f*g'; d*b' + e*e' + f*h'; d*c' + e*f' + f*i';
       g*a' + h*d' + i*g'; g*b' + h*e' + i*h'; g*c' + h*f' + i*i']%Q
  | _, _ => []
  end.
Definition qs_close (tol : Q) (x y : list Q) : bool :=
  (length x =? length y)%nat && (length x =? 9)%nat &&
  Qle_bool (qmax (map (fun xy => (fst xy - snd xy)%Q) (combine x y))) tol.

(* group law on the doubles: Ra Rb ~ Rab where Rab = R(fl(a+b)); tolerance 8 ulp + |a+b - fl(a+b)| (the rounding of the sum
   is not the matrices' fault; it is computed exactly here) *)
Definition check_group (c : dy * dy * dy * list dy * list dy * list dy) : Z :=
  let '(a, b, ab, ma, mb, mab) := c in
  match dy_toQ a, dy_toQ b, dy_toQ ab, qs_of ma, qs_of mb, qs_of mab with
  | Some qa, Some qb, Some qab, Some xa, Some xb, Some xab =>
      verdict (qs_close (8 * ulp1 + 2 * Qabs (qa + qb - qab))%Q (q_mmul xa xb) xab)
  | _, _, _, _, _, _ => 1%Z
  end.

(* R(-a) = R(a)^T exactly on the doubles (cos, sin of numpy are even/odd exactly) up to the sign of zero *)
Definition check_negT (c : list dy * list dy) : Z :=
  let '(m, mneg) := c in verdict ((length m =? 9)%nat && dys_eqb (transpose9 m) mneg).

(* ---------------------------------------------------------------- B. enu2trs / trs2enu (lat, lon, 9 entries) *)
Definition check_enu (c : bool * dy * dy * list dy) : Z :=
  let '(to_trs, lat, lon, m) := c in
  verdict (check_all p128 rel12 abs15 (env_dy p128 [lat; lon]) (if to_trs then enu2trs_e else trs2enu_e) m &&
           proper_rotation_cert 8 m).

(* ---------------------------------------------------------------- C. difference vectors through the data API *)
Definition delta_tol (d : list dy) : Q :=
  match qs_of d with Some q => (rel12 * qsum_abs q)%Q | None => 0%Q end.

(* out ~ M(lat, lon) d, each component within 1e-12 * |d|_1; variables 0,1 = lat, lon; 2,3,4 = d *)
Definition check_delta (c : bool * dy * dy * list dy * list dy) : Z :=
  let '(to_trs, lat, lon, d, out) := c in
  verdict (check_all_abs p128 (delta_tol d) (env_dy p128 (lat :: lon :: d))
                         (mvec_e (if to_trs then enu2trs_e else trs2enu_e) (vars 2)) out &&
           norm_cert rel9 d out).

(* there and back: relative 1e-9 (the property's figure) *)
Definition check_roundtrip (c : list dy * list dy) : Z :=
  let '(d, back) := c in verdict (roundtrip_cert rel9 d back).

(* unit vectors of the triad are the columns of the matrix the same object returns, bit for bit *)
Definition check_triad (c : list dy * list dy * list dy * list dy) : Z :=
  let '(m, e, n, u) := c in
  match m with
  | [a; b; c'; d; e'; f; g; h; i] => verdict (dys_eqb [a; d; g] e && dys_eqb [b; e'; h] n && dys_eqb [c'; f; i] u)
  | _ => 1%Z
  end.

(* ---------------------------------------------------------------- C'. the triad is the normal frame of the ellipsoid at the position
   Independent of the implementation's latitude/longitude: given the semi-major axis a, e2, the TRS position X and the reported
   East, North, Up: with b2 = a^2 (1 - e2), D = sqrt(a^2 (u1^2 + u2^2) + b2 u3^2), the point of the ellipsoid whose outward normal is
   Up is P = (a^2 u1, a^2 u2, b2 u3) / D  (= `geodetic_point a e2 lat lon 0` for Up = `normal lat lon`, lemma foot_of_normal), and X must
   be P + h Up (height_along_normal) with h = (X - P).Up above the centre region (h >= -a/2 excludes the antipodal foot point).
   Tolerance: the line through P along Up passes X within 1e-9 (a + |h|), i.e. Up is the normal within 1e-9 rad.
   East: unit, perpendicular to the z axis and to Up, (z x Up).East = |z x Up| (east_perp_axis_up); North = Up x East
   (north_completes_rh).  At a pole East is any horizontal unit vector.
   variables 0 = a, 1 = e2, 2..4 = X, 5..7 = E, 8..10 = N, 11..13 = U; stages: b2 (14), D (15), P (16..18), W = X - P (19..21), h (22) *)
Definition normal_env (p : prec) (a e2 : dy) (x e n u : list dy) : list I.type :=
  let e0 := map (I_ofdy p) (a :: e2 :: x ++ e ++ n ++ u) in
  let aa := EMul (v_ 0) (v_ 0) in
  let e1 := stage_I p e0 [EMul aa (ESub one_ (v_ 1))] in
  let e2' := stage_I p e1 [ESqrt (EAdd (EMul aa (EAdd (EMul (v_ 11) (v_ 11)) (EMul (v_ 12) (v_ 12)))) (EMul (v_ 14) (EMul (v_ 13) (v_ 13))))] in
  let e3 := stage_I p e2' [EDiv (EMul aa (v_ 11)) (v_ 15); EDiv (EMul aa (v_ 12)) (v_ 15); EDiv (EMul (v_ 14) (v_ 13)) (v_ 15)] in
  let e4 := stage_I p e3 [ESub (v_ 2) (v_ 16); ESub (v_ 3) (v_ 17); ESub (v_ 4) (v_ 18)] in
  stage_I p e4 [dot_e (vars 19) (vars 11)].

Definition normal_env_R (a e2 : R) (x e n u : list R) : list R :=
  let e0 := a :: e2 :: x ++ e ++ n ++ u in
  let aa := EMul (v_ 0) (v_ 0) in
  let e1 := stage_R e0 [EMul aa (ESub one_ (v_ 1))] in
  let e2' := stage_R e1 [ESqrt (EAdd (EMul aa (EAdd (EMul (v_ 11) (v_ 11)) (EMul (v_ 12) (v_ 12)))) (EMul (v_ 14) (EMul (v_ 13) (v_ 13))))] in
  let e3 := stage_R e2' [EDiv (EMul aa (v_ 11)) (v_ 15); EDiv (EMul aa (v_ 12)) (v_ 15); EDiv (EMul (v_ 14) (v_ 13)) (v_ 15)] in
  let e4 := stage_R e3 [ESub (v_ 2) (v_ 16); ESub (v_ 3) (v_ 17); ESub (v_ 4) (v_ 18)] in
  stage_R e4 [dot_e (vars 19) (vars 11)].

Definition well3 (l : list dy) : bool := (length l =? 3)%nat.

Definition small12 (env : nat -> I.type) (e : rexpr) : bool := check_close p128 rel12 e env (DZero false).

Definition check_normal (c : dy * dy * list dy * list dy * list dy * list dy) : Z :=
  let '(a, e2, x, e, n, u) := c in
  let env := env_I (normal_env p128 a e2 x e n u) in
  let tolr := EMul (EQ rel9) (EAdd (v_ 0) (EAbs (v_ 22))) in
  let resid k := check_le p128 (EAbs (ESub (v_ (19 + k)) (EMul (v_ 22) (v_ (11 + k))))) tolr env in
  let uxe := cross_e (vars 11) (vars 5) in
  verdict (well3 x && well3 e && well3 n && well3 u &&
           small12 env (ESub (dot_e (vars 11) (vars 11)) one_) &&
           resid 0%nat && resid 1%nat && resid 2%nat &&
           check_le p128 (ENeg (EDiv (v_ 0) (EZ 2))) (v_ 22) env &&
           small12 env (v_ 7) && small12 env (dot_e (vars 5) (vars 11)) && small12 env (ESub (dot_e (vars 5) (vars 5)) one_) &&
           small12 env (ESub (ESub (EMul (v_ 11) (v_ 6)) (EMul (v_ 12) (v_ 5)))
                             (ESqrt (EAdd (EMul (v_ 11) (v_ 11)) (EMul (v_ 12) (v_ 12))))) &&
           check_all_abs p128 rel12 env (map (fun ab => ESub (fst ab) (snd ab)) (combine (vars 8) uxe))
                         [DZero false; DZero false; DZero false]).

(* ---------------------------------------------------------------- D. along/cross/radial *)
(* variables 0..2 = r, 3..5 = v, 6..8 = d; stages append ru, vu (9..14), cr = ru x vu (15..17), c (18..20),
   ar = c x ru (21..23), a (24..26) *)
Definition acr_env (p : prec) (r v d : list dy) : list I.type :=
  let e0 := map (I_ofdy p) (r ++ v ++ d) in
  let e1 := stage_I p e0 (unit_e (vars 0) ++ unit_e (vars 3)) in
  let e2 := stage_I p e1 (cross_e (vars 9) (vars 12)) in
  let e3 := stage_I p e2 (unit_e (vars 15)) in
  let e4 := stage_I p e3 (cross_e (vars 18) (vars 9)) in
  stage_I p e4 (unit_e (vars 21)).
Definition acr_env_R (r v d : list R) : list R :=
  let e0 := r ++ v ++ d in
  let e1 := stage_R e0 (unit_e (vars 0) ++ unit_e (vars 3)) in
  let e2 := stage_R e1 (cross_e (vars 9) (vars 12)) in
  let e3 := stage_R e2 (unit_e (vars 15)) in
  let e4 := stage_R e3 (cross_e (vars 18) (vars 9)) in
  stage_R e4 (unit_e (vars 21)).
Definition trs2acr_e : list rexpr := vars 24 ++ vars 18 ++ vars 9.


(* the matrix: 0 = rows are (along, cross, radial); 2 = they are the columns (quirk) *)
Definition check_acr_mat (c : list dy * list dy * list dy) : Z :=
  let '(r, v, m) := c in
  let env := env_I (acr_env p128 r v [DZero false; DZero false; DZero false]) in
  if negb (well3 r && well3 v && proper_rotation_cert 32 m) then 1%Z
  else if check_all p128 rel12 abs15 env trs2acr_e m then 0%Z
  else if check_all p128 rel12 abs15 env (transpose9 trs2acr_e) m then 2%Z
  else 1%Z.

(* a converted difference: out ~ trs2acr d (to_trs = false) or acr2trs d (true) *)
Definition check_acr_delta (c : bool * list dy * list dy * list dy * list dy) : Z :=
  let '(to_trs, r, v, d, out) := c in
  let env := env_I (acr_env p128 r v d) in
  let spec := if to_trs then transpose9 trs2acr_e else trs2acr_e in
  if negb (well3 r && well3 v && well3 d && norm_cert rel9 d out) then 1%Z
  else if check_all_abs p128 (delta_tol d) env (mvec_e spec (vars 6)) out then 0%Z
  else if check_all_abs p128 (delta_tol d) env (mvec_e (transpose9 spec) (vars 6)) out then 2%Z
  else 1%Z.

(* ---------------------------------------------------------------- E. azimuth / elevation / zenith distance *)
(* variables 0,1 = lat, lon; 2..4 = p; 5..7 = o; 8 = az, 9 = el (the implementation's doubles);
   stage: dir (10..12), east/north/up projections (13, 14, 15) *)
Definition col_e (m : list rexpr) (k : nat) : list rexpr :=
  match m with
  | [a; b; c; d; e; f; g; h; i] =>
      match k with O => [a; d; g] | S O => [b; e; h] | _ => [c; f; i] end
  | _ => []
  end.
Definition azel_env (p : prec) (lat lon : dy) (pp oo : list dy) (az el : dy) : list I.type :=
  let e0 := map (I_ofdy p) (lat :: lon :: pp ++ oo ++ [az; el]) in
  let diff := [ESub (v_ 5) (v_ 2); ESub (v_ 6) (v_ 3); ESub (v_ 7) (v_ 4)] in
  let e1 := stage_I p e0 (unit_e diff) in
  stage_I p e1 [dot_e (vars 10) (col_e enu2trs_e 0); dot_e (vars 10) (col_e enu2trs_e 1); dot_e (vars 10) (col_e enu2trs_e 2)].

Definition azel_env_R (lat lon : R) (pp oo : list R) (az el : R) : list R :=
  let e0 := lat :: lon :: pp ++ oo ++ [az; el] in
  let diff := [ESub (v_ 5) (v_ 2); ESub (v_ 6) (v_ 3); ESub (v_ 7) (v_ 4)] in
  let e1 := stage_R e0 (unit_e diff) in
  stage_R e1 [dot_e (vars 10) (col_e enu2trs_e 0); dot_e (vars 10) (col_e enu2trs_e 1); dot_e (vars 10) (col_e enu2trs_e 2)].

Definition half_pi_d : dy := Dy 884279719003555 (-49).   (* np.pi / 2 *)
Definition pi_d : dy := Dy 884279719003555 (-48).        (* np.pi *)
Definition dy_abs_le (x bound : dy) : bool :=
  match dy_toQ x, dy_toQ bound with Some a, Some b => Qle_bool (Qabs a) b | _, _ => false end.

(* azimuth: literally atan2(east, north) within 1e-11 rad modulo a turn; or (well conditioned form, also valid on the cut and
   near the zenith, where the azimuth is ill conditioned): the direction cosines (east, north) agree within 1e-12 with a vector
   pointing along (sin az, cos az):  |sin az * north - cos az * east| <= 1e-12  and  sin az * east + cos az * north >= -1e-12 *)
Definition check_az (env : nat -> I.type) (az : dy) : bool :=
  dy_abs_le az pi_d &&
  (check_close_mod2pi p128 tol_angle (EAtan2 (v_ 13) (v_ 14)) env az
   || (check_close p128 rel12 (ESub (EMul (s_ 8) (v_ 14)) (EMul (c_ 8) (v_ 13))) env (DZero false)
       && check_le p128 (ENeg (EQ rel12)) (EAdd (EMul (s_ 8) (v_ 13)) (EMul (c_ 8) (v_ 14))) env)).

(* elevation: asin(up) within 1e-11 rad; or (at the zenith/nadir where asin is ill conditioned) sin el = up within 1e-12 *)
Definition check_el (env : nat -> I.type) (el : dy) : bool :=
  dy_abs_le el half_pi_d &&
  (check_close p128 tol_angle (EAsin (v_ 15)) env el
   || check_close p128 rel12 (ESub (s_ 9) (v_ 15)) env (DZero false)).

(* zenith distance = pi/2 - el on the doubles, within 2 ulp of pi *)
Definition check_zd (el zd : dy) : bool :=
  match dy_toQ el, dy_toQ zd, dy_toQ half_pi_d with
  | Some e, Some z, Some h => Qle_bool (Qabs (h - e - z)%Q) (4 * ulp1)%Q
  | _, _, _ => false
  end.

(* quirk c06_elevation_nan_at_zenith: the implementation's rounded projection on Up exceeds 1 by an ulp and arcsin gives NaN;
   recognised only when the model's projection is within 1e-12 of +-1 *)
Definition at_zenith_or_nadir (env : nat -> I.type) : bool :=
  check_le p128 (ESub one_ (EQ rel12)) (EAbs (v_ 15)) env.

Definition check_azel (c : dy * dy * list dy * list dy * dy * dy * dy) : Z :=
  let '(lat, lon, pp, oo, az, el, zd) := c in
  let env := env_I (azel_env p128 lat lon pp oo az el) in
  if negb (well3 pp && well3 oo && check_az env az) then 1%Z
  else if check_el env el && check_zd el zd then 0%Z
  else if is_nan el && is_nan zd && at_zenith_or_nadir env then 3%Z
  else 1%Z.
