(* C10 (d) - Dataset.write / Dataset.read for the full object graph.

   Model/C10_File.v restricts private (embedded) attribute objects to leaves without references that are not shared.
   Here the dataset is an object GRAPH: every data object (of a field or private) is a node of a table, references
   are keys of that table, so private objects may be shared between fields, carry references of their own (to fields
   or to further private objects), and a reference may point to a field that is omitted by the write level (it is
   then written like a private object, once, and shared by name afterwards).  The file is a tree of groups of any
   depth.  Reference names are kept as lists of components (g.h.site.other = [g; h; site; other]); components never
   contain a dot, the driver splits the stored text.

   What the round trip must give is stated on the UNFOLDING: a reference to the object of a written field is that
   field (identity); any other reference is the referenced object itself, recursively (value; identity between
   private objects is not part of the property).

   qb = false : specification = memo keys are group paths (fixes/C10-5.diff)
   qb = true  : the code before that patch: array classes register embedded objects under the bare attribute name *)
From Coq Require Import ZArith List Bool String Ascii.
From Verif Require Import Lib.Dyadic Model.C10_Attr Model.C10_File.
Import ListNotations.
Open Scope Z_scope.

Inductive key := KF (p : path) | KP (n : nat).

Definition key_eqb (a b : key) : bool :=
  match a, b with
  | KF p, KF q => path_eqb p q
  | KP n, KP m => Nat.eqb n m
  | _, _ => false
  end.

Record node := {
  n_pl : payload;
  n_final : bool;                       (* the class's _write ends with memo[id(self)] = ... (Position, PositionDelta, PosVel) *)
  n_refs : list (string * key) }.

Record gleaf := { gl_kind : string; gl_level : Z; gl_unit : option (list string); gl_mult : Z }.
Inductive gentry := GLeaf (l : gleaf) | GColl.

Record gdataset := {
  g_fields : list (path * gentry);
  g_objs : list (key * node);           (* object of field p under KF p *)
  g_meta : list (string * tree);
  g_vars : list (tree * tree);
  g_numobs : Z;
  g_version : string }.

Fixpoint klookup {A} (k : key) (l : list (key * A)) : option A :=
  match l with
  | [] => None
  | (k', v) :: r => if key_eqb k k' then Some v else klookup k r
  end.

(* ------------------------------------------------------------------ the file *)
(* items: the reference attributes of the object in the order of the class's attribute list (the order in which
   _write / _read visit them): stored as the name of another group, or as a sub group *)
Inductive h5o :=
  H5o (cls fname : string) (sattrs : list (string * string)) (data : list (string * arr)) (items : list (string * h5item))
with h5item := IName (p : path) | ISub (o : h5o).

Record h5leaf2 := { g2_kind : string; g2_unit : aval; g2_level : string; g2_mult : Z; g2_obj : h5o }.
Inductive h5entry2 := HLeaf2 (g : h5leaf2) | HColl2 (fieldname : string) (fields : aval).

Record h5file2 := {
  f2_fields : aval; f2_numobs : Z; f2_vars : aval; f2_version : string;
  f2_groups : list (path * h5entry2);
  f2_meta : list (string * aval) }.

(* ------------------------------------------------------------------ write *)
Definition gkept (lvl : Z) (e : gentry) : bool :=
  match e with GLeaf l => lvl <=? gl_level l | GColl => true end.

Definition gfields_dict (lvl : Z) (fs : list (path * gentry)) (p : path) : tree :=
  Dict (flat_map (fun pe => match pe with (c, e) =>
          if is_prefix_child p c && gkept lvl e
          then [(sstr (last c ""%string), sstr (match e with GLeaf l => gl_kind l | GColl => "collection" end))]
          else [] end) fs).

Definition wmemo2 := list (key * path).

Definition init_memo2 (lvl : Z) (fs : list (path * gentry)) : wmemo2 :=
  flat_map (fun pe => match pe with
    | (p, GLeaf l) => if lvl <=? gl_level l then [(KF p, p)] else []
    | _ => [] end) fs.

(* one object into the group with path gp; fname = the group's fieldname attribute (dotted path for a field group,
   bare attribute name for a sub group), fnp = the same as a name.
   None: cyclic graph (fuel), unknown key, or a sub group named like the group's own array (HDF5: name already exists) *)
Fixpoint write_node (fuel : nat) (qb : bool) (objs : list (key * node)) (m : wmemo2)
                    (gp : path) (fname : string) (fnp : path) (self : key) (nd : node) {struct fuel}
  : option (wmemo2 * h5o) :=
  match fuel with
  | O => None
  | S fuel' =>
      let fix go (m : wmemo2) (rs : list (string * key)) {struct rs}
          : option (wmemo2 * list (string * h5item)) :=
          match rs with
          | [] => Some (m, [])
          | (a, k) :: rest =>
              match klookup k m with
              | Some nm =>
                  match go m rest with
                  | Some (m', it) => Some (m', (a, IName nm) :: it)
                  | None => None
                  end
              | None =>
                  if String.eqb a fname then None else
                  match klookup k objs with
                  | None => None
                  | Some nd' =>
                      let reg := (if qb then fnp else gp) ++ [a] in
                      match write_node fuel' qb objs ((k, reg) :: m) (gp ++ [a]) a [a] k nd' with
                      | None => None
                      | Some (m2, o) =>
                          match go m2 rest with
                          | Some (m3, it) => Some (m3, (a, ISub o) :: it)
                          | None => None
                          end
                      end
                  end
              end
          end in
      match go m (n_refs nd) with
      | None => None
      | Some (m', it) =>
          let m'' := if n_final nd then (self, if qb then fnp else gp) :: m' else m' in
          Some (m'', H5o (p_class (n_pl nd)) fname (p_sattrs (n_pl nd)) (obj_data fname (n_pl nd)) it)
      end
  end.

Fixpoint write_fields2 (fuel : nat) (qb : bool) (lvl : Z) (g : gdataset) (m : wmemo2) (fs : list (path * gentry))
  : option (list (path * h5entry2)) :=
  match fs with
  | [] => Some []
  | (p, e) :: rest =>
      if negb (gkept lvl e) then write_fields2 fuel qb lvl g m rest
      else match e with
      | GColl =>
          match enc_attr all_off (gfields_dict lvl (g_fields g) p), write_fields2 fuel qb lvl g m rest with
          | Some fd, Some gs => Some ((p, HColl2 (last p ""%string) fd) :: gs)
          | _, _ => None
          end
      | GLeaf l =>
          match klookup (KF p) (g_objs g) with
          | None => None
          | Some nd =>
              match write_node fuel qb (g_objs g) m p (dotted p) p (KF p) nd with
              | None => None
              | Some (m1, o) =>
                  let m2 := match klookup (KF p) m1 with Some _ => m1 | None => (KF p, p) :: m1 end in
                  match unit_attr all_off (gl_unit l), write_fields2 fuel qb lvl g m2 rest with
                  | Some ua, Some gs =>
                      Some ((p, HLeaf2 {| g2_kind := gl_kind l; g2_unit := ua; g2_level := level_name (gl_level l);
                                          g2_mult := gl_mult l; g2_obj := o |}) :: gs)
                  | _, _ => None
                  end
              end
          end
      end
  end.

Definition write2 (qb : bool) (g : gdataset) (lvl : Z) : option h5file2 :=
  match write_fields2 (S (List.length (g_objs g))) qb lvl g (init_memo2 lvl (g_fields g)) (g_fields g),
        write_meta all_off (g_meta g),
        enc_attr all_off (gfields_dict lvl (g_fields g) []),
        enc_attr all_off (Dict (g_vars g)) with
  | Some gs, Some me, Some fd, Some va =>
      Some {| f2_fields := fd; f2_numobs := g_numobs g; f2_vars := va; f2_version := g_version g;
              f2_groups := gs; f2_meta := me |}
  | _, _, _, _ => None
  end.

(* ------------------------------------------------------------------ read *)
Record rstate2 := { memo2 : list (path * nat); heap2 : list (nat * robj); next2 : nat }.
Definition st02 : rstate2 := {| memo2 := []; heap2 := []; next2 := O |}.

Definition add_memo2 (k : path) (id : nat) (st : rstate2) : rstate2 :=
  {| memo2 := (k, id) :: memo2 st; heap2 := heap2 st; next2 := next2 st |}.
Definition new_obj2 (o : robj) (st : rstate2) : rstate2 * nat :=
  ({| memo2 := memo2 st; heap2 := (next2 st, o) :: heap2 st; next2 := S (next2 st) |}, next2 st).

Fixpoint is_prefix (p q : path) : bool :=
  match p, q with
  | [], _ => true
  | x :: p', y :: q' => String.eqb x y && is_prefix p' q'
  | _, [] => false
  end.

Fixpoint descend (o : h5o) (r : path) : option h5o :=
  match r with
  | [] => Some o
  | a :: r' => match o with H5o _ _ _ _ items =>
                 match lookup a items with Some (ISub o') => descend o' r' | _ => None end
               end
  end.

(* file[name.replace(".", "/")]: the group (of a field, or embedded) with that path, and its fieldname as a name *)
Definition find_o (f : h5file2) (nm : path) : option (path * h5o) :=
  match find (fun pe => match snd pe with HLeaf2 _ => is_prefix (fst pe) nm | _ => false end) (f2_groups f) with
  | Some (p, HLeaf2 g) =>
      let r := skipn (List.length p) nm in
      match descend (g2_obj g) r with
      | Some o => Some (match r with [] => nm | _ => [last r ""%string] end, o)
      | None => None
      end
  | _ => None
  end.

Definition payload_of (cls fname : string) (sattrs : list (string * string)) (data : list (string * arr)) : payload :=
  {| p_class := cls; p_sattrs := sattrs; p_main := lookup fname data;
     p_extra := filter (fun na => negb (String.eqb (fst na) fname)) data |}.

Fixpoint read_o (fuel : nat) (qb : bool) (f : h5file2) (st : rstate2) (gp fnp : path) (o : h5o) {struct fuel}
  : option (rstate2 * nat) :=
  match fuel with
  | O => None
  | S fuel' =>
      match o with
      | H5o cls fname sattrs data items =>
          let fix go (st : rstate2) (its : list (string * h5item)) {struct its} : option (rstate2 * list (string * nat)) :=
              match its with
              | [] => Some (st, [])
              | (a, IName nm) :: rest =>
                  match (match plookup nm (memo2 st) with
                         | Some id => Some (st, id)
                         | None => match find_o f nm with
                                   | None => None
                                   | Some (fnp', o') =>
                                       match read_o fuel' qb f st nm fnp' o' with
                                       | Some (st', id) => Some (add_memo2 nm id st', id)
                                       | None => None
                                       end
                                   end
                         end) with
                  | None => None
                  | Some (st1, id) => match go st1 rest with
                                      | Some (st2, ids) => Some (st2, (a, id) :: ids)
                                      | None => None
                                      end
                  end
              | (a, ISub o') :: rest =>
                  match read_o fuel' qb f st (gp ++ [a]) [a] o' with
                  | None => None
                  | Some (st1, id) =>
                      match go (add_memo2 ((if qb then fnp else gp) ++ [a]) id st1) rest with
                      | Some (st2, ids) => Some (st2, (a, id) :: ids)
                      | None => None
                      end
                  end
              end in
          match go st items with
          | None => None
          | Some (st2, ids) =>
              match new_obj2 {| r_pl := payload_of cls fname sattrs data; r_refs := ids |} st2 with
              | (st3, id) => Some (add_memo2 (if qb then fnp else gp) id st3, id)
              end
          end
      end
  end.

Fixpoint size_o (o : h5o) : nat :=
  match o with H5o _ _ _ _ items =>
    S ((fix sz (l : list (string * h5item)) : nat :=
          match l with
          | [] => O
          | (_, ISub o') :: r => (size_o o' + sz r)%nat
          | _ :: r => sz r
          end) items)
  end.

Definition size_f (f : h5file2) : nat :=
  fold_right (fun pe n => (match snd pe with HLeaf2 g => size_o (g2_obj g) | _ => O end + n)%nat) O (f2_groups f).

Inductive rentry2 := RLeaf2 (kind : string) (lvl : Z) (unit : option (list string)) (mult : Z) (id : nat) | RColl2.

Fixpoint read_fields2 (qb : bool) (f : h5file2) (st : rstate2) (gs : list (path * h5entry2))
  : option (rstate2 * list (path * rentry2)) :=
  match gs with
  | [] => Some (st, [])
  | (p, HColl2 _ _) :: rest =>
      match read_fields2 qb f st rest with
      | Some (st', l) => Some (st', (p, RColl2) :: l)
      | None => None
      end
  | (p, HLeaf2 g) :: rest =>
      match (match plookup p (memo2 st) with
             | Some id => Some (st, id)
             | None => read_o (S (size_f f)) qb f st p p (g2_obj g)
             end) with
      | None => None
      | Some (st1, id) =>
          let st2 := match p with [top] => add_memo2 [top] id st1 | _ => st1 end in
          match read_unit all_off (g2_unit g), level_of_name (g2_level g), read_fields2 qb f st2 rest with
          | Some u, Some lv, Some (st3, l) => Some (st3, (p, RLeaf2 (g2_kind g) lv u (g2_mult g) id) :: l)
          | _, _, _ => None
          end
      end
  end.

(* ------------------------------------------------------------------ unfolded datasets *)
Inductive tobj := TObj (pl : payload) (refs : list (string * tref))
with tref := TRF (p : path) | TRO (o : tobj).

Inductive tentry := TLeaf (kind : string) (lvl : Z) (unit : option (list string)) (mult : Z) (o : tobj) | TColl.

Record tdataset := { t_fields : list (path * tentry); t_meta : list (string * tree); t_vars : list (tree * tree); t_numobs : Z }.

Definition field_of_id2 (fl : list (path * rentry2)) (id : nat) : option path :=
  match find (fun pe => match snd pe with RLeaf2 _ _ _ _ id' => Nat.eqb id id' | RColl2 => false end) fl with
  | Some (p, _) => Some p
  | None => None
  end.

Fixpoint abs_obj (fuel : nat) (hp : list (nat * robj)) (fl : list (path * rentry2)) (id : nat) : tobj :=
  match nlookup id hp with
  | None => TObj dummy_payload []
  | Some o =>
      TObj (r_pl o)
           (match fuel with
            | O => []
            | S fuel' => map (fun ar => match field_of_id2 fl (snd ar) with
                                        | Some p => (fst ar, TRF p)
                                        | None => (fst ar, TRO (abs_obj fuel' hp fl (snd ar)))
                                        end) (r_refs o)
            end)
  end.

Definition read2 (qb : bool) (f : h5file2) : option tdataset :=
  match read_fields2 qb f st02 (f2_groups f), read_meta all_off (f2_meta f),
        (match f2_vars f with AEnc e => decode false e | _ => None end) with
  | Some (st, fl), Some me, Some (Dict va) =>
      Some {| t_fields := map (fun pe => (fst pe, match snd pe with
                                                  | RColl2 => TColl
                                                  | RLeaf2 k lv u m id => TLeaf k lv u m (abs_obj (S (List.length (heap2 st))) (heap2 st) fl id)
                                                  end)) fl;
              t_meta := me; t_vars := va; t_numobs := f2_numobs f |}
  | _, _, _ => None
  end.

(* what the round trip must give: the written fields; a reference to the object of a written field is that field,
   any other reference is the referenced object, unfolded *)
Definition written_leaf (lvl : Z) (fs : list (path * gentry)) (p : path) : bool :=
  match plookup p fs with Some (GLeaf l) => lvl <=? gl_level l | _ => false end.

Fixpoint unfold (fuel : nat) (lvl : Z) (g : gdataset) (k : key) : tobj :=
  match klookup k (g_objs g) with
  | None => TObj dummy_payload []
  | Some nd =>
      TObj (n_pl nd)
           (match fuel with
            | O => []
            | S fuel' => map (fun ak => match snd ak with
                                        | KF q => if written_leaf lvl (g_fields g) q then (fst ak, TRF q)
                                                  else (fst ak, TRO (unfold fuel' lvl g (snd ak)))
                                        | _ => (fst ak, TRO (unfold fuel' lvl g (snd ak)))
                                        end) (n_refs nd)
            end)
  end.

Definition expected (lvl : Z) (g : gdataset) : tdataset :=
  {| t_fields := flat_map (fun pe => match pe with
        | (p, GLeaf l) => if lvl <=? gl_level l
                          then [(p, TLeaf (gl_kind l) (gl_level l) (gl_unit l) (gl_mult l)
                                          (unfold (S (List.length (g_objs g))) lvl g (KF p)))]
                          else []
        | (p, GColl) => [(p, TColl)] end) (g_fields g);
     t_meta := g_meta g; t_vars := g_vars g; t_numobs := g_numobs g |}.

(* ------------------------------------------------------------------ comparison *)
Fixpoint tobj_eqb (a b : tobj) {struct a} : bool :=
  match a, b with
  | TObj pa ra, TObj pb rb =>
      payload_eqb pa pb && Nat.eqb (List.length ra) (List.length rb) &&
      (fix all (l : list (string * tref)) : bool :=
         match l with
         | [] => true
         | (n, r) :: rest =>
             match lookup n rb with
             | Some r' => match r, r' with
                          | TRF p, TRF q => path_eqb p q
                          | TRO x, TRO y => tobj_eqb x y
                          | _, _ => false
                          end
             | None => false
             end && all rest
         end) ra
  end.

Definition tentry_eqb (a b : tentry) : bool :=
  match a, b with
  | TColl, TColl => true
  | TLeaf k l u m o, TLeaf k' l' u' m' o' =>
      String.eqb k k' && (l =? l') && opt_eqb (list_eqb String.eqb) u u' && (m =? m') && tobj_eqb o o'
  | _, _ => false
  end.

Definition tdataset_eqb (a b : tdataset) : bool :=
  list_eqb (fun x y => path_eqb (fst x) (fst y) && tentry_eqb (snd x) (snd y)) (t_fields a) (t_fields b) &&
  map_eqb tree_eqb (t_meta a) (t_meta b) && list_eqb kv_eqb (t_vars a) (t_vars b) && (t_numobs a =? t_numobs b).

(* observation of the file *)
Inductive oh5o :=
  OH5o (cls fname : string) (sattrs : list (string * string)) (data : list (string * arr)) (items : list (string * oh5item))
with oh5item := OIName (p : path) | OISub (o : oh5o).
Record oleaf2 := { og2_kind : string; og2_unit : oaval; og2_level : string; og2_mult : Z; og2_obj : oh5o }.
Inductive oentry2 := OLeaf2 (g : oleaf2) | OColl2 (fieldname : string) (fields : oaval).
Record ofile2 := { of2_fields : oaval; of2_numobs : Z; of2_vars : oaval; of2_version : string;
                   of2_groups : list (path * oentry2); of2_meta : list (string * oaval) }.

(* items compared in order: the driver lists them in the order of the class's attribute list *)
Fixpoint h5o_matches (a : h5o) (b : oh5o) {struct a} : bool :=
  match a, b with
  | H5o c f s d it, OH5o c' f' s' d' it' =>
      String.eqb c c' && String.eqb f f' && map_eqb String.eqb s s' && map_eqb arr_eqb d d' &&
      (fix all (l : list (string * h5item)) (l' : list (string * oh5item)) {struct l} : bool :=
         match l, l' with
         | [], [] => true
         | (n, x) :: r, (n', x') :: r' =>
             String.eqb n n' &&
             match x, x' with
             | IName p, OIName q => path_eqb p q
             | ISub o, OISub o' => h5o_matches o o'
             | _, _ => false
             end && all r r'
         | _, _ => false
         end) it it'
  end.

Definition entry2_matches (a : h5entry2) (o : oentry2) : bool :=
  match a, o with
  | HColl2 fn fd, OColl2 fn' fd' => String.eqb fn fn' && aval_matches fd fd'
  | HLeaf2 g, OLeaf2 g' =>
      String.eqb (g2_kind g) (og2_kind g') && aval_matches (g2_unit g) (og2_unit g') &&
      String.eqb (g2_level g) (og2_level g') && (g2_mult g =? og2_mult g') && h5o_matches (g2_obj g) (og2_obj g')
  | _, _ => false
  end.

Definition file2_matches (f : h5file2) (o : ofile2) : bool :=
  aval_matches (f2_fields f) (of2_fields o) && (f2_numobs f =? of2_numobs o) && aval_matches (f2_vars f) (of2_vars o) &&
  String.eqb (f2_version f) (of2_version o) &&
  list_eqb path_eqb (map fst (f2_groups f)) (map fst (of2_groups o)) &&
  forallb (fun pe => match plookup (fst pe) (of2_groups o) with Some oe => entry2_matches (snd pe) oe | None => false end) (f2_groups f) &&
  map_matches aval_matches (f2_meta f) (of2_meta o).

Inductive owrite2 := OW2Raise (e : string) | OW2File (o : ofile2).
Inductive oread2 := OR2Raise (e : string) | OR2Data (d : tdataset) | OR2NotRun.

Definition run2_matches (qb : bool) (g : gdataset) (lvl : Z) (ow : owrite2) (ord : oread2) : bool :=
  match write2 qb g lvl, ow with
  | None, OW2Raise _ => match ord with OR2NotRun => true | _ => false end
  | Some f, OW2File o =>
      file2_matches f o &&
      match read2 qb f, ord with
      | Some d', OR2Data d'' => tdataset_eqb d' d'' && tdataset_eqb d'' d'
      | None, OR2Raise _ => true
      | _, _ => false
      end
  | _, _ => false
  end.

(* verdict: 0 = specification; 9 = the code with bare attribute names in the memos; 1 = unexplained *)
Definition check_run2 (c : gdataset * Z * owrite2 * oread2) : Z :=
  match c with (g, lvl, ow, ord) =>
    if run2_matches false g lvl ow ord then 0
    else if run2_matches true g lvl ow ord then 9
    else 1
  end.

(* the property on observables *)
Definition roundtrip_run2 (c : gdataset * Z * oread2) : Z :=
  match c with
  | (g, lvl, OR2Data d') => if tdataset_eqb (expected lvl g) d' && tdataset_eqb d' (expected lvl g) then 0 else 1
  | _ => 1
  end.

(* the model's own round trip, as a boolean (used in examples) *)
Definition roundtrips2 (qb : bool) (g : gdataset) (lvl : Z) : bool :=
  match write2 qb g lvl with
  | Some f => match read2 qb f with
              | Some d' => tdataset_eqb d' (expected lvl g) && tdataset_eqb (expected lvl g) d'
              | None => false
              end
  | None => false
  end.
