(* C16 - plug-in resolution is a function of (package, name) only.  Executable model only.

   Anchors: midgard/dev/plugins.py  load / _import_one / _import_all / names / exists / get / call, the registry _PLUGINS.

   State: the positive registry `loaded` (_PLUGINS[package] keys) and - as a quirk slot - a negative cache of look-ups
   that failed.  What the import of module <package>.<name> finds is uninterpreted: `has p n` (the module exists in the
   package directory and registers a plug-in).  Side-effect imports (spring_csv importing parsers.csv_) only ever add
   pairs with has = true and are not modelled. *)
From Coq Require Import ZArith List Bool.
Import ListNotations.
Open Scope Z_scope.

Inductive negmode : Set :=
| NoNeg       (* the code as it is: failing look-ups are not remembered *)
| NegByPair   (* a correct optimisation: remembered per (package, name) *)
| NegByName.  (* quirk c16_negative_cache_by_name: remembered per bare module name *)

Section Resolve.
  Variable has : Z -> Z -> bool.          (* package, name *)
  Variable files : Z -> list Z.           (* public .py files of the package directory *)
  Variable jobpn : Z -> Z * Z.            (* parse job -> (package, parser name) *)
  Variable dig : Z -> Z.                  (* parse job -> digest in a fresh interpreter *)

  Record rworld : Set := mkR { loaded : list (Z * Z); neg : list (Z * Z) }.
  Inductive rop : Set := RNames (p : Z) | RExists (p n : Z) | RGet (p n : Z) | RParse (j : Z).
  Inductive robs : Set := OList (l : list Z) | OBool (b : bool) | ODig (d : Z).

  Definition pair_eqb (a b : Z * Z) : bool := (fst a =? fst b) && (snd a =? snd b).
  Definition mem (k : Z * Z) (l : list (Z * Z)) : bool := existsb (pair_eqb k) l.
  Definition neg_hit (m : negmode) (k : Z * Z) (l : list (Z * Z)) : bool :=
    match m with
    | NoNeg => false
    | NegByPair => mem k l
    | NegByName => existsb (fun e => snd k =? snd e) l
    end.

  (* plugins.load: registry first, then _import_one *)
  Definition import_one (m : negmode) (w : rworld) (p n : Z) : rworld * bool :=
    if mem (p, n) (loaded w) then (w, true)
    else if neg_hit m (p, n) (neg w) then (w, false)
    else if has p n then (mkR ((p, n) :: loaded w) (neg w), true)
    else (mkR (loaded w) (match m with NoNeg => neg w | _ => (p, n) :: neg w end), false).

  Fixpoint import_all (m : negmode) (w : rworld) (p : Z) (l : list Z) : rworld :=
    match l with
    | [] => w
    | n :: r => import_all m (fst (import_one m w p n)) p r
    end.

  Definition rstep (m : negmode) (w : rworld) (o : rop) : rworld * robs :=
    match o with
    | RNames p => let w' := import_all m w p (files p) in
                  (w', OList (filter (fun n => mem (p, n) (loaded w')) (files p)))
    | RExists p n => let (w', b) := import_one m w p n in (w', OBool b)
    | RGet p n => let (w', b) := import_one m w p n in (w', OBool b)
    | RParse j => let (w', b) := import_one m w (fst (jobpn j)) (snd (jobpn j)) in
                  (w', if b then ODig (dig j) else OBool false)
    end.

  Fixpoint rexec (m : negmode) (w : rworld) (ops : list rop) : list robs :=
    match ops with
    | [] => []
    | o :: r => let (w', x) := rstep m w o in x :: rexec m w' r
    end.

  (* the specification, stated directly: a function of the operation alone *)
  Definition spec_obs (o : rop) : robs :=
    match o with
    | RNames p => OList (filter (has p) (files p))
    | RExists p n => OBool (has p n)
    | RGet p n => OBool (has p n)
    | RParse j => if has (fst (jobpn j)) (snd (jobpn j)) then ODig (dig j) else OBool false
    end.

  Definition rinv (w : rworld) : Prop :=
    (forall p n, mem (p, n) (loaded w) = true -> has p n = true) /\
    (forall p n, mem (p, n) (neg w) = true -> has p n = false).
End Resolve.

(* ---------------------------------------------------------------------------------------------- correspondence *)
Definition robs_eqb (a b : robs) : bool :=
  match a, b with
  | OList x, OList y => if list_eq_dec Z.eq_dec x y then true else false
  | OBool x, OBool y => Bool.eqb x y
  | ODig x, ODig y => x =? y
  | _, _ => false
  end.

Fixpoint assoc2 (t : list (Z * Z * Z)) (p n : Z) : Z :=
  match t with
  | [] => -1
  | (p', n', v) :: r => if (p =? p') && (n =? n') then v else assoc2 r p n
  end.
Fixpoint assoc1 {A : Type} (t : list (Z * A)) (k : Z) (d : A) : A :=
  match t with
  | [] => d
  | (k', v) :: r => if k =? k' then v else assoc1 r k d
  end.

(* has_t : (package, name, 1 | 0) from single-look-up fresh interpreters; files_t : package -> file names;
   jobs_t : job -> ((package, name), fresh digest).  One code per operation: 0 = as the specification, 1 = not *)
Definition check_resolution
  (c : list (Z * Z * Z) * list (Z * list Z) * list (Z * ((Z * Z) * Z)) * list rop * list robs) : list Z :=
  match c with
  | (has_t, files_t, jobs_t, ops, obsd) =>
      let has := fun p n => assoc2 has_t p n =? 1 in
      let files := fun p => assoc1 files_t p [] in
      let jobpn := fun j => fst (assoc1 jobs_t j ((-1, -1), -1)) in
      let dig := fun j => snd (assoc1 jobs_t j ((-1, -1), -1)) in
      let pred := rexec has files jobpn dig NoNeg (mkR [] []) ops in
      (fix go (a b : list robs) : list Z :=
         match a, b with
         | [], [] => []
         | x :: ar, y :: br => (if robs_eqb x y then 0 else 1) :: go ar br
         | _, _ => [1]
         end) pred obsd
  end.
