(* Model/C14_Sinex.v - executable model of midgard.parsers._parser_sinex (SinexParser.parse_blocks / parse_lines,
   the converters, parsing_matrix_factory) and of the regrouping done by sinex_site / sinex_discontinuities /
   sinex_events.  Definitions only; proofs are in Proofs/C14_Sinex.v.

   np.genfromtxt(lines, delimiter=widths, autostrip=True, converters=..., dtype=..., usecols=...) is modelled as:
   every line is cut at the first comment character (numpy default comments='#'; quirk [q_hash]), sliced at the start
   columns ([0]+starts+[limit], differences = widths), every slice stripped, then converted per column with
   numpy's "loose" rule: a converter that raises ValueError yields the default of the column's dtype (nan for f8 -
   also with a user converter, StringConverter.update keeps it -, -1 for i8, None for object columns) - this is how
   "00:000:00000" becomes None ("open").

   Quirks (all off = specification):
     q_hash     '#' starts a comment inside data lines (genfromtxt default)
     q_limit81  the last column ends at column 80 whatever its declared U<n> (hard-coded 81 in parse_lines)
     q_compact  blank matrix value columns are squeezed out (vals[~isnan(vals)]) instead of keeping their column
     q_scalar   a block of exactly one line becomes a 0-d array; iterating parsers / the matrix parser then raise *)
From Coq Require Import ZArith QArith Qabs List Bool String Ascii Lia.
From Verif Require Import Lib.Text Lib.Dyadic.
Import ListNotations.
Open Scope nat_scope.
Open Scope string_scope.

Record quirks := mkQ { q_hash : bool; q_limit81 : bool; q_compact : bool; q_scalar : bool }.
Definition all_off := mkQ false false false false.
Definition as_built := mkQ true true true true.

(* ------------------------------------------------------------------------------------------ tables *)
Inductive dtype := TText (n : nat) | TFloat | TInt | TObj | TSkip | TBad.
Inductive conv := KNone | KEpoch | KExponent | KDms2deg | KUtf8 | KTuple | KList | KYyyy | KBad.
Record field := mkField { f_name : string; f_start : nat; f_dtype : dtype; f_conv : conv }.
Definition table := list field.

Definition raw_field := (string * nat * string * string)%type.      (* name, start column, dtype, converter *)
Definition raw_block := (string * string * string * list raw_field)%type.   (* attribute, marker, parser kind, fields *)

Definition digit_of (c : ascii) : option Z :=
  let n := Z.of_nat (nat_of_ascii c) in if ((48 <=? n) && (n <=? 57))%Z then Some (n - 48)%Z else None.

Fixpoint digits_acc (s : string) (acc : Z) : option Z :=
  match s with
  | "" => Some acc
  | String c r => match digit_of c with Some d => digits_acc r (acc * 10 + d)%Z | None => None end
  end.
(* value of a non-empty string of decimal digits *)
Definition digits_val (s : string) : option Z :=
  match s with "" => None | _ => digits_acc s 0 end.

Definition dtype_of (s : string) : dtype :=
  match s with
  | "" => TSkip
  | "f8" => TFloat
  | "i8" => TInt
  | "O" => TObj
  | String "U" r => match digits_val r with Some n => TText (Z.to_nat n) | None => TBad end
  | _ => TBad
  end.

Definition conv_of (s : string) : conv :=
  if s =? "" then KNone else if s =? "epoch" then KEpoch else if s =? "exponent" then KExponent
  else if s =? "dms2deg" then KDms2deg else if s =? "utf8" then KUtf8 else if s =? "tuple" then KTuple
  else if s =? "list" then KList else if s =? "yyyydddsssss" then KYyyy else KBad.

Definition field_of (r : raw_field) : field :=
  let '(n, st, d, c) := r in mkField n st (dtype_of d) (conv_of c).
Definition table_of (l : list raw_field) : table := map field_of l.

(* ------------------------------------------------------------------------------------------ numbers *)
Definition pow10Q (e : Z) : Q := if (0 <=? e)%Z then inject_Z (10 ^ e) else Qmake 1 (Z.to_pos (10 ^ (- e))).

(* split at the first character satisfying p: (before, Some after) or (s, None) *)
Fixpoint break (p : ascii -> bool) (s : string) : string * option string :=
  match s with
  | "" => ("", None)
  | String c r => if p c then ("", Some r) else let '(a, b) := break p r in (String c a, b)
  end.

Definition is_char (x : ascii) (c : ascii) : bool := Ascii.eqb x c.

Definition split_sign (s : string) : bool * string :=
  match s with
  | String "-" r => (true, r)
  | String "+" r => (false, r)
  | _ => (false, s)
  end.

Definition all_digits (s : string) : bool := all_by (fun c => match digit_of c with Some _ => true | None => false end) s.

Definition int_or_zero (s : string) : Z := match digits_acc s 0 with Some z => z | None => 0%Z end.

(* Python float(text) on the decimal grammar  [+-]? (D+ [. D*]? | . D+) ([eE] [+-]? D+)?  : (text has '-', exact value) *)
Definition parse_decimal (s : string) : option (bool * Q) :=
  let '(neg, body) := split_sign s in
  let '(mant, ex) := break (fun c => is_char "e" c || is_char "E" c) body in
  let '(ip, fpo) := break (is_char ".") mant in
  let fp := match fpo with Some f => f | None => "" end in
  if negb (all_digits ip && all_digits fp) || (Nat.eqb (len ip + len fp) 0) then None else
  let e := match ex with
           | None => Some 0%Z
           | Some t => let '(eneg, ed) := split_sign t in
                       match digits_val ed with Some v => Some (if eneg then (- v)%Z else v) | None => None end
           end in
  match e with
  | None => None
  | Some ev =>
      let m := int_or_zero (ip ++ fp) in
      let v := (inject_Z m * pow10Q (ev - Z.of_nat (len fp)))%Q in
      Some (neg, Qred (if neg then (- v)%Q else v))
  end.

(* Python int(text) on [+-]? D+ *)
Definition parse_int (s : string) : option Z :=
  let '(neg, body) := split_sign s in
  match digits_val body with Some v => Some (if neg then (- v)%Z else v) | None => None end.

(* ------------------------------------------------------------------------------------------ epochs *)
Definition is_leap (y : Z) : bool := ((y mod 4 =? 0) && negb (y mod 100 =? 0) || (y mod 400 =? 0))%Z.
(* days from 1900-01-01 to y-01-01 (proleptic Gregorian, as datetime) *)
Definition days_before_year (y : Z) : Z :=
  let n := (y - 1)%Z in (365 * (y - 1900) + (n / 4 - 1899 / 4) - (n / 100 - 1899 / 100) + (n / 400 - 1899 / 400))%Z.
(* seconds from 1900-01-01T00:00:00 of year / day-of-year / second *)
Definition epoch_seconds (y doy sec : Z) : Z := ((days_before_year y + doy - 1) * 86400 + sec)%Z.

(* strptime("%j"): one to three digits, 1..366 (regex  36[0-6]|3[0-5]\d|[1-2]\d\d|0[1-9]\d|00[1-9]|[1-9]\d|0[1-9]|[1-9]) *)
Definition parse_doy (s : string) : option Z :=
  if (Nat.ltb 3 (len s)) then None else
  match digits_val s with
  | Some d => if ((1 <=? d) && (d <=? 366))%Z then Some d else None
  | None => None
  end.

(* the work of _convert_epoch after slicing: yy = field[:2], sep = field[2:3], doy = field[3:6], sec = field[7:] *)
Definition epoch_parts (whole_is_zero : bool) (yy sep doy sec : string) : option Z :=
  match (if Nat.eqb (len yy) 2 then digits_val yy else None) with      (* int(field[:2]) *)
  | None => None
  | Some y2 =>
      let year := ((if 50 <? y2 then 1900 else 2000) + y2)%Z in
      let bump := negb whole_is_zero && (doy =? "000") in
      let sep_ok := bump || (sep =? ":") in
      let doy' := if bump then "001" else doy in
      match (if sep_ok && Nat.eqb (len doy') 3 then parse_doy doy' else None), digits_val sec with
      | Some d, Some s => Some (epoch_seconds year d s)
      | _, _ => None
      end
  end.

Definition convert_epoch (s : string) : option Z :=
  epoch_parts (s =? "00:000:00000") (slice 0 2 s) (slice 2 3 s) (slice 3 6 s) (drop 7 s).

(* sinex_tms._convert_yyyydddsssss: YYYY:DDD:SSSSS, 0000:000:00000 -> 9999:364:99999 *)
Definition convert_yyyy (s0 : string) : option Z :=
  let s := if s0 =? "0000:000:00000" then "9999:364:99999" else s0 in
  match (if Nat.eqb (len (slice 0 4 s)) 4 then digits_val (slice 0 4 s) else None),
        (if (slice 4 5 s =? ":") && Nat.eqb (len (slice 5 8 s)) 3 then parse_doy (slice 5 8 s) else None),
        digits_val (drop 9 s) with
  | Some y, Some d, Some sec => if (1 <=? y)%Z then Some (epoch_seconds y d sec) else None
  | _, _, _ => None
  end.

(* ------------------------------------------------------------------------------------------ converters *)
Inductive cell :=
| CText (s : string)
| CNum (neg : bool) (q : Q)        (* finite decimal (exact); neg = the text carries '-' *)
| CNaN
| CInt (z : Z)
| CTime (t : option Z)             (* datetime as seconds since 1900-01-01, None = open *)
| CDeg (q : Q)                     (* exact degrees of a D M S field *)
| CWords (l : list string)
| CUnsupported.

(* _convert_dms2deg: sign(deg) * (|deg| + min/60 + sec/3600), the sign taken from the text (copysign sees -0.0) *)
Definition convert_dms (txt : string) : option Q :=
  match map parse_decimal (split_ws txt) with
  | [Some (neg, d); Some (_, m); Some (_, s)] =>
      let v := (Qabs d + m * (1 # 60) + s * (1 # 3600))%Q in
      Some (Qred (if neg then (- v)%Q else v))
  | _ => None
  end.

Definition convert_exponent (txt : string) : option (bool * Q) := parse_decimal (replace_char "D" "E" txt).

Definition convert (f : field) (txt : string) : cell :=
  match f_conv f, f_dtype f with
  | KNone, TText n => CText (take n txt)
  | KUtf8, TText n => CText (take n txt)
  | KNone, TFloat => match parse_decimal txt with Some (sg, q) => CNum sg q | None => CNaN end
  | KNone, TInt => match parse_int txt with Some z => CInt z | None => CInt (-1) end
  | KEpoch, TObj => CTime (convert_epoch txt)
  | KYyyy, TObj => CTime (convert_yyyy txt)
  | KExponent, TFloat => match convert_exponent txt with Some (sg, q) => CNum sg q | None => CNaN end
  | KDms2deg, TFloat => match convert_dms txt with Some q => CDeg q | None => CNaN end
  | KTuple, TObj => CWords (split_ws txt)
  | _, _ => CUnsupported
  end.

(* ------------------------------------------------------------------------------------------ genfromtxt *)
Definition is_hash (c : ascii) : bool := is_char "#" c.
Definition cut_comment (q : quirks) (l : string) : string :=
  if q_hash q then fst (break is_hash l) else l.

(* slices at the start columns; the last one ends at [limit] *)
Fixpoint cut_fields (t : table) (limit : nat) (l : string) : list string :=
  match t with
  | [] => []
  | f :: rest =>
      strip (slice (f_start f) (match rest with g :: _ => f_start g | [] => limit end) l) :: cut_fields rest limit l
  end.

Definition is_skip (d : dtype) : bool := match d with TSkip => true | _ => false end.

Fixpoint convert_row (t : table) (txts : list string) : list cell :=
  match t, txts with
  | f :: t', x :: xs => if is_skip (f_dtype f) then convert_row t' xs else convert f x :: convert_row t' xs
  | _, _ => []
  end.

Definition nl : string := String (ascii_of_nat 10) "".

(* the column where the last field ends: 81 in SinexParser.parse_lines (as built); the longest line if longer (spec) *)
Definition line_limit (q : quirks) (lines : list string) : nat :=
  if q_limit81 q then 81 else fold_right Nat.max 81 (map (fun l => len l + 1) lines).
(* sinex_tms.parse_lines: max(len(line)), lines carry their newline *)
Definition line_limit_tms (lines : list string) : nat := fold_right Nat.max 0 (map (fun l => len l + 1) lines).

(* texts of one data line (line given without its newline; the newline is appended as in the file) *)
Definition line_texts (q : quirks) (t : table) (limit : nat) (l : string) : list string :=
  cut_fields t limit (cut_comment q (l ++ nl)).

Definition parse_lines (q : quirks) (tms : bool) (t : table) (lines : list string) : list (list cell) :=
  let limit := if tms then line_limit_tms lines else line_limit q lines in
  map (fun l => convert_row t (line_texts q t limit l)) lines.

(* np.genfromtxt returns a 0-d array for exactly one data line and a 1-d array otherwise (an empty one for no line).
   parse_blocks stores np.atleast_1d of it, so a block parser always iterates over rows; with [q_scalar] (the code before
   708b245) the 0-d array was stored and iterating over it raised TypeError ([None]). *)
Inductive ndarray (A : Type) := Arr0 (r : A) | Arr1 (rs : list A).
Arguments Arr0 {A} r.
Arguments Arr1 {A} rs.
Definition genfromtxt_shape {A} (rows : list A) : ndarray A := match rows with [r] => Arr0 r | _ => Arr1 rows end.
Definition atleast_1d {A} (a : ndarray A) : list A := match a with Arr0 r => [r] | Arr1 rs => rs end.
Definition stored_rows {A} (q : quirks) (rows : list A) : option (list A) :=
  if q_scalar q then match genfromtxt_shape rows with Arr0 _ => None | Arr1 rs => Some rs end
  else Some (atleast_1d (genfromtxt_shape rows)).

(* the rows a block parser sees for the data lines of one block; a table without fields cannot be parsed at all
   (np.genfromtxt: "could not assign tuple of length 1 to structure with 0 fields") *)
Definition parse_block (q : quirks) (tms : bool) (t : table) (lines : list string) : option (list (list cell)) :=
  match t with
  | [] => None
  | _ => stored_rows q (parse_lines q tms t lines)
  end.

(* ------------------------------------------------------------------------------------------ block scanning *)
Definition mem (m : string) (l : list string) : bool := existsb (String.eqb m) l.
Definition remove (m : string) (l : list string) : list string := filter (fun x => negb (String.eqb m x)) l.

Definition found := (string * list string * list string)%type.    (* marker, title parameters, data lines *)

(* SinexParser.parse_blocks: [cur] = the wanted block being read (marker, parameters, data lines so far, reversed) *)
Fixpoint scan (wanted : list string) (cur : option (string * list string * list string)) (ls : list string) : list found :=
  match ls with
  | [] => match cur with Some (m, ps, body) => [(m, ps, rev body)] | None => [] end
  | l :: rest =>
      match cur with
      | Some (m, ps, body) =>
          if startswith "-" l then (m, ps, rev body) :: scan (remove m wanted) None rest
          else scan wanted (Some (m, ps, if startswith " " l then l :: body else body)) rest
      | None =>
          match wanted with
          | [] => []
          | _ =>
              if startswith "+" l then
                match split_ws (strip (drop 1 l)) with
                | m :: ps => if mem m wanted then scan wanted (Some (m, ps, [])) rest else scan wanted None rest
                | [] => []                       (* "+" alone: marker, *params = [] raises *)
                end
              else scan wanted None rest
          end
      end
  end.

Fixpoint lookup {A} (m : string) (l : list (string * A)) : option A :=
  match l with
  | [] => None
  | (k, v) :: r => if String.eqb m k then Some v else lookup m r
  end.

Definition found_assoc (l : list found) : list (string * (list string * list string)) :=
  map (fun '(m, ps, b) => (m, (ps, b))) l.

(* ------------------------------------------------------------------------------------------ matrices *)
Section Matrix.
  Context {V : Type} (zero : V).
  (* one data line of a matrix block: row, column (1-based) and up to three values, None = blank (nan) *)
  Definition mline := (nat * nat * list (option V))%type.
  Definition mat := nat -> nat -> V.

  Definition upd (M : mat) (i j : nat) (v : V) : mat :=
    fun a b => if Nat.eqb a i && Nat.eqb b j then v else M a b.

  (* the entries a line writes: (row, col + k, v_k); with q_compact the blanks are removed first *)
  Fixpoint place_vals (r c : nat) (vs : list (option V)) : list (nat * nat * V) :=
    match vs with
    | [] => []
    | Some v :: rest => (r, c, v) :: place_vals r (S c) rest
    | None :: rest => place_vals r (S c) rest
    end.
  Definition squeeze (vs : list (option V)) : list (option V) := filter (fun o => match o with Some _ => true | None => false end) vs.
  Definition line_entries (q : quirks) (l : mline) : list (nat * nat * V) :=
    let '(r, c, vs) := l in place_vals r c (if q_compact q then squeeze vs else vs).

  Definition write (M : mat) (e : nat * nat * V) : mat := let '(i, j, v) := e in upd M i j v.
  Definition fill (q : quirks) (ls : list mline) : mat :=
    fold_left (fun M l => fold_left write (line_entries q l) M) ls (fun _ _ => zero).

  (* np.tril(M) + np.tril(M, -1).T  resp.  np.triu(M) + np.triu(M, 1).T   (x + 0 = x exactly) *)
  Definition symmetrize (lower : bool) (M : mat) : mat :=
    fun i j => if lower then (if Nat.leb j i then M i j else M j i) else (if Nat.leb i j then M i j else M j i).
  Definition parse_matrix (q : quirks) (lower : bool) (ls : list mline) : mat := symmetrize lower (fill q ls).

  (* all entries listed in the file, in file order *)
  Definition entries (q : quirks) (ls : list mline) : list (nat * nat * V) := flat_map (line_entries q) ls.
  Definition in_triangle (lower : bool) (e : nat * nat * V) : bool :=
    let '(i, j, _) := e in if lower then Nat.leb j i else Nat.leb i j.
End Matrix.

(* ------------------------------------------------------------------------------------------ regrouping *)
Section Regroup.
  Context {R : Type}.
  (* self.data.setdefault(key, ...).append(row) for every row, keys in first-seen order *)
  Fixpoint add_row (k : string) (r : R) (g : list (string * list R)) : list (string * list R) :=
    match g with
    | [] => [(k, [r])]
    | (k', rs) :: g' => if String.eqb k k' then (k', (rs ++ [r])%list) :: g' else (k', rs) :: add_row k r g'
    end.
  Definition regroup (key : R -> string) (rows : list R) : list (string * list R) :=
    fold_left (fun g r => add_row (key r) r g) rows [].
End Regroup.

Definition lower_char (c : ascii) : ascii :=
  let n := nat_of_ascii c in if (Nat.leb 65 n && Nat.leb n 90) then ascii_of_nat (n + 32) else c.
Fixpoint lower (s : string) : string := match s with "" => "" | String c r => String (lower_char c) (lower r) end.

(* ------------------------------------------------------------------------------------------ table checks *)
Fixpoint increasing (l : list nat) : bool :=
  match l with
  | a :: ((b :: _) as r) => Nat.ltb a b && increasing r
  | _ => true
  end.

Definition starts (t : table) : list nat := map f_start t.
Definition known_field (f : field) : bool :=
  match f_conv f, f_dtype f with
  | KNone, TText _ | KUtf8, TText _ | KNone, TFloat | KNone, TInt | KEpoch, TObj | KYyyy, TObj
  | KExponent, TFloat | KDms2deg, TFloat | KTuple, TObj | KList, TObj | KNone, TSkip => true
  | _, _ => false
  end.

(* starts strictly increasing from column >= 1, every start inside the [cols]-column line (cols = 0: no bound),
   every dtype / converter pair one the model knows *)
Definition table_wf (cols : nat) (t : table) : bool :=
  increasing (0 :: starts t) && forallb (fun s => Nat.eqb cols 0 || Nat.ltb s cols) (starts t) && forallb known_field t.

(* geometry and kind of one generated field against the format description:
   the format's columns [c, c+w) lie inside the parser's slice [start, next) and a text dtype holds w characters *)
Definition kind_ok (kind : string) (f : field) (w : nat) : bool :=
  match f_dtype f, f_conv f with
  | TText n, (KNone | KUtf8) => ((kind =? "A") || (kind =? "W")) && Nat.leb w n
  | TInt, KNone => kind =? "I"
  | TFloat, KNone => kind =? "F"
  | TFloat, KExponent => (kind =? "E") || (kind =? "F")
  | TFloat, KDms2deg => kind =? "G"
  | TObj, KEpoch => kind =? "T"
  | TObj, KYyyy => kind =? "Y"
  | TObj, KTuple => kind =? "W"
  | TObj, KList => kind =? "L"
  | _, _ => false
  end.

Fixpoint match_fields (cols : nat) (t : table) (sp : list (string * nat * nat * string)) : bool :=
  match t, sp with
  | [], [] => true
  | f :: t', (_, c, w, kind) :: sp' =>
      let next := match t' with g :: _ => f_start g | [] => (if Nat.eqb cols 0 then c + w + 1 else cols) end in
      Nat.leb (f_start f) c && Nat.leb (c + w) next && kind_ok kind f w && match_fields cols t' sp'
  | _, _ => false
  end.

(* ------------------------------------------------------------------------------------------ correspondence *)
(* what the driver observed *)
Inductive ocell := OT (s : string) | OF (d : dy) | OI (z : Z) | OE (t : option Z) | OW (l : list string) | ONone.

Definition cell_ok (c : cell) (o : ocell) : bool :=
  match c, o with
  | CText s, OT s' => String.eqb s s'
  | CNum _ q, OF d => is_nearest_double q d
  | CNaN, OF d => is_nan d
  | CInt z, OI z' => Z.eqb z z'
  | CTime None, OE None => true
  | CTime (Some a), OE (Some b) => Z.eqb a b
  | CDeg q, OF d => within_rel (1 # 1000000000000000) (1 # 1000000000000000000) q d
  | CWords l, OW l' => if list_eq_dec string_dec l l' then true else false
  | _, _ => false
  end.

Fixpoint all2 {A B} (p : A -> B -> bool) (l : list A) (l' : list B) : bool :=
  match l, l' with
  | [], [] => true
  | a :: r, b :: r' => p a b && all2 p r r'
  | _, _ => false
  end.

Definition rows_ok (exp : list (list cell)) (obs : list (list ocell)) : bool := all2 (all2 cell_ok) exp obs.

(* one block of one file:
     t     table of the block (regenerated),  tms: sinex_tms's parse_lines,
     file  all lines of the file, marker / wanted: what the parser was asked for,
     gen   the texts the writer put into the format's columns, one list per row (the property's oracle),
     obs   rows midgard returned.
   verdict 0: obs = converted generating texts (the oracle) and = the model without quirks;
           2 / 3: obs differs from the oracle and from the quirk-free model but is what the model predicts with exactly
           q_hash / q_limit81 on,
           4: ... with all quirks on;  9: oracle ok but the quirk-free model disagrees (model out of date);
           1: unexplained *)
(* the oracle does not apply the table's U<n> truncation: the whole text of the format's columns must come back *)
Definition untruncated (f : field) : field :=
  match f_dtype f with TText _ => mkField (f_name f) (f_start f) (TText 100000) (f_conv f) | _ => f end.
Definition gen_rows (t : table) (gen : list (list string)) : list (list cell) := map (convert_row (map untruncated t)) gen.

Definition model_rows (q : quirks) (tms : bool) (t : table) (wanted : list string) (marker : string) (file : list string)
  : option (list (list cell)) :=
  match lookup marker (found_assoc (scan wanted None file)) with
  | Some (_, body) => parse_block q tms t body
  | None => None
  end.

Definition opt_rows_ok (m : option (list (list cell))) (obs : list (list ocell)) : bool :=
  match m with Some r => rows_ok r obs | None => false end.

Definition check_rows (tms : bool) (t : table) (wanted : list string) (marker : string) (file : list string)
           (gen : list (list string)) (obs : list (list ocell)) : Z :=
  let oracle := rows_ok (gen_rows t gen) obs in
  let m q := opt_rows_ok (model_rows q tms t wanted marker file) obs in
  if oracle then (if m all_off then 0 else 9)%Z
  else if m all_off then 1%Z          (* the code does what its table says, but that is not the format's columns *)
  else if m (mkQ true false false false) then 2%Z
  else if m (mkQ false true false false) then 3%Z
  else if m as_built then 4%Z
  else 1%Z.

(* matrices: values are exact decimals (texts); observed matrix as rows of doubles *)
Definition qcell := (bool * Q)%type.
Definition mline_of_row (r : list cell) : option (@mline Q) :=
  match r with
  | [CInt i; CInt j; a; b; c] =>
      let v x := match x with CNum _ q => Some q | _ => None end in
      if ((1 <=? i) && (1 <=? j))%Z then Some (Z.to_nat i, Z.to_nat j, [v a; v b; v c]) else None
  | _ => None
  end.

Fixpoint all_some {A} (l : list (option A)) : option (list A) :=
  match l with
  | [] => Some []
  | Some a :: r => match all_some r with Some r' => Some (a :: r') | None => None end
  | None :: _ => None
  end.

Definition zero_or_nearest (q : Q) (d : dy) : bool :=
  if Qeq_bool q 0 then (match d with DZero _ => true | _ => false end) else is_nearest_double q d.

Definition matrix_ok (n : nat) (M : nat -> nat -> Q) (obs : list (list dy)) : bool :=
  Nat.eqb (List.length obs) n &&
  forallb (fun i => match nth_error obs i with
                    | Some row => Nat.eqb (List.length row) n &&
                                  forallb (fun j => zero_or_nearest (M (S i) (S j)) (nth j row DNaN)) (seq 0 n)
                    | None => false end) (seq 0 n).

(* gen: the entries the writer listed (row, column, decimal text), all inside the triangle of the form *)
Definition oracle_matrix (lower : bool) (gen : list (nat * nat * string)) : option (nat -> nat -> Q) :=
  match all_some (map (fun '(i, j, s) => match parse_decimal s with Some (_, q) => Some (i, j, q) | None => None end) gen) with
  | Some es => Some (fun i j =>
      match find (fun '(a, b, _) => (Nat.eqb a i && Nat.eqb b j) || (Nat.eqb a j && Nat.eqb b i)) es with
      | Some (_, _, q) => q
      | None => 0%Q
      end)
  | None => None
  end.

Definition model_matrix (q : quirks) (t : table) (wanted : list string) (marker : string) (file : list string)
  : option (bool * (nat -> nat -> Q)) :=
  match lookup marker (found_assoc (scan wanted None file)) with
  | Some (ps, body) =>
      match ps, match parse_block q false t body with Some rs => all_some (map mline_of_row rs) | None => None end with
      | form :: _, Some ls =>
          let lower := String.eqb form "L" || String.eqb form "l" in
          Some (lower, parse_matrix 0%Q q lower ls)
      | _, _ => None
      end
  | None => None
  end.

Definition check_matrix (t : table) (wanted : list string) (marker : string) (file : list string)
           (n : nat) (lower : bool) (gen : list (nat * nat * string)) (obs : list (list dy)) : Z :=
  let oracle := match oracle_matrix lower gen with Some M => matrix_ok n M obs | None => false end in
  let m q := match model_matrix q t wanted marker file with Some (_, M) => matrix_ok n M obs | None => false end in
  if oracle then (if m all_off then 0 else 9)%Z
  else if m all_off then 1%Z
  else if m (mkQ false false true false) then 5%Z
  else if m as_built then 4%Z
  else 1%Z.

(* regrouping by lower-cased first column: groups as (key, rows) *)
Definition key_of_row (k : nat) (r : list ocell) : string := match nth k r ONone with OT s => lower s | _ => "" end.
Fixpoint remove_nth {A} (k : nat) (l : list A) : list A :=
  match l, k with
  | [], _ => []
  | _ :: r, 0 => r
  | a :: r, S k' => a :: remove_nth k' r
  end.
Definition ocell_eqb (a b : ocell) : bool :=
  match a, b with
  | OT s, OT s' => String.eqb s s'
  | OF d, OF d' => dy_eqb d d'
  | OI z, OI z' => Z.eqb z z'
  | OE None, OE None => true
  | OE (Some x), OE (Some y) => Z.eqb x y
  | OW l, OW l' => if list_eq_dec string_dec l l' then true else false
  | ONone, ONone => true
  | _, _ => false
  end.
(* rows: what the plain block parser returned; groups: what the regrouping parser returned for the same block.
   mode 0: lists of full rows (sinex_site lists); 1: only the last row of each station (sinex_site SITE/ID dict);
   2: lists of rows without the site_code column (sinex_discontinuities / sinex_events);
   k: position of the site_code column *)
Definition view_group (mode k : nat) (g : string * list (list ocell)) : string * list (list ocell) :=
  let '(key, rs) := g in
  match mode with
  | 0 => (key, rs)
  | 1 => (key, match rev rs with r :: _ => [r] | [] => [] end)
  | _ => (key, map (remove_nth k) rs)
  end.
Definition groups_eqb (a b : list (list ocell)) : bool := all2 (all2 ocell_eqb) a b.
Definition check_regroup (mode k : nat) (rows : list (list ocell)) (groups : list (string * list (list ocell))) : Z :=
  let model := map (view_group mode k) (regroup (key_of_row k) rows) in
  if Nat.eqb (List.length model) (List.length groups) &&
     forallb (fun '(k, rs) => match lookup k groups with Some rs' => groups_eqb rs rs' | None => false end) model
  then 0%Z else 1%Z.

(* the parser raised an exception (crashed = true).  The only explained one: a wanted block that is present in the file
   declares no fields (verdict 7; SITE/GAL_PHASE_CENTER); anything else is unexplained *)
Definition check_exception (fields_per_present_block : list nat) (crashed : bool) : Z :=
  if negb crashed then 0%Z else if existsb (Nat.eqb 0) fields_per_present_block then 7%Z else 1%Z.

(* ------------------------------------------------------------------------------------------ header line *)
(* parse_header_line: the first line must start with the magic ("%=SNX" / "%=TMS"), else nothing is stored;
   parse_lines([line]) -> one row, stored in meta by name *)
Definition parse_header (q : quirks) (tms : bool) (magic : string) (t : table) (line : string) : option (list cell) :=
  if startswith magic line then
    match parse_lines q tms t [line] with [r] => Some r | _ => None end
  else None.

Definition check_header (tms : bool) (magic : string) (t : table) (line : string) (gen : list string)
           (obs : option (list ocell)) : Z :=
  match obs, parse_header all_off tms magic t line with
  | None, None => 0%Z
  | Some o, Some r =>
      if all2 cell_ok (convert_row (map untruncated t) gen) o then (if all2 cell_ok r o then 0 else 9)%Z else 1%Z
  | _, _ => 1%Z
  end.

(* ------------------------------------------------------------------------------------------ sinex_tms TIMESERIES/DATA *)
(* parse_lines with the "list" converter: np.genfromtxt(lines, delimiter=None): blank separated tokens per line;
   parse_timeseries_data: column j is named TIMESERIES/COLUMNS name[j] (lower case), text for the date columns,
   float otherwise; zip() stops at the shorter of names / columns *)
Definition is_date_column (name : string) : bool := (name =? "YYYY-MM-DD") || (name =? "YYYY-DDD").
Definition ts_cell (name tok : string) : cell :=
  if is_date_column name then CText tok
  else match parse_decimal tok with Some (sg, q) => CNum sg q | None => CNaN end.
Fixpoint ts_columns (names : list string) (j : nat) (rows : list (list string)) : list (string * list cell) :=
  match names with
  | [] => []
  | n :: ns => (lower n, map (fun r => ts_cell n (nth j r "")) rows) :: ts_columns ns (S j) rows
  end.
Definition width_of (rows : list (list string)) : nat := match rows with r :: _ => List.length r | [] => 0 end.
Definition timeseries_data (names : list string) (rows : list (list string)) : list (string * list cell) :=
  ts_columns (firstn (width_of rows) names) 0 rows.
Definition parse_list_lines (lines : list string) : list (list string) := map split_ws lines.

(* names: what the TIMESERIES/COLUMNS block gave (observed, checked separately); gen: the tokens the writer wrote;
   obs: (key, values) of parser.data["timeseries_data"] *)
Definition columns_ok (m : list (string * list cell)) (obs : list (string * list ocell)) : bool :=
  all2 (fun a b => String.eqb (fst a) (fst b) && all2 cell_ok (snd a) (snd b)) m obs.
Definition check_timeseries (wanted : list string) (file : list string) (names : list string)
           (gen : list (list string)) (obs : list (string * list ocell)) : Z :=
  let oracle := columns_ok (timeseries_data names gen) obs in
  let model := match lookup "TIMESERIES/DATA" (found_assoc (scan wanted None file)) with
               | Some (_, body) => columns_ok (timeseries_data names (parse_list_lines body)) obs
               | None => false end in
  if oracle then (if model then 0 else 9)%Z else 1%Z.

(* ------------------------------------------------------------------------------------------ as_dataset hand-over *)
(* a dataset column against the tokens of the file column it was built from *)
Definition check_column (kind : string) (toks : list string) (obs : list ocell) : Z :=
  let conv tok :=
    if kind =? "text" then CText tok
    else if kind =? "lower" then CText (lower tok)
    else if kind =? "exponent" then match convert_exponent tok with Some (sg, q) => CNum sg q | None => CNaN end
    else if kind =? "epoch" then CTime (convert_epoch tok)
    else if kind =? "yyyy" then CTime (convert_yyyy tok)
    else match parse_decimal tok with Some (sg, q) => CNum sg q | None => CNaN end in
  if all2 cell_ok (map conv toks) obs then 0%Z else 1%Z.

(* YYYY-MM-DD against (year, month, day) of the dataset's time *)
Definition check_dates (toks : list string) (obs : list (Z * Z * Z)) : Z :=
  if all2 (fun tok '(y, m, d) =>
             match digits_val (slice 0 4 tok), digits_val (slice 5 7 tok), digits_val (slice 8 10 tok) with
             | Some y', Some m', Some d' => (y =? y')%Z && (m =? m')%Z && (d =? d')%Z && (len tok =? 10)%nat
             | _, _, _ => false
             end) toks obs then 0%Z else 1%Z.

(* ------------------------------------------------------------------------------------------ whole files *)
(* read_data: scan the file for the declared markers, then parse every found block with its table *)
Definition parse_file (q : quirks) (tms : bool) (decl : list (string * table)) (file : list string)
  : list (string * list string * option (list (list cell))) :=
  map (fun '(m, ps, body) =>
         (m, ps, match lookup m decl with Some t => parse_block q tms t body | None => None end))
      (scan (map fst decl) None file).

(* tables by attribute name / marker out of a regenerated block list *)
Fixpoint get_block (attr : string) (l : list raw_block) : option raw_block :=
  match l with
  | [] => None
  | ((a, m, k, fs) as b) :: r => if String.eqb a attr then Some b else get_block attr r
  end.
Definition get_table (l : list raw_block) (attr : string) : table :=
  match get_block attr l with Some (_, _, _, fs) => table_of fs | None => [] end.
Definition get_marker (l : list raw_block) (attr : string) : string :=
  match get_block attr l with Some (_, m, _, _) => m | None => "" end.
