(* C16 - the file at a path is replaced between parses (operation Write), e.g. a navigation file of another RINEX major
   version delivered under the same name.  Extension of Model/C16_Purity.v, executable model only.

   Anchors: midgard/parsers/rinex_nav.py (dispatcher: gnss.get_rinex_file_version(file_path) chooses the parser),
            midgard/parsers/wip_rinex*.py dispatchers (RinexParser.get_rinex_version_type), parsers.parse_file.

   A Write is done by the environment, not by a parser.  The specification: a Parse observes parse_fn of the content that
   is at the path WHEN IT PARSES.  (For a dispatcher this presupposes that nothing is written between its Construct and its
   Parse - parsers.parse_file does both in one call; the correspondence only writes between parse_file calls.) *)
From Coq Require Import ZArith List Bool.
From Verif Require Import Model.C16_Purity.
Import ListNotations.
Open Scope Z_scope.

Section WorldW.
  Variables parser file content args result token : Type.
  Variable run : parser -> content -> args -> list token -> option result -> result.
  Variable emits : parser -> content -> args -> list token -> list token.
  Variable mutate : result -> result.
  Variable file_eqb : file -> file -> bool.

  Inductive wop : Type := WOp (o : @op parser file args) | WWrite (f : file) (c : content).

  Definition fs_set (fs0 : file -> content) (f : file) (c : content) : file -> content :=
    fun g => if file_eqb g f then c else fs0 g.
  Definition set_fs (w : world parser file content args result token) (f : file) (c : content) :=
    mkWorld parser file content args result token (fs_set (fs _ _ _ _ _ _ w) f c) (cell _ _ _ _ _ _ w) (insts _ _ _ _ _ _ w).

  Fixpoint wexec (q : quirks) (w : world parser file content args result token) (ops : list wop)
    : world parser file content args result token * list (@obs content result) :=
    match ops with
    | [] => (w, [])
    | WOp o :: r => let (w1, t1) := step parser file content args result token run emits mutate q w o in
                    let (w2, t2) := wexec q w1 r in (w2, t1 ++ t2)
    | WWrite f c :: r => wexec q (set_fs w f c) r
    end.
  Definition wtrace q w ops := snd (wexec q w ops).

  Definition bindings_after (o : @op parser file args) (b : list (Z * (parser * file * args))) :=
    match o with
    | Construct i p f a => update i (p, f, a) b
    | Drop i => remove i b
    | _ => b
    end.

  (* the specification, stated directly: bindings + the content that is at the path at the time of the Parse *)
  Fixpoint wspec_trace (fs0 : file -> content) (ops : list wop) (b : list (Z * (parser * file * args))) : list (@obs content result) :=
    match ops with
    | [] => []
    | WWrite f c :: r => wspec_trace (fs_set fs0 f c) r b
    | WOp o :: r => spec_trace parser file content args result token run fs0 [o] b ++ wspec_trace fs0 r (bindings_after o b)
    end.
End WorldW.

Arguments WOp {parser file content args}.
Arguments WWrite {parser file content args}.

(* ---------------------------------------------------------------------------------------------- correspondence *)
Definition zwop : Type := @wop Z Z Z Z.
Definition wC (i p f a : Z) : zwop := WOp (Construct i p f a).
Definition wP (i : Z) : zwop := WOp (Parse i).
Definition wM (i : Z) : zwop := WOp (Mutate i).
Definition wD (i : Z) : zwop := WOp (Drop i).
Definition wW (f c : Z) : zwop := WWrite f c.
Definition zwh (o : list zwop) (b : list zobs) : list zwop * list zobs := (o, b).

Definition plain_ops (ops : list zwop) : list (@op Z Z Z) :=
  flat_map (fun o => match o with WOp x => [x] | WWrite _ _ => [] end) ops.

Definition wpredict (t : fresh_table) (files : list (Z * Z)) (ops : list zwop) : list zobs :=
  map zobs_of (wtrace Z Z Z Z Z Z (z_run t) z_emits (fun r => r) Z.eqb all_off (z_world files) ops).

(* one code per observation, as check_history_detail: 0 = specification, 4 = file digest differs, 3 = re-parse, 1 = not *)
Definition check_whistory_detail (c : fresh_table * list (Z * Z) * list zwop * list zobs) : list Z :=
  match c with
  | (t, files, ops, obsd) => verdicts (wpredict t files ops) obsd (reparse_flags (plain_ops ops) [])
  end.
