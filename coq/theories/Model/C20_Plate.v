(* C20 / plate motion - velocity of a point on a rigid plate, v = omega x r
   (midgard.math.plate_motion.PlateMotion.get_velocity, system="trs"), the pole tables of
   midgard.collections.plate_motion_models (regenerated: Gen/C20_Plates.v) and the comparisons of the
   correspondence check. *)
From Coq Require Import ZArith QArith Qabs Bool List String.
From Verif Require Import Lib.Dyadic Model.C20_Units Gen.C20_Plates.
Import ListNotations.
Open Scope Q_scope.

Definition vec : Type := (Q * Q * Q)%type.

(* np.cross(a, b) *)
Definition cross (a b : vec) : vec :=
  let '(a0, a1, a2) := a in let '(b0, b1, b2) := b in
  (a1 * b2 - a2 * b1, a2 * b0 - a0 * b2, a0 * b1 - a1 * b0).

Definition dot (a b : vec) : Q :=
  let '(a0, a1, a2) := a in let '(b0, b1, b2) := b in a0 * b0 + a1 * b1 + a2 * b2.

Definition vscale (k : Q) (a : vec) : vec := let '(a0, a1, a2) := a in (k * a0, k * a1, k * a2).
Definition vadd (a b : vec) : vec :=
  let '(a0, a1, a2) := a in let '(b0, b1, b2) := b in (a0 + b0, a1 + b1, a2 + b2).
Definition veq (a b : vec) : Prop :=
  let '(a0, a1, a2) := a in let '(b0, b1, b2) := b in a0 == b0 /\ a1 == b1 /\ a2 == b2.

(* get_velocity: the pole (in rad/yr) crossed with the position *)
Definition velocity (pole pos : vec) : vec := cross pole pos.

(* ------------------------------------------------------------------ correspondence *)
Fixpoint find_pole (t : list (string * string * string * (Q * Q * Q))) (model plate : string) : option (string * (Q * Q * Q)) :=
  match t with
  | [] => None
  | (m, p, u, w) :: r => if String.eqb m model && String.eqb p plate then Some (u, w) else find_pole r model plate
  end.

Definition dy3_toQ (d : dy * dy * dy) : option vec :=
  let '(a, b, c) := d in
  match dy_toQ a, dy_toQ b, dy_toQ c with
  | Some x, Some y, Some z => Some (x, y, z)
  | _, _, _ => None
  end.

Definition u53 : Q := 1 # 2 ^ 53.

(* a pole component given in milliarcsecond/year, converted to radian/year = table * pi / 648000000 *)
Definition pole_component_ok (tab : Q) (d : dy) : bool :=
  match enclose (tab * mas_q, 1%Z) with
  | Some (lo, hi) => near_interval 4 lo hi d
  | None => false
  end.

Definition norm2 (a : vec) : Q := dot a a.

(* case: (model, plate, pole as returned by get_pole(unit="radian per year"), position, velocity)
   0 = pole = table * (mas -> rad) within 4 ulp, velocity = pole x position (each component within
       4 u (|w_j r_k| + |w_k r_j|) of the exact cross product of the doubles), and on the doubles
       (v.r)^2 <= (8u)^2 |w|^2 |r|^4 and (v.w)^2 <= (8u)^2 |w|^4 |r|^2;
   1 = velocity differs from pole x position;  2 = pole conversion differs from the table;
   3 = plate/model/unit not in the regenerated table;  4 = perpendicularity violated *)
Definition check_plate (c : string * string * (dy * dy * dy) * (dy * dy * dy) * (dy * dy * dy)) : Z :=
  let '(model, plate, w, r, v) := c in
  match find_pole plate_poles model plate, dy3_toQ w, dy3_toQ r, dy3_toQ v with
  | Some (unit, (tx, ty, tz)), Some (wx, wy, wz), Some (rx, ry, rz), Some (vx, vy, vz) =>
      if negb (String.eqb unit "milliarcsecond per year") then 3%Z else
      let '(wdx, wdy, wdz) := w in
      if negb (pole_component_ok tx wdx && pole_component_ok ty wdy && pole_component_ok tz wdz) then 2%Z else
      let '(cx, cy, cz) := cross (wx, wy, wz) (rx, ry, rz) in
      let ex := 4 * u53 * (Qabs (wy * rz) + Qabs (wz * ry)) in
      let ey := 4 * u53 * (Qabs (wz * rx) + Qabs (wx * rz)) in
      let ez := 4 * u53 * (Qabs (wx * ry) + Qabs (wy * rx)) in
      if negb (Qle_bool (Qabs (vx - cx)) ex && Qle_bool (Qabs (vy - cy)) ey && Qle_bool (Qabs (vz - cz)) ez) then 1%Z else
      let W := (wx, wy, wz) in let R := (rx, ry, rz) in let V := (vx, vy, vz) in
      let k := (8 * u53) * (8 * u53) in
      let vr := dot V R in let vw := dot V W in
      if Qle_bool (vr * vr) (k * norm2 W * norm2 R * norm2 R) && Qle_bool (vw * vw) (k * norm2 W * norm2 W * norm2 R)
      then 0%Z else 4%Z
  | None, _, _, _ => 3%Z
  | _, _, _, _ => 1%Z
  end.

(* ------------------------------------------------------------------ Euler pole: spherical <-> cartesian
   PlateMotion.to_cartesian(pole = (lat [deg], lon [deg], omega [deg/Myr])) -> (wx, wy, wz) [mas/yr] and
   PlateMotion.to_spherical, over R (not executable; tied to the code by the round trip on the doubles) *)
From Coq Require Import Reals.
From Verif Require Import Lib.Atan2.
Open Scope R_scope.

Definition deg2rad : R := PI / 180.
Definition rad2deg : R := 180 / PI.
Definition rad2mas : R := 648000000 / PI.
Definition mas2rad : R := PI / 648000000.

Definition to_cartesian (p : R * R * R) : R * R * R :=
  let '(latd, lond, om) := p in
  let lat := latd * deg2rad in let lon := lond * deg2rad in
  let w := om * deg2rad / 1000000 in
  (w * cos lat * cos lon * rad2mas, w * cos lat * sin lon * rad2mas, w * sin lat * rad2mas).

Definition to_spherical (p : R * R * R) : R * R * R :=
  let '(x, y, z) := p in
  let wx := x * mas2rad in let wy := y * mas2rad in let wz := z * mas2rad in
  (atan2 wz (sqrt (wx * wx + wy * wy)) * rad2deg, atan2 wy wx * rad2deg,
   sqrt (wx * wx + wy * wy + wz * wz) * rad2deg * 1000000).
