(* Model/C11_Rinex.v - executable model of midgard's RINEX 2 / RINEX 3 observation parsers
   (rinex2_obs.Rinex2Parser, rinex3_obs.Rinex3Parser on ChainParser.read_data/parse_line).

   The model works on the TEXT of the file (list of lines) and uses the field tables regenerated from the
   source on every run (Gen/C11_Rinex2ObsFields.v, Gen/C11_Rinex3ObsFields.v): label -> (parser name, strip
   mode, fields).  Numbers are exact rationals (Lib/Decimal.parse_float = the exact value of the numeral the
   implementation hands to float()); the correspondence compares them with the implementation's doubles by
   Lib/Dyadic.is_nearest_double.

   quirks: q_blank_dropped = true reproduces the current rinex2_obs behaviour (an all-blank observation line is
   labelled as an epoch line and rejected); false = the specification (a blank line while satellites of the
   epoch are still to be read is an observation line with five absent values).
   No proofs here. *)
From Coq Require Import Ascii String List Bool Arith ZArith QArith Lia.
From Verif Require Import Lib.Text Lib.Decimal Lib.Fixed Lib.Dyadic.
Import ListNotations.
Local Open Scope string_scope.

(* q_century_from_first_obs = true reproduces rinex2_obs taking the century of a two-digit epoch year from TIME OF FIRST OBS;
   false = the specification: RINEX 2.11 rule 80-99 -> 19yy, 00-79 -> 20yy *)
Record quirks := { q_blank_dropped : bool; q_century_from_first_obs : bool }.
Definition spec_q : quirks := {| q_blank_dropped := false; q_century_from_first_obs := false |}.
Definition cent_q : quirks := {| q_blank_dropped := false; q_century_from_first_obs := true |}.
Definition impl_q : quirks := {| q_blank_dropped := true; q_century_from_first_obs := true |}.
Definition year2 (yy : Z) : Z := if (80 <=? yy)%Z then (1900 + yy)%Z else (2000 + yy)%Z.

(* ------------------------------------------------------------------------------------------ small string functions *)
Definition is_alpha (c : ascii) : bool :=
  let n := nat_of_ascii c in (((65 <=? n) && (n <=? 90)) || ((97 <=? n) && (n <=? 122)))%nat.
Definition is_digit (c : ascii) : bool :=
  let n := nat_of_ascii c in ((48 <=? n) && (n <=? 57))%nat.
Definition nonempty_all (p : ascii -> bool) (s : string) : bool :=
  match s with "" => false | _ => all_by p s end.
Definition isalpha := nonempty_all is_alpha.         (* str.isalpha on ASCII *)
Definition isnumeric := nonempty_all is_digit.       (* str.isnumeric / isdigit on ASCII *)
Definition lower_char (c : ascii) : ascii :=
  let n := nat_of_ascii c in if ((65 <=? n) && (n <=? 90))%nat then ascii_of_nat (n + 32) else c.
Fixpoint lower (s : string) : string :=
  match s with "" => "" | String c r => String (lower_char c) (lower r) end.
Definition is_nl (c : ascii) : bool := Ascii.eqb c "010"%char.
Definition strip_nl := strip_by is_nl.               (* .strip("\n") *)

Fixpoint insert_sorted (x : string) (l : list string) : list string :=
  match l with
  | [] => [x]
  | y :: r => if String.leb x y then x :: l else y :: insert_sorted x r
  end.
Definition sort_strings (l : list string) : list string := fold_right insert_sorted [] l.

Fixpoint mem_str (x : string) (l : list string) : bool :=
  match l with [] => false | y :: r => String.eqb x y || mem_str x r end.

Fixpoint assoc {A} (k : string) (l : list (string * A)) : option A :=
  match l with [] => None | (k', v) :: r => if String.eqb k' k then Some v else assoc k r end.
Fixpoint assoc_set {A} (k : string) (v : A) (l : list (string * A)) : list (string * A) :=
  match l with
  | [] => [(k, v)]
  | (k', v') :: r => if String.eqb k' k then (k, v) :: r else (k', v') :: assoc_set k v r
  end.
Fixpoint assoc_del {A} (k : string) (l : list (string * A)) : list (string * A) :=
  match l with
  | [] => []
  | (k', v') :: r => if String.eqb k' k then r else (k', v') :: assoc_del k r
  end.
Fixpoint remove_first (x : string) (l : list string) : list string :=
  match l with [] => [] | y :: r => if String.eqb x y then r else y :: remove_first x r end.

(* ------------------------------------------------------------------------------------------ tables (shape of Gen files) *)
(* one entry of parser_def: label, name of the parser method, strip mode (true = .strip("\n"), false = .strip()), fields *)
Definition table_row : Type := (string * string * bool * list fieldspec)%type.
Definition table := list table_row.

Fixpoint table_find (lbl : string) (t : table) : option (string * bool * list fieldspec) :=
  match t with
  | [] => None
  | (l, p, s, f) :: r => if String.eqb l lbl then Some (p, s, f) else table_find lbl r
  end.

(* ChainParser.parse_line, dict-type fields *)
Definition fields_of (nl : bool) (fs : list fieldspec) (line : string) : list (string * string) :=
  if nl then parse_record_by is_nl fs line else parse_record fs line.

Definition names_with_prefix (p : string) (vals : list (string * string)) : list string :=
  sort_strings (filter (startswith p) (map fst vals)).

(* ------------------------------------------------------------------------------------------ values *)
(* rinex*_obs._float: None = raises; Some None = NaN (absent) *)
Definition float_nan (s : string) : option (option Q) :=
  if isspace s || String.eqb s "" then Some None
  else match parse_float s with
       | Some q => Some (if Qeq_bool q 0 then None else Some q)
       | None => None
       end.

Definition cellv : Type := (option Q * option Q * option Q)%type.
Definition absent : cellv := (None, None, None).

(* one 16-character observation field (after ljust(16)) *)
Definition parse_cell (f : string) : option cellv :=
  match float_nan (slice 0 14 f), float_nan (slice 14 15 f), float_nan (slice 15 16 f) with
  | Some a, Some b, Some c => Some (a, b, c)
  | _, _, _ => None
  end.

Fixpoint opt_all {A} (l : list (option A)) : option (list A) :=
  match l with
  | [] => Some []
  | None :: _ => None
  | Some x :: r => match opt_all r with Some r' => Some (x :: r') | None => None end
  end.

(* rinex3: for idx, obs_type in zip(range(0, 16*n, 16), types): value = obs[idx:idx+16] *)
Definition v3_cells (n : nat) (obs : string) : option (list cellv) :=
  let l := ljust (16 * n) obs in
  opt_all (map (fun k => parse_cell (slice (16 * k) (16 * k + 16) l)) (seq 0 n)).

(* rinex2: the obs_* fields of one line, each ljust(16) *)
Definition v2_line_cells (vals : list (string * string)) : option (list cellv) :=
  opt_all (map (fun nm => parse_cell (ljust 16 (lookup nm vals))) (names_with_prefix "obs_" vals)).

(* ------------------------------------------------------------------------------------------ meta *)
Inductive mval :=
| MStr (s : string)
| MNum (q : Q)
| MInt (z : Z)
| MList (l : list string)
| MTypes (l : list (string * list string))      (* meta["obstypes"] *)
| MSDict (l : list (string * string)).          (* meta["leap_seconds"] *)

Record row := {
  r_time : string; r_flag : Z; r_clk : option Q; r_station : string; r_sys : string; r_sat : string;
  r_satnum_s : string; r_satnum_z : Z;
  r_vals : list (string * cellv)
}.

Record st := {
  meta : list (string * mval);
  pos : option (Q * Q * Q);
  types_all : list string;            (* v3 obstypes_all; v2 meta["obstypes"] (list) *)
  num_types : option Z;               (* v2 meta["num_obstypes"] *)
  sys_types : list (string * list string);   (* v3 meta["obstypes"] *)
  hsys : option string;               (* header cache["sys"] *)
  rows : list row                     (* reversed *)
}.
Definition st0 : st := {| meta := []; pos := None; types_all := []; num_types := None; sys_types := []; hsys := None; rows := [] |}.
Definition set_meta (m : list (string * mval)) (s : st) : st :=
  {| meta := m; pos := pos s; types_all := types_all s; num_types := num_types s; sys_types := sys_types s; hsys := hsys s; rows := rows s |}.

Definition meta_str (k : string) (s : st) : option string :=
  match assoc k (meta s) with Some (MStr x) => Some x | _ => None end.

Fixpoint update_strs (vals : list (string * string)) (m : list (string * mval)) : list (string * mval) :=
  match vals with [] => m | (k, v) :: r => update_strs r (assoc_set k (MStr v) m) end.

Fixpoint update_floats (vals : list (string * string)) (m : list (string * mval)) : option (list (string * mval)) :=
  match vals with
  | [] => Some m
  | (k, v) :: r => match parse_float v with Some q => update_floats r (assoc_set k (MNum q) m) | None => None end
  end.
Fixpoint update_ints (vals : list (string * string)) (m : list (string * mval)) : option (list (string * mval)) :=
  match vals with
  | [] => Some m
  | (k, v) :: r => match parse_int v with Some z => update_ints r (assoc_set k (MInt z) m) | None => None end
  end.

(* "{:02d}" for non-negative numbers *)
Definition d2 (z : Z) : string := zfill 2 (render_nat z).
(* "{second:010.7f}" of the double nearest to q; for numerals with at most 7 decimals this is q itself *)
Definition sec_text (q : Q) : string :=
  let x := (q * inject_Z (10 ^ 7))%Q in
  let m := ((Qnum x * 2 + Zpos (Qden x)) / (2 * Zpos (Qden x)))%Z in
  zfill 10 (render_F_raw 7 m).
Definition time_text (y mo d h mi : Z) (sec : Q) : string :=
  render_int 0 y ++ "-" ++ d2 mo ++ "-" ++ d2 d ++ "T" ++ d2 h ++ ":" ++ d2 mi ++ ":" ++ sec_text sec.

Definition time_of (vals : list (string * string)) (year : Z) : option (string * Q) :=
  match parse_int (lookup "month" vals), parse_int (lookup "day" vals), parse_int (lookup "hour" vals),
        parse_int (lookup "minute" vals), parse_float (lookup "second" vals) with
  | Some mo, Some d, Some h, Some mi, Some sec =>
      Some (time_text year mo d h mi sec, (inject_Z (h * 3600 + mi * 60) + sec)%Q)
  | _, _, _, _, _ => None
  end.

(* ------------------------------------------------------------------------------------------ header parsers *)
Definition h_time (key : string) (v3first : bool) (vals : list (string * string)) (s : st) : option st :=
  let ts := lookup "time_sys" vals in
  if negb (String.eqb ts "GPS") then None            (* log.fatal *)
  else
    let m1 := assoc_set "time_sys" (MStr ts) (meta s) in
    if String.eqb (lookup "year" vals) "" then Some (set_meta m1 s)
    else match parse_int (lookup "year" vals) with
         | Some y => match time_of vals y with
                     | Some (t, _) => Some (set_meta (assoc_set key (MStr t) m1) s)
                     | None => None
                     end
         | None => None
         end.

Fixpoint add_types (names : list string) (vals : list (string * string)) (acc : list string) : list string :=
  match names with
  | [] => acc
  | nm :: r => let v := lookup nm vals in add_types r vals (if String.eqb v "" then acc else (acc ++ [v])%list)
  end.
Fixpoint add_all (ts : list string) (all : list string) : list string :=
  match ts with [] => all | t :: r => add_all r (if mem_str t all then all else (all ++ [t])%list) end.

Definition h_types_v2 (vals : list (string * string)) (s : st) : option st :=
  let n := lookup "num_obstypes" vals in
  let base := if String.eqb n "" then Some (num_types s, types_all s, negb (match num_types s with None => true | _ => false end))
              else match parse_int n with Some z => Some (Some z, [], true) | None => None end in
  match base with
  | Some (nt, ts, have) =>
      let new := add_types (names_with_prefix "type_" vals) vals [] in
      if negb have && negb (match new with [] => true | _ => false end) then None     (* meta["obstypes"] KeyError *)
      else Some {| meta := meta s; pos := pos s; types_all := (ts ++ new)%list; num_types := nt; sys_types := sys_types s;
                   hsys := hsys s; rows := rows s |}
  | None => None
  end.

Definition h_types_v3 (vals : list (string * string)) (s : st) : option st :=
  let sy := lookup "satellite_sys" vals in
  let cur := if String.eqb sy "" then hsys s else Some sy in
  let fresh := negb (String.eqb sy "") in
  let new := add_types (names_with_prefix "type_" vals) vals [] in
  match new, cur with
  | [], _ => Some {| meta := meta s; pos := pos s; types_all := types_all s; num_types := num_types s;
                     sys_types := sys_types s; hsys := cur; rows := rows s |}
  | _, None => None
  | _, Some c =>
      let old := if fresh then [] else match assoc c (sys_types s) with Some l => l | None => [] end in
      Some {| meta := meta s; pos := pos s; types_all := add_all new (types_all s); num_types := num_types s;
              sys_types := assoc_set c (old ++ new)%list (sys_types s); hsys := cur; rows := rows s |}
  end.

Definition header_record (pname : string) (vals : list (string * string)) (s : st) : option st :=
  if String.eqb pname "_parse_string" then Some (set_meta (update_strs vals (meta s)) s)
  else if String.eqb pname "_parse_rinex_version_type" then
    let m := update_strs vals (meta s) in
    Some (set_meta (match assoc "sat_sys" m with Some (MStr "") => assoc_set "sat_sys" (MStr "G") m | _ => m end) s)
  else if String.eqb pname "_parse_comment" then
    let old := match assoc "comment" (meta s) with Some (MList l) => l | _ => [] end in
    Some (set_meta (assoc_set "comment" (MList (old ++ [lookup "comment" vals])%list) (meta s)) s)
  else if String.eqb pname "_parse_float" then
    match update_floats vals (meta s) with Some m => Some (set_meta m s) | None => None end
  else if String.eqb pname "_parse_integer" then
    match update_ints vals (meta s) with Some m => Some (set_meta m s) | None => None end
  else if String.eqb pname "_parse_approx_position" then
    match parse_float (lookup "pos_x" vals), parse_float (lookup "pos_y" vals), parse_float (lookup "pos_z" vals),
          update_floats vals (meta s) with
    | Some x, Some y, Some z, Some m =>
        Some {| meta := m; pos := Some (x, y, z); types_all := types_all s; num_types := num_types s;
                sys_types := sys_types s; hsys := hsys s; rows := rows s |}
    | _, _, _, _ => None
    end
  else if String.eqb pname "_parse_leap_seconds" then
    let old := match assoc "leap_seconds" (meta s) with Some (MSDict l) => l | _ => [] end in
    Some (set_meta (assoc_set "leap_seconds" (MSDict (fold_left (fun acc kv => assoc_set (fst kv) (snd kv) acc) vals old)) (meta s)) s)
  else if String.eqb pname "_parse_time_of_first_obs" then h_time "time_first_obs" true vals s
  else if String.eqb pname "_parse_time_of_last_obs" then h_time "time_last_obs" false vals s
  else if String.eqb pname "_parse_types_of_observ" then h_types_v2 vals s
  else if String.eqb pname "_parse_sys_obs_types" then h_types_v3 vals s
  else Some s.          (* records outside the model (wavelength factors, phase shifts, GLONASS slots, DCBs): not observed *)

Definition header_line (t : table) (line : string) (s : st) : option st :=
  let l := rstrip line in
  match table_find (strip (drop 60 l)) t with
  | Some (p, nl, fs) => header_record p (fields_of nl fs l) s
  | None => Some s
  end.

Definition is_end_of_header (line : string) : bool := String.eqb (slice 60 73 (rstrip line)) "END OF HEADER".

(* the header group: lines up to and including END OF HEADER; returns the state and the remaining lines *)
Fixpoint run_header (t : table) (lines : list string) (s : st) : option (st * list string) :=
  match lines with
  | [] => Some (s, [])
  | l :: r => match header_line t l s with
              | Some s' => if is_end_of_header l then Some (s', r) else run_header t r s'
              | None => None
              end
  end.

(* ------------------------------------------------------------------------------------------ observation groups *)
Record einfo := { e_time : string; e_sec : option Q; e_flag : Z; e_clk : option Q; e_num_sat : Z }.
Record cache := { c_epoch : option einfo; c_sats : option (list string); c_len : nat; c_acc : list cellv }.
Definition cache0 : cache := {| c_epoch := None; c_sats := None; c_len := 0; c_acc := [] |}.

(* cache["obs_sec"] % sampling_rate != 0  (exact arithmetic) *)
Definition on_grid (rate : option Q) (sec : Q) : bool :=
  match rate with
  | None => true
  | Some r => if Qeq_bool r 0 then true
              else let x := (sec / r)%Q in Z.eqb (Qnum x mod Zpos (Qden x)) 0
  end.

Definition char_at (i : nat) (s : string) : string := slice i (i + 1) s.

(* ---- RINEX 2 *)
Definition v2_label (line : string) : bool :=
  (String.eqb (char_at 10 line) "." || isspace (slice 0 16 line))
  && negb (isalpha (char_at 32 line))
  && negb (isnumeric (char_at 34 line) && isspace (char_at 35 line))
  && negb (isalpha (char_at 60 line)).

Definition v2_end_marker (next_line : string) : bool :=
  isnumeric (char_at 2 next_line) && isspace (char_at 3 next_line).

Definition fix_sat (sat : string) : option string :=
  match sat with
  | String a (String b (String c "")) =>
      Some (String (if Ascii.eqb a " " then "G"%char else a) (String (if Ascii.eqb b " " then "0"%char else b) (String c "")))
  | _ => None
  end.

Fixpoint sat_loop (fuel : nat) (s : string) (acc : list string) : option (list string) :=
  match fuel with
  | O => Some acc
  | S f => match s with
           | "" => Some acc
           | _ => let sat := rstrip (take 3 s) in
                  if String.eqb sat "" then sat_loop f (drop 3 s) acc
                  else match fix_sat sat with
                       | Some x => sat_loop f (drop 3 s) (acc ++ [x])%list
                       | None => None
                       end
           end
  end.

Definition v2_obs (nl : bool) (vals : list (string * string)) (s : st) (c : cache) : option (st * cache) :=
  match c_epoch c with
  | None => None                                        (* KeyError 'obs_sec' *)
  | Some e =>
      match e_sec e with
      | None => Some (s, c)
      | Some _ =>
          if negb (Z.eqb (e_num_sat e) (Z.of_nat (c_len c))) then None     (* log.fatal *)
          else match v2_line_cells vals, num_types s with
               | Some cells, Some n =>
                   let acc := (c_acc c ++ cells)%list in
                   if (n <=? Z.of_nat (List.length acc))%Z then
                     match c_sats c with
                     | Some (sat :: rest) =>
                         match parse_int (drop 1 sat), meta_str "marker_name" s with
                         | Some num, Some mk =>
                             let r := {| r_time := e_time e; r_flag := e_flag e; r_clk := e_clk e; r_station := lower mk;
                                         r_sys := take 1 sat; r_sat := sat; r_satnum_s := ""; r_satnum_z := num;
                                         r_vals := combine (types_all s) acc |} in
                             Some ({| meta := meta s; pos := pos s; types_all := types_all s; num_types := num_types s;
                                      sys_types := sys_types s; hsys := hsys s; rows := r :: rows s |},
                                   {| c_epoch := c_epoch c; c_sats := Some rest; c_len := c_len c; c_acc := [] |})
                         | _, _ => None
                         end
                     | _ => None                         (* pop from empty list *)
                     end
                   else Some (s, {| c_epoch := c_epoch c; c_sats := c_sats c; c_len := c_len c; c_acc := acc |})
               | _, _ => None
               end
      end
  end.

Definition empty_obs_vals (fs : list fieldspec) : list (string * string) := map (fun f => (fname f, "")) fs.

Definition v2_epoch (q : quirks) (rate : option Q) (obs_fields : list fieldspec)
           (vals : list (string * string)) (s : st) (c : cache) : option (st * cache) :=
  let year := strip (lookup "year" vals) in
  let sl := lookup "sat_list" vals in
  if negb (isnumeric year) && String.eqb sl "" then
    (* "Reject empty lines" *)
    if q_blank_dropped q then Some (s, c)
    else match c_sats c with
         | Some (_ :: _) => v2_obs true (empty_obs_vals obs_fields) s c
         | _ => Some (s, c)
         end
  else if isalpha (char_at 28 sl) then Some (s, c)
  else
    let flag := lookup "epoch_flag" vals in
    let step1 : option cache :=
      if String.eqb year "" then Some c
      else match meta_str "time_first_obs" s with
           | None => None
           | Some tf =>
               let first_year := take 4 tf in
               (* a TIME OF LAST OBS in another year only produces a log message (midgard's log.fatal does not stop) *)
               match (if q_century_from_first_obs q then parse_int (take 2 first_year ++ zfill 2 year)
                      else match parse_int year with Some yy => Some (year2 yy) | None => None end) with
                    | Some y =>
                        match time_of vals y, parse_int flag, float_nan (lookup "rcv_clk_offset" vals),
                              parse_int (lookup "num_sat" vals) with
                        | Some (t, sec), Some fl, Some clk, Some ns =>
                            Some {| c_epoch := Some {| e_time := t; e_sec := if on_grid rate sec then Some sec else None;
                                                       e_flag := fl; e_clk := clk; e_num_sat := ns |};
                                    c_sats := Some []; c_len := c_len c; c_acc := c_acc c |}
                        | _, _, _, _ => None
                        end
                    | None => None
                    end
           end in
    match step1 with
    | None => None
    | Some c1 =>
        if negb (String.eqb (strip flag) "0") && negb (String.eqb (strip flag) "") then None
        else match c_sats c1 with
             | None => None                                (* KeyError 'sat_list' *)
             | Some l0 =>
                 match sat_loop (S (len sl)) sl l0 with
                 | Some l1 => Some (s, {| c_epoch := c_epoch c1; c_sats := Some l1; c_len := List.length l1; c_acc := c_acc c1 |})
                 | None => None
                 end
             end
    end.

Definition v2_line (q : quirks) (rate : option Q) (t : table) (line : string) (s : st) (c : cache) : option (st * cache) :=
  let l := rstrip line in
  match table_find "True" t, table_find "False" t with
  | Some (_, nlT, fT), Some (_, nlF, fF) =>
      if v2_label l then v2_obs nlT (fields_of nlT fT l) s c
      else v2_epoch q rate fT (fields_of nlF fF l) s c
  | _, _ => None
  end.

(* ---- RINEX 3 *)
Definition v3_label (line : string) : bool :=
  isalpha (char_at 0 line) && negb (startswith ">" line) && negb (isalpha (char_at 60 line)).
Definition v3_end_marker (next_line : string) : bool := startswith ">" next_line.

Definition v3_epoch (rate : option Q) (vals : list (string * string)) (s : st) (c : cache) : option (st * cache) :=
  let year := lookup "year" vals in
  if negb (isnumeric year) then Some (s, c)
  else if isalpha (char_at 0 (lookup "comment" vals)) then Some (s, c)
  else match parse_int year with
       | None => None
       | Some y =>
           let flag := lookup "epoch_flag" vals in
           match time_of vals y, parse_int flag, float_nan (lookup "rcv_clk_offset" vals) with
           | Some (t, sec), Some fl, Some clk =>
               if negb (String.eqb (strip flag) "0") then None
               else Some (s, {| c_epoch := Some {| e_time := t; e_sec := if on_grid rate sec then Some sec else None;
                                                   e_flag := fl; e_clk := clk; e_num_sat := 0 |};
                                c_sats := c_sats c; c_len := c_len c; c_acc := c_acc c |})
           | _, _, _ => None
           end
       end.

Definition v3_obs (vals : list (string * string)) (s : st) (c : cache) : option (st * cache) :=
  match c_epoch c with
  | None => None
  | Some e =>
      match e_sec e with
      | None => Some (s, c)
      | Some _ =>
          let sat := lookup "sat" vals in
          let sy := take 1 sat in
          match assoc sy (sys_types s), meta_str "marker_name" s with
          | Some ts, Some mk =>
              match v3_cells (List.length ts) (lookup "obs" vals) with
              | Some cells =>
                  let unused := filter (fun t => negb (mem_str t ts)) (types_all s) in
                  let r := {| r_time := e_time e; r_flag := e_flag e; r_clk := e_clk e; r_station := lower mk;
                              r_sys := sy; r_sat := sat; r_satnum_s := slice 1 3 sat; r_satnum_z := 0;
                              r_vals := (combine ts cells ++ map (fun t => (t, absent)) unused)%list |} in
                  Some ({| meta := meta s; pos := pos s; types_all := types_all s; num_types := num_types s;
                           sys_types := sys_types s; hsys := hsys s; rows := r :: rows s |}, c)
              | None => None
              end
          | _, _ => None
          end
      end
  end.

Definition v3_line (rate : option Q) (t : table) (line : string) (s : st) (c : cache) : option (st * cache) :=
  let l := rstrip line in
  match table_find "True" t, table_find "False" t with
  | Some (_, nlT, fT), Some (_, nlF, fF) =>
      if v3_label l then v3_obs (fields_of nlT fT l) s c
      else v3_epoch rate (fields_of nlF fF l) s c
  | _, _ => None
  end.

(* ChainParser.read_data after the header: itertools.repeat(obs_parser); the cache is reset when end_marker(next raw line) *)
Fixpoint run_obs (step : string -> st -> cache -> option (st * cache)) (endm : string -> bool)
         (lines : list string) (s : st) (c : cache) : option st :=
  match lines with
  | [] => Some s
  | l :: r =>
      match step l s c with
      | None => None
      | Some (s', c') =>
          match r with
          | [] => Some s'
          | nxt :: _ => run_obs step endm r s' (if endm (nxt ++ String "010"%char "") then cache0 else c')
          end
      end
  end.

(* ------------------------------------------------------------------------------------------ post-processors, result *)
Record result := {
  o_meta : list (string * mval);
  o_pos : option (Q * Q * Q);
  o_rows : list row;                                     (* file order *)
  o_obs : list (string * list cellv)                     (* data["obs"/"cycle_slip"/"signal_strength"], key order of the dict *)
}.

Definition cell_of (t : string) (r : row) : cellv := match assoc t (r_vals r) with Some c => c | None => absent end.
Definition column (t : string) (rs : list row) : list cellv := map (cell_of t) rs.
Definition has_value (col : list cellv) : bool := existsb (fun c => match c with (Some _, _, _) => true | _ => false end) col.
Fixpoint dedup (l : list string) : list string :=
  match l with [] => [] | x :: r => if mem_str x r then dedup r else x :: dedup r end.
Fixpoint dedup_first (seen l : list string) : list string :=
  match l with [] => [] | x :: r => if mem_str x seen then dedup_first seen r else x :: dedup_first (x :: seen) r end.

Definition finish_v2 (s : st) : option result :=
  let rs := rev (rows s) in
  match rs, meta_str "time_sys" s with
  | [], _ => None                                         (* KeyError 'text' in _get_obstypes_dict *)
  | _, None => None                                       (* KeyError 'time_sys' in _time_system_correction *)
  | _, Some _ =>
      let keys := dedup_first [] (types_all s) in
      let kept := filter (fun t => has_value (column t rs)) keys in
      let removed := filter (fun t => negb (has_value (column t rs))) keys in
      let tl := fold_left (fun acc t => remove_first t acc) removed (types_all s) in
      let systems := dedup_first [] (map r_sys rs) in
      let m := assoc_set "obstypes" (MTypes (match tl with [] => [] | _ => map (fun sy => (sy, tl)) systems end)) (meta s) in
      Some {| o_meta := m; o_pos := pos s; o_rows := rs; o_obs := map (fun t => (t, column t rs)) kept |}
  end.

Definition finish_v3 (s : st) : option result :=
  let rs := rev (rows s) in
  match rs, meta_str "time_sys" s with
  | [], _ => None
  | _, None => None                                       (* KeyError 'time_sys' in _time_system_correction *)
  | _, Some _ =>
      let systems := map r_sys rs in
      let st1 := filter (fun kv => mem_str (fst kv) systems) (sys_types s) in
      let keys := types_all s in
      let kept := filter (fun t => has_value (column t rs)) keys in
      let sys_ok sy t := has_value (column t (filter (fun r => String.eqb (r_sys r) sy) rs)) in
      let st2 := map (fun kv => (fst kv, filter (sys_ok (fst kv)) (snd kv))) st1 in
      let m := assoc_set "obstypes" (MTypes st2) (meta s) in
      Some {| o_meta := m; o_pos := pos s; o_rows := rs; o_obs := map (fun t => (t, column t rs)) kept |}
  end.

Definition parse_v2 (q : quirks) (th tobs : table) (rate : option Q) (lines : list string) : option result :=
  match run_header th lines st0 with
  | Some (s, rest) =>
      match run_obs (v2_line q rate tobs) v2_end_marker rest s cache0 with
      | Some s' => finish_v2 s'
      | None => None
      end
  | None => None
  end.

Definition parse_v3 (th tobs : table) (rate : option Q) (lines : list string) : option result :=
  match run_header th lines st0 with
  | Some (s, rest) =>
      match run_obs (v3_line rate tobs) v3_end_marker rest s cache0 with
      | Some s' => finish_v3 s'
      | None => None
      end
  | None => None
  end.
