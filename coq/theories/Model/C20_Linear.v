(* C20 / interpolation - midgard.math.interpolation.linear = scipy.interpolate.interp1d(x, y, kind="linear", axis=0)
   over Q on pairwise different abscissae (n >= 2): argsort of the samples, segment hi = searchsorted(x, t) clipped
   to [1, n-1], y_lo + (y_hi - y_lo) / (x_hi - x_lo) * (t - x_lo); outside [x_min, x_max]: ValueError (default),
   NaN (bounds_error=False) or the end segment continued (fill_value="extrapolate").
   Domain of the model: at least two samples with pairwise different abscissae (interp1d does not check this;
   on other input the model answers LRaise and is not compared). *)
From Coq Require Import ZArith QArith Qabs Bool List Lia.
From Verif Require Import Lib.Dyadic Model.C20_Lagrange.
Import ListNotations.
Open Scope Q_scope.

Inductive fill := FRaise | FNan | FExtrapolate.
Inductive lres (A : Type) := LVal (v : A) | LNan | LRaise.
Arguments LVal {A} v.
Arguments LNan {A}.
Arguments LRaise {A}.

(* the segment used for t on sorted samples: the first one whose right end is >= t, else the last one *)
Fixpoint seg {V : Type} (l : list (Q * V)) (t : Q) : option ((Q * V) * (Q * V)) :=
  match l with
  | a :: r =>
      match r with
      | b :: r' => if Qle_bool t (fst b) then Some (a, b)
                   else match r' with [] => Some (a, b) | _ :: _ => seg r t end
      | [] => None
      end
  | [] => None
  end.

Definition linear_sel {V : Type} (f : fill) (pts : list (Q * V)) (t : Q) : lres ((Q * V) * (Q * V)) :=
  let sp := sort_pts pts in
  let xs := map fst sp in
  if (length xs <? 2)%nat || negb (strictly_increasing xs) then LRaise
  else
    let outside := Qlt_b t (hd 0 xs) || Qlt_b (last xs 0) t in
    match f, outside with
    | FRaise, true => LRaise
    | FNan, true => LNan
    | _, _ => match seg sp t with Some s => LVal s | None => LRaise end
    end.

Definition lin1 (a b : Q * Q) (t : Q) : Q := snd a + (snd b - snd a) / (fst b - fst a) * (t - fst a).

Fixpoint map2q (f : Q -> Q -> Q) (a b : list Q) : list Q :=
  match a, b with x :: a', y :: b' => f x y :: map2q f a' b' | _, _ => [] end.

(* n-d data: slope[:, None] * (t - x_lo) + y_lo, row-wise *)
Definition lin_row (a b : Q * list Q) (t : Q) : list Q :=
  map2q (fun ya yb => ya + (yb - ya) / (fst b - fst a) * (t - fst a)) (snd a) (snd b).

Definition lres_map {A B : Type} (g : A -> B) (r : lres A) : lres B :=
  match r with LVal v => LVal (g v) | LNan => LNan | LRaise => LRaise end.

Definition linear1 (f : fill) (pts : list (Q * Q)) (t : Q) : lres Q :=
  lres_map (fun s => lin1 (fst s) (snd s) t) (linear_sel f pts t).

Definition linear_nd (f : fill) (pts : list (Q * list Q)) (t : Q) : lres (list Q) :=
  lres_map (fun s => lin_row (fst s) (snd s) t) (linear_sel f pts t).

(* ------------------------------------------------------------------ correspondence *)
(* case: (fill code 0 = default / 1 = bounds_error False / 2 = fill_value "extrapolate", samples (x, row), x_new,
          Some row of doubles | None = ValueError); NaN entries = DNaN.
   0 = same outcome and every column within 2^-49 (|y_lo| (|1 - w| + 1) + |y_hi| (|w| + 1)) of the exact value,
       w = (t - x_lo) / (x_hi - x_lo): the conditioning of the affine combination, whichever way it is evaluated
       (slope form or weighted form; inside the range this is at most 2^-48 (|y_lo| + |y_hi|));
   1 = values differ; 5 = different outcome (raise / NaN / value); 3 = outside the domain of the model *)
Definition check_linear (c : Z * list (dy * list dy) * dy * option (list dy)) : Z :=
  let '(fc, pts, t, res) := c in
  let f := if (fc =? 0)%Z then FRaise else if (fc =? 1)%Z then FNan else FExtrapolate in
  match pts_toQ pts, dy_toQ t with
  | Some qpts, Some tq =>
      if (length qpts <? 2)%nat || negb (strictly_increasing (map fst (sort_pts qpts))) then 3%Z else
      match linear_sel f qpts tq, res with
      | LRaise, None => 0%Z
      | LNan, Some r => if forallb is_nan r && negb (length r =? 0)%nat then 0%Z else 5%Z
      | LVal (a, b), Some r =>
          let m := lin_row a b tq in
          let w := (tq - fst a) / (fst b - fst a) in
          if negb (length m =? length r)%nat then 1%Z else
          let tols := map2q (fun ya yb => (1 # 2 ^ 49) * (Qabs ya * (Qabs (1 - w) + 1) + Qabs yb * (Qabs w + 1)) + lag_abs) (snd a) (snd b) in
          if forallb (fun p => within (snd (fst p)) (Qred (fst (fst p))) (snd p)) (combine (combine m tols) r) then 0%Z else 1%Z
      | _, _ => 5%Z
      end
  | _, _ => 1%Z
  end.
