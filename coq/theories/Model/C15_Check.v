(* C15 - the correspondence checks instantiated with the label/field table regenerated from the source *)
From Coq Require Import ZArith QArith Qabs List Bool String.
From Verif Require Import Lib.Dyadic Lib.Text Model.C15_Antex Gen.C15_AntexFields.

Definition check_file := check_with antex_corr_table.
Definition check_truth := truth_with antex_corr_table.

(* ---------------------------------------------------------------- well-formedness of the regenerated definitions *)
Import ListNotations.
Local Open Scope string_scope.

Definition lambdas_probe_ok : bool :=
  forallb (fun p => String.eqb (label_of (rstrip (fst p))) (snd p)) antex_label_probes
  && forallb (fun p => Bool.eqb (is_end_of_antenna (rstrip (fst p))) (snd p)) antex_end_probes
  && forallb (fun p => Bool.eqb (is_end_of_header (rstrip (fst p))) (snd p)) antex_header_end_probes
  && forallb (fun p => Bool.eqb (String.eqb (rstrip (fst p)) "") (snd p)) antex_skip_probes.

Definition fields_wf : bool :=
  table_covers antex_corr_table std_table
  && match antex_unmodelled with [] => true | _ => false end
  && Qle_bool (Qabs (antex_mm2m - mm2m)) (pow2Q (-63)).
