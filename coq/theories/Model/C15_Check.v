(* C15 - the correspondence checks instantiated with the label/field table regenerated from the source *)
From Coq Require Import ZArith QArith List String.
From Verif Require Import Lib.Dyadic Model.C15_Antex Gen.C15_AntexFields.

Definition check_file := check_with antex_corr_table.
Definition check_truth := truth_with antex_corr_table.
