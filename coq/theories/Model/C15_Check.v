(* C15 - the correspondence checks instantiated with the label/field table regenerated from the source *)
From Coq Require Import ZArith QArith Qabs List Bool String.
From Verif Require Import Lib.Dyadic Lib.Text Model.C15_Antex Gen.C15_AntexFields.

Definition check_file := check_with antex_corr_table.
Definition check_truth := truth_with antex_corr_table.

(* ---------------------------------------------------------------- well-formedness of the regenerated definitions *)
Import ListNotations.
Local Open Scope string_scope.

Definition slot_contains (g s : nat * option nat) : bool :=
  Nat.leb (fst g) (fst s) &&
  match snd g, snd s with
  | None, _ => true
  | Some b', Some b => Nat.leb b b'
  | Some _, None => false
  end.

Definition slot_disjoint (g s : nat * option nat) : bool :=
  match snd g, snd s with
  | Some b', Some b => Nat.leb b' (fst s) || Nat.leb b (fst g)
  | None, Some b => Nat.leb b (fst g)
  | Some b', None => Nat.leb b' (fst s)
  | None, None => false
  end.

(* the regenerated slot of every field contains the standard's columns of that field, touches no other field of the
   record and ends before the label column *)
Definition fields_cover (gen std : list fieldspec) : bool :=
  Nat.eqb (List.length gen) (List.length std) &&
  forallb (fun sf =>
    match assoc (fst sf) gen with
    | None => false
    | Some g => slot_contains g (snd sf)
                && match snd g, snd (snd sf) with Some b', Some _ => Nat.leb b' 60 | _, _ => true end
                && forallb (fun other => String.eqb (fst other) (fst sf) || slot_disjoint g (snd other)) std
    end) std.

Definition table_covers (gen std : table) : bool :=
  Nat.eqb (List.length gen) (List.length std) &&
  forallb (fun s =>
    match assoc (fst s) gen with
    | None => false
    | Some (pname, fields) => String.eqb pname (fst (snd s)) && fields_cover fields (snd (snd s))
    end) std.

Definition lambdas_probe_ok : bool :=
  forallb (fun p => String.eqb (label_of (rstrip (fst p))) (snd p)) antex_label_probes
  && forallb (fun p => Bool.eqb (is_end_of_antenna (rstrip (fst p))) (snd p)) antex_end_probes
  && forallb (fun p => Bool.eqb (is_end_of_header (rstrip (fst p))) (snd p)) antex_header_end_probes
  && forallb (fun p => Bool.eqb (String.eqb (rstrip (fst p)) "") (snd p)) antex_skip_probes.

Definition fields_wf : bool :=
  table_covers antex_corr_table std_table
  && match antex_unmodelled with [] => true | _ => false end
  && Qle_bool (Qabs (antex_mm2m - mm2m)) (pow2Q (-63)).
