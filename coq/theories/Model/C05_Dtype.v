(* C05 - inputs of other dtypes / containers (int64, int32, float32 arrays, nested Python lists): the result must be the very
   doubles of the float64 run on the same values.  18 = some double differs. *)
From Coq Require Import ZArith List Bool.
From Verif Require Import Lib.Dyadic.
Import ListNotations.

Fixpoint dys_same (a b : list dy) : bool :=
  match a, b with
  | [], [] => true
  | x :: a', y :: b' => dy_eqb x y && dys_same a' b'
  | _, _ => false
  end.

Definition check_same (c : list dy * list dy) : Z :=
  let '(a, b) := c in if dys_same a b then 0%Z else 18%Z.
