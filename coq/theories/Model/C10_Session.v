(* C10 (c) - history independence: decoding an attribute and reading a file are functions of the attribute text /
   the file only.  In Gallina `decode` and `read` are functions, so the statement needs an explicit model of what
   could go wrong: a session of operations on the codec with a mutable memo of parsed attribute texts.

     SDec e       the caller decodes the stored attribute e and keeps the resulting object
     SMut e t'    the caller changes IN PLACE the object it got from its last decode of e; the object is now t'

   memo = false : specification - every decode builds a new object
   memo = true  : parsed container attributes are kept and handed out again (e.g. functools.lru_cache on the
                  parser): the caller's object IS the kept object, so SMut changes what later decodes return. *)
From Coq Require Import ZArith List Bool String Ascii.
From Verif Require Import Lib.Dyadic Model.C10_Attr Model.C10_File.
Import ListNotations.
Open Scope Z_scope.

Inductive sop := SDec (e : enc) | SMut (e : enc) (t' : tree).

(* only container attributes go through the parser; the key is the attribute text *)
Definition key (e : enc) : option text :=
  match e with ETag k ts => Some (tag_text k ++ la " " ++ render_toks ts) | _ => None end.

Fixpoint kfind (k : text) (st : list (text * tree)) : option tree :=
  match st with
  | [] => None
  | (k', t) :: r => if text_eqb k k' then Some t else kfind k r
  end.

Fixpoint srun (q memo : bool) (st : list (text * tree)) (ops : list sop) : list (option tree) :=
  match ops with
  | [] => []
  | SDec e :: r =>
      match (if memo then key e else None) with
      | Some k => match kfind k st with
                  | Some t => Some t :: srun q memo st r
                  | None => match decode q e with
                            | Some t => Some t :: srun q memo ((k, t) :: st) r
                            | None => None :: srun q memo st r
                            end
                  end
      | None => decode q e :: srun q memo st r
      end
  | SMut e t' :: r =>
      match (if memo then key e else None) with
      | Some k => srun q memo ((k, t') :: st) r
      | None => srun q memo st r
      end
  end.

Fixpoint decs (ops : list sop) : list enc :=
  match ops with
  | [] => []
  | SDec e :: r => e :: decs r
  | SMut _ _ :: r => decs r
  end.

(* ------------------------------------------------------------------ correspondence *)
(* codec: first decode, in-place mutation of everything mutable in the result, second decode of the same stored value;
   aliased = the two results (or two containers inside one result) share a mutable object *)
Definition check_attr2 (c : tree * oenc * odec * odec * bool) : Z :=
  match c with (t, oe, od1, od2, aliased) =>
    if aliased then 1
    else if matches false t oe od1 && dec_matches false (encode false t) od2 then 0
    else if matches true t oe od1 && dec_matches true (encode true t) od2 then 2
    else 1
  end.

Definition oread_same (a b : oread) : bool :=
  match a, b with
  | ORData x, ORData y => dataset_eqb x y && dataset_eqb y x
  | ORRaise x, ORRaise y => String.eqb x y
  | ORNotRun, ORNotRun => true
  | _, _ => false
  end.

(* dataset: read, mutate the read-back meta / vars / an array in place, read the same file again.
   The second read must be explained by the model exactly like a first read (check_run), equal the first observation,
   the file bytes must be unchanged and the two datasets must not share mutable objects. *)
Definition check_reread (c : dataset * Z * owrite * oread * oread * bool * bool) : Z :=
  match c with (d, lvl, ow, ord1, ord2, bytes_same, aliased) =>
    if negb bytes_same || aliased || negb (oread_same ord1 ord2) then 1
    else check_run (d, lvl, ow, ord2)
  end.

(* ------------------------------------------------------------------ finite floats: repr text <-> double, decided here *)
(* The codec model carries a finite float as its repr text.  Every float leaf is shipped as (repr text, exact double):
   the text must be a decimal whose correctly rounded double is that double (float(repr(x)) == x, sign of zero from
   the text), and a decoded float must be bit-identical to the original float with the same text. *)
From Verif Require Import Lib.Decimal.

Definition starts_minus (s : string) : bool :=
  match s with String c _ => Ascii.eqb c "-"%char | EmptyString => false end.

Definition repr_of_double (s : string) (d : dy) : bool :=
  match parse_float s with
  | Some q => is_nearest_double q d &&
              match d with
              | Dy m _ => Bool.eqb (starts_minus s) (m <? 0)
              | DZero neg => Bool.eqb (starts_minus s) neg
              | _ => false
              end
  | None => false
  end.

Fixpoint slookup (k : string) (l : list (string * dy)) : option dy :=
  match l with
  | [] => None
  | (k', v) :: r => if String.eqb k k' then Some v else slookup k r
  end.

Definition floats_ok (orig dec : list (string * dy)) : bool :=
  forallb (fun sd => repr_of_double (fst sd) (snd sd)) orig &&
  forallb (fun sd => repr_of_double (fst sd) (snd sd)) dec &&
  forallb (fun sd => match slookup (fst sd) orig with Some d => dy_eqb d (snd sd) | None => true end) dec &&
  forallb (fun sd => match slookup (fst sd) orig with Some d => dy_eqb d (snd sd) | None => false end) orig.

Definition check_attr3 (c : (tree * oenc * odec * odec * bool) * list (string * dy) * list (string * dy)) : Z :=
  match c with (a, fo, fd) => if floats_ok fo fd then check_attr2 a else 1 end.
