(* Lib/C05_Prog.v -- straight-line programs over Ival.rexpr (owner: C05 builder).

   A program is a list of expressions; expression k may refer (EVar) to the inputs and to the values of all earlier
   expressions.  prog_R / prog_I run it over R / over Coq-Interval enclosures and return the whole environment
   (inputs ++ values); prog_contains: enclosures of the inputs give enclosures of every value.
   chk_le / chk_lt: certified comparisons of two expressions over such an environment (+ soundness). *)
From Coq Require Import Reals ZArith QArith List Bool Lra.
From Verif Require Import Lib.Dyadic Lib.Atan2 Lib.Ival.
Import ListNotations.

Definition prog_R (env : list R) (prog : list rexpr) : list R :=
  fold_left (fun env e => stage_R env [e]) prog env.
Definition prog_I (p : prec) (env : list I.type) (prog : list rexpr) : list I.type :=
  fold_left (fun env e => stage_I p env [e]) prog env.

Lemma prog_contains p prog : forall envI envR,
  Forall2 containsR envI envR -> Forall2 containsR (prog_I p envI prog) (prog_R envR prog).
Proof.
  induction prog as [|e prog IH]; intros envI envR H; simpl.
  - exact H.
  - apply IH. apply stage_contains. exact H.
Qed.

Lemma prog_env_contains p prog envI envR :
  Forall2 containsR envI envR ->
  forall n, containsR (env_I (prog_I p envI prog) n) (env_R (prog_R envR prog) n).
Proof. intros H. apply env_I_contains. apply prog_contains. exact H. Qed.

(* certified comparisons over a list environment *)
Definition chk_le (p : prec) (envI : list I.type) (a b : rexpr) : bool := check_le p a b (env_I envI).
Definition chk_lt (p : prec) (envI : list I.type) (a b : rexpr) : bool := check_lt p a b (env_I envI).

Lemma chk_le_sound p envI envR a b :
  Forall2 containsR envI envR -> chk_le p envI a b = true -> (eval_R (env_R envR) a <= eval_R (env_R envR) b)%R.
Proof. intros H. apply check_le_sound. apply env_I_contains. exact H. Qed.
Lemma chk_lt_sound p envI envR a b :
  Forall2 containsR envI envR -> chk_lt p envI a b = true -> (eval_R (env_R envR) a < eval_R (env_R envR) b)%R.
Proof. intros H. apply check_lt_sound. apply env_I_contains. exact H. Qed.

(* inputs: exact rationals and exact doubles *)
Definition inQ (p : prec) (q : Q) : I.type := I_ofQ p q.
Lemma Forall2_inputs p (qs : list Q) (ds : list dy) :
  Forall2 containsR (map (I_ofQ p) qs ++ map (I_ofdy p) ds) (map Q2R qs ++ map dyR ds).
Proof.
  apply Forall2_app.
  - induction qs; simpl; constructor; [apply I_ofQ_contains | assumption].
  - apply env_dy_Forall2.
Qed.
