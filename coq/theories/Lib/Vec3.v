(* Lib/Vec3.v -- 3-vectors over R (owner: C06 builder; others only import).

   API
   ---
   vec3 := V3 x y z  (projections vx vy vz),  vzero, ex ey ez
   vadd vsub vneg vscale (k v), dot, cross, norm2 v := dot v v, norm v := sqrt (norm2 v), vunit v := vscale (/ norm v) v
   vec3_eq : componentwise equality -> equality;   tactic `vec3` : destruct all vec3 in the context, unfold, prove
   the equation componentwise by `ring` (use `vec3_with tac` for another closing tactic, e.g. `field`/`nra`)
   Lemmas: dot_comm, dot_add_l/r, dot_scale_l/r, cross_anticomm, cross_self, cross_perp_l : dot (cross a b) a = 0,
   cross_perp_r : dot (cross a b) b = 0, cross_scale_l/r, lagrange : norm2 (cross a b) = norm2 a * norm2 b - (dot a b)²,
   triple_cross (bac-cab) : cross a (cross b c) = b (a.c) - c (a.b),  triple_cyclic : a.(b x c) = b.(c x a),
   norm2_nonneg, norm2_zero_iff, norm_pos, norm_sqr : norm v * norm v = norm2 v, norm_scale_pos,
   vunit_norm2 : v <> vzero -> norm2 (vunit v) = 1,  cross_nonzero_norm2 (via lagrange)
   Axioms: the standard library's real-number axioms. *)
From Coq Require Import Reals Lra Lia.
Open Scope R_scope.

Record vec3 : Type := V3 { vx : R; vy : R; vz : R }.

Definition vzero : vec3 := V3 0 0 0.
Definition ex : vec3 := V3 1 0 0.
Definition ey : vec3 := V3 0 1 0.
Definition ez : vec3 := V3 0 0 1.

Definition vadd (a b : vec3) : vec3 := V3 (vx a + vx b) (vy a + vy b) (vz a + vz b).
Definition vsub (a b : vec3) : vec3 := V3 (vx a - vx b) (vy a - vy b) (vz a - vz b).
Definition vneg (a : vec3) : vec3 := V3 (- vx a) (- vy a) (- vz a).
Definition vscale (k : R) (a : vec3) : vec3 := V3 (k * vx a) (k * vy a) (k * vz a).
Definition dot (a b : vec3) : R := vx a * vx b + vy a * vy b + vz a * vz b.
Definition cross (a b : vec3) : vec3 :=
  V3 (vy a * vz b - vz a * vy b) (vz a * vx b - vx a * vz b) (vx a * vy b - vy a * vx b).
Definition norm2 (a : vec3) : R := dot a a.
Definition norm (a : vec3) : R := sqrt (norm2 a).
Definition vunit (a : vec3) : vec3 := vscale (/ norm a) a.

Lemma vec3_eq a b : vx a = vx b -> vy a = vy b -> vz a = vz b -> a = b.
Proof. destruct a, b; simpl; intros; subst; reflexivity. Qed.

Ltac vec3_destruct :=
  repeat match goal with v : vec3 |- _ => destruct v end.
Ltac vec3_unfold :=
  unfold vunit, norm, norm2, dot, cross, vadd, vsub, vneg, vscale, vzero, ex, ey, ez in *; simpl vx in *; simpl vy in *; simpl vz in *.
Ltac vec3_with tac :=
  intros; vec3_destruct; vec3_unfold;
  first [ apply vec3_eq; simpl; tac | tac ].
Ltac vec3 := vec3_with ltac:(ring).

Lemma dot_comm a b : dot a b = dot b a. Proof. vec3. Qed.
Lemma dot_add_l a b c : dot (vadd a b) c = dot a c + dot b c. Proof. vec3. Qed.
Lemma dot_add_r a b c : dot a (vadd b c) = dot a b + dot a c. Proof. vec3. Qed.
Lemma dot_sub_l a b c : dot (vsub a b) c = dot a c - dot b c. Proof. vec3. Qed.
Lemma dot_sub_r a b c : dot a (vsub b c) = dot a b - dot a c. Proof. vec3. Qed.
Lemma dot_scale_l k a b : dot (vscale k a) b = k * dot a b. Proof. vec3. Qed.
Lemma dot_scale_r k a b : dot a (vscale k b) = k * dot a b. Proof. vec3. Qed.
Lemma dot_zero_l a : dot vzero a = 0. Proof. vec3. Qed.
Lemma dot_zero_r a : dot a vzero = 0. Proof. vec3. Qed.
Lemma cross_anticomm a b : cross a b = vneg (cross b a). Proof. vec3. Qed.
Lemma cross_self a : cross a a = vzero. Proof. vec3. Qed.
Lemma cross_perp_l a b : dot (cross a b) a = 0. Proof. vec3. Qed.
Lemma cross_perp_r a b : dot (cross a b) b = 0. Proof. vec3. Qed.
Lemma cross_scale_l k a b : cross (vscale k a) b = vscale k (cross a b). Proof. vec3. Qed.
Lemma cross_scale_r k a b : cross a (vscale k b) = vscale k (cross a b). Proof. vec3. Qed.
Lemma cross_add_l a b c : cross (vadd a b) c = vadd (cross a c) (cross b c). Proof. vec3. Qed.
Lemma cross_add_r a b c : cross a (vadd b c) = vadd (cross a b) (cross a c). Proof. vec3. Qed.
Lemma lagrange a b : norm2 (cross a b) = norm2 a * norm2 b - dot a b * dot a b. Proof. vec3. Qed.
Lemma triple_cross a b c : cross a (cross b c) = vsub (vscale (dot a c) b) (vscale (dot a b) c). Proof. vec3. Qed.
Lemma triple_cyclic a b c : dot a (cross b c) = dot b (cross c a). Proof. vec3. Qed.
Lemma cross_ex_ey : cross ex ey = ez. Proof. vec3. Qed.
Lemma cross_ey_ez : cross ey ez = ex. Proof. vec3. Qed.
Lemma cross_ez_ex : cross ez ex = ey. Proof. vec3. Qed.
Lemma vscale_1 a : vscale 1 a = a. Proof. vec3. Qed.
Lemma vscale_scale k l a : vscale k (vscale l a) = vscale (k * l) a. Proof. vec3. Qed.
Lemma norm2_scale k a : norm2 (vscale k a) = k * k * norm2 a. Proof. vec3. Qed.

Lemma norm2_nonneg a : 0 <= norm2 a.
Proof.
  destruct a as [x y z]. unfold norm2, dot; simpl.
  pose proof (Rle_0_sqr x); pose proof (Rle_0_sqr y); pose proof (Rle_0_sqr z). unfold Rsqr in *. lra.
Qed.

Lemma norm2_zero_iff a : norm2 a = 0 <-> a = vzero.
Proof.
  split.
  - destruct a as [x y z]. unfold norm2, dot, vzero; simpl. intros H.
    pose proof (Rle_0_sqr x); pose proof (Rle_0_sqr y); pose proof (Rle_0_sqr z). unfold Rsqr in *.
    assert (x * x = 0) by lra. assert (y * y = 0) by lra. assert (z * z = 0) by lra.
    f_equal; apply Rsqr_0_uniq; unfold Rsqr; assumption.
  - intros ->. unfold norm2, dot, vzero; simpl. ring.
Qed.

Lemma norm2_pos a : a <> vzero -> 0 < norm2 a.
Proof.
  intros H. pose proof (norm2_nonneg a) as H0.
  destruct (Req_dec (norm2 a) 0) as [E | E]; [|lra].
  exfalso. apply H. apply norm2_zero_iff. exact E.
Qed.

Lemma norm_nonneg a : 0 <= norm a.
Proof. apply sqrt_pos. Qed.

Lemma norm_pos a : a <> vzero -> 0 < norm a.
Proof. intros H. apply sqrt_lt_R0. apply norm2_pos. exact H. Qed.

Lemma norm_sqr a : norm a * norm a = norm2 a.
Proof. apply sqrt_sqrt. apply norm2_nonneg. Qed.

Lemma norm_scale_pos k a : 0 <= k -> norm (vscale k a) = k * norm a.
Proof.
  intros Hk. unfold norm. rewrite norm2_scale.
  rewrite sqrt_mult_alt by (apply Rmult_le_pos; assumption).
  rewrite sqrt_square by assumption. reflexivity.
Qed.

Lemma vunit_norm2 a : a <> vzero -> norm2 (vunit a) = 1.
Proof.
  intros H. unfold vunit. rewrite norm2_scale. rewrite <- norm_sqr.
  pose proof (norm_pos a H). field. lra.
Qed.

Lemma vunit_norm a : a <> vzero -> norm (vunit a) = 1.
Proof. intros H. unfold norm. rewrite vunit_norm2 by assumption. apply sqrt_1. Qed.

Lemma vunit_parallel a : a = vscale (norm a) (vunit a) \/ a = vzero.
Proof.
  destruct (Req_dec (norm2 a) 0) as [E | E].
  - right. apply norm2_zero_iff. exact E.
  - left. unfold vunit. rewrite vscale_scale.
    assert (norm a <> 0).
    { intros Hn. apply E. rewrite <- norm_sqr, Hn. ring. }
    rewrite Rinv_r by assumption. symmetry. apply vscale_1.
Qed.

(* unit perpendicular vectors have a unit cross product *)
Lemma cross_unit_perp a b : norm2 a = 1 -> norm2 b = 1 -> dot a b = 0 -> norm2 (cross a b) = 1.
Proof. intros Ha Hb Hab. rewrite lagrange, Ha, Hb, Hab. ring. Qed.
