(* Lib/C12_ExpFormat.v - E/D exponent decimal numbers as they stand in RINEX navigation records
   (Fortran D19.12 / C %19.12E and their lower-case and ".ddd" variants).  No axioms.

   ===================================================================================== API SUMMARY
   dec = (Z * Z)                       the exact decimal  m * 10^k   (value: dec_toQ)
   parse_float ok s : option dec       Python  float(s.replace("D","e"))  on the decimal grammar
                                         [ws] [+-] (digits [. [digits]] | . digits) [ (e|E|D|d) [+-] digits ] [ws]   -- d only when ok
                                       ok = true : lower-case 'd' is an exponent letter as well (the specification);
                                       ok = false: only e/E/D are (the code as written: str.replace("D", "e")).
                                       inf/nan/underscore literals are outside the model (None).
   nav_float ok s                      rinex*_nav._float : blank or empty text is 0
   num                                 a printed number: sign, optional integer digit(s), fraction digits, exponent
                                       letter, exponent sign, exponent digits
   core n, render_num w n              the text without / with right-justification in a w-character column
   num_dec n                           its exact value
   Theorems
     parse_render_num   : num_wf ok n = true -> parse_float ok (render_num w n) = Some (num_dec n)     (any width w)
     nav_float_render   : the same for nav_float
     nav_float_blank    : all_space s = true -> nav_float ok s = Some (0, 0)
     lower_d_rejected / lower_d_accepted : witnesses for the quirk `c12_lowercase_d`
   ================================================================================================== *)
From Coq Require Import Ascii String List Bool Arith ZArith QArith Lia.
From Verif Require Import Lib.Text.
Import ListNotations.
Local Open Scope string_scope.

Definition dec := (Z * Z)%type.

Definition pow10Q (k : Z) : Q :=
  if (0 <=? k)%Z then inject_Z (10 ^ k) else Qmake 1 (Z.to_pos (10 ^ (- k))).
Definition dec_toQ (d : dec) : Q := (inject_Z (fst d) * pow10Q (snd d))%Q.

Definition is_digit (c : ascii) : bool :=
  let n := nat_of_ascii c in ((48 <=? n) && (n <=? 57))%nat.
Definition digit_val (c : ascii) : Z := Z.of_nat (nat_of_ascii c) - 48.

Fixpoint span_digits (s : string) : string * string :=
  match s with
  | String c r => if is_digit c then let (d, t) := span_digits r in (String c d, t) else ("", s)
  | EmptyString => ("", "")
  end.

Fixpoint digits_val (acc : Z) (s : string) : Z :=
  match s with
  | String c r => digits_val (10 * acc + digit_val c) r
  | EmptyString => acc
  end.

Definition is_exp_char (ok : bool) (c : ascii) : bool :=
  (c =? "e")%char || (c =? "E")%char || (c =? "D")%char || (ok && (c =? "d")%char).

Definition read_sign (s : string) : bool * string :=
  match s with
  | String c r => if (c =? "-")%char then (true, r) else if (c =? "+")%char then (false, r) else (false, s)
  | EmptyString => (false, s)
  end.

Definition parse_exp (ok : bool) (s : string) : option Z :=
  match s with
  | EmptyString => Some 0%Z
  | String c r =>
      if is_exp_char ok c then
        let (neg, r1) := read_sign r in
        let (ds, r2) := span_digits r1 in
        match ds, r2 with
        | String _ _, EmptyString => Some (if neg then (- digits_val 0 ds)%Z else digits_val 0 ds)
        | _, _ => None
        end
      else None
  end.

Definition parse_float (ok : bool) (s0 : string) : option dec :=
  let s := strip s0 in
  let (neg, s1) := read_sign s in
  let (ip, s2) := span_digits s1 in
  let (fr, s3) := match s2 with
                  | String c r => if (c =? ".")%char then span_digits r else ("", s2)
                  | EmptyString => ("", s2)
                  end in
  if (len ip + len fr =? 0)%nat then None else
  match parse_exp ok s3 with
  | Some e => let m := digits_val 0 (ip ++ fr) in
              Some (if neg then (- m)%Z else m, (e - Z.of_nat (len fr))%Z)
  | None => None
  end.

(* rinex*_nav._float on the (already stripped) column text *)
Definition nav_float (ok : bool) (s : string) : option dec :=
  if all_space s then Some (0%Z, 0%Z) else parse_float ok s.

(* ------------------------------------------------------------------------------- printed numbers *)
Record num := mkNum {
  n_neg : bool;          (* leading '-' *)
  n_ip : string;         (* integer digits in front of the point: "" (".ddd"), "0", "d", ... *)
  n_frac : string;       (* digits behind the point *)
  n_ec : ascii;          (* exponent letter *)
  n_eneg : bool;         (* exponent sign: '-' or '+' *)
  n_exp : string         (* exponent digits *)
}.

Definition str1 (c : ascii) : string := String c EmptyString.

Definition core (n : num) : string :=
  (if n_neg n then "-" else "") ++ n_ip n ++ "." ++ n_frac n ++ str1 (n_ec n)
    ++ (if n_eneg n then "-" else "+") ++ n_exp n.

Definition render_num (w : nat) (n : num) : string := rjust w (core n).

Definition num_wf (ok : bool) (n : num) : bool :=
  all_by is_digit (n_ip n) && all_by is_digit (n_frac n) && all_by is_digit (n_exp n)
  && negb (len (n_ip n) + len (n_frac n) =? 0)%nat && negb (len (n_exp n) =? 0)%nat
  && is_exp_char ok (n_ec n).

Definition num_dec (n : num) : dec :=
  let m := digits_val 0 (n_ip n ++ n_frac n) in
  let e := digits_val 0 (n_exp n) in
  (if n_neg n then (- m)%Z else m,
   ((if n_eneg n then (- e)%Z else e) - Z.of_nat (len (n_frac n)))%Z).

(* ------------------------------------------------------------------------------------- lemmas *)
Definition starts_nondigit (s : string) : bool :=
  match s with String c _ => negb (is_digit c) | EmptyString => true end.

Lemma span_digits_app d r :
  all_by is_digit d = true -> starts_nondigit r = true -> span_digits (d ++ r) = (d, r).
Proof.
  induction d as [|c d IH]; simpl; intros Hd Hr.
  - destruct r as [|c r]; simpl in *; [reflexivity|].
    destruct (is_digit c); [discriminate|reflexivity].
  - apply andb_prop in Hd. destruct Hd as [Hc Hd]. rewrite Hc, (IH Hd Hr). reflexivity.
Qed.

Lemma span_digits_all d : all_by is_digit d = true -> span_digits d = (d, "").
Proof.
  intros H. rewrite <- (Text.app_nil_r d) at 1. apply span_digits_app; [exact H|reflexivity].
Qed.

Lemma is_exp_char_nondigit ok c : is_exp_char ok c = true -> is_digit c = false.
Proof.
  unfold is_exp_char. intros H.
  repeat (apply orb_prop in H; destruct H as [H|H]);
    try (apply andb_prop in H; destruct H as [_ H]);
    apply Ascii.eqb_eq in H; subst; reflexivity.
Qed.

Lemma is_exp_char_not_point ok c : is_exp_char ok c = true -> (c =? ".")%char = false.
Proof.
  unfold is_exp_char. intros H.
  repeat (apply orb_prop in H; destruct H as [H|H]);
    try (apply andb_prop in H; destruct H as [_ H]);
    apply Ascii.eqb_eq in H; subst; reflexivity.
Qed.

Lemma digit_not_sign c : is_digit c = true -> (c =? "-")%char = false /\ (c =? "+")%char = false.
Proof.
  intros H. split; destruct (Ascii.eqb_spec c "-"), (Ascii.eqb_spec c "+"); subst; try reflexivity; discriminate.
Qed.

Lemma read_sign_digits d r : d <> "" -> all_by is_digit d = true -> read_sign (d ++ r) = (false, d ++ r).
Proof.
  destruct d as [|c d]; [congruence|]. simpl. intros _ H. apply andb_prop in H. destruct H as [H _].
  destruct (digit_not_sign c H) as [H1 H2]. rewrite H1, H2. reflexivity.
Qed.

Lemma all_digits_len0 s : (len s =? 0)%nat = true -> s = "".
Proof. destruct s; [reflexivity|discriminate]. Qed.

(* the text of a number has no outer white space *)
Lemma digit_not_space c : is_digit c = true -> is_space c = false.
Proof. destruct c as [[] [] [] [] [] [] [] []]; try reflexivity; discriminate. Qed.

Lemma rtrimmed_digits p s : s <> "" -> all_by is_digit s = true -> rtrimmed is_space (p ++ s) = true.
Proof.
  intros Hne Hd. apply rtrimmed_app; [exact Hne|].
  induction s as [|c s IH]; [congruence|].
  simpl in Hd. apply andb_prop in Hd. destruct Hd as [Hc Hd].
  simpl. destruct s as [|c' s'].
  - rewrite (digit_not_space c Hc). reflexivity.
  - apply IH; [discriminate|exact Hd].
Qed.

Lemma core_trimmed ok n : num_wf ok n = true -> trimmed (core n) = true.
Proof.
  unfold num_wf. intros H.
  repeat (apply andb_prop in H; destruct H as [H ?]).
  unfold trimmed, trimmed_by. apply andb_true_intro. split.
  - unfold core, ltrimmed. destruct (n_neg n); [reflexivity|]. simpl.
    destruct (n_ip n) as [|c r] eqn:E; [reflexivity|].
    simpl in H. apply andb_prop in H. destruct H as [H _]. simpl. rewrite (digit_not_space c H). reflexivity.
  - unfold core. rewrite <- !Text.app_assoc. apply rtrimmed_digits.
    + destruct (n_exp n); [discriminate|discriminate].
    + assumption.
Qed.

Theorem parse_render_num ok w n :
  num_wf ok n = true -> parse_float ok (render_num w n) = Some (num_dec n).
Proof.
  intros Hwf. unfold parse_float, render_num. rewrite (strip_rjust w _ (core_trimmed ok n Hwf)).
  unfold num_wf in Hwf.
  repeat (apply andb_prop in Hwf; destruct Hwf as [Hwf ?]).
  rename Hwf into Hip, H3 into Hfr, H2 into Hex, H1 into Hne, H0 into Hexne, H into Hec.
  unfold core, num_dec.
  (* sign *)
  assert (Hs : read_sign ((if n_neg n then "-" else "") ++ n_ip n ++ "." ++ n_frac n ++ str1 (n_ec n)
                            ++ (if n_eneg n then "-" else "+") ++ n_exp n)
               = (n_neg n, n_ip n ++ "." ++ n_frac n ++ str1 (n_ec n) ++ (if n_eneg n then "-" else "+") ++ n_exp n)).
  { destruct (n_neg n); [reflexivity|]. simpl.
    destruct (n_ip n) as [|c r] eqn:E; [reflexivity|].
    change (String c r ++ "." ++ n_frac n ++ str1 (n_ec n) ++ (if n_eneg n then "-" else "+") ++ n_exp n)
      with (String c r ++ ("." ++ n_frac n ++ str1 (n_ec n) ++ (if n_eneg n then "-" else "+") ++ n_exp n)).
    apply read_sign_digits; [discriminate|exact Hip]. }
  rewrite Hs.
  change ("." ++ n_frac n ++ str1 (n_ec n) ++ (if n_eneg n then "-" else "+") ++ n_exp n)
    with (String "." (n_frac n ++ str1 (n_ec n) ++ (if n_eneg n then "-" else "+") ++ n_exp n)).
  rewrite (span_digits_app (n_ip n) (String "." _) Hip eq_refl).
  cbv beta iota. rewrite Ascii.eqb_refl.
  assert (Hnd : starts_nondigit (str1 (n_ec n) ++ (if n_eneg n then "-" else "+") ++ n_exp n) = true).
  { simpl. rewrite (is_exp_char_nondigit ok _ Hec). reflexivity. }
  rewrite (span_digits_app (n_frac n) _ Hfr Hnd).
  apply negb_true_iff in Hne. rewrite Hne.
  (* exponent *)
  assert (He : parse_exp ok (str1 (n_ec n) ++ (if n_eneg n then "-" else "+") ++ n_exp n)
               = Some (if n_eneg n then (- digits_val 0 (n_exp n))%Z else digits_val 0 (n_exp n))).
  { simpl. rewrite Hec.
    assert (Hrs : read_sign ((if n_eneg n then "-" else "+") ++ n_exp n) = (n_eneg n, n_exp n))
      by (destruct (n_eneg n); reflexivity).
    rewrite Hrs, (span_digits_all _ Hex).
    destruct (n_exp n); [discriminate|reflexivity]. }
  rewrite He. reflexivity.
Qed.

Lemma core_not_all_space ok n : num_wf ok n = true -> all_space (render_num 0 n) = false.
Proof.
  intros H. unfold render_num, rjust, rjust_with. simpl.
  unfold core. destruct (n_neg n); [reflexivity|]. simpl.
  unfold num_wf in H. repeat (apply andb_prop in H; destruct H as [H ?]).
  destruct (n_ip n) as [|c r]; [reflexivity|].
  simpl in H. apply andb_prop in H. destruct H as [H _]. simpl.
  unfold all_space. simpl. rewrite (digit_not_space c H). reflexivity.
Qed.

Lemma all_space_strip_false s : all_space s = false -> all_space (strip s) = false.
Proof.
  intros H. destruct (all_space (strip s)) eqn:E; [|reflexivity].
  (* s = a ++ strip s ++ b with a, b blank would make s blank *)
  destruct (rstrip_decomp s) as [w [Hw Es]].
  destruct (lstrip_decomp (rstrip s)) as [v [Hv Er]].
  assert (all_space s = true); [|congruence].
  rewrite Es, Er. unfold all_space in *. rewrite !all_by_app.
  change (lstrip (rstrip s)) with (strip s). rewrite Hv, E, Hw. reflexivity.
Qed.

Theorem nav_float_render ok w n :
  num_wf ok n = true -> nav_float ok (strip (render_num w n)) = Some (num_dec n).
Proof.
  intros Hwf. unfold nav_float, render_num.
  rewrite (strip_rjust w _ (core_trimmed ok n Hwf)).
  assert (all_space (core n) = false).
  { pose proof (core_not_all_space ok n Hwf) as H. unfold render_num, rjust, rjust_with in H. simpl in H. exact H. }
  rewrite H. pose proof (parse_render_num ok 0 n Hwf) as P. unfold render_num, rjust, rjust_with in P. simpl in P. exact P.
Qed.

Theorem nav_float_blank ok s : all_space s = true -> nav_float ok (strip s) = Some (0%Z, 0%Z).
Proof.
  intros H. unfold nav_float. rewrite (strip_all_space s H). reflexivity.
Qed.

(* the quirk c12_lowercase_d: only 'D' is replaced in the code *)
Example lower_d_rejected : parse_float false " 1.0d-01" = None.
Proof. reflexivity. Qed.
Example lower_d_accepted : parse_float true " 1.0d-01" = Some (10%Z, (-2)%Z).
Proof. reflexivity. Qed.
Example upper_d_both : parse_float false "-0.596000000000D-01" = Some ((-596000000000)%Z, (-13)%Z).
Proof. reflexivity. Qed.
