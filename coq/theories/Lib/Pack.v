(* Lib/Pack.v - cheap transport of large correspondence inputs into Coq.

   Elaborating literals dominates the cost of big case files: a Z literal of 53 bits costs ~1 ms, a string
   literal ~55 us per character.  Primitive literals are ~25 times cheaper (one node each):

     doubles   as primitive float hex literals   0x1.5bf0a8b145769p+1%float   (Python: float.hex(x); nan -> nan,
               inf -> infinity, -inf -> neg_infinity)                          -> [dy_of_float] gives Lib/Dyadic.dy, exactly
     text      as a list of primitive 63-bit integers, 7 bytes per integer, little endian, with a sentinel byte 0x01
               on top of every chunk (so the last, shorter chunk needs no length)   -> [unpack] gives the string
               Python:  [int.from_bytes(b[i:i+7] + b"\x01", "little") for i in range(0, len(b), 7)]
     lines     a whole file as one packed text; [lines_of] splits at "\n" like str.split("\n") / file iteration
               (without the newline characters; a final newline does not produce an empty last line)

   Only used by the check_* functions of the correspondence (evaluated with vm_compute); no theorem depends
   on it.  Primitive integers and floats are kernel primitives, not axioms. *)
From Coq Require Import ZArith List String Ascii Uint63 Floats.
From Verif Require Import Lib.Dyadic.
Import ListNotations.

Fixpoint odd_part (p : positive) (e : Z) : positive * Z :=
  match p with
  | xO p' => odd_part p' (e + 1)%Z
  | _ => (p, e)
  end.

Definition dy_of_float (f : float) : dy :=
  match Prim2SF f with
  | S754_zero s => DZero s
  | S754_infinity s => DInf s
  | S754_nan => DNaN
  | S754_finite s m e => let '(m', e') := odd_part m e in Dy (if s then Zneg m' else Zpos m') e'
  end.

Definition bit_of (x : int) (k : int) : bool := negb (((x >> k) land 1) =? 0)%uint63.
Definition ascii_of_int (x : int) : ascii :=
  Ascii (bit_of x 0) (bit_of x 1) (bit_of x 2) (bit_of x 3) (bit_of x 4) (bit_of x 5) (bit_of x 6) (bit_of x 7).

Fixpoint unpack_chunk (fuel : nat) (x : int) (rest : string) : string :=
  match fuel with
  | O => rest
  | S f => if (x <=? 1)%uint63 then rest else String (ascii_of_int x) (unpack_chunk f (x >> 8)%uint63 rest)
  end.
Fixpoint unpack (chunks : list int) : string :=
  match chunks with
  | [] => EmptyString
  | c :: r => unpack_chunk 8 c (unpack r)
  end.

(* split at "\n"; the text after the last newline is a line only if it is not empty *)
Fixpoint lines_go (s : string) : string * list string :=
  match s with
  | EmptyString => (EmptyString, [])
  | String c r => let '(cur, ls) := lines_go r in
                  if Ascii.eqb c "010" then (EmptyString, match r with EmptyString => ls | _ => cur :: ls end)
                  else (String c cur, ls)
  end.
Definition lines_of (s : string) : list string :=
  match s with
  | EmptyString => []
  | _ => let '(cur, ls) := lines_go s in cur :: ls
  end.

Example unpack_ex : unpack [96581579944256840%uint63; 24276768%uint63] = "Hello W or"%string.
Proof. vm_compute. reflexivity. Qed.
Example lines_ex : lines_of ("ab" ++ String "010" ("" ++ String "010" "c" ++ String "010" "")) = ["ab"; ""; "c"]%string.
Proof. vm_compute. reflexivity. Qed.
Example float_ex : dy_of_float 0x1.8p+1%float = Dy 3 0 /\ dy_of_float nan = DNaN /\ dy_of_float (-0)%float = DZero true.
Proof. vm_compute. repeat split; reflexivity. Qed.
