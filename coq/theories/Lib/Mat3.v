(* Lib/Mat3.v -- 3x3 matrices over R (owner: C06 builder; others only import).

   API
   ---
   mat3 := M3 m11 m12 m13 m21 m22 m23 m31 m32 m33 (row major; projections m11 ... m33),  mid, mzero
   mmul A B, mtrans A, mdet A, madd, msub, mscale k A, madj A (adjugate), mvec A v (matrix times column vector),
   row1/row2/row3 A, col1/col2/col3 A : vec3,  of_rows r1 r2 r3, of_cols c1 c2 c3
   mat3_eq (entrywise equality -> equality);  tactic `mat3` (destruct, unfold, entrywise `ring`), `mat3_with tac`
   orthogonal A := mmul (mtrans A) A = mid;   rotation A := orthogonal A /\ mdet A = 1
   Lemmas: mmul_assoc, mmul_id_l/r, mtrans_mul : (AB)^T = B^T A^T, mtrans_invol, det_mul : det (AB) = det A det B, det_trans,
   det_id, mvec_mul : mvec (mmul A B) v = mvec A (mvec B v), mvec_id, mvec_trans_dot : dot (mvec A u) v = dot u (mvec (mtrans A) v),
   mmul_adj_r : mmul A (madj A) = mscale (mdet A) mid,  mmul_adj_l,
   left_inv_right_inv : mmul B A = mid -> mmul A B = mid,
   orthogonal_preserves_dot : orthogonal A -> dot (mvec A u) (mvec A v) = dot u v,  orthogonal_preserves_norm2 / _norm,
   orthogonal_trans : orthogonal A -> orthogonal (mtrans A)  (i.e. A A^T = I),  orthogonal_det : orthogonal A -> det A = 1 \/ det A = -1,
   orthogonal_mul, rotation_mul, rotation_trans,  orthogonal_of_rows (rows orthonormal -> orthogonal (of_rows ..)),
   rotation_preserves_cross : rotation A -> mvec A (cross u v) = cross (mvec A u) (mvec A v),
   det_of_rows : mdet (of_rows a b c) = dot a (cross b c)
   Axioms: the standard library's real-number axioms. *)
From Coq Require Import Reals Lra.
From Verif Require Import Lib.Vec3.
Open Scope R_scope.

Record mat3 : Type := M3 { m11 : R; m12 : R; m13 : R; m21 : R; m22 : R; m23 : R; m31 : R; m32 : R; m33 : R }.

Definition mid : mat3 := M3 1 0 0 0 1 0 0 0 1.
Definition mzero : mat3 := M3 0 0 0 0 0 0 0 0 0.

Definition mmul (A B : mat3) : mat3 :=
  M3 (m11 A * m11 B + m12 A * m21 B + m13 A * m31 B) (m11 A * m12 B + m12 A * m22 B + m13 A * m32 B) (m11 A * m13 B + m12 A * m23 B + m13 A * m33 B)
     (m21 A * m11 B + m22 A * m21 B + m23 A * m31 B) (m21 A * m12 B + m22 A * m22 B + m23 A * m32 B) (m21 A * m13 B + m22 A * m23 B + m23 A * m33 B)
     (m31 A * m11 B + m32 A * m21 B + m33 A * m31 B) (m31 A * m12 B + m32 A * m22 B + m33 A * m32 B) (m31 A * m13 B + m32 A * m23 B + m33 A * m33 B).

Definition mtrans (A : mat3) : mat3 :=
  M3 (m11 A) (m21 A) (m31 A) (m12 A) (m22 A) (m32 A) (m13 A) (m23 A) (m33 A).

Definition mdet (A : mat3) : R :=
  m11 A * (m22 A * m33 A - m23 A * m32 A)
  - m12 A * (m21 A * m33 A - m23 A * m31 A)
  + m13 A * (m21 A * m32 A - m22 A * m31 A).

Definition madd (A B : mat3) : mat3 :=
  M3 (m11 A + m11 B) (m12 A + m12 B) (m13 A + m13 B) (m21 A + m21 B) (m22 A + m22 B) (m23 A + m23 B) (m31 A + m31 B) (m32 A + m32 B) (m33 A + m33 B).
Definition msub (A B : mat3) : mat3 :=
  M3 (m11 A - m11 B) (m12 A - m12 B) (m13 A - m13 B) (m21 A - m21 B) (m22 A - m22 B) (m23 A - m23 B) (m31 A - m31 B) (m32 A - m32 B) (m33 A - m33 B).
Definition mscale (k : R) (A : mat3) : mat3 :=
  M3 (k * m11 A) (k * m12 A) (k * m13 A) (k * m21 A) (k * m22 A) (k * m23 A) (k * m31 A) (k * m32 A) (k * m33 A).

Definition madj (A : mat3) : mat3 :=
  M3 (m22 A * m33 A - m23 A * m32 A) (m13 A * m32 A - m12 A * m33 A) (m12 A * m23 A - m13 A * m22 A)
     (m23 A * m31 A - m21 A * m33 A) (m11 A * m33 A - m13 A * m31 A) (m13 A * m21 A - m11 A * m23 A)
     (m21 A * m32 A - m22 A * m31 A) (m12 A * m31 A - m11 A * m32 A) (m11 A * m22 A - m12 A * m21 A).

Definition mvec (A : mat3) (v : vec3) : vec3 :=
  V3 (m11 A * vx v + m12 A * vy v + m13 A * vz v)
     (m21 A * vx v + m22 A * vy v + m23 A * vz v)
     (m31 A * vx v + m32 A * vy v + m33 A * vz v).

Definition row1 (A : mat3) : vec3 := V3 (m11 A) (m12 A) (m13 A).
Definition row2 (A : mat3) : vec3 := V3 (m21 A) (m22 A) (m23 A).
Definition row3 (A : mat3) : vec3 := V3 (m31 A) (m32 A) (m33 A).
Definition col1 (A : mat3) : vec3 := V3 (m11 A) (m21 A) (m31 A).
Definition col2 (A : mat3) : vec3 := V3 (m12 A) (m22 A) (m32 A).
Definition col3 (A : mat3) : vec3 := V3 (m13 A) (m23 A) (m33 A).
Definition of_rows (a b c : vec3) : mat3 := M3 (vx a) (vy a) (vz a) (vx b) (vy b) (vz b) (vx c) (vy c) (vz c).
Definition of_cols (a b c : vec3) : mat3 := M3 (vx a) (vx b) (vx c) (vy a) (vy b) (vy c) (vz a) (vz b) (vz c).

Definition orthogonal (A : mat3) : Prop := mmul (mtrans A) A = mid.
Definition rotation (A : mat3) : Prop := orthogonal A /\ mdet A = 1.

Lemma mat3_eq A B :
  m11 A = m11 B -> m12 A = m12 B -> m13 A = m13 B ->
  m21 A = m21 B -> m22 A = m22 B -> m23 A = m23 B ->
  m31 A = m31 B -> m32 A = m32 B -> m33 A = m33 B -> A = B.
Proof. destruct A, B; simpl; intros; subst; reflexivity. Qed.

Ltac mat3_destruct :=
  repeat match goal with M : mat3 |- _ => destruct M end; vec3_destruct.
Ltac mat3_unfold :=
  unfold orthogonal, mmul, mtrans, mdet, madd, msub, mscale, madj, mvec, row1, row2, row3, col1, col2, col3, of_rows, of_cols, mid, mzero in *;
  vec3_unfold;
  cbn [m11 m12 m13 m21 m22 m23 m31 m32 m33 vx vy vz] in *.
Ltac mat3_with tac :=
  intros; mat3_destruct; mat3_unfold;
  first [ apply mat3_eq; cbn [m11 m12 m13 m21 m22 m23 m31 m32 m33]; tac
        | apply vec3_eq; cbn [vx vy vz]; tac
        | tac ].
Ltac mat3 := mat3_with ltac:(ring).

Lemma mmul_assoc A B C : mmul (mmul A B) C = mmul A (mmul B C). Proof. mat3. Qed.
Lemma mmul_id_l A : mmul mid A = A. Proof. mat3. Qed.
Lemma mmul_id_r A : mmul A mid = A. Proof. mat3. Qed.
Lemma mtrans_mul A B : mtrans (mmul A B) = mmul (mtrans B) (mtrans A). Proof. mat3. Qed.
Lemma mtrans_invol A : mtrans (mtrans A) = A. Proof. mat3. Qed.
Lemma mtrans_id : mtrans mid = mid. Proof. mat3. Qed.
Lemma det_mul A B : mdet (mmul A B) = mdet A * mdet B. Proof. mat3. Qed.
Lemma det_trans A : mdet (mtrans A) = mdet A. Proof. mat3. Qed.
Lemma det_id : mdet mid = 1. Proof. mat3. Qed.
Lemma det_scale k A : mdet (mscale k A) = k * k * k * mdet A. Proof. mat3. Qed.
Lemma mvec_mul A B v : mvec (mmul A B) v = mvec A (mvec B v). Proof. mat3. Qed.
Lemma mvec_id v : mvec mid v = v. Proof. mat3. Qed.
Lemma mvec_add A u v : mvec A (vadd u v) = vadd (mvec A u) (mvec A v). Proof. mat3. Qed.
Lemma mvec_sub A u v : mvec A (vsub u v) = vsub (mvec A u) (mvec A v). Proof. mat3. Qed.
Lemma mvec_scale A k v : mvec A (vscale k v) = vscale k (mvec A v). Proof. mat3. Qed.
Lemma mvec_trans_dot A u v : dot (mvec A u) v = dot u (mvec (mtrans A) v). Proof. mat3. Qed.
Lemma mvec_rows A v : mvec A v = V3 (dot (row1 A) v) (dot (row2 A) v) (dot (row3 A) v). Proof. mat3. Qed.
Lemma mvec_ex A : mvec A ex = col1 A. Proof. mat3. Qed.
Lemma mvec_ey A : mvec A ey = col2 A. Proof. mat3. Qed.
Lemma mvec_ez A : mvec A ez = col3 A. Proof. mat3. Qed.
Lemma mmul_adj_r A : mmul A (madj A) = mscale (mdet A) mid. Proof. mat3. Qed.
Lemma mmul_adj_l A : mmul (madj A) A = mscale (mdet A) mid. Proof. mat3. Qed.
Lemma mscale_mmul_l k A B : mmul (mscale k A) B = mscale k (mmul A B). Proof. mat3. Qed.
Lemma mscale_mmul_r k A B : mmul A (mscale k B) = mscale k (mmul A B). Proof. mat3. Qed.
Lemma mscale_1 A : mscale 1 A = A. Proof. mat3. Qed.
Lemma mscale_scale k l A : mscale k (mscale l A) = mscale (k * l) A. Proof. mat3. Qed.
Lemma det_of_rows a b c : mdet (of_rows a b c) = dot a (cross b c). Proof. mat3. Qed.
Lemma det_of_cols a b c : mdet (of_cols a b c) = dot a (cross b c). Proof. mat3. Qed.
Lemma mtrans_of_rows a b c : mtrans (of_rows a b c) = of_cols a b c. Proof. mat3. Qed.
Lemma of_rows_rows A : of_rows (row1 A) (row2 A) (row3 A) = A. Proof. mat3. Qed.
Lemma of_cols_cols A : of_cols (col1 A) (col2 A) (col3 A) = A. Proof. mat3. Qed.
Lemma mtrans_AtA A :
  mmul (mtrans A) A =
  M3 (dot (col1 A) (col1 A)) (dot (col1 A) (col2 A)) (dot (col1 A) (col3 A))
     (dot (col2 A) (col1 A)) (dot (col2 A) (col2 A)) (dot (col2 A) (col3 A))
     (dot (col3 A) (col1 A)) (dot (col3 A) (col2 A)) (dot (col3 A) (col3 A)).
Proof. mat3. Qed.

(* a left inverse of a 3x3 matrix is a right inverse *)
Lemma left_inv_right_inv A B : mmul B A = mid -> mmul A B = mid.
Proof.
  intros H.
  assert (Hd : mdet B * mdet A = 1) by (rewrite <- det_mul, H; apply det_id).
  assert (HdA : mdet A <> 0) by (intros E; rewrite E in Hd; lra).
  (* B = B (A adj A) / det A = adj A / det A *)
  assert (HB : B = mscale (/ mdet A) (madj A)).
  { transitivity (mmul B (mscale (/ mdet A) (mmul A (madj A)))).
    - rewrite mmul_adj_r, mscale_scale, Rinv_l by exact HdA. rewrite mscale_1, mmul_id_r. reflexivity.
    - rewrite mscale_mmul_r, <- mmul_assoc, H, mmul_id_l. reflexivity. }
  rewrite HB, mscale_mmul_r, mmul_adj_r, mscale_scale, Rinv_l by exact HdA. apply mscale_1.
Qed.

Lemma orthogonal_trans A : orthogonal A -> orthogonal (mtrans A).
Proof. unfold orthogonal. intros H. rewrite mtrans_invol. apply left_inv_right_inv. exact H. Qed.

Lemma orthogonal_right A : orthogonal A -> mmul A (mtrans A) = mid.
Proof. intros H. apply left_inv_right_inv. exact H. Qed.

Lemma orthogonal_preserves_dot A u v : orthogonal A -> dot (mvec A u) (mvec A v) = dot u v.
Proof.
  intros H. rewrite mvec_trans_dot, <- mvec_mul. unfold orthogonal in H. rewrite H, mvec_id. reflexivity.
Qed.

Lemma orthogonal_preserves_norm2 A v : orthogonal A -> norm2 (mvec A v) = norm2 v.
Proof. intros H. apply orthogonal_preserves_dot. exact H. Qed.

Lemma orthogonal_preserves_norm A v : orthogonal A -> norm (mvec A v) = norm v.
Proof. intros H. unfold norm. rewrite orthogonal_preserves_norm2 by exact H. reflexivity. Qed.

Lemma orthogonal_det A : orthogonal A -> mdet A = 1 \/ mdet A = -1.
Proof.
  intros H. assert (Hd : mdet A * mdet A = 1).
  { rewrite <- (det_trans A) at 1. rewrite <- det_mul. unfold orthogonal in H. rewrite H. apply det_id. }
  destruct (Rle_dec 0 (mdet A)); [left | right]; nra.
Qed.

Lemma orthogonal_id : orthogonal mid.
Proof. unfold orthogonal. rewrite mtrans_id. apply mmul_id_l. Qed.

Lemma orthogonal_mul A B : orthogonal A -> orthogonal B -> orthogonal (mmul A B).
Proof.
  unfold orthogonal. intros HA HB.
  rewrite mtrans_mul, mmul_assoc, <- (mmul_assoc (mtrans A)), HA, mmul_id_l. exact HB.
Qed.

Lemma rotation_id : rotation mid.
Proof. split; [apply orthogonal_id | apply det_id]. Qed.

Lemma rotation_mul A B : rotation A -> rotation B -> rotation (mmul A B).
Proof.
  intros [HA DA] [HB DB]. split; [apply orthogonal_mul; assumption|].
  rewrite det_mul, DA, DB. ring.
Qed.

Lemma rotation_trans A : rotation A -> rotation (mtrans A).
Proof. intros [HA DA]. split; [apply orthogonal_trans; exact HA | rewrite det_trans; exact DA]. Qed.

Lemma rotation_roundtrip A v : rotation A -> mvec (mtrans A) (mvec A v) = v.
Proof. intros [HA _]. rewrite <- mvec_mul. unfold orthogonal in HA. rewrite HA. apply mvec_id. Qed.

Lemma rotation_roundtrip' A v : rotation A -> mvec A (mvec (mtrans A) v) = v.
Proof. intros [HA _]. rewrite <- mvec_mul, (orthogonal_right A HA). apply mvec_id. Qed.

Lemma orthogonal_of_rows a b c :
  norm2 a = 1 -> norm2 b = 1 -> norm2 c = 1 -> dot a b = 0 -> dot a c = 0 -> dot b c = 0 ->
  orthogonal (of_rows a b c).
Proof.
  intros Ha Hb Hc Hab Hac Hbc.
  rewrite <- (mtrans_invol (of_rows a b c)). apply orthogonal_trans.
  unfold orthogonal. rewrite mtrans_invol.
  destruct a as [a1 a2 a3], b as [b1 b2 b3], c as [c1 c2 c3].
  unfold norm2, dot in *. mat3_unfold.
  apply mat3_eq; cbn [m11 m12 m13 m21 m22 m23 m31 m32 m33]; lra.
Qed.

(* cofactor identity: for any A, (adj A)^T (u x v) = (A u) x (A v) *)
Lemma cross_mvec A u v : cross (mvec A u) (mvec A v) = mvec (mtrans (madj A)) (cross u v).
Proof. mat3. Qed.

Lemma rotation_adj A : rotation A -> mtrans (madj A) = A.
Proof.
  intros [HA DA].
  assert (H1 : mmul (mtrans A) A = mid) by exact HA.
  (* adj A = det A * A^-1 = A^T *)
  assert (E : madj A = mtrans A).
  { transitivity (mmul (mmul (mtrans A) A) (madj A)).
    - rewrite H1, mmul_id_l. reflexivity.
    - rewrite mmul_assoc, mmul_adj_r, DA, mscale_1, mmul_id_r. reflexivity. }
  rewrite E. apply mtrans_invol.
Qed.

Lemma rotation_preserves_cross A u v : rotation A -> mvec A (cross u v) = cross (mvec A u) (mvec A v).
Proof. intros H. rewrite cross_mvec, (rotation_adj A H). reflexivity. Qed.
