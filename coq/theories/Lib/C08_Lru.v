(* C08 - list model of functools.lru_cache(maxsize=cap).

   The table is a list, most recently used entry first.  A hit moves the stored entry (the *stored*
   key object and its value) to the front; a miss computes the value, puts it in front and drops
   the entries beyond `cap` (the least recently used ones).  `keq` is the key comparison the table
   uses (Python: __hash__/__eq__ of the argument tuple).

   lru_transparent : if the key comparison respects the memoised function (equal keys have equal
                     function values) then, for every capacity and every call sequence, every call
                     returns f k - the table is invisible.
   lru_size_le     : the table never holds more than `cap` entries. *)
From Coq Require Import List Bool Arith Lia.
Import ListNotations.

Section Lru.
  Variables K V : Type.
  Variable keq : K -> K -> bool.

  Definition lru : Type := list (K * V).

  (* find the first entry whose key compares equal; return it and the table with it moved to the front *)
  Fixpoint lru_take (k : K) (c : lru) : option ((K * V) * lru) :=
    match c with
    | [] => None
    | e :: t =>
      if keq k (fst e) then Some (e, t)
      else match lru_take k t with
           | Some (e', t') => Some (e', e :: t')
           | None => None
           end
    end.

  Definition lru_lookup (k : K) (c : lru) : option (V * lru) :=
    match lru_take k c with
    | Some (e, rest) => Some (snd e, e :: rest)
    | None => None
    end.

  Definition lru_insert (cap : nat) (k : K) (v : V) (c : lru) : lru := firstn cap ((k, v) :: c).

  Definition lru_call (cap : nat) (f : K -> V) (k : K) (c : lru) : V * lru :=
    match lru_lookup k c with
    | Some r => r
    | None => let v := f k in (v, lru_insert cap k v c)
    end.

  Fixpoint lru_run (cap : nat) (f : K -> V) (ks : list K) (c : lru) : list V * lru :=
    match ks with
    | [] => ([], c)
    | k :: r => let (v, c1) := lru_call cap f k c in
                let (vs, c2) := lru_run cap f r c1 in (v :: vs, c2)
    end.

  (* ---------------------------------------------------------------- facts *)
  Lemma lru_take_spec : forall k c e rest,
    lru_take k c = Some (e, rest) ->
    keq k (fst e) = true /\ In e c /\ (forall x, In x rest -> In x c) /\ length c = S (length rest).
  Proof.
    induction c as [|a t IH]; simpl; intros e rest H; [discriminate|].
    destruct (keq k (fst a)) eqn:E.
    - inversion H; subst. split; [exact E|]. split; [left; reflexivity|]. split; [intros x Hx; right; exact Hx|reflexivity].
    - destruct (lru_take k t) as [[e' t']|] eqn:T; [|discriminate].
      inversion H; subst. destruct (IH _ _ eq_refl) as (A & B & C & D).
      split; [exact A|]. split; [right; exact B|]. split.
      + intros x [Hx|Hx]; [left; exact Hx|right; apply C; exact Hx].
      + simpl. rewrite D. reflexivity.
  Qed.

  Lemma lru_take_none : forall k c, lru_take k c = None -> forall e, In e c -> keq k (fst e) = false.
  Proof.
    induction c as [|a t IH]; simpl; intros H e He; [contradiction|].
    destruct (keq k (fst a)) eqn:E; [discriminate|].
    destruct (lru_take k t) as [[e' t']|] eqn:T; [discriminate|].
    destruct He as [->|He]; auto.
  Qed.

  Lemma lru_lookup_spec : forall k c v c',
    lru_lookup k c = Some (v, c') ->
    (exists k', keq k k' = true /\ In (k', v) c) /\ (forall x, In x c' -> In x c) /\ length c' = length c.
  Proof.
    unfold lru_lookup. intros k c v c' H.
    destruct (lru_take k c) as [[e rest]|] eqn:T; [|discriminate].
    inversion H; subst. destruct (lru_take_spec _ _ _ _ T) as (A & B & C & D).
    split; [exists (fst e); split; auto; destruct e; exact B|].
    split; [intros x [<-|Hx]; auto|]. simpl. auto.
  Qed.

  Lemma firstn_incl_c08 : forall (A : Type) n (l : list A) x, In x (firstn n l) -> In x l.
  Proof.
    induction n as [|n IH]; intros l x H; simpl in H; [contradiction|].
    destruct l as [|a t]; simpl in H; [contradiction|].
    destruct H as [->|H]; [left; reflexivity|right; apply IH; exact H].
  Qed.

  Lemma lru_insert_in : forall cap k v c x, In x (lru_insert cap k v c) -> x = (k, v) \/ In x c.
  Proof.
    unfold lru_insert. intros cap k v c x H. apply firstn_incl_c08 in H. destruct H as [<-|H]; auto.
  Qed.

  Lemma lru_insert_len : forall cap k v c, length (lru_insert cap k v c) <= cap.
  Proof. unfold lru_insert. intros. apply firstn_le_length. Qed.

  (* validity of a table with respect to f *)
  Definition lru_ok (f : K -> V) (c : lru) : Prop := forall k v, In (k, v) c -> v = f k.
  Definition respects (f : K -> V) : Prop := forall k k', keq k k' = true -> f k = f k'.

  Lemma lru_call_ok : forall cap f k c,
    respects f -> lru_ok f c ->
    fst (lru_call cap f k c) = f k /\ lru_ok f (snd (lru_call cap f k c)).
  Proof.
    intros cap f k c R OK. unfold lru_call.
    destruct (lru_lookup k c) as [[v c']|] eqn:L.
    - destruct (lru_lookup_spec _ _ _ _ L) as ((k' & E & I) & S & _). simpl. split.
      + rewrite (OK _ _ I). symmetry. apply R. exact E.
      + intros a b Hab. apply OK. apply S. exact Hab.
    - simpl. split; [reflexivity|].
      intros a b Hab. apply lru_insert_in in Hab. destruct Hab as [Hab|Hab].
      + inversion Hab; subst. reflexivity.
      + apply OK. exact Hab.
  Qed.

  Lemma lru_call_len : forall cap f k c, length c <= cap -> length (snd (lru_call cap f k c)) <= cap.
  Proof.
    intros cap f k c H. unfold lru_call.
    destruct (lru_lookup k c) as [[v c']|] eqn:L.
    - destruct (lru_lookup_spec _ _ _ _ L) as (_ & _ & E). simpl. rewrite E. exact H.
    - simpl. apply lru_insert_len.
  Qed.

  Lemma lru_run_ok : forall cap f ks c,
    respects f -> lru_ok f c ->
    fst (lru_run cap f ks c) = map f ks /\ lru_ok f (snd (lru_run cap f ks c)).
  Proof.
    induction ks as [|k r IH]; intros c R OK; simpl; [split; auto|].
    destruct (lru_call_ok cap f k c R OK) as (A & B).
    destruct (lru_call cap f k c) as [v c1]. simpl in A, B.
    destruct (IH c1 R B) as (C & D).
    destruct (lru_run cap f r c1) as [vs c2]. simpl in *. subst. split; auto.
  Qed.

  Lemma lru_run_len : forall cap f ks c, length c <= cap -> length (snd (lru_run cap f ks c)) <= cap.
  Proof.
    induction ks as [|k r IH]; intros c H; simpl; [exact H|].
    pose proof (lru_call_len cap f k c H) as L.
    destruct (lru_call cap f k c) as [v c1]. simpl in L.
    specialize (IH c1 L). destruct (lru_run cap f r c1) as [vs c2]. simpl in *. exact IH.
  Qed.

  Theorem lru_transparent : forall cap f ks, respects f -> fst (lru_run cap f ks []) = map f ks.
  Proof. intros cap f ks R. apply (lru_run_ok cap f ks [] R). intros k v []. Qed.

  Theorem lru_size_le : forall cap f ks, length (snd (lru_run cap f ks [])) <= cap.
  Proof. intros. apply lru_run_len. simpl. lia. Qed.
End Lru.

Arguments lru_take {K V}.
Arguments lru_lookup {K V}.
Arguments lru_insert {K V}.
Arguments lru_call {K V}.
Arguments lru_run {K V}.
Arguments lru_ok {K V}.
Arguments respects {K V}.
