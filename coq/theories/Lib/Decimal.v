(* Lib/Decimal.v - decimal numerals of GNSS text files as EXACT rationals; Python float()/int() on the
   syntax that occurs there, printf/Fortran style rendering, and parse-after-render theorems.  No axioms.

   ===================================================================================== API SUMMARY
   (strings are Coq [string], see Lib/Text.v)

   Parsing
     parse_float       : string -> option Q     Python float(s) for s = blanks [+-] digits [. digits] [(e|E)[+-]digits] blanks
                                                (at least one digit in the mantissa; "1." and ".5" accepted).
     parse_float_D     : string -> option Q     the same, additionally accepting d/D as exponent letter
                                                (= float(s.replace("D","E").replace("d","e")) on this syntax)
     parse_float_with allowD                    the two above are parse_float_with false / true
     parse_int         : string -> option Z     Python int(s) for s = blanks [+-] digits blanks
     Result [Some q]: q is the exact value of the numeral (the double Python returns is the correctly rounded q:
       compare with Lib/Dyadic.is_nearest_double q d).  "-0.0" gives 0.
     Result [None]: the text is outside the modelled syntax (Python raises ValueError, or - for inf/nan/1_000 -
       returns something the model does not cover).
     scale10 m k       : Q                      m * 10^k  (k : Z); the value returned for mantissa m, exponent k.
                                                For k >= 0 it is (m * 10^k) # 1, for k < 0 it is m # 10^(-k)  (not reduced)
     dec_value m d     : Q := m # 10^d          the number with integer mantissa m and d decimals  (d : nat)
     pow10 d : positive, pow10_Z : Zpos (pow10 d) = 10 ^ Z.of_nat d

   Rendering   (m : Z is the integer mantissa, the number rendered is m / 10^d)
     render_nat v               "%d" % v   for v >= 0
     render_int w z             "%{w}d" % z
     render_F_raw d m           "%.{d}f"  of m/10^d   (no '.' when d = 0, as printf; sign '-' iff m < 0)
     render_F w d m             "%{w}.{d}f" = Fortran Fw.d when it fits (right-justified in w, longer if it does not fit)
     fits_F w d m : Prop        len (render_F_raw d m) <= w
     render_sci letter ki ke d m ex     [-] ki digits [. d digits] letter (+|-) ke digits, the number m * 10^(ex-d):
                                printf "%.{d}E": ki = 1, ke >= 2;  Fortran Dw.d / Ew.d: "0.ddddD+ee" is ki = 1 with
                                mantissa < 10^d, "-.ddddD+ee" is ki = 0.
     render_E w letter ki ke d m ex     the same right-justified in w

   Theorems
     parse_render_F    : parse_float (render_F w d m) = Some (dec_value m d)                 (all w d m)
     parse_render_F_D  : the same for parse_float_D;   parse_render_F_with for any allowD
     render_F_length   : fits_F w d m -> len (render_F w d m) = w
     parse_render_int  : parse_int (render_int w z) = Some z
     parse_render_E    : |m| < 10^(ki+d) -> 1 <= ki + d -> |ex| < 10^ke -> 1 <= ke -> letter is e/E (or d/D with allowD)
                         -> parse_float_with allowD (render_E w letter ki ke d m ex) = Some (scale10 m (ex - d))
     parse_float_strip : parse_float_with a (strip s) = parse_float_with a s   (so padding never matters)
     parse_float_pad   : all_space a -> all_space b -> trimmed s -> parse_float_with f (a ++ s ++ b) = parse_float_with f s
     scale10_Qeq       : scale10 m k == m * 10^k  as rationals;  dec_value_Qeq : dec_value m d == m / 10^d
     read_digits_fixed : the digit-reading lemma, for new formats
     render_F_raw_token, render_nat_token : the renderings are tokens (hence trimmed: Text.trimmed_token)
     parse_float_render_F_raw, parse_float_render_nat : parsing the unpadded renderings
     len_render_F_raw_le / fits_F_bound : |m| < 10^(k+d) -> k+d+2 <= w -> fits_F w d m;  len_render_nat_le, len_digits_fixed
   ================================================================================================== *)
From Coq Require Import Ascii String List Bool Arith ZArith QArith Lia.
From Verif Require Import Lib.Text.
Import ListNotations.
Local Open Scope string_scope.
Local Open Scope Z_scope.

(* ------------------------------------------------------------------------------------------ digits *)
Definition digit_val (c : ascii) : option Z :=
  match c with
  | "0" => Some 0 | "1" => Some 1 | "2" => Some 2 | "3" => Some 3 | "4" => Some 4
  | "5" => Some 5 | "6" => Some 6 | "7" => Some 7 | "8" => Some 8 | "9" => Some 9
  | _ => None
  end%char.
Definition digit_char (d : Z) : ascii :=
  match d with
  | 0 => "0" | 1 => "1" | 2 => "2" | 3 => "3" | 4 => "4" | 5 => "5" | 6 => "6" | 7 => "7" | 8 => "8" | _ => "9"
  end%char.
Arguments digit_val : simpl never.
Arguments digit_char : simpl never.
Local Arguments is_space : simpl never.
Local Arguments Ascii.eqb : simpl never.

Fixpoint read_digits (acc : Z) (n : nat) (s : string) : Z * nat * string :=
  match s with
  | "" => (acc, n, "")
  | String c r => match digit_val c with
                  | Some d => read_digits (acc * 10 + d) (S n) r
                  | None => (acc, n, s)
                  end
  end.

(* exactly k digits of v (v mod 10^k, zero padded) *)
Fixpoint digits_fixed (k : nat) (v : Z) : string :=
  match k with
  | O => ""
  | S k' => digits_fixed k' (v / 10) ++ String (digit_char (v mod 10)) ""
  end.

Fixpoint ndig_aux (fuel : nat) (v : Z) : nat :=
  match fuel with
  | O => 1
  | S f => if v <? 10 then 1%nat else S (ndig_aux f (v / 10))
  end.
Definition ndigits (v : Z) : nat := ndig_aux (Z.to_nat (Z.log2 v + 1)) v.
Definition render_nat (v : Z) : string := digits_fixed (ndigits v) v.

Fixpoint pow10 (d : nat) : positive :=
  match d with O => 1%positive | S d' => (10 * pow10 d')%positive end.
Definition dec_value (m : Z) (d : nat) : Q := Qmake m (pow10 d).
Definition scale10 (m k : Z) : Q :=
  if 0 <=? k then Qmake (m * 10 ^ k) 1 else Qmake m (pow10 (Z.to_nat (- k))).

(* ----------------------------------------------------------------------------------------- parsing *)
Definition sign_split (s : string) : bool * string :=
  match s with
  | String c r => if Ascii.eqb c "-" then (true, r) else if Ascii.eqb c "+" then (false, r) else (false, s)
  | "" => (false, "")
  end.

Definition is_exp_char (allowD : bool) (c : ascii) : bool :=
  Ascii.eqb c "e" || Ascii.eqb c "E" || (allowD && (Ascii.eqb c "d" || Ascii.eqb c "D")).

Definition parse_exponent (allowD : bool) (s : string) : option Z :=
  match s with
  | "" => Some 0
  | String c r =>
      if is_exp_char allowD c then
        let '(neg, r1) := sign_split r in
        let '(e, ne, r2) := read_digits 0 0 r1 in
        match ne, r2 with
        | S _, "" => Some (if neg then - e else e)
        | _, _ => None
        end
      else None
  end.

Definition parse_body (allowD : bool) (s1 : string) : option (Z * Z) :=
  let '(ip, ni, r1) := read_digits 0 0 s1 in
  let '(mant, nf, r2) :=
    match r1 with
    | String c r => if Ascii.eqb c "." then read_digits ip 0 r else (ip, O, r1)
    | "" => (ip, O, r1)
    end in
  if (ni + nf =? 0)%nat then None else
  match parse_exponent allowD r2 with
  | None => None
  | Some e => Some (mant, e - Z.of_nat nf)
  end.

Definition parse_float_with (allowD : bool) (s : string) : option Q :=
  let '(neg, s1) := sign_split (strip s) in
  match parse_body allowD s1 with
  | None => None
  | Some (mant, ex) => Some (scale10 (if neg then - mant else mant) ex)
  end.
Definition parse_float := parse_float_with false.
Definition parse_float_D := parse_float_with true.

Definition parse_int (s : string) : option Z :=
  let '(neg, s1) := sign_split (strip s) in
  let '(v, n, r) := read_digits 0 0 s1 in
  match n, r with
  | S _, "" => Some (if neg then - v else v)
  | _, _ => None
  end.

(* --------------------------------------------------------------------------------------- rendering *)
Definition sign_str (m : Z) : string := if m <? 0 then "-" else "".
Definition frac_str (d : nat) (a : Z) : string :=
  match d with O => "" | _ => String "." (digits_fixed d a) end.
Definition render_int (w : nat) (z : Z) : string := rjust w (sign_str z ++ render_nat (Z.abs z)).
Definition render_F_raw (d : nat) (m : Z) : string :=
  sign_str m ++ render_nat (Z.abs m / 10 ^ Z.of_nat d) ++ frac_str d (Z.abs m).
Definition render_F (w d : nat) (m : Z) : string := rjust w (render_F_raw d m).
Definition fits_F (w d : nat) (m : Z) : Prop := (len (render_F_raw d m) <= w)%nat.
Definition exp_str (letter : ascii) (ke : nat) (ex : Z) : string :=
  String letter ((if ex <? 0 then "-" else "+") ++ digits_fixed ke (Z.abs ex)).
Definition render_sci (letter : ascii) (ki ke d : nat) (m ex : Z) : string :=
  sign_str m ++ digits_fixed ki (Z.abs m / 10 ^ Z.of_nat d) ++ frac_str d (Z.abs m) ++ exp_str letter ke ex.
Definition render_E (w : nat) (letter : ascii) (ki ke d : nat) (m ex : Z) : string :=
  rjust w (render_sci letter ki ke d m ex).

(* ------------------------------------------------------------------------------------------ lemmas *)
Lemma pow10_Z d : Zpos (pow10 d) = 10 ^ Z.of_nat d.
Proof.
  induction d.
  - reflexivity.
  - rewrite Nat2Z.inj_succ, Z.pow_succ_r by lia. cbn [pow10]. rewrite Pos2Z.inj_mul, IHd. reflexivity.
Qed.

Lemma digit_cases d : 0 <= d < 10 ->
  d = 0 \/ d = 1 \/ d = 2 \/ d = 3 \/ d = 4 \/ d = 5 \/ d = 6 \/ d = 7 \/ d = 8 \/ d = 9.
Proof. lia. Qed.
Lemma digit_val_char d : 0 <= d < 10 -> digit_val (digit_char d) = Some d.
Proof. intros H. apply digit_cases in H. repeat (destruct H as [H|H]; [subst; reflexivity|]). subst; reflexivity. Qed.
Lemma digit_char_nonspace d : 0 <= d < 10 -> is_space (digit_char d) = false.
Proof. intros H. apply digit_cases in H. repeat (destruct H as [H|H]; [subst; reflexivity|]). subst; reflexivity. Qed.
Lemma digit_char_nosign d : 0 <= d < 10 ->
  Ascii.eqb (digit_char d) "-" = false /\ Ascii.eqb (digit_char d) "+" = false.
Proof. intros H. apply digit_cases in H. repeat (destruct H as [H|H]; [subst; split; reflexivity|]). subst; split; reflexivity. Qed.

Lemma mod10_range v : 0 <= v mod 10 < 10.
Proof. apply Z.mod_pos_bound. lia. Qed.

Lemma read_digits_fixed k : forall v acc n rest,
  read_digits acc n (digits_fixed k v ++ rest) =
  read_digits (acc * 10 ^ Z.of_nat k + v mod 10 ^ Z.of_nat k) (n + k) rest.
Proof.
  induction k as [|k IH]; intros v acc n rest.
  - simpl digits_fixed. simpl append. rewrite Z.pow_0_r, Z.mod_1_r, Nat.add_0_r. f_equal. lia.
  - cbn [digits_fixed]. rewrite Text.app_assoc. rewrite IH. simpl append.
    cbn [read_digits]. rewrite digit_val_char by apply mod10_range.
    f_equal; [|lia].
    rewrite Nat2Z.inj_succ, Z.pow_succ_r by lia.
    rewrite (Z.rem_mul_r v 10 (10 ^ Z.of_nat k)) by lia. ring.
Qed.

Lemma read_digits_stop acc n c r : digit_val c = None -> read_digits acc n (String c r) = (acc, n, String c r).
Proof. intros H. simpl. rewrite H. reflexivity. Qed.

Definition nonspace (s : string) : bool := all_by (fun c => negb (is_space c)) s.
Lemma nonspace_app a b : nonspace (a ++ b) = nonspace a && nonspace b.
Proof. apply all_by_app. Qed.
Lemma nonspace_digits k v : nonspace (digits_fixed k v) = true.
Proof.
  revert v; induction k; intros v; auto. cbn [digits_fixed]. rewrite nonspace_app, IHk.
  unfold nonspace; cbn [all_by andb]. rewrite digit_char_nonspace by apply mod10_range. reflexivity.
Qed.
Lemma nonspace_sign m : nonspace (sign_str m) = true.
Proof. unfold sign_str. destruct (m <? 0); reflexivity. Qed.
Lemma nonspace_frac d a : nonspace (frac_str d a) = true.
Proof. destruct d; auto. unfold frac_str. change (nonspace (String "." (digits_fixed (S d) a))) with (true && nonspace (digits_fixed (S d) a)). rewrite nonspace_digits. reflexivity. Qed.

Lemma ndig_aux_pos f v : (1 <= ndig_aux f v)%nat.
Proof. destruct f; simpl; [lia|]. destruct (v <? 10); lia. Qed.
Lemma ndig_aux_bound f : forall v, 0 <= v < 2 ^ Z.of_nat f -> v < 10 ^ Z.of_nat (ndig_aux f v).
Proof.
  induction f as [|f IH]; intros v H.
  - simpl in *. lia.
  - cbn [ndig_aux]. destruct (Z.ltb_spec v 10); [simpl; lia|].
    rewrite Nat2Z.inj_succ, Z.pow_succ_r in * by lia.
    assert (v / 10 < 10 ^ Z.of_nat (ndig_aux f (v / 10))).
    { apply IH. split; [apply Z.div_pos; lia|]. apply Z.div_lt_upper_bound; lia. }
    assert (v = 10 * (v / 10) + v mod 10) by (apply Z.div_mod; lia).
    pose proof (mod10_range v). lia.
Qed.
Lemma ndigits_pos v : (1 <= ndigits v)%nat.
Proof. apply ndig_aux_pos. Qed.
Lemma ndigits_bound v : 0 <= v -> v < 10 ^ Z.of_nat (ndigits v).
Proof.
  intros H. unfold ndigits. apply ndig_aux_bound. split; auto.
  destruct (Z.eq_dec v 0) as [->|Hn]; [simpl; lia|].
  rewrite Z2Nat.id by (pose proof (Z.log2_nonneg v); lia).
  apply Z.log2_spec. lia.
Qed.

(* first character of a numeral body *)
Definition head_ok (s : string) : Prop :=
  match s with
  | "" => False
  | String c _ => Ascii.eqb c "-" = false /\ Ascii.eqb c "+" = false
  end.
Lemma sign_split_head_ok s : head_ok s -> sign_split s = (false, s).
Proof. destruct s; simpl; [tauto|]. intros [-> ->]. reflexivity. Qed.
Lemma head_ok_app a b : head_ok a -> head_ok (a ++ b).
Proof. destruct a; simpl; [tauto|auto]. Qed.
Lemma head_ok_digits k v : (1 <= k)%nat -> head_ok (digits_fixed k v).
Proof.
  revert v; induction k as [|k IH]; intros v H; [lia|].
  cbn [digits_fixed]. destruct k.
  - simpl. apply digit_char_nosign, mod10_range.
  - apply head_ok_app, IH. lia.
Qed.
Lemma head_ok_body ki q d a t : (1 <= ki + d)%nat -> head_ok (digits_fixed ki q ++ frac_str d a ++ t).
Proof.
  intros H. destruct ki.
  - destruct d; [lia|]. simpl. split; reflexivity.
  - apply head_ok_app, head_ok_digits. lia.
Qed.

Lemma strip_rjust_token w s : s <> "" -> nonspace s = true -> strip (rjust w s) = s.
Proof.
  intros Hn H. apply strip_rjust, trimmed_token. destruct s; [congruence|exact H].
Qed.

(* tail after the mantissa: "" or an exponent part *)
Definition tail_ok (t : string) : Prop :=
  match t with
  | "" => True
  | String c _ => digit_val c = None /\ Ascii.eqb c "." = false
  end.

Lemma parse_body_spec allowD ki q d a t e :
  0 <= q < 10 ^ Z.of_nat ki -> (1 <= ki + d)%nat -> tail_ok t -> parse_exponent allowD t = Some e ->
  parse_body allowD (digits_fixed ki q ++ frac_str d a ++ t) =
  Some (q * 10 ^ Z.of_nat d + a mod 10 ^ Z.of_nat d, e - Z.of_nat d).
Proof.
  intros Hq Hk Ht He. unfold parse_body.
  rewrite read_digits_fixed. rewrite Z.mul_0_l, Z.add_0_l, Z.mod_small, Nat.add_0_l by lia.
  destruct d as [|d].
  - simpl frac_str. simpl append.
    assert (E : read_digits q ki t = (q, ki, t)).
    { destruct t as [|c r]; auto. apply read_digits_stop. apply Ht. }
    rewrite E.
    assert (E2 : match t with String c r => if Ascii.eqb c "." then read_digits q 0 r else (q, O, t) | "" => (q, O, t) end = (q, O, t)).
    { destruct t as [|c r]; auto. destruct Ht as [_ ->]. reflexivity. }
    rewrite E2. replace (ki + 0 =? 0)%nat with false by (symmetry; apply Nat.eqb_neq; lia).
    rewrite He. rewrite Z.pow_0_r, Z.mod_1_r. do 2 f_equal; lia.
  - change (frac_str (S d) a ++ t) with (String "." (digits_fixed (S d) a ++ t)).
    rewrite read_digits_stop by reflexivity.
    rewrite Ascii.eqb_refl. rewrite read_digits_fixed.
    assert (E : read_digits (q * 10 ^ Z.of_nat (S d) + a mod 10 ^ Z.of_nat (S d)) (0 + S d) t =
                (q * 10 ^ Z.of_nat (S d) + a mod 10 ^ Z.of_nat (S d), S d, t)).
    { destruct t as [|c r]; auto. apply read_digits_stop. apply Ht. }
    rewrite E. replace (ki + S d =? 0)%nat with false by (symmetry; apply Nat.eqb_neq; lia).
    rewrite He. reflexivity.
Qed.

Lemma parse_signed allowD w m body mant ex :
  parse_body allowD body = Some (mant, ex) -> head_ok body -> nonspace body = true ->
  parse_float_with allowD (rjust w (sign_str m ++ body)) =
  Some (scale10 (if m <? 0 then - mant else mant) ex).
Proof.
  intros Hb Hh Hn. unfold parse_float_with.
  rewrite strip_rjust_token.
  - unfold sign_str. destruct (m <? 0).
    + simpl. rewrite Hb. reflexivity.
    + simpl append. rewrite sign_split_head_ok by auto. rewrite Hb. reflexivity.
  - unfold sign_str. destruct (m <? 0); [discriminate|]. destruct body; [contradiction|discriminate].
  - rewrite nonspace_app, nonspace_sign, Hn. reflexivity.
Qed.

Lemma abs_split m d : Z.abs m / 10 ^ Z.of_nat d * 10 ^ Z.of_nat d + Z.abs m mod 10 ^ Z.of_nat d = Z.abs m.
Proof.
  assert (0 < 10 ^ Z.of_nat d) by (apply Z.pow_pos_nonneg; lia).
  rewrite (Z.div_mod (Z.abs m) (10 ^ Z.of_nat d)) at 3 by lia. ring.
Qed.
Lemma signed_abs m : (if m <? 0 then - Z.abs m else Z.abs m) = m.
Proof. destruct (Z.ltb_spec m 0); lia. Qed.

Lemma scale10_neg m d : scale10 m (0 - Z.of_nat d) = dec_value m d.
Proof.
  unfold scale10, dec_value. destruct d as [|d].
  - simpl. rewrite Z.mul_1_r. reflexivity.
  - destruct (Z.leb_spec 0 (0 - Z.of_nat (S d))); [lia|].
    replace (Z.to_nat (- (0 - Z.of_nat (S d)))) with (S d) by lia. reflexivity.
Qed.

Theorem parse_render_F_with allowD w d m :
  parse_float_with allowD (render_F w d m) = Some (dec_value m d).
Proof.
  unfold render_F, render_F_raw.
  set (a := Z.abs m). set (q := a / 10 ^ Z.of_nat d).
  assert (Hq0 : 0 <= q) by (apply Z.div_pos; [lia|apply Z.pow_pos_nonneg; lia]).
  replace (render_nat q ++ frac_str d a) with (digits_fixed (ndigits q) q ++ frac_str d a ++ "")
    by (rewrite Text.app_nil_r; reflexivity).
  erewrite parse_signed.
  - rewrite <- scale10_neg. f_equal. f_equal.
    instantiate (1 := a). apply signed_abs.
  - rewrite (parse_body_spec allowD (ndigits q) q d a "" 0).
    + f_equal. f_equal. apply abs_split.
    + split; auto. apply ndigits_bound; auto.
    + pose proof (ndigits_pos q). lia.
    + exact I.
    + reflexivity.
  - apply head_ok_body. pose proof (ndigits_pos q). lia.
  - rewrite !nonspace_app, nonspace_digits, nonspace_frac. reflexivity.
Qed.
Theorem parse_render_F w d m : parse_float (render_F w d m) = Some (dec_value m d).
Proof. apply parse_render_F_with. Qed.
Theorem parse_render_F_D w d m : parse_float_D (render_F w d m) = Some (dec_value m d).
Proof. apply parse_render_F_with. Qed.
Theorem render_F_length w d m : fits_F w d m -> len (render_F w d m) = w.
Proof. apply len_rjust. Qed.

(* exponent part *)
Lemma parse_exponent_spec allowD letter ke ex :
  is_exp_char allowD letter = true -> (1 <= ke)%nat -> Z.abs ex < 10 ^ Z.of_nat ke ->
  parse_exponent allowD (exp_str letter ke ex) = Some ex.
Proof.
  intros Hl Hk Hb. unfold exp_str, parse_exponent. rewrite Hl.
  assert (R : read_digits 0 0 (digits_fixed ke (Z.abs ex)) = (Z.abs ex, ke, "")).
  { rewrite <- (Text.app_nil_r (digits_fixed ke (Z.abs ex))), read_digits_fixed.
    rewrite Z.mod_small by lia. simpl. f_equal. }
  destruct (Z.ltb_spec ex 0).
  - change (sign_split ("-" ++ digits_fixed ke (Z.abs ex))) with (true, digits_fixed ke (Z.abs ex)).
    cbv iota beta. rewrite R. destruct ke; [lia|]. f_equal. lia.
  - change (sign_split ("+" ++ digits_fixed ke (Z.abs ex))) with (false, digits_fixed ke (Z.abs ex)).
    cbv iota beta. rewrite R. destruct ke; [lia|]. f_equal. lia.
Qed.
Lemma exp_char_not_digit allowD c : is_exp_char allowD c = true -> digit_val c = None /\ Ascii.eqb c "." = false.
Proof.
  unfold is_exp_char. intros H.
  repeat (apply orb_true_iff in H as [H|H]); try (apply andb_true_iff in H as [_ H]; apply orb_true_iff in H as [H|H]);
    apply Ascii.eqb_eq in H; subst; split; reflexivity.
Qed.
Lemma exp_char_nonspace allowD c : is_exp_char allowD c = true -> is_space c = false.
Proof.
  unfold is_exp_char. intros H.
  repeat (apply orb_true_iff in H as [H|H]); try (apply andb_true_iff in H as [_ H]; apply orb_true_iff in H as [H|H]);
    apply Ascii.eqb_eq in H; subst; reflexivity.
Qed.

Theorem parse_render_E allowD w letter ki ke d m ex :
  Z.abs m < 10 ^ Z.of_nat (ki + d) -> (1 <= ki + d)%nat ->
  Z.abs ex < 10 ^ Z.of_nat ke -> (1 <= ke)%nat -> is_exp_char allowD letter = true ->
  parse_float_with allowD (render_E w letter ki ke d m ex) = Some (scale10 m (ex - Z.of_nat d)).
Proof.
  intros Hm Hk He Hke Hl. unfold render_E, render_sci.
  set (a := Z.abs m). set (q := a / 10 ^ Z.of_nat d).
  assert (Hp : 0 < 10 ^ Z.of_nat d) by (apply Z.pow_pos_nonneg; lia).
  assert (Hq0 : 0 <= q) by (apply Z.div_pos; lia).
  erewrite parse_signed.
  - f_equal. f_equal. instantiate (1 := a). apply signed_abs.
  - rewrite (parse_body_spec allowD ki q d a (exp_str letter ke ex) ex); auto.
    + f_equal. f_equal. apply abs_split.
    + split; auto. apply Z.div_lt_upper_bound; auto.
      rewrite Nat2Z.inj_add, Z.pow_add_r, Z.mul_comm in Hm by lia. exact Hm.
    + simpl. apply (exp_char_not_digit allowD); auto.
    + apply parse_exponent_spec; auto.
  - apply head_ok_body; auto.
  - rewrite !nonspace_app, nonspace_digits, nonspace_frac. unfold exp_str.
    change (nonspace (String letter ?s)) with (negb (is_space letter) && nonspace s).
    rewrite (exp_char_nonspace allowD) by auto. rewrite nonspace_app, nonspace_digits.
    destruct (ex <? 0); reflexivity.
Qed.

(* integers *)
Theorem parse_render_int w z : parse_int (render_int w z) = Some z.
Proof.
  unfold render_int, parse_int. set (a := Z.abs z).
  assert (Ha : 0 <= a) by (unfold a; lia).
  assert (R : read_digits 0 0 (render_nat a) = (a, ndigits a, "")).
  { unfold render_nat. rewrite <- (Text.app_nil_r (digits_fixed (ndigits a) a)), read_digits_fixed.
    rewrite Z.mod_small by (split; auto; apply ndigits_bound; auto). simpl. f_equal. }
  assert (Hh : head_ok (render_nat a)) by (apply head_ok_digits, ndigits_pos).
  assert (Hn : nonspace (render_nat a) = true) by apply nonspace_digits.
  rewrite strip_rjust_token.
  - unfold sign_str. destruct (Z.ltb_spec z 0).
    + simpl. rewrite R. pose proof (ndigits_pos a). destruct (ndigits a); [lia|]. f_equal. lia.
    + simpl append. rewrite sign_split_head_ok by auto. rewrite R.
      pose proof (ndigits_pos a). destruct (ndigits a); [lia|]. f_equal. lia.
  - unfold sign_str. destruct (z <? 0); [discriminate|]. destruct (render_nat a); [contradiction|discriminate].
  - rewrite nonspace_app, nonspace_sign, Hn. reflexivity.
Qed.

(* padding never matters *)
Lemma parse_float_strip allowD s : parse_float_with allowD (strip s) = parse_float_with allowD s.
Proof. unfold parse_float_with. rewrite strip_idem. reflexivity. Qed.
Lemma parse_int_strip s : parse_int (strip s) = parse_int s.
Proof. unfold parse_int. rewrite strip_idem. reflexivity. Qed.
Lemma parse_float_pad allowD a s b :
  all_space a = true -> all_space b = true -> trimmed s = true ->
  parse_float_with allowD (a ++ s ++ b) = parse_float_with allowD s.
Proof.
  intros Ha Hb Ht. unfold parse_float_with. rewrite strip_pad by auto. rewrite strip_trimmed by auto. reflexivity.
Qed.

(* values as rationals *)
Lemma dec_value_Qeq m d : (dec_value m d == inject_Z m / inject_Z (10 ^ Z.of_nat d))%Q.
Proof.
  unfold dec_value. rewrite <- pow10_Z. unfold Qeq, Qdiv, Qinv, Qmult, inject_Z. simpl. lia.
Qed.
Lemma scale10_Qeq_pos m k : 0 <= k -> (scale10 m k == inject_Z (m * 10 ^ k))%Q.
Proof. intros H. unfold scale10. destruct (Z.leb_spec 0 k); [reflexivity|lia]. Qed.
Lemma scale10_Qeq_neg m k : k < 0 -> (scale10 m k == inject_Z m / inject_Z (10 ^ (- k)))%Q.
Proof.
  intros H. unfold scale10. destruct (Z.leb_spec 0 k); [lia|].
  replace (10 ^ (- k)) with (10 ^ Z.of_nat (Z.to_nat (- k))) by (f_equal; lia).
  apply dec_value_Qeq.
Qed.

(* ------------------------------------------------------------- lengths and tokens of renderings *)
Lemma len_digits_fixed k v : len (digits_fixed k v) = k.
Proof. revert v; induction k; intros v; auto. cbn [digits_fixed]. rewrite len_app, IHk. simpl. lia. Qed.
Lemma ndig_aux_le f : forall v k, (1 <= k)%nat -> 0 <= v < 10 ^ Z.of_nat k -> (ndig_aux f v <= k)%nat.
Proof.
  induction f as [|f IH]; intros v k Hk Hv; [simpl; lia|].
  cbn [ndig_aux]. destruct (Z.ltb_spec v 10); [lia|].
  destruct k as [|k]; [lia|]. destruct k as [|k].
  - simpl in Hv. lia.
  - apply le_n_S. apply IH; [lia|].
    rewrite Nat2Z.inj_succ, Z.pow_succ_r in Hv by lia.
    split; [apply Z.div_pos; lia|]. apply Z.div_lt_upper_bound; lia.
Qed.
Lemma ndigits_le v k : (1 <= k)%nat -> 0 <= v < 10 ^ Z.of_nat k -> (ndigits v <= k)%nat.
Proof. apply ndig_aux_le. Qed.
Lemma len_render_nat v : len (render_nat v) = ndigits v.
Proof. apply len_digits_fixed. Qed.
Lemma len_render_nat_le v k : (1 <= k)%nat -> 0 <= v < 10 ^ Z.of_nat k -> (len (render_nat v) <= k)%nat.
Proof. intros. rewrite len_render_nat. apply ndigits_le; auto. Qed.
Lemma len_frac_str d a : (len (frac_str d a) <= d + 1)%nat.
Proof. destruct d; simpl; [lia|]. change (S (len (digits_fixed (S d) a)) <= S d + 1)%nat. rewrite len_digits_fixed. lia. Qed.
(* |m| < 10^(k+d): the F rendering needs at most k digits, the point, d decimals and a sign *)
Lemma len_render_F_raw_le d m k :
  (1 <= k)%nat -> Z.abs m < 10 ^ Z.of_nat (k + d) -> (len (render_F_raw d m) <= k + d + 2)%nat.
Proof.
  intros Hk Hm. unfold render_F_raw. rewrite !len_app.
  assert (Hp : 0 < 10 ^ Z.of_nat d) by (apply Z.pow_pos_nonneg; lia).
  assert (len (render_nat (Z.abs m / 10 ^ Z.of_nat d)) <= k)%nat.
  { apply len_render_nat_le; auto. split; [apply Z.div_pos; lia|].
    apply Z.div_lt_upper_bound; auto. rewrite Nat2Z.inj_add, Z.pow_add_r, Z.mul_comm in Hm by lia. exact Hm. }
  pose proof (len_frac_str d (Z.abs m)).
  assert (len (sign_str m) <= 1)%nat by (unfold sign_str; destruct (m <? 0); simpl; lia).
  lia.
Qed.
Lemma fits_F_bound w d m k :
  (1 <= k)%nat -> Z.abs m < 10 ^ Z.of_nat (k + d) -> (k + d + 2 <= w)%nat -> fits_F w d m.
Proof. intros. unfold fits_F. pose proof (len_render_F_raw_le d m k). lia. Qed.

Lemma nonspace_token s : s <> "" -> nonspace s = true -> is_token s = true.
Proof. destruct s; [congruence|]. intros _ H. exact H. Qed.
Lemma render_nat_nonempty v : render_nat v <> "".
Proof.
  intros E. pose proof (len_render_nat v) as L. rewrite E in L. pose proof (ndigits_pos v). simpl in L. lia.
Qed.
Lemma render_nat_token v : is_token (render_nat v) = true.
Proof. apply nonspace_token; [apply render_nat_nonempty|apply nonspace_digits]. Qed.
Lemma render_F_raw_token d m : is_token (render_F_raw d m) = true.
Proof.
  apply nonspace_token.
  - intros E. assert (L : len (render_F_raw d m) = 0%nat) by (rewrite E; reflexivity).
    unfold render_F_raw in L. rewrite !len_app, len_render_nat in L.
    pose proof (ndigits_pos (Z.abs m / 10 ^ Z.of_nat d)). lia.
  - unfold render_F_raw. rewrite !nonspace_app, nonspace_sign, nonspace_frac. unfold render_nat. rewrite nonspace_digits. reflexivity.
Qed.
Lemma render_F_0 d m : render_F 0 d m = render_F_raw d m.
Proof. reflexivity. Qed.
Lemma parse_float_render_F_raw allowD d m : parse_float_with allowD (render_F_raw d m) = Some (dec_value m d).
Proof. rewrite <- render_F_0. apply parse_render_F_with. Qed.
Lemma render_F_raw_0_nat v : 0 <= v -> render_F_raw 0 v = render_nat v.
Proof.
  intros H. unfold render_F_raw, sign_str. destruct (Z.ltb_spec v 0); [lia|].
  rewrite Z.abs_eq, Z.pow_0_r, Z.div_1_r by lia. simpl. apply Text.app_nil_r.
Qed.
Lemma parse_float_render_nat allowD v : 0 <= v -> parse_float_with allowD (render_nat v) = Some (v # 1)%Q.
Proof. intros H. rewrite <- render_F_raw_0_nat by auto. apply parse_float_render_F_raw. Qed.

Lemma ndigits_exact v k : (1 <= k)%nat -> 10 ^ (Z.of_nat k - 1) <= v < 10 ^ Z.of_nat k -> ndigits v = k.
Proof.
  intros Hk [Hlo Hhi].
  assert (H0 : 0 <= v) by (pose proof (Z.pow_nonneg 10 (Z.of_nat k - 1)); lia).
  pose proof (ndigits_le v k Hk (conj H0 Hhi)) as Hle.
  pose proof (ndigits_bound v H0) as Hb. pose proof (ndigits_pos v) as Hp.
  destruct (Nat.eq_dec (ndigits v) k) as [|Hne]; auto. exfalso.
  assert (10 ^ Z.of_nat (ndigits v) <= 10 ^ (Z.of_nat k - 1)) by (apply Z.pow_le_mono_r; lia).
  lia.
Qed.
Lemma strip_digits_fixed k v : (1 <= k)%nat -> strip (digits_fixed k v) = digits_fixed k v.
Proof.
  intros Hk. apply strip_trimmed, trimmed_token, nonspace_token; [|apply nonspace_digits].
  intros E. pose proof (len_digits_fixed k v) as L. rewrite E in L. simpl in L. lia.
Qed.
Lemma parse_int_digits_fixed k v : (1 <= k)%nat -> parse_int (digits_fixed k v) = Some (v mod 10 ^ Z.of_nat k).
Proof.
  intros Hk. unfold parse_int. rewrite strip_digits_fixed by auto.
  rewrite sign_split_head_ok by (apply head_ok_digits; auto).
  rewrite <- (Text.app_nil_r (digits_fixed k v)), read_digits_fixed. simpl.
  destruct k; [lia|]. reflexivity.
Qed.
Lemma parse_int_render_nat v : 0 <= v -> parse_int (render_nat v) = Some v.
Proof.
  intros H. unfold render_nat. rewrite parse_int_digits_fixed by apply ndigits_pos.
  rewrite Z.mod_small; auto. split; auto. apply ndigits_bound; auto.
Qed.
